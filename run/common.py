"""Shared machinery of the checks: Coq build, hygiene, assumption audit, harness
build/run, evaluation of the executable model inside Coq (vm_compute), evidence."""
import json, os, re, struct, subprocess, sys, time, hashlib, shutil
from fractions import Fraction
from concurrent.futures import ThreadPoolExecutor
from fractions import Fraction as _F

ROOT = "/verif"
COQ = f"{ROOT}/coq"
HARNESS = f"{ROOT}/harness"
REPO = "/repo"
VH = f"{HARNESS}/target/release/vh"
CASES = f"{COQ}/Cases"
REPLAY = f"{ROOT}/replay"

AXIOM_ALLOW = {
    "ClassicalDedekindReals.sig_forall_dec",
    "ClassicalDedekindReals.sig_not_dec",
    "FunctionalExtensionality.functional_extensionality_dep",
    "Classical_Prop.classic",
}

TRUSTED_BASE = [
    "Coq 8.16.1 kernel (coqc; coqchk in the thorough tier); vm_compute for model evaluation and Interval reflection; no native_compute",
    "axioms (stdlib only, as printed by Print Assumptions): see coverage.axioms",
    "translator run/rs2v.py (Rust subset -> Gallina) for the generated kernels in coq/Gen",
    "correspondence harness /verif/harness (Rust) and runner /verif/run (Python); recorded oracle answers",
    "modelled, not verified: IEEE-754 rounding (R / exact Q instead of f64), nalgebra, parry3d, rayon, rand, yaml-rust2, sxd-document, regex, slice::sort_by (as a stable sort), rustc",
    "Q and R instances of a glue model are the same polymorphic Gallina term over the Num class (no transfer lemma)",
]


class Broken(Exception):
    """A proof obligation, translation or correspondence no longer checks."""
    def __init__(self, what, detail=""):
        super().__init__(what)
        self.what, self.detail = what, detail


def sh(cmd, timeout=1800, cwd=None, env=None, check=False):
    e = dict(os.environ)
    e["CARGO_NET_OFFLINE"] = "true"
    if env:
        e.update(env)
    p = subprocess.run(cmd, shell=isinstance(cmd, str), cwd=cwd, env=e, timeout=timeout,
                       stdout=subprocess.PIPE, stderr=subprocess.STDOUT, text=True)
    if check and p.returncode != 0:
        raise RuntimeError(f"command failed: {cmd}\n{p.stdout[-4000:]}")
    return p.returncode, p.stdout


# ---------------------------------------------------------------- numbers
def f64(h):
    return struct.unpack(">d", bytes.fromhex(h))[0]


def frac(h):
    x = f64(h)
    if x != x or x in (float("inf"), float("-inf")):
        raise ValueError("non-finite")
    return Fraction(x)


def hexf(x):
    return struct.pack(">d", float(x)).hex()


def qlit(fr):
    fr = Fraction(fr)
    return f"({fr.numerator} # {fr.denominator})"


def qlist(frs):
    return "[" + "; ".join(qlit(f) for f in frs) + "]"


def zlist(zs):
    return "[" + "; ".join(f"({int(z)})" for z in zs) + "]%Z"


# ---------------------------------------------------------------- Coq build
def coq_makefile():
    if not os.path.exists(f"{COQ}/Makefile") or os.path.getmtime(f"{COQ}/Makefile") < os.path.getmtime(f"{COQ}/_CoqProject"):
        sh("coq_makefile -f _CoqProject -o Makefile", cwd=COQ, check=True)


def coq_make(targets, timeout=3000):
    """make the given .vo targets (full .vo build; never -vos). Returns (ok, log)."""
    coq_makefile()
    os.makedirs(CASES, exist_ok=True)
    rc, out = sh(["make", "-j16"] + list(targets), cwd=COQ, timeout=timeout)
    return rc == 0, out


HYGIENE_RE = re.compile(r"\b(Admitted|admit|Axiom|Axioms|Parameter|Parameters|Conjecture|Hypothesis|Variable|"
                        r"Unset Guard Checking|bypass_check|Admit Obligations|type-in-type|impredicative-set|"
                        r"Unset Positivity Checking|Unset Universe Checking|native_compute)\b")


def strip_comments(src):
    out, depth, i = [], 0, 0
    while i < len(src):
        if src.startswith("(*", i):
            depth += 1; i += 2
        elif src.startswith("*)", i) and depth > 0:
            depth -= 1; i += 2
        else:
            if depth == 0:
                out.append(src[i])
            i += 1
    return "".join(out)


def hygiene():
    """No Admitted/admit/Axiom/Parameter...; Variable/Hypothesis only inside a Section."""
    bad = []
    for d, _, fs in os.walk(COQ):
        if d.endswith("/Cases"):
            continue
        for f in fs:
            if not f.endswith(".v"):
                continue
            p = os.path.join(d, f)
            src = strip_comments(open(p).read())
            depth = 0
            for ln, line in enumerate(src.split("\n"), 1):
                s = line.strip()
                if re.match(r"^(Section|Module)\b", s):
                    depth += 1
                if re.match(r"^End\b", s):
                    depth -= 1
                for m in HYGIENE_RE.finditer(line):
                    w = m.group(1)
                    if w in ("Variable", "Hypothesis") and depth > 0:
                        continue
                    bad.append(f"{p}:{ln}: {w}")
    for fl in ("_CoqProject",):
        t = open(f"{COQ}/{fl}").read()
        if "type-in-type" in t or "impredicative" in t:
            bad.append(f"{fl}: forbidden flag")
    return bad


def assumptions(prop, theorems):
    """Print Assumptions of every property theorem, re-run on every check."""
    os.makedirs(CASES, exist_ok=True)
    src = f"From VF Require Import Properties.{prop}.\n"
    for t in theorems:
        src += f'Print Assumptions {t}.\n'
    p = f"{CASES}/assum_{prop}.v"
    open(p, "w").write(src)
    rc, out = sh(["coqc", "-noglob", "-Q", COQ, "VF", p], timeout=600)
    if rc != 0:
        raise Broken(f"assumptions:{prop}", out[-2000:])
    axioms = set(re.findall(r"^([A-Za-z_][\w.]*)\s*$", out, re.M)) | set(re.findall(r"^([A-Za-z_][\w.]*)\s*\n?\s+:", out, re.M))
    axioms = {a for a in axioms if a not in ("Axioms", "Closed")}
    closed = out.count("Closed under the global context")
    extra = sorted(a for a in axioms if a not in AXIOM_ALLOW)
    return sorted(axioms), extra, closed


# ---------------------------------------------------------------- harness
def build_harness(features=("verif_hooks",)):
    """Rebuild the harness against /repo's CURRENT working tree (cargo tracks the path dependency)."""
    if not os.path.exists(f"{HARNESS}/Cargo.lock"):
        shutil.copy(f"{REPO}/Cargo.lock", f"{HARNESS}/Cargo.lock")
    rc, out = sh(["cargo", "build", "--release", "--offline"], cwd=HARNESS, timeout=3000)
    if rc != 0:
        raise Broken("harness-build", out[-6000:])
    return out


def run_harness(args, timeout=3000):
    p = subprocess.run([VH] + [str(a) for a in args], stdout=subprocess.PIPE, stderr=subprocess.PIPE, text=True, timeout=timeout)
    recs = []
    for line in p.stdout.split("\n"):
        line = line.strip()
        if line.startswith("{"):
            r = json.loads(line)
            r["_args"] = [str(a) for a in args]          # `vh replay` regenerates the case from these
            recs.append(r)
    if p.returncode != 0:
        recs.append({"prop": args[0], "direct": "fail", "class": "harness.crash", "stderr": p.stderr[-2000:], "rc": p.returncode})
    return recs


# ---------------------------------------------------------------- model evaluation in Coq
def _coq_eval_one(job):
    idx, name, imports, exprs, ty = job
    p = f"{CASES}/{name}_{idx}.v"
    src = "From Coq Require Import ZArith QArith List String.\nImport ListNotations.\n" + imports + "\n"
    src += f"Definition cases : list ({ty}) := [\n" + ";\n".join(exprs) + "\n].\n"
    src += "Set Printing Depth 100000000.\nSet Printing Width 200.\nEval vm_compute in cases.\n"
    open(p, "w").write(src)
    rc, out = sh(["coqc", "-noglob", "-Q", COQ, "VF", p], timeout=3000)
    for ext in (".vo", ".vok", ".vos"):
        try:
            os.remove(p[:-2] + ext)
        except OSError:
            pass
    if rc != 0:
        raise Broken(f"model-eval:{name}", out[-3000:])
    m = re.search(r"=\s*(\[.*\])\s*:\s*list", out, re.S)
    if not m:
        raise Broken(f"model-eval-parse:{name}", out[-2000:])
    txt = re.sub(r"%[A-Za-z]+", "", m.group(1))
    txt = re.sub(r"[\s()]+", "", txt).replace(";", ",")
    vals = json.loads(txt)
    if len(vals) != len(exprs):
        raise Broken(f"model-eval-count:{name}", f"{len(vals)} vs {len(exprs)}")
    return idx, vals


def coq_eval(name, imports, exprs, ty="list Z", shard=250):
    """Evaluate Gallina expressions (each of type `ty`, built from Z and lists) with vm_compute,
    sharded over parallel coqc processes.  Returns python lists."""
    os.makedirs(CASES, exist_ok=True)
    if not exprs:
        return []
    jobs = [(i, name, imports, exprs[i * shard:(i + 1) * shard], ty) for i in range((len(exprs) + shard - 1) // shard)]
    res = {}
    with ThreadPoolExecutor(max_workers=16) as ex:
        for idx, vals in ex.map(_coq_eval_one, jobs):
            res[idx] = vals
    out = []
    for i in range(len(jobs)):
        out.extend(res[i])
    for j in jobs:
        try:
            os.remove(f"{CASES}/{name}_{j[0]}.v")
        except OSError:
            pass
    return out


def unq(zs, i):
    """read a [num; den] pair at offset i"""
    return Fraction(zs[i], zs[i + 1])


def close(a, b, tol=1e-9):
    return abs(float(a) - float(b)) <= tol * max(1.0, abs(float(a)), abs(float(b)))


# ---------------------------------------------------------------- certified spot checks (Interval)
def rlit(fr):
    fr = Fraction(fr)
    if fr.denominator == 1:
        return f"({fr.numerator})"
    return f"({fr.numerator}/{fr.denominator})"


SPOT_PRELUDE = """From Coq Require Import Reals Lra List.
From Interval Require Import Tactic.
From VF Require Import Base.Lin Base.Angles.
Open Scope R_scope.
Ltac a2 := repeat first [ rewrite atan2_pos by lra | rewrite atan2_neg_nonneg by lra | rewrite atan2_neg_neg by lra
  | rewrite atan2_zero_pos by lra | rewrite atan2_zero_neg by lra | rewrite atan2_zero_zero by lra ].
"""


def _spot_one(job):
    idx, name, src, ngoals = job
    p = f"{CASES}/{name}_{idx}.v"
    open(p, "w").write(src)
    rc, out = sh(["coqc", "-noglob", "-Q", COQ, "VF", p], timeout=1800)
    for ext in (".v", ".vo", ".vok", ".vos"):
        try:
            os.remove(p[:-2] + ext)
        except OSError:
            pass
    if rc == 0:
        return idx, None
    m = re.search(r'line (\d+)', out)
    return idx, {"line": int(m.group(1)) if m else -1, "log": out[-1500:]}


def coq_spot(name, files):
    """files: list of (source text, number of goals).  Returns list of (index, failure|None)."""
    os.makedirs(CASES, exist_ok=True)
    jobs = [(i, name, src, n) for i, (src, n) in enumerate(files)]
    with ThreadPoolExecutor(max_workers=16) as ex:
        return list(ex.map(_spot_one, jobs))


def params_lit(P):
    """Gallina literal of type Params from a harness params object (exact rationals)."""
    g = [rlit(frac(h)) for h in P["geom"]]
    off = [rlit(frac(h)) for h in P["off"]]
    sg = [f"({s})%Z" for s in P["sg"]]
    return "mkParams " + " ".join(g + off + sg) + f" ({P['dof']})%Z"


PROJ = ("rot tr m00 m01 m02 m10 m11 m12 m20 m21 m22 vx vy vz p_a1 p_a2 p_b p_c1 p_c2 p_c3 p_c4 "
        "p_off1 p_off2 p_off3 p_off4 p_off5 p_off6 p_sg1 p_sg2 p_sg3 p_sg4 p_sg5 p_sg6 p_dof j1 j2 j3 j4 j5 j6 List.nth")
ISO_FIELDS = ["m00 (rot", "m01 (rot", "m02 (rot", "m10 (rot", "m11 (rot", "m12 (rot", "m20 (rot", "m21 (rot", "m22 (rot",
              "vx (tr", "vy (tr", "vz (tr"]
