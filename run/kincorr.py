"""Correspondence of the kinematics glue model (Model/Kin.v, executed at Q) with
kinematics_impl.rs, shared by C01, C04, C05, C06, C08."""
import collections, math
from fractions import Fraction
import common as C

IMPORTS = "From VF Require Import Exec.Kin."
THR = Fraction(0.01 * math.pi / 180.0)


def ql(hs):
    return C.qlist([C.frac(h) for h in hs])


def qll(hss):
    return "[" + "; ".join(ql(hs) for hs in hss) + "]"


def cons_lit(c):
    if c is None:
        return "None"
    return f"(Some ({ql(c['from'])}, {ql(c['to'])}, {C.qlit(C.frac(c['w']))}))"


def entry_expr(r, dthr=0, dlim=0):
    P = r["robot"]["params"]
    sg = C.qlist([Fraction(s) for s in P["sg"]])
    off = ql(P["off"])
    kern = "[" + "; ".join(qll(k) for k in r.get("kernel", [])) + "]"
    kern5 = qll(r.get("kernel5", []))
    cands = "[" + "; ".join(f"({ql(c['c'])}, {'true' if c['ok'] else 'false'})" for c in r["cands"]) + "]"
    return (f"run_entry {C.qlit(THR)} {C.qlit(Fraction(dthr))} {C.qlit(Fraction(dlim))} {sg} {off} ({P['dof']})%Z {cons_lit(r['robot']['cons'])} "
            f"({r['entry']})%Z {'true' if r['sentinel'] else 'false'} {ql(r['prev'])} {C.qlit(C.frac(r['j6']))} {C.qlit(C.frac(r['j6used']))} "
            f"{kern} {kern5} {cands}")


def fn_expr(r, dthr=0):
    a = [C.frac(h) for h in r["args"]]
    f = r["fn"]
    if f == "normalize_near":
        return f"run_normalize_near {C.qlit(a[0])} {C.qlit(a[1])}"
    if f == "is_close_to_multiple_of_pi":
        return f"run_close_pi {C.qlit(a[0])} {C.qlit(a[1] + Fraction(dthr))}"
    if f == "are_angles_close":
        return f"run_angles_close {C.qlit(THR + Fraction(dthr))} {C.qlit(a[0])} {C.qlit(a[1])}"
    if f == "calculate_distance":
        return f"run_distance {C.qlist(a[:6])} {C.qlist(a[6:])}"
    if f == "kinematic_singularity":
        P = r["robot"]["params"]
        return f"run_singular {C.qlit(THR)} {C.qlit(Fraction(dthr))} {C.qlist([Fraction(s) for s in P['sg']])} {ql(P['off'])} {C.qlist(a)}"
    if f == "sort_by_closeness":
        return f"run_sort {cons_lit(r['robot']['cons'])} false {C.qlist(a)} {qll(r['sols'])}"
    raise KeyError(f)


def py_centers(c):
    out = []
    for h1, h2 in zip(c["from"], c["to"]):
        a, b = C.f64(h1), C.f64(h2)
        if a == b:
            out.append(a)
        elif a < b:
            out.append((a + b) / 2)
        else:
            while b < a:
                b += 2 * math.pi
            out.append((a + b) / 2)
    return out


def py_cost(cons, previous, a):
    """the documented sorting cost (f64), used only to decide whether two orders are both sorted"""
    d = lambda x, y: sum(abs(p - q) for p, q in zip(x, y))
    w = C.f64(cons["w"]) if cons else 0.0
    if w == 0.0:
        return d(a, previous)
    cen = py_centers(cons)
    prev_d = 0.0 if w == 1.0 else d(a, previous)
    return prev_d * (1 - w) + d(a, cen) * w


def sorted_within(cons, previous, sols, tol=1e-9):
    cs = [py_cost(cons, previous, s) for s in sols]
    return all(cs[i] <= cs[i + 1] + tol for i in range(len(cs) - 1))


def decode_sols(zs):
    n = zs[0]
    out = []
    i = 1
    for _ in range(n):
        out.append([C.unq(zs, i + 2 * k) for k in range(6)])
        i += 12
    return out


def sols_equal(model, impl, tol=1e-9):
    if len(model) != len(impl):
        return False
    return all(all(abs(float(a) - b) <= tol for a, b in zip(m, s)) for m, s in zip(model, impl))


def same_multiset(model, impl, tol=1e-9):
    if len(model) != len(impl):
        return False
    used = [False] * len(impl)
    for m in model:
        hit = False
        for i, s in enumerate(impl):
            if not used[i] and all(abs(float(a) - b) <= tol for a, b in zip(m, s)):
                used[i] = True
                hit = True
                break
        if not hit:
            return False
    return True


def pi_tie(model, impl, r):
    """same answers modulo 2pi, differing only in coordinates at distance pi from previous"""
    if len(model) != len(impl):
        return False
    prev = [C.f64(h) for h in r["prev"]]
    if r["sentinel"]:
        return False
    used = [False] * len(impl)
    tie = False
    for m in model:
        hit = False
        for i, s in enumerate(impl):
            if used[i]:
                continue
            ok = True
            for k in range(6):
                d = float(m[k]) - s[k]
                if abs(d) <= 1e-9:
                    continue
                if abs(abs(d) - 2 * math.pi) <= 1e-9 and abs(abs(s[k] - prev[k]) - math.pi) <= 1e-6:
                    tie = True
                    continue
                ok = False
                break
            if ok:
                used[i] = True
                hit = True
                break
        if not hit:
            return False
    return tie


def compare_fn(r, zs):
    f = r["fn"]
    if f == "sort_by_closeness":
        model = decode_sols(zs)
        impl = [[C.f64(h) for h in s_] for s_ in r["out"]]
        if sols_equal(model, impl):
            return True
        # a different order is the same answer only when both are sorted (equal costs within rounding)
        return same_multiset(model, impl) and sorted_within(r["robot"]["cons"], [C.f64(h) for h in r["args"]], impl)
    if f in ("normalize_near", "calculate_distance"):
        return C.close(C.unq(zs, 0), C.f64(r["out"]), 1e-9)
    return (zs[0] == 1) == bool(r["out"])


def run(tier, seed, n=None, want=None):
    """Returns the standard result dict.  `want(r)` selects records relevant to a property."""
    recs = C.run_harness(["KIN", tier, seed] + ([n] if n else []))
    recs = [r for r in recs if r.get("prop") == "KIN" and (want is None or want(r))]
    fns = [r for r in recs if r["fn"] != "entry"]
    ents = [r for r in recs if r["fn"] == "entry"]
    dist = collections.Counter()
    dis, undec, compared = [], 0, 0
    distinct = set()

    # ---- plain functions
    outs = C.coq_eval("kinfn", IMPORTS, [fn_expr(r) for r in fns], shard=400)
    retry = []
    for r, zs in zip(fns, outs):
        dist["fn:" + r["fn"]] += 1
        if compare_fn(r, zs):
            compared += 1
            distinct.add((r["fn"], tuple(r["args"])))
        else:
            retry.append(r)
    if retry:
        # margin: does a +-1e-9 change of the threshold flip the model's decision?
        o1 = C.coq_eval("kinfn_p", IMPORTS, [fn_expr(r, 1e-9) for r in retry], shard=400) if any(r["fn"] != "normalize_near" and r["fn"] != "calculate_distance" for r in retry) else [None] * len(retry)
        o2 = C.coq_eval("kinfn_m", IMPORTS, [fn_expr(r, -1e-9) for r in retry], shard=400) if o1[0] is not None or len(retry) else o1
        for r, a, b in zip(retry, o1, o2):
            if r["fn"] in ("normalize_near", "calculate_distance"):
                # ties of normalize_near at distance exactly pi: both representatives are nearest
                if r["fn"] == "normalize_near":
                    now, prev, out = C.f64(r["args"][0]), C.f64(r["args"][1]), C.f64(r["out"])
                    if abs(abs(out - prev) - math.pi) < 1e-9:
                        undec += 1
                        continue
                dis.append({"why": f"{r['fn']}: model and implementation differ", "record": r})
            elif (a is not None and compare_fn(r, a)) or (b is not None and compare_fn(r, b)):
                undec += 1
            else:
                dis.append({"why": f"{r['fn']}: model and implementation differ", "record": r})

    # ---- entry points
    outs = C.coq_eval("kinent", IMPORTS, [entry_expr(r) for r in ents], shard=60)
    retry = []
    for r, zs in zip(ents, outs):
        model = decode_sols(zs)
        impl = [[C.f64(h) for h in s] for s in r["out"]]
        dof = r["robot"]["params"]["dof"]
        dist[f"entry{r['entry']}/dof{dof}/{'cons' if r['robot']['cons'] else 'nocons'}"] += 1
        dist[f"kind:{r['kind']}"] += 1
        if r["cands"]:
            dist["with_singular_candidate"] += 1
        if sols_equal(model, impl):
            compared += 1
            if impl:
                distinct.add((r["case"], r["entry"]))
        else:
            retry.append((r, model, impl))
    if retry:
        variants = [(1e-9, 0), (-1e-9, 0), (0, 1e-9), (0, -1e-9)]
        vouts = [C.coq_eval(f"kinent_v{i}", IMPORTS, [entry_expr(r, dt, dl) for r, _, _ in retry], shard=60) for i, (dt, dl) in enumerate(variants)]
        for k, (r, model, impl) in enumerate(retry):
            if any(sols_equal(decode_sols(vo[k]), impl) for vo in vouts):
                undec += 1
                dist["undecided_margin"] += 1
            elif r["entry"] in (1, 3) and pi_tie(model, impl, r):
                # a coordinate sits exactly half a turn from `previous`: both representatives are nearest,
                # rounding picks one (and the sorting cost changes with it)
                undec += 1
                dist["undecided_half_turn_tie"] += 1
            elif same_multiset(model, impl) and r["entry"] in (1, 3) and sorted_within(
                    r["robot"]["cons"], py_centers(r["robot"]["cons"]) if (r["sentinel"] and r["robot"]["cons"]) else ([0.0] * 6 if r["sentinel"] else [C.f64(h) for h in r["prev"]]), impl):
                # same answers in a different order, and the implementation's order is itself non-decreasing in the documented
                # cost (within 1e-9): equal costs, rounding decides
                undec += 1
                dist["undecided_sort_tie"] += 1
            else:
                dis.append({"why": f"entry {r['entry']}: model returns {len(model)} solutions {[[round(float(x), 9) for x in m] for m in model]}, "
                                   f"implementation {len(impl)} {[[round(x, 9) for x in s] for s in impl]}", "record": r})
    samples = [{"fn": r["fn"], "args": [C.f64(h) for h in r["args"]], "out": r["out"] if isinstance(r["out"], (bool, list)) else C.f64(r["out"])} for r in fns[:2]]
    samples += [{"entry": r["entry"], "kind": r["kind"], "dof": r["robot"]["params"]["dof"], "prev": [C.f64(h) for h in r["prev"]],
                 "sentinel": r["sentinel"], "n_kernel": [len(k) for k in r.get("kernel", [])] or len(r.get("kernel5", [])),
                 "impl_out": [[C.f64(h) for h in s] for s in r["out"]][:2]} for r in ents[:3]]
    return {"evaluations": len(recs), "compared": compared, "undecided": undec, "disagreements": dis, "failures": [],
            "samples": samples, "distribution": dict(dist), "distinct_nontrivial": len(distinct)}
