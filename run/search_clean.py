#!/usr/bin/env python3
"""Development tool: the failing-input search of every check (run only when an obligation is broken: other seed, more cases) must
find nothing on the unchanged tree - otherwise a broken obligation on a harmless rewrite would be reported with a false input."""
import importlib, json, os, sys, time
sys.path.insert(0, os.path.dirname(os.path.abspath(__file__)))
import common as C

def main(props):
    C.build_harness()
    for p in props:
        mod = importlib.import_module(f"props.{p.lower()}")
        t0 = time.time()
        try:
            out = mod.search("quick", 1, {"disagreements": [], "failures": []})
        except Exception as e:
            print(p, "search raised", repr(e)[:300], flush=True); continue
        bad = [r for r in out if r.get("direct") == "fail" or "why" in r]
        print(p, "search results", len(out), "failing", len(bad), f"{time.time()-t0:.0f}s", json.dumps(bad[:2])[:600] if bad else "", flush=True)

if __name__ == "__main__":
    main(sys.argv[1:] or [f"C{i:02d}" for i in range(1, 21)])
