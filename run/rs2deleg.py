"""Delegation translator: the `impl Kinematics for <Wrapper>` blocks (Tool, Base, Frame, Parallelogram,
KinematicsWithShape) and LinearAxis/Gantry::forward -> Gallina functions over the Kin record."""
import re
import rs2v
from rs2v import Refuse, P, tokenize

METHODS = ["inverse", "inverse_continuing", "forward", "inverse_5dof", "inverse_continuing_5dof", "constraints",
           "kinematic_singularity", "forward_with_joint_poses"]
# parameter types of the trait methods
SIG = {"inverse": ["Pose"], "inverse_continuing": ["Pose", "J"], "forward": ["J"], "inverse_5dof": ["Pose", "R"],
       "inverse_continuing_5dof": ["Pose", "J"], "constraints": [], "kinematic_singularity": ["J"], "forward_with_joint_poses": ["J"]}
RET = {"inverse": "Sols", "inverse_continuing": "Sols", "forward": "Pose", "inverse_5dof": "Sols", "inverse_continuing_5dof": "Sols",
       "constraints": "Cons", "kinematic_singularity": "Sing", "forward_with_joint_poses": "Links"}


class Env:
    def __init__(self, fields, inner):
        self.fields = fields      # rust field name -> (gallina name, type)
        self.inner = inner        # field holding the wrapped robot
        self.vars = {}            # rust local -> (gallina, type)
        self.helpers = {}         # private pure helper methods of the same struct: name -> (params text, body); inlined at the call
        self.depth = 0
        self.lets = []            # emitted lets


def ex(e, env):
    """-> (gallina string, type)"""
    k = e[0]
    if k == "num":
        return rs2v.show(rs2v.num(e[1])), "R"
    if k == "path":
        n = e[1]
        if len(n) == 1 and n[0] in env.vars:
            return env.vars[n[0]]
        raise Refuse("unknown name " + "::".join(n))
    if k == "field":
        if e[1] == ("path", ["self"]):
            if e[2] == env.inner:
                return "robot", "Kin"
            if e[2] in env.fields:
                return env.fields[e[2]]
            raise Refuse(f"self.{e[2]}")
        raise Refuse(f"field .{e[2]}")
    if k == "tuple":
        parts = [ex(x, env) for x in e[1]]
        return "(" + ", ".join(g for g, _ in parts) + ")", "Tuple(" + ",".join(t for _, t in parts) + ")"
    if k == "bin":
        (a, ta), (b, tb) = ex(e[2], env), ex(e[3], env)
        op = e[1]
        if op == "*" and ta == "Pose" and tb == "Pose":
            return f"(icomp {a} {b})", "Pose"
        if ta == "R" and tb == "R":
            return f"({a} {op} {b})", "R"
        raise Refuse(f"operator {op} on {ta},{tb}")
    if k == "index":
        (a, ta) = ex(e[1], env)
        (i, ti) = ex(e[2], env) if e[2][0] != "num" else (e[2][1], "Idx")
        if ta == "J" and ti == "Idx":
            return f"(jl_get {a} {i})", "R"
        if ta == "Links" and ti == "Idx":
            return f"(nth {i} {a} iid)", "Pose"
        raise Refuse(f"index {ta}[{ti}]")
    if k == "method":
        _, recv, name, args = e
        if recv[0] == "field" and recv[1] == ("path", ["self"]) and recv[2] == env.inner:
            if name not in SIG:
                raise Refuse(f"inner method {name}")
            ga = [ex(a, env) for a in args]
            if [t for _, t in ga] != SIG[name]:
                raise Refuse(f"argument types of robot.{name}: {[t for _, t in ga]}")
            return "(" + " ".join([f"k_{name} robot"] + [g for g, _ in ga]) + ")", RET[name]
        if recv == ("path", ["self"]) and name in getattr(env, "helpers", {}) and name != "remove_collisions":
            # a private helper of the same struct that only computes a value: translate its body with the arguments bound
            params, hbody = env.helpers[name]
            pnames = [p.split(":")[0].strip() for p in params.split(",")[1:]]
            pnames = [n for n in pnames if n]
            if len(pnames) != len(args) or env.depth >= 3:
                raise Refuse(f"helper {name}: arguments")
            sub = Env(env.fields, env.inner)
            sub.helpers, sub.depth = env.helpers, env.depth + 1
            for n, a in zip(pnames, args):
                sub.vars[n] = ex(a, env)
            return body_to_gallina(hbody, sub)
        if recv == ("path", ["self"]) and name == "remove_collisions" and len(args) == 1:
            (a, ta) = ex(args[0], env)
            if ta != "Sols":
                raise Refuse("remove_collisions argument")
            return f"(remove_collisions robot {a})", "Sols"
        (a, ta) = ex(recv, env)
        if name == "inverse" and ta == "Pose" and not args:
            return f"(iinv {a})", "Pose"
        if name in ("clone", "as_ref") and not args:
            return a, ta
        raise Refuse(f"method .{name}() on {ta}")
    raise Refuse(f"expression kind {k}")


def split_stmts(toks):
    """split a block body into statements; a `for ... { ... }` is one statement"""
    out, cur, depth, i = [], [], 0, 0
    while i < len(toks):
        t = toks[i]
        if depth == 0 and not cur and t[1] == "for":
            j = i
            d = 0
            while True:
                if toks[j][1] == "{":
                    d += 1
                if toks[j][1] == "}":
                    d -= 1
                    if d == 0:
                        break
                j += 1
            out.append(toks[i:j + 1])
            i = j + 1
            continue
        if t[1] in "([{":
            depth += 1
        elif t[1] in ")]}":
            depth -= 1
        if t[1] == ";" and depth == 0:
            out.append(cur); cur = []
        else:
            cur.append(t)
        i += 1
    if cur:
        out.append(cur)
    return out


def txt(toks):
    return " ".join(t[1] for t in toks)


def body_to_gallina(body, env):
    """returns Gallina expression (with lets) for a method body"""
    lets = []
    result = None
    for st in split_stmts(tokenize(body)):
        if not st:
            continue
        s = txt(st)
        # S5: for pose in poses . iter_mut ( ) { * pose = self . base * * pose ; }
        m = re.fullmatch(r"for (\w+) in (\w+) \. iter_mut \( \) \{ \* (\w+) = (.+) ; \}", s)
        if m and m.group(1) == m.group(3) and m.group(2) in env.vars and env.vars[m.group(2)][1] == "Links":
            v, arr = m.group(1), m.group(2)
            old = env.vars.get(v)
            env.vars[v] = (v, "Pose")
            rhs = st[s.split(" ").index("=") + 1: -2]
            g, t = ex(P(rhs).expr(), env)
            if t != "Pose":
                raise Refuse("for-loop body type")
            if old:
                env.vars[v] = old
            else:
                del env.vars[v]
            new = arr + "'"
            lets.append(f"let {new} := map (fun {v} => {g}) {env.vars[arr][0]} in")
            env.vars[arr] = (new, "Links")
            continue
        # S4: x . iter_mut ( ) . for_each ( | x | x [ a ] += e )
        m = re.fullmatch(r"(\w+) \. iter_mut \( \) \. for_each \( \| (\w+) \| (\w+) \[ (.+?) \] (\+=|-=) (.+) \)", s)
        if m and m.group(2) == m.group(3) and m.group(1) in env.vars and env.vars[m.group(1)][1] == "Sols":
            arr, v, idx, op, rhs = m.group(1), m.group(2), m.group(4), m.group(5), m.group(6)
            old = env.vars.get(v)
            env.vars[v] = (v, "J")
            gi, ti = ex(P(tokenize(idx)).expr(), env)
            gr, tr = ex(P(tokenize(rhs)).expr(), env)
            if ti != "Idx" or tr != "R":
                raise Refuse("for_each types")
            if old:
                env.vars[v] = old
            else:
                del env.vars[v]
            new = arr + "'"
            sign = "+" if op == "+=" else "-"
            lets.append(f"let {new} := map (fun {v} => jl_set {v} {gi} (jl_get {v} {gi} {sign} {gr})) {env.vars[arr][0]} in")
            env.vars[arr] = (new, "Sols")
            continue
        # S3: x [ idx ] -= e   /  S6: x [ 5 ] = e
        m = re.fullmatch(r"(\w+) \[ (.+?) \] (\+=|-=|=) (.+)", s)
        if m and m.group(1) in env.vars:
            arr, idx, op, rhs = m.groups()
            ga, ta = env.vars[arr]
            gi, ti = (idx, "Idx") if re.fullmatch(r"\d+", idx) else ex(P(tokenize(idx)).expr(), env)
            gr, tr = ex(P(tokenize(rhs)).expr(), env)
            new = ga + "'"
            if ta == "J" and ti == "Idx" and tr == "R":
                val = gr if op == "=" else f"(jl_get {ga} {gi} {'+' if op == '+=' else '-'} {gr})"
                lets.append(f"let {new} := jl_set {ga} {gi} {val} in")
            elif ta == "Links" and ti == "Idx" and tr == "Pose" and op == "=":
                lets.append(f"let {new} := set_nth {ga} {gi} {gr} in")
            else:
                raise Refuse("indexed assignment types")
            env.vars[arr] = (new, ta)
            continue
        if st[0][1] == "let":
            i = 1
            if st[i][1] == "mut":
                i += 1
            name = st[i][1]
            i += 1
            if st[i][1] == ":":
                while st[i][1] != "=":
                    i += 1
            if st[i][1] != "=":
                raise Refuse("let form")
            g, t = ex(P(st[i + 1:]).expr(), env)
            lets.append(f"let {name}0 := {g} in")
            env.vars[name] = (name + "0", t)
            continue
        p = P(st)
        g, t = ex(p.expr(), env)
        if p.i != len(p.t):
            raise Refuse("trailing tokens: " + s)
        result = (g, t)
    if result is None:
        raise Refuse("method without result expression")
    return " ".join(lets + [result[0]]), result[1]


def impl_methods(src, header):
    """methods of ALL blocks that start with `header`"""
    out = {}
    pos = 0
    found = False
    while True:
        i = src.find(header, pos)
        if i < 0:
            break
        found = True
        j = src.index("{", i)
        end = rs2v.match_brace(src, j)
        block = src[j + 1:end]
        for m in re.finditer(r"\bfn\s+(\w+)\s*\(([^)]*)\)\s*(?:->\s*([^{]+))?\{", block):
            k = block.index("{", m.start())
            e = rs2v.match_brace(block, k)
            out.setdefault(m.group(1), (m.group(2), block[k + 1:e]))
        pos = end
    if not found:
        raise Refuse("impl not found: " + header)
    return out


def wrapper(src, struct, coqname, fields, inner):
    """fields: rust field -> (gallina binder, type)"""
    ms = impl_methods(src, f"impl Kinematics for {struct}")
    missing = [m for m in METHODS if m not in ms]
    if missing:
        raise Refuse(f"{struct}: missing methods {missing}")
    helpers = {}
    for hm in re.finditer(r"\bimpl\s+" + struct + r"\s*\{", src):
        j = hm.end() - 1
        block = src[j + 1:rs2v.match_brace(src, j)]
        for m in re.finditer(r"\bfn\s+(\w+)\s*\(\s*&self([^)]*)\)\s*->\s*[^{]+\{", block):
            k = block.index("{", m.start())
            helpers.setdefault(m.group(1), ("&self" + m.group(2), block[k + 1:rs2v.match_brace(block, k)]))
    binders = " ".join(f"({g} : {'Iso' if t == 'Pose' else 'R' if t == 'R' else 'nat'})" for g, t in fields.values())
    out = f"Definition {coqname} {binders} (robot : Kin) : Kin := {{|\n"
    rows = []
    for m in METHODS:
        params, body = ms[m]
        names = [p.split(":")[0].strip() for p in params.split(",")[1:]]
        names = [n for n in names if n]
        if len(names) != len(SIG[m]):
            raise Refuse(f"{struct}::{m}: parameter count")
        env = Env(fields, inner)
        env.helpers = helpers
        for n, t in zip(names, SIG[m]):
            env.vars[n] = (n, t)
        g, t = body_to_gallina(body, env)
        if t != RET[m]:
            raise Refuse(f"{struct}::{m}: result type {t}")
        lam = ("fun " + " ".join(names) + " => ") if names else ""
        rows.append(f"  k_{m} := {lam}{g}")
    return out + ";\n".join(rows) + "\n|}.\n\n"


def norm(text):
    return " ".join(t[1] for t in tokenize(text))


REMOVE_COLLISIONS = norm("""
        let mut filtered_solutions = Vec::with_capacity(solutions.len());
        for solution in solutions {
            if !self.body.collides(&solution, self.kinematics.as_ref()) {
                filtered_solutions.push(solution);
            }
        }
        filtered_solutions
""")
# the same filter written with iterator adaptors (into_iter / filter / collect keep the order), the kinematics reference taken inline
# or bound to a local first, any names for the locals
_ID = r"[A-Za-z_][A-Za-z0-9_]*"
REMOVE_COLLISIONS_ITER = [
    re.compile(r"^(?:let (?P<k>" + _ID + r") = self \. kinematics \. as_ref \( \) ; )?"
               r"solutions \. into_iter \( \) \. filter \( \| (?P<s>" + _ID + r") \| ! self \. body \. collides \( (?:& )?(?P=s) , "
               r"(?P<kk>self \. kinematics \. as_ref \( \)|" + _ID + r") \) \) \. collect \( \)$"),
    re.compile(r"^let mut (?P<f>" + _ID + r") = Vec :: with_capacity \( solutions \. len \( \) \) ; "
               r"for (?P<s>" + _ID + r") in solutions \{ if ! self \. body \. collides \( & (?P=s) , self \. kinematics \. as_ref \( \) \) "
               r"\{ (?P=f) \. push \( (?P=s) \) ; \} \} (?P=f)$"),
]


def is_order_preserving_filter(nb):
    if nb == REMOVE_COLLISIONS:
        return True
    for rx in REMOVE_COLLISIONS_ITER:
        m = rx.match(nb)
        if m:
            d = m.groupdict()
            if "kk" in d and d["kk"] and not d["kk"].startswith("self") and d["kk"] != d.get("k"):
                return False                     # the second argument must be the robot's own kinematics
            return True
    return False


LINEAR_AXIS_MATCH = norm("""
        let cart_translation = match self.axis {
            0 => Translation3::new(distance, 0.0, 0.0),
            1 => Translation3::new(0.0, distance, 0.0),
            2 => Translation3::new(0.0, 0.0, distance),
            _ => panic!("Invalid axis index; must be 0 (x), 1 (y), or 2 (z)"),
        };
""")


def fn_body(src, header, name):
    ms = impl_methods(src, header)
    if name not in ms:
        raise Refuse(f"{header}: fn {name} not found")
    return ms[name]


def shape_extras(src):
    """remove_collisions (template) and the constructor stack of KinematicsWithShape"""
    _, body = fn_body(src, "impl KinematicsWithShape {", "remove_collisions")
    if not is_order_preserving_filter(norm(body)):
        raise Refuse("remove_collisions is not the recognised order-preserving filter loop")
    _, body = fn_body(src, "impl KinematicsWithShape {", "create_robot_with_base_and_tool")
    want = norm("""
        let plain_robot = OPWKinematics::new_with_constraints(opw_parameters, constraints);
        let robot_with_base = Base { robot: Arc::new(plain_robot), base: base_transform.clone(), };
        let robot_with_base_and_tool = Tool { robot: Arc::new(robot_with_base), tool: tool_transform.clone(), };
        robot_with_base_and_tool
    """)
    if norm(body) != want:
        raise Refuse("create_robot_with_base_and_tool is not Tool(Base(OPWKinematics with constraints))")
    out = "(* remove_collisions: recognised as the order-preserving filter of non-colliding solutions *)\n"
    out += "Definition shape_stack (base_transform tool_transform : Iso) (plain_robot : Kin) : Kin :=\n"
    out += "  tool_kin tool_transform (base_kin base_transform plain_robot).\n\n"
    return out


def axis_forward(src):
    out = ""
    params, body = fn_body(src, "impl Gantry", "forward")
    env = Env({"base": ("base", "Pose")}, "robot")
    env.vars["translation"] = ("translation", "Pose")
    env.vars["joint_angles"] = ("joint_angles", "J")
    g, t = body_to_gallina(body, env)
    if t != "Pose":
        raise Refuse("Gantry::forward result")
    out += f"Definition gantry_forward (base : Iso) (robot : Kin) (translation : Iso) (joint_angles : JL) : Iso :=\n  {g}.\n\n"
    params, body = fn_body(src, "impl LinearAxis", "forward")
    nb = norm(body)
    if not nb.startswith(LINEAR_AXIS_MATCH):
        raise Refuse("LinearAxis::forward: axis selection not recognised")
    rest_tokens = tokenize(body)[len(tokenize(LINEAR_AXIS_MATCH.replace(" ", " "))):]
    # re-tokenising the normalised text gives the same token count
    rest = " ".join(t[1] for t in rest_tokens)
    env = Env({"base": ("base", "Pose")}, "robot")
    env.vars["cart_translation"] = ("cart_translation", "Pose")
    env.vars["joint_angles"] = ("joint_angles", "J")
    g, t = body_to_gallina(rest, env)
    if t != "Pose":
        raise Refuse("LinearAxis::forward result")
    out += ("Definition linear_axis_forward (base : Iso) (axis : Z) (robot : Kin) (distance : R) (joint_angles : JL) : option Iso :=\n"
            f"  match axis_translation axis distance with Some cart_translation => Some ({g}) | None => None end.\n\n")
    return out


def frame_forward_transformed(src):
    params, body = fn_body(src, "impl Frame {", "forward_transformed")
    env = Env({"frame": ("frame", "Pose")}, "robot")
    env.vars["qs"] = ("qs", "J")
    env.vars["previous"] = ("previous", "J")
    g, t = body_to_gallina(body, env)
    if t != "Tuple(Sols,Pose)":
        raise Refuse("Frame::forward_transformed result type " + t)
    return ("Definition frame_forward_transformed (frame : Iso) (robot : Kin) (qs previous : JL) : list JL * Iso :=\n  "
            + g + ".\n\n")
