#!/bin/sh
# run every claimed check (quick tier) and report
cd /verif
for P in $(python3 -c "import json;print(' '.join(c['property_id'] for c in json.load(open('MANIFEST.json'))['checks']))"); do
  python3 run/check.py $P --tier ${1:-quick} | tail -3; echo "  exit=$?"
done
