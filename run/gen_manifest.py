#!/usr/bin/env python3
"""Writes MANIFEST.json from the property modules that exist (keeps it valid at all times)."""
import json, os, sys, importlib
sys.path.insert(0, os.path.dirname(os.path.abspath(__file__)))
ALL = [f"C{i:02d}" for i in range(1, 21)]
checks, na = [], []
for pid in ALL:
    try:
        m = importlib.import_module(f"props.{pid.lower()}")
    except ImportError:
        na.append({"property_id": pid, "reason": "not yet built in this round (planned: see DESIGN.md section 7); no technical obstacle"})
        continue
    checks.append({
        "property_id": pid,
        "quick_cmd": f"python3 run/check.py {pid} --tier quick",
        "thorough_cmd": f"python3 run/check.py {pid} --tier thorough",
        "evidence_file": f"/verif/evidence/{pid}.json",
        "replay_cmd_template": "python3 /verif/run/replay.py {path}",
        "engine": "coq-proof+correspondence",
        "level_claimed": {"category": "proof", "text": m.LEVEL_TEXT, "design_ref": f"DESIGN.md section 7 ({pid})"},
        "level_note": m.LEVEL_NOTE,
        "technique": m.TECHNIQUE,
    })
man = {
    "version": 1,
    "setup_cmd": "sh /verif/setup.sh",
    "hooks": {"guard": "cargo feature verif_hooks", "enable": "harness/Cargo.toml depends on /repo with features=[..., \"verif_hooks\"]",
              "baseline_off_cmd": "cd /repo && cargo test --workspace --no-fail-fast --offline",
              "source_commits": json.load(open("/verif/hook_commits.json")) if os.path.exists("/verif/hook_commits.json") else [],
              "add_only": True},
    "engines": [{"name": "coq-proof+correspondence", "path": "/verif/run/check.py",
                 "serves_properties": [c["property_id"] for c in checks],
                 "kind_free_text": "Coq 8.16 theorems about generated / hand-written models of the Rust code; models tied to the source by a translator (coq/Gen) and by a correspondence check that evaluates the model's Q instance with vm_compute against the implementation driven by /verif/harness"}],
    "checks": checks,
    "not_applicable": na,
    "notes": "see DESIGN.md; known_findings.json lists fixed/known defects",
}
json.dump(man, open("/verif/MANIFEST.json", "w"), indent=1)
print(f"{len(checks)} checks, {len(na)} not yet claimed")
