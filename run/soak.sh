#!/bin/sh
# development tool: run every check with several seeds on the unchanged tree; any non-zero exit is a false alarm to investigate
cd /verif
for seed in ${SEEDS:-2 3 4}; do
  for p in ${PROPS:-C01 C02 C03 C04 C05 C06 C07 C08 C09 C10 C11 C12 C13 C14 C15 C16 C17 C18 C19 C20}; do
    out=$(python3 run/check.py $p --seed $seed 2>&1); rc=$?
    echo "seed=$seed $p exit=$rc $(echo "$out" | grep -E 'quick:|VIOLATION' | head -3 | tr '\n' ' ')"
  done
done
git checkout -- evidence 2>/dev/null
