#!/usr/bin/env python3
"""Development tool: behaviour-preserving rewrites of /repo (seeded/harmless/<H>/hpatchN.diff) must not raise an alarm.

  harmless_try.py <H> [hpatchN.diff]     apply each patch to /repo, run every check whose anchored / dependency files the patch
                                         touches, undo, record exit codes and VIOLATION lines in seeded/harmless/<H>/results.json
A VIOLATION that ends with no-failing-input-found is the sanctioned report for a rewrite the translator / proofs cannot follow;
one with a failing input on a behaviour-preserving rewrite is a false alarm of the machinery and has to be investigated.
"""
import json, os, re, subprocess, sys, time

VERIF = "/verif"
ENV = dict(os.environ, CARGO_NET_OFFLINE="true")


def sh(cmd, cwd=None, timeout=7200):
    p = subprocess.run(cmd, shell=True, cwd=cwd, env=ENV, stdout=subprocess.PIPE, stderr=subprocess.STDOUT, text=True, timeout=timeout)
    return p.returncode, p.stdout


def deps():
    out = {}
    for line in open(f"{VERIF}/properties.jsonl"):
        pj = json.loads(line)
        files = set(pj.get("anchors", {}).get("files", []))
        src = open(f"{VERIF}/run/props/{pj['id'].lower()}.py").read()
        m = re.search(r"^EXTRA_FILES = (\[.*?\])$", src, re.M)
        if m:
            files |= set(json.loads(m.group(1).replace("'", '"')))
        out[pj["id"]] = files
    return out


def main(h, only=None):
    d = f"{VERIF}/seeded/harmless/{h}"
    meta = json.load(open(f"{d}/meta.json"))
    respath = f"{d}/results.json"
    results = json.load(open(respath)) if os.path.exists(respath) else {}
    dep = deps()
    rc, o = sh("git status --porcelain", cwd="/repo")
    assert o.strip() == "", "/repo is not clean: " + o
    for m in meta:
        patch = m["patch"]
        if only and patch != only:
            continue
        text = open(f"{d}/{patch}").read()
        touched = set(re.findall(r"^\+\+\+ b/(\S+)", text, re.M))
        props = sorted(p for p, fs in dep.items() if fs & touched)
        rc, o = sh(f"git apply {d}/{patch}", cwd="/repo")
        assert rc == 0, o
        try:
            for prop in props:
                t0 = time.time()
                rc, o = sh(f"python3 run/check.py {prop} --tier quick", cwd=VERIF)
                viol = [l for l in o.splitlines() if l.startswith("VIOLATION")]
                results[f"{patch}:{prop}"] = {"kind": m.get("kind"), "exit": rc, "violation_lines": viol, "seconds": round(time.time() - t0, 1),
                                              "alarm_with_input": any(not v.rstrip().endswith("no-failing-input-found") for v in viol),
                                              "tail": o.strip().splitlines()[-8:]}
                for v in viol:
                    for w in v.split():
                        if w.startswith("replay=") and os.path.exists(w[7:]):
                            subprocess.run(["cp", w[7:], f"{d}/replay_{patch}_{prop}_{os.path.basename(w[7:])}"])
                print(h, patch, m.get("kind"), prop, "exit", rc, viol[:2] if viol else "quiet", f"{time.time()-t0:.0f}s", flush=True)
        finally:
            sh("git checkout -- .", cwd="/repo")
        json.dump(results, open(respath, "w"), indent=1)
    sh("git checkout -- evidence", cwd=VERIF)


if __name__ == "__main__":
    main(sys.argv[1], sys.argv[2] if len(sys.argv) > 2 else None)
