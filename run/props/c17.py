"""C17 — a frame from three point pairs is the rigid motion mapping them."""
import collections
import common as C

ID = "C17"
# files this check also depends on (the quick tier runs at the thorough sizes when one of them differs from the fingerprinted tree)
EXTRA_FILES = ['src/kinematics_impl.rs']
COQ_TARGETS = ["Gen/Delegation.vo", "Gen/Consts.vo", "Properties/C17.vo"]
THEOREMS = ["C17_frame3_rigid", "C17_collinear_source", "C17_collinear_target", "C17_incongruent", "C17_frame_core_orthogonal",
            "C17_frame_core_det", "C17_forward_transformed"]
LEVEL_TEXT = ("Coq theorems for all point triples and all rigid motions over R: for three non-collinear points and their images under a "
              "proper rigid motion M the constructed frame equals M (so it is proper, maps each point to its image and is unique); collinear "
              "sources/targets and triples whose distances differ by at least the tolerance are rejected with the corresponding error; every "
              "accepted frame has an orthogonal rotation of determinant 1; forward_transformed (generated from the source) is the frame-moved "
              "pose with the continuation IK of exactly that pose")
LEVEL_NOTE = ("hand-written vector-level model of Frame::frame over R (Model/Frame3.v); tie: for sampled triples Coq proves with the Interval "
              "tactic that every component of the model's frame is within 1e-9*scale of what the implementation returned, and that the model takes "
              "the same guard branch (congruence residuals bounded by interval, exact collinearity by ring); forward_transformed is re-translated "
              "from src/frame.rs on every run")
TECHNIQUE = "Coq proof (nsatz/ring over R) of a hand-written model + Interval-certified spot correspondence; generated model for forward_transformed"
RULE = ("point triples (incl. nearly collinear, 1 km from the origin, axis-aligned) x random rigid motions x perturbations 3 mm / 6.5 mm x "
        "exactly collinear sources (dyadic) x thin-triangle collinear targets; forward_transformed on random robots; non-trivial = all kinds "
        "except axis-aligned; distinct = distinct cases")
EXPLANATION = LEVEL_NOTE
ASSUMPTIONS = ["nalgebra normalize/cross/from_columns modelled by their textbook definitions", "inner robot contract (C01/C04) for forward_transformed"]
TRUSTED_EXTRA = ["coq-interval (Interval.Tactic) for the certified spot checks"]
PRELUDE = (C.SPOT_PRELUDE + "From VF Require Import Base.Num Model.Frame3 Proofs.Frame3P.\n"
           "Ltac unf := cbv [frame_core frame3 distances_match vdist vnormalize vnorm vnorm2 vdot vcross vsub vscale mcols mmul mtr mapp "
           "rot tr vx vy vz m00 m01 m02 m10 m11 m12 m20 m21 m22].\n")


def v3(hs):
    return "(mkV3 " + " ".join(C.rlit(C.frac(h)) for h in hs) + ")"


def spot_file(r):
    ps, qs = r["p"], r["q"]
    src = PRELUDE
    for i in range(3):
        src += f"Definition p{i+1} := {v3(ps[i])}.\nDefinition q{i+1} := {v3(qs[i])}.\n"
    args = "p1 p2 p3 q1 q2 q3"
    n = 0
    scale = 1 + max(abs(C.f64(h)) for p in ps + qs for h in p)
    if r["got"] == "ok":
        import math
        cross = max(r["cross"], 1e-9)
        tol = C.rlit(C.Fraction(int(math.ceil(scale * scale / min(cross, 1.0))), 10 ** 8))
        names = ["m00 (rot", "m01 (rot", "m02 (rot", "m10 (rot", "m11 (rot", "m12 (rot", "m20 (rot", "m21 (rot", "m22 (rot", "vx (tr", "vy (tr", "vz (tr"]
        for nm, v in zip(names, r["frame"]):
            src += f"Goal Rabs ({nm} (frame_core {args})) - {C.rlit(C.frac(v))}) <= {tol}. Proof. unfold p1, p2, p3, q1, q2, q3; unf; interval with (i_prec 120). Qed.\n"
            n += 1
        # the model takes the accepting branch: congruent within 5 mm, both triples non-collinear
        for a, b in (("1", "2"), ("1", "3"), ("2", "3")):
            src += f"Goal Rabs (vdist p{a} p{b} - vdist q{a} q{b}) < 1/200. Proof. unfold p1, p2, p3, q1, q2, q3; unf; interval with (i_prec 120). Qed.\n"
            n += 1
        src += "Goal 0 < vnorm (vcross (vsub p2 p1) (vsub p3 p1)). Proof. unfold p1, p2, p3; unf; interval with (i_prec 120). Qed.\n"
        src += "Goal 0 < vnorm (vcross (vsub q2 q1) (vsub q3 q1)). Proof. unfold q1, q2, q3; unf; interval with (i_prec 120). Qed.\n"
        n += 2
    elif r["got"] == "not_isometry":
        src += ("Goal 1/200 <= Rabs (vdist p1 p2 - vdist q1 q2) \\/ 1/200 <= Rabs (vdist p1 p3 - vdist q1 q3) \\/ 1/200 <= Rabs (vdist p2 p3 - vdist q2 q3).\n"
                "Proof. unfold p1, p2, p3, q1, q2, q3; unf; first [left; interval with (i_prec 120) | right; left; interval with (i_prec 120) | right; right; interval with (i_prec 120)]. Qed.\n")
        n += 1
    elif r["got"] == "collinear_target":
        # congruent within 5 mm, source not collinear, target exactly collinear
        for a, b in (("1", "2"), ("1", "3"), ("2", "3")):
            src += f"Goal Rabs (vdist p{a} p{b} - vdist q{a} q{b}) < 1/200. Proof. unfold p1, p2, p3, q1, q2, q3; unf; interval with (i_prec 120). Qed.\n"
            n += 1
        src += "Goal 0 < vnorm (vcross (vsub p2 p1) (vsub p3 p1)). Proof. unfold p1, p2, p3; unf; interval with (i_prec 120). Qed.\n"
        src += "Goal vcross (vsub q2 q1) (vsub q3 q1) = mkV3 0 0 0. Proof. unfold q1, q2, q3; unf; f_equal; field. Qed.\n"
        n += 2
    elif r["got"] == "collinear_source":
        src += ("Goal vcross (vsub p2 p1) (vsub p3 p1) = mkV3 0 0 0. Proof. unfold p1, p2, p3; unf; f_equal; field. Qed.\n")
        n += 1
    return src, n


def correspondence(tier, seed, n=None):
    recs = C.run_harness(["C17", tier, seed] + ([n] if n else []))
    own = [r for r in recs if r.get("prop") == "C17" or r.get("class") == "harness.crash"]
    failures = [r for r in own if r.get("direct") == "fail"]
    frames = [r for r in own if r.get("what") == "frame" and "p" in r]
    nspot = 64 if tier == "thorough" else 24
    chosen = []
    per = collections.Counter()
    for r in frames:
        key = (r["got"], r.get("kind"))
        if per[key] < max(2, nspot // 8) and len(chosen) < nspot:
            per[key] += 1
            chosen.append(r)
    res = C.coq_spot("spot_c17", [spot_file(r) for r in chosen])
    dis = []
    for (idx, fail), r in zip(res, chosen):
        if fail:
            dis.append({"why": f"certified spot check failed (line {fail['line']}): model and implementation disagree on this triple ({r['got']})",
                        "record": {k: r[k] for k in ("case", "kind", "p", "q", "expect", "got", "frame")}, "log": fail["log"][-500:]})
    dist = collections.Counter(f"{r.get('what')}:{r.get('expect')}" for r in own)
    samples = [{"case": r["case"], "kind": r.get("kind"), "expect": r.get("expect"), "got": r.get("got"),
                "p": [[C.f64(h) for h in p] for p in r["p"]]} for r in frames[:3]]
    return {"evaluations": len(own), "compared": len(chosen), "undecided": 0, "disagreements": dis, "failures": failures,
            "samples": samples, "distribution": dict(dist), "distinct_nontrivial": len([r for r in own if r.get("kind") != 7])}


def search(tier, seed, res):
    recs = C.run_harness(["C17", tier, seed + 1000, 60000])
    return [r for r in recs if r.get("direct") == "fail"]
