"""C08 — a constrained solver returns exactly the compliant solutions."""
from props import _ikcommon as K
ID = "C08"
COQ_TARGETS = ["Exec/Kin.vo", "Gen/Delegation.vo", "Properties/C08.vo"]
THEOREMS = ["C08_inverse_is_filter", "C08_inverse_5dof_is_filter", "C08_continuing_all_compliant",
            "C08_continuing_5dof_all_compliant", "C08_continuing_keeps_compliant", "C08_dof5_dispatch", "C08_stack_reports_inner_limits", "C08_parallelogram_reports_inner_limits"]
LEVEL_TEXT = ("Coq theorems for every constraint set, robot, pose, previous vector and oracle behaviour: constrained inverse / inverse_5dof "
              "= filter of the unconstrained list (order kept), every continuation answer compliant, compliant unconstrained continuation "
              "answers are kept (non-sentinel), 5-DOF robots dispatch to the filtering entry points")
LEVEL_NOTE = K.NOTE + "; wrapper delegation of constraints() is proved about the delegation code re-translated from the source (C08_stack_reports_inner_limits) and exercised by the oracle through stacks of depth 1..3 incl. a parallelogram"
TECHNIQUE = K.TECH
RULE = ("KIN records: random robots (dof 5/6, signs, offsets) x pose kinds (reachable, J5=0, J5=pi, random) x 4 entry points x "
        "constraint sets (narrow, wrapping, wide, from==to) x previous kinds incl. sentinel; oracle cases compare constrained and "
        "unconstrained solvers; non-trivial = the implementation returned at least one solution; distinct = distinct (case, entry)")
EXPLANATION = "see LEVEL_NOTE"
ASSUMPTIONS = K.ASSUME
PARTIAL = ["keeps-compliant is proved for non-sentinel previous (with the sentinel the two queries use different reference vectors)"]
correspondence, search = K.make("C08", lambda r: r["fn"] == "entry" and r["robot"]["cons"] is not None)
