"""correspondence()/search() for properties whose model is GENERATED (translator tie): the run-time part is the
independent oracle on the implementation; the tie itself is re-translation + re-checking of the theorems."""
import collections
import common as C


def make(prop, n_quick=None, sample_keys=("case", "entry", "mode", "what", "nsol", "direct"), search_n=40000):
    def correspondence(tier, seed, n=None):
        recs = C.run_harness([prop, tier, seed] + ([n or n_quick] if (n or n_quick) else []))
        own = [r for r in recs if r.get("prop") == prop or r.get("class") == "harness.crash"]
        failures = [r for r in own if r.get("direct") == "fail"]
        dist = collections.Counter()
        distinct = set()
        for r in own:
            dist[str(r.get("what", "")) + "/entry" + str(r.get("entry", "")) + "/mode" + str(r.get("mode", ""))] += 1
            if r.get("nsol", 1) > 0:
                distinct.add(r.get("case", 0) * 7 + hash(str(r.get("what", ""))) % 7)
        return {"evaluations": len(own), "compared": len(own), "undecided": 0, "disagreements": [], "failures": failures,
                "samples": [{k: v for k, v in r.items() if k in sample_keys} for r in own[:3]],
                "distribution": dict(dist), "distinct_nontrivial": len(distinct)}

    def search(tier, seed, res):
        out = []
        for s in range(3):
            recs = C.run_harness([prop, tier, seed + 1000 + s, search_n])
            out += [r for r in recs if r.get("direct") == "fail"]
            if out:
                break
        return out
    return correspondence, search


NOTE = ("the model is re-translated from the Rust source on every run by run/rs2deleg.py / run/rs2v.py (trusted) and the theorems are "
        "re-checked against it; an independent oracle in the harness drives the real wrappers to search for failing inputs")
TECH = "Coq proof about a model regenerated from the Rust source by a translator; independent oracle search on the implementation"
