"""C20 — URDF extraction recovers parameters, signs and limits of any OPW-layout robot."""
import collections, math, os, random, re, shutil, tempfile
from fractions import Fraction
import common as C

ID = "C20"
COQ_TARGETS = ["Exec/Urdf.vo", "Properties/C20.vo"]
THEOREMS = ["C20_populate_gen", "C20_order_independent", "C20_duplicate_identical_ok", "C20_duplicate_conflict_err",
            "C20_missing_joint_err", "C20_no_limit_unconstrained", "C20_simplify_decorated", "C20_nonvacuous"]
LEVEL_TEXT = ("Coq theorems over all rational OPW parameter values, axis signs and limits: every description generated in a supported joint "
              "layout (c2 along z or x, b on joint 3, c3 on joint 4 (x or y) or 5; side conditions `supported`) yields exactly those "
              "parameters, signs, limits and dof 6; the result is invariant under joint order and XML nesting (any permutation of the "
              "pre-order joint list), an identical second copy changes nothing, a conflicting duplicate / a missing joint is an error value, "
              "a joint without limits gets from = to = 0 (unconstrained by C07); 1728 decorated joint names simplify to joint1..joint6")
LEVEL_NOTE = ("hand-written model of urdf.rs at the level of the parsed XML tree and of simplify_joint_name.rs on ASCII strings, over Q; XML "
              "parsing (sxd-document), number parsing and the xacro angle regex are outside the model and corresponded: a Python generator "
              "writes URDF text and the Gallina tree of the same document; from_urdf and the model's Q instance are compared on supported, "
              "ambiguous and malformed descriptions, with default and explicit joint names; the Rust simplifier is compared with the model on "
              "decorated names")
TECHNIQUE = "Coq proof over Q of a hand-written tree-level model + vm_compute correspondence on generated URDF documents"
RULE = ("generated URDFs: random OPW values (incl. zero a1/a2/c4, negative a2, b on joint 3), 16 layout variants, axis signs, limits in radians or "
        "${radians(deg)} or absent or unreadable, shuffled joint order, nesting in extra elements, name prefixes/decoration, identical and "
        "conflicting duplicates, missing joints, explicit joint-name lists, ambiguous descriptions, truncated/garbled XML; non-trivial = parsed "
        "Ok; distinct = distinct documents")
EXPLANATION = LEVEL_NOTE
ASSUMPTIONS = ["decimal attribute literals denote themselves", "joint names are ASCII"]
PARTIAL = ["malformed XML: sweep only (must give an error value, never a panic)"]
PI = Fraction(math.pi)


def dec(x):
    return Fraction(repr(x)) if isinstance(x, float) else Fraction(x)


def num(rng, x):
    if x == int(x) and rng.random() < 0.5:
        return str(int(x))
    return repr(float(x))


def gen_doc(rng, k):
    """returns (text, tree literal or None, names or None, kind)"""
    r3 = lambda lo, hi: round(rng.uniform(lo, hi), 3)
    tiny = lambda: round(rng.uniform(0.00002, 0.0009), 5) * rng.choice([1, -1])     # a genuine offset three to four orders below the main one
    a1 = rng.choice([0.0, r3(0.05, 0.4), r3(-0.2, -0.05)])
    a2 = rng.choice([0.0, r3(-0.3, -0.05), r3(0.05, 0.2), tiny()])
    c1, c2, c3 = r3(0.2, 0.9), r3(0.3, 1.2), r3(0.3, 1.2)
    c4 = rng.choice([0.0, r3(0.05, 0.3)])
    lay = {"c2x": rng.random() < 0.4, "bj3": rng.random() < 0.35, "c3j4": rng.random() < 0.35, "c3y": rng.random() < 0.5}
    b = (r3(0.05, 0.3) * rng.choice([1, -1]) if rng.random() < 0.75 else tiny()) if lay["bj3"] else 0.0
    kind = "supported"
    if k % 9 == 4 and lay["c3j4"]:
        a2 = 0.0; kind = "ambiguous"            # c3 on joint 4 with a2 = 0 cannot be told apart
    if lay["c3j4"] and a2 == 0.0:
        kind = "ambiguous"
    vecs = [(0, 0, c1), (a1, 0, 0),
            ((c2, b, 0) if lay["c2x"] else (0, b, c2)) if lay["bj3"] else ((c2, 0, 0) if lay["c2x"] else (0, 0, c2)),
            ((0, c3, -a2) if lay["c3y"] else (c3, 0, -a2)) if lay["c3j4"] else (0, 0, -a2),
            (0, 0, 0) if lay["c3j4"] else (c3, 0, 0), (c4, 0, 0)]
    style = rng.randrange(6)
    deco = [lambda i: f"joint{i}", lambda i: f"joint_{i}", lambda i: f"${{prefix}}joint_{i}", lambda i: f"robot_JOINT_{i}",
            lambda i: f"my.arm-Joint-{i}!", lambda i: f"${{a}}${{b}}joint_a{i}"][style]
    names = None
    if k % 6 == 5:
        names = [f"axis_{chr(97 + i)}" for i in range(6)]
        deco = lambda i: names[i - 1]
    joints = []
    for i in range(6):
        axis_kind = rng.randrange(8)
        sgn = rng.choice([1, -1])
        ax = [0, 0, 0]
        ax[rng.randrange(3)] = sgn
        axis_txt, axis_val = " ".join(str(v) for v in ax), ("VOk", ax)
        if axis_kind == 0:
            axis_txt, axis_val = None, None          # no axis element: sign 1
        if axis_kind == 1:
            axis_txt, axis_val = "0 0 0", ("VOk", [0, 0, 0])   # fixed joint: sign 0
        lim_kind = rng.randrange(6)
        lo, hi = -round(rng.uniform(0.5, 3.1), 3), round(rng.uniform(0.5, 3.1), 3)
        if rng.random() < 0.2:                     # plain radians typed close to (not on) a quarter turn: 1.57083, -3.14155 ...
            lo = -round(rng.choice([1, 2]) * math.pi / 2 + rng.uniform(-1e-4, 1e-4), rng.choice([5, 6]))
        if rng.random() < 0.2:
            hi = round(rng.choice([1, 2]) * math.pi / 2 + rng.uniform(-1e-4, 1e-4), rng.choice([5, 6]))
        if lim_kind == 0:
            lim_txt, lim_val = None, None
        elif lim_kind == 1:
            dlo, dhi = -rng.randint(30, 180), rng.randint(30, 180)
            if rng.random() < 0.6:                 # fractional degrees, written as <digits>.<digits>
                dlo = f"{dlo}.{rng.choice(['5', '25', '75', '125', '0', '05'])}"
                dhi = f"{dhi}.{rng.choice(['5', '25', '75', '125', '0', '05'])}"
            lim_txt = (f"${{radians({dlo})}}", f"${{radians({dhi})}}")
            lim_val = (("ARad", Fraction(str(dlo)) * PI / 180), ("ARad", Fraction(str(dhi)) * PI / 180))
        elif lim_kind == 2 and k % 4 == 1:
            lim_txt, lim_val = ("${-pi}", repr(hi)), (("ABadAngle",), ("ARad", dec(hi)))
        else:
            lim_txt, lim_val = (repr(lo), repr(hi)), (("ARad", dec(lo)), ("ARad", dec(hi)))
        joints.append({"name": deco(i + 1), "vec": vecs[i], "axis_txt": axis_txt, "axis_val": axis_val, "lim_txt": lim_txt, "lim_val": lim_val})
    order = list(range(6))
    if k % 3:
        rng.shuffle(order)
    extra = []
    if k % 7 == 3:
        miss = rng.randrange(6); order = [o for o in order if o != miss]; kind = "missing"
    if k % 11 == 6:
        extra = [dict(joints[i]) for i in order]; kind = kind if kind != "supported" else "dup_identical"
    if k % 13 == 8:
        # a second element with the same joint name that differs in exactly one attribute: origin, axis, lower or upper limit
        d = dict(joints[order[0]]); kind = "dup_conflict"
        which = rng.randrange(4)
        if which == 1 and d["axis_val"] is not None and any(d["axis_val"][1]):
            ax2 = [-v for v in d["axis_val"][1]]
            d["axis_txt"], d["axis_val"] = " ".join(str(v) for v in ax2), ("VOk", ax2)
        elif which >= 2 and d["lim_val"] is not None and all(v[0] == "ARad" for v in d["lim_val"]) and not d["lim_txt"][0].startswith("$"):
            lo_, hi_ = float(d["lim_txt"][0]), float(d["lim_txt"][1])
            if which == 2:
                lo_ = round(lo_ - 0.25, 3)
            else:
                hi_ = round(hi_ + 0.25, 3)
            d["lim_txt"], d["lim_val"] = (repr(lo_), repr(hi_)), (("ARad", dec(lo_)), ("ARad", dec(hi_)))
        else:
            d["vec"] = (0.123, 0, 0)
        extra = [d]
    fixed = {"name": "tool0_fixed", "vec": (0, 0, 0.1), "axis_txt": None, "axis_val": None, "lim_txt": None, "lim_val": None}

    def jxml(j, ind):
        s = f'{ind}<joint name="{j["name"]}" type="revolute">\n'
        if not (j["vec"] == (0, 0, 0) and rng.random() < 0.3):
            s += f'{ind}  <origin xyz="{" ".join(num(rng, v) for v in j["vec"])}" rpy="0 0 0"/>\n'
            j["_origin"] = True
        else:
            j["_origin"] = False
        s += f'{ind}  <parent link="a"/>\n{ind}  <child link="b"/>\n'
        if j["axis_txt"] is not None:
            s += f'{ind}  <axis xyz="{j["axis_txt"]}"/>\n'
        if j["lim_txt"] is not None:
            s += f'{ind}  <limit lower="{j["lim_txt"][0]}" upper="{j["lim_txt"][1]}" effort="0" velocity="1"/>\n'
        return s + f"{ind}</joint>\n"

    def jlit(j):
        o = "None" if not j["_origin"] else "(Some (VOk " + " ".join(C.qlit(dec(v)) for v in j["vec"]) + "))"
        a = "None" if j["axis_val"] is None else "(Some (VOk " + " ".join(C.qlit(Fraction(v)) for v in j["axis_val"][1]) + "))"
        if j["lim_val"] is None:
            l = "None"
        else:
            f = lambda v: f"(ARad {C.qlit(v[1])})" if v[0] == "ARad" else "ABadAngle"
            l = f"(Some ({f(j['lim_val'][0])}, {f(j['lim_val'][1])}))"
        return f'(XJoint "{j["name"]}" {o} {a} {l} [])'

    seq = [joints[i] for i in order] + extra + ([fixed] if rng.random() < 0.5 else [])
    text = ""
    if names:
        text += "<!-- names: " + ",".join(names) + " -->\n"
    text += '<robot name="r" xmlns:xacro="http://wiki.ros.org/xacro">\n  <link name="base"/>\n'
    lits = ["(XOther [])"]
    nest = k % 5 == 2
    if nest:
        text += '  <xacro:macro name="m" params="prefix">\n    <group>\n'
    inner = []
    for j in seq:
        text += jxml(j, "      " if nest else "  ")
        inner.append(jlit(j))
        text += ("      " if nest else "  ") + '<link name="l"/>\n'
        inner.append("(XOther [])")
    if nest:
        text += "    </group>\n  </xacro:macro>\n"
        lits.append("(XOther [XOther [" + "; ".join(inner) + "]])")
    else:
        lits += inner
    text += "</robot>\n"
    tree = "(XOther [" + "; ".join(lits) + "])"
    if k % 17 == 12:
        cut = rng.randrange(len(text))
        text = text[:cut] if rng.random() < 0.5 else text[:cut] + "<<" + text[cut:]
        return text, None, names, "malformed", None
    # what the document means, read off the generator's own choices (independent of model and implementation)
    expected = None
    if kind in ("supported", "dup_identical"):
        expected = {"geom": [a1, a2, b, c1, c2, c3, c4],
                    "sg": [1 if j["axis_val"] is None else sum(j["axis_val"][1]) for j in joints],
                    "lim": [None if (j["lim_val"] is None or any(v[0] != "ARad" for v in j["lim_val"])) else (float(j["lim_val"][0][1]), float(j["lim_val"][1][1])) for j in joints],
                    "bad_angle": any(j["lim_val"] is not None and any(v[0] != "ARad" for v in j["lim_val"]) for j in joints)}
    return text, tree, names, kind, expected


def decode(zs):
    if zs[0] == 0:
        return ("err", zs[1])
    g = [C.unq(zs, 1 + 2 * i) for i in range(7)]
    sg = zs[15:21]
    fr = [C.unq(zs, 21 + 2 * i) for i in range(6)]
    to = [C.unq(zs, 33 + 2 * i) for i in range(6)]
    return ("ok", g, sg, fr, to, zs[45])


def same(b, m):
    if b["outcome"] == "err":
        code = 1 if b["msg"].startswith("XmlProcessingError") else 2
        return m[0] == "err" and m[1] == code
    if b["outcome"] != "ok" or m[0] != "ok":
        return False
    return (all(C.close(C.f64(h), q, 1e-12) for h, q in zip(b["geom"], m[1])) and list(b["sg"]) == list(m[2])
            and all(C.close(C.f64(h), q, 1e-12) for h, q in zip(b["from"], m[3])) and all(C.close(C.f64(h), q, 1e-12) for h, q in zip(b["to"], m[4]))
            and b["dof"] == m[5])


def correspondence(tier, seed, n=None):
    rng = random.Random(seed * 104729 + 20)
    nd = n or (4000 if tier == "thorough" else 500)
    d = tempfile.mkdtemp(prefix="vh_c20_")
    docs, expd = [], []
    try:
        for k in range(nd):
            text, tree, names, kind, exp = gen_doc(rng, k)
            open(f"{d}/d{k:05d}.urdf", "w").write(text)
            docs.append((tree, names, kind))
            expd.append((exp, text))
        recs = [r for r in C.run_harness(["C20files", d]) if r.get("what") == "file"]
        # decorated names through the Rust simplifier
        namelist = []
        for p in ["", "${prefix}", "${robot_name}_", "robot_", "my.arm-", "Left_", "${a}${b}", "fanuc_m10ia_", "r2_"]:
            for s in ["joint", "joint_", "JOINT_", "Joint-", "joint.", "JOINT", "joint_a", "joint__"]:
                for dg in "123456":
                    for x in ["", "!", "_", "-"]:
                        namelist.append(p + s + dg + x)
        namelist += ["abc", "tool0", "joint_6-tool0", "flange", "JOINT-7x", "${prefix}base_link-joint_1_2"]
        open(f"{d}/names.txt", "w").write("\n".join(namelist) + "\n")
        nrecs = [r for r in C.run_harness(["C20names", f"{d}/names.txt"]) if r.get("what") == "name"]
    finally:
        shutil.rmtree(d, ignore_errors=True)
    failures, dis, compared, distinct = [], [], 0, 0
    dist = collections.Counter()
    exprs, sel = [], []
    for r, (tree, names, kind), (exp, text) in zip(recs, docs, expd):
        b = r["back"]
        dist[f"{kind}:{b['outcome']}"] += 1
        if exp and not exp["bad_angle"] and b["outcome"] == "ok":
            why = None
            if any(abs(C.f64(h) - e) > 1e-9 for h, e in zip(b["geom"], exp["geom"])):
                why = "C20.parameter_misread"
            elif list(b["sg"]) != exp["sg"]:
                why = "C20.axis_sign_misread"
            elif any(l is not None and (abs(C.f64(b["from"][i]) - l[0]) > 1e-9 or abs(C.f64(b["to"][i]) - l[1]) > 1e-9) for i, l in enumerate(exp["lim"])):
                why = "C20.limit_misread"
            if why:
                failures.append({"prop": "C20", "direct": "fail", "class": why, "document": text, "expected": exp,
                                 "back": {k_: ([C.f64(h) for h in b[k_]] if k_ in ("geom", "from", "to") else b[k_]) for k_ in ("geom", "sg", "from", "to")}})
        if b["outcome"] == "panic":
            failures.append({"prop": "C20", "direct": "fail", "class": "C20.extraction_panics", "file": r["file"], "kind": kind, "msg": b["msg"]})
            continue
        if kind == "malformed":
            continue
        if kind == "supported" and b["outcome"] != "ok":
            failures.append({"prop": "C20", "direct": "fail", "class": "C20.supported_description_rejected", "kind": kind, "msg": b["msg"], "tree": tree})
        if kind == "missing" and b["outcome"] == "ok":
            failures.append({"prop": "C20", "direct": "fail", "class": "C20.missing_joint_accepted", "tree": tree})
        if kind == "dup_conflict" and b["outcome"] == "ok":
            failures.append({"prop": "C20", "direct": "fail", "class": "C20.conflicting_duplicate_accepted", "tree": tree})
        if b["outcome"] == "ok":
            # joints extracted without limits must be unconstrained in the resulting solver
            for i in range(6):
                if C.f64(b["from"][i]) == C.f64(b["to"][i]) and not b["accepts_shifted"][i]:
                    failures.append({"prop": "C20", "direct": "fail", "class": "C20.joint_without_limits_is_constrained", "tree": tree})
                    break
        nm = "None" if names is None else "(Some [" + "; ".join(f'"{x}"' for x in names) + "])"
        exprs.append(f"run_urdf {nm} {tree}")
        sel.append((r, kind, tree))
    outs = C.coq_eval("c20", "From VF Require Import Model.Urdf Exec.Urdf.\nOpen Scope string_scope.\nOpen Scope list_scope.", exprs, shard=40)
    for (r, kind, tree), zs in zip(sel, outs):
        if same(r["back"], decode(zs)):
            compared += 1
            if r["back"]["outcome"] == "ok":
                distinct += 1
        else:
            dis.append({"why": f"{kind}: model {zs[:3]}.., implementation {r['back']}", "record": {"tree": tree, "back": r["back"]}})
    # names
    nout = C.coq_eval("c20n", "From VF Require Import Exec.Urdf.\nOpen Scope string_scope.",
                      [f'[Z.of_nat (String.length (run_name "{x}"))]' for x in []], shard=100) if False else None
    import subprocess
    src = ("From Coq Require Import String List.\nFrom VF Require Import Exec.Urdf.\nImport ListNotations.\nOpen Scope string_scope.\n"
           "Definition names := [" + "; ".join('"' + x + '"' for x in namelist) + "].\nSet Printing Depth 1000000.\nSet Printing Width 100000.\n"
           "Eval vm_compute in map run_name names.\n")
    os.makedirs(C.CASES, exist_ok=True)
    open(f"{C.CASES}/c20names.v", "w").write(src)
    rc, out = C.sh(["coqc", "-noglob", "-Q", C.COQ, "VF", f"{C.CASES}/c20names.v"], timeout=600)
    if rc != 0:
        raise C.Broken("model-eval:c20names", out[-1500:])
    model_names = re.findall(r'"((?:[^"]|"")*)"', out[out.index("="):])
    if len(model_names) != len(namelist):
        raise C.Broken("model-eval-parse:c20names", f"{len(model_names)} vs {len(namelist)}")
    for nr, mn in zip(nrecs, model_names):
        dist["name"] += 1
        if nr["out"] == mn:
            compared += 1
        else:
            dis.append({"why": f"name simplifier: model {mn!r}, implementation {nr['out']!r} for {nr['name']!r}", "record": nr})
    samples = [{"kind": k_, "outcome": r["back"]["outcome"], "tree": t[:300]} for (r, k_, t) in sel[:3]]
    return {"evaluations": len(recs) + len(nrecs), "compared": compared, "undecided": 0, "disagreements": dis, "failures": failures,
            "samples": samples, "distribution": dict(dist), "distinct_nontrivial": distinct}


def search(tier, seed, res):
    out = correspondence(tier, seed + 1000, 3000)
    return out["failures"]
