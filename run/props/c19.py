"""C19 — parameter YAML round-trips and every documented syntax variant parses."""
import collections, math, os, random, re, shutil, tempfile
from fractions import Fraction
import common as C

ID = "C19"
# files this check also depends on (the quick tier runs at the thorough sizes when one of them differs from the fingerprinted tree)
EXTRA_FILES = ['src/utils/utils.rs']
COQ_TARGETS = ["Exec/Yaml.vo", "Properties/C19.vo"]
THEOREMS = ["C19_yaml_roundtrip", "C19_empty_is_error", "C19_int_or_real", "C19_deg_or_radians", "C19_five_entries_padded", "C19_dof_either_place"]
LEVEL_TEXT = ("Coq theorems for every parameter set over the rationals (any lengths incl. integral/negative, any offsets, signs, dof 5/6, any pi>0): "
              "the document tree printed by to_yaml parses back to the same geometry, signs and dof with offsets within 0.00005 degrees; the "
              "reader is a total function (no panic outcome exists; the empty document list is an error value); integer/real, deg()/radian, "
              "5/6-entry and nested/top-level dof variants are read as documented")
LEVEL_NOTE = ("hand-written model of to_yaml / from_yaml_file at the level of yaml-rust2's document tree over Q; the text<->tree step (yaml-rust2, "
              "f64 decimal printing/parsing, the deg(...) string matcher) is outside the model and is corresponded: (a) the tree the "
              "implementation prints (re-parsed with yaml-rust2 in the harness) must equal the model's tree, (b) generated syntax variants and "
              "malformed documents are parsed by both and the results compared; arbitrary-bytes no-panic is a sweep")
TECHNIQUE = "Coq proof over Q of a hand-written document-tree model + vm_compute correspondence on printed and generated documents"
RULE = ("round-trip: random parameter sets (integral, dyadic, 3-decimal lengths, 4-decimal-degree offsets, dof 5/6); variants: generated YAML "
        "with ints/reals, deg()/radians/quoted numbers, 5/6/4/7 entries, nested/top-level/missing dof, missing keys, wrong node kinds, "
        "empty documents; fuzz: random/structured bytes; non-trivial = variant files that parse to Ok; distinct = distinct documents")
EXPLANATION = LEVEL_NOTE
ASSUMPTIONS = ["decimal literals with <= 15 significant digits denote themselves (f64 print/parse is the identity on them)",
               "'{:.4}' modelled as round-half-up (ties do not occur in the generated data)"]
PARTIAL = ["arbitrary byte strings: sweep only (support, not proof)"]
FLOAT_RE = re.compile(r"^[+-]?(\d+\.?\d*([eE][+-]?\d+)?|\.\d+([eE][+-]?\d+)?)$")


def dec(s):
    return Fraction(s)


def sval(s):
    m = re.fullmatch(r"deg\((.*)\)", s)
    if m and FLOAT_RE.match(m.group(1).strip()):
        return f"(YStr (SDeg {C.qlit(dec(m.group(1).strip()))}))"
    if FLOAT_RE.match(s):
        return f"(YStr (SNum {C.qlit(dec(s))}))"
    return "(YStr SOther)"


def ylit(t):
    if isinstance(t, str):
        return "YBad"
    if "int" in t:
        return f"(YInt ({t['int']}))"
    if "real" in t:
        return f"(YReal {C.qlit(dec(t['real']))})" if FLOAT_RE.match(t["real"]) else "YRealBad"
    if "str" in t:
        return sval(t["str"])
    if "arr" in t:
        return "(YArr [" + "; ".join(ylit(x) for x in t["arr"]) + "])"
    if "map" in t:
        kv = []
        for k, v in t["map"]:
            if "str" in k:
                kv.append(f'("{k["str"]}"%string, {ylit(v)})')
        return "(YMap [" + "; ".join(kv) + "])"
    if "null" in t:
        return "YNull"
    return "YBad"


def decode(zs):
    if zs[0] == 0:
        return ("err", zs[1])
    g = [C.unq(zs, 1 + 2 * i) for i in range(7)]
    o = [C.unq(zs, 15 + 2 * i) for i in range(6)]
    sg = zs[27:33]
    return ("ok", g, o, sg, zs[33])


ERR = {"ParseError": 1, "MissingField": 2, "InvalidLength": 3, "IoError": 9, "WrongAngle": 1}


def same(back, m):
    if back["outcome"] == "panic":
        return False
    if back["outcome"] == "err":
        code = next((v for k, v in ERR.items() if back["msg"].startswith(k)), 0)
        return m[0] == "err" and m[1] == code
    if m[0] != "ok":
        return False
    g = [C.f64(h) for h in back["geom"]]
    o = [C.f64(h) for h in back["off"]]
    return (all(C.close(a, b, 1e-12) for a, b in zip(g, m[1])) and all(C.close(a, b, 1e-12) for a, b in zip(o, m[2]))
            and list(back["sg"]) == list(m[3]) and back["dof"] == m[4])


def gen_variant(rng, k):
    """returns (YAML text of a (mostly valid) document in one of the documented syntaxes, what it means or None when a defect was injected)"""
    clean = True
    def num(x):
        c = rng.randrange(4)
        if x == int(x) and c == 0:
            return str(int(x))
        if x == int(x) and c == 1:
            return f"{int(x)}.0"
        return repr(x)
    def length():
        u = rng.random()
        if u < 0.12:                                        # small is not zero: fractions of a millimetre down to nanometres
            return round(rng.uniform(-1, 1) * 10 ** -rng.randint(3, 8), 10)
        return round(rng.uniform(-2, 2), 3) if u < 0.75 else float(rng.randint(-2, 2))
    geom = {k_: length() for k_ in ["a1", "a2", "b", "c1", "c2", "c3", "c4"]}
    lines = ["opw_kinematics_geometric_parameters:"]
    keys = list(geom)
    if k % 11 == 3:
        keys.remove(rng.choice(keys))                       # missing field
        clean = False
    rng.shuffle(keys)
    for kk in keys:
        v = num(geom[kk])
        if k % 13 == 5 and kk == keys[0]:
            v = rng.choice(["abc", "[1]", "~", "true"])      # wrong node kind
            clean = False
        lines.append(f"  {kk}: {v}")
    dof = rng.choice([5, 6, 6, None])
    place = rng.choice(["nested", "top"])
    if dof is not None and place == "nested":
        lines.append(f"  dof: {dof}")
    n = rng.choice([6, 6, 6, 5, 4, 7]) if k % 7 == 2 else rng.choice([6, 5])
    offs, offv = [], []
    if n not in (5, 6):
        clean = False
    for _ in range(n):
        d = round(rng.uniform(-180, 180), rng.choice([0, 1, 4]))
        c = rng.randrange(6)
        if c == 5 and not (k % 5):
            clean = False
        offs.append(["0", f"deg({d})", f"deg( {d} )", repr(round(math.radians(d), 6)), str(int(d)), rng.choice(["xyz", "deg(abc)", f"'{d}'"])][c] if not (c == 5 and k % 5) else "0.0")
        # plain numbers (integer or real) are radians; deg(..) is degrees
        offv.append([0.0, math.radians(d), math.radians(d), round(math.radians(d), 6), float(int(d)), None][c] if not (c == 5 and k % 5) else 0.0)
    if k % 17 != 4:
        lines.append("opw_kinematics_joint_offsets: [" + ", ".join(offs) + "]")
    else:
        offv = [0.0] * 6
    m = rng.choice([6, 5]) if k % 7 != 6 else rng.choice([3, 8, 6])
    sg = [str(rng.choice([1, -1])) for _ in range(m)]
    sgv = [int(x) for x in sg]
    if m not in (5, 6):
        clean = False
    if k % 19 == 7:
        sg[0] = rng.choice(["1.5", "x", "[1]"])
        clean = False
    if k % 23 != 9:
        lines.append("opw_kinematics_joint_sign_corrections: [" + ", ".join(sg) + "]")
    else:
        sgv = [1] * 6
    if dof is not None and place == "top":
        lines.append(f"dof: {dof}")
    text = "\n".join(lines) + "\n"
    if k % 29 == 11:
        text = rng.choice(["", "# only a comment\n", "- 1\n- 2\n", "42\n", "opw_kinematics_geometric_parameters: 3\n"])
        clean = False
    expected = None
    if clean:
        dofv = dof if dof is not None else 6
        sgv = (sgv + [0])[:6] if len(sgv) == 5 else sgv
        if dofv == 5:
            sgv = sgv[:5] + [0]
        expected = {"geom": [geom[x] for x in ["a1", "a2", "b", "c1", "c2", "c3", "c4"]], "off": (offv + [0.0])[:6] if len(offv) == 5 else offv, "sg": sgv, "dof": dofv}
    return text, expected


def variant_oracle(frecs, expected, texts):
    """independent reading of the generated documents: a document written in a documented syntax must parse to the values it spells"""
    out = []
    for r in frecs:
        name = os.path.basename(r["file"])
        exp = expected.get(name)
        if not exp:
            continue
        b = r["back"]
        why = None
        if b["outcome"] != "ok":
            why = "C19.valid_variant_rejected"
        else:
            g = [C.f64(h) for h in b["geom"]]; o = [C.f64(h) for h in b["off"]]
            if any(abs(a - e) > 1e-12 for a, e in zip(g, exp["geom"])):
                why = "C19.variant_geometry_misread"
            elif any(abs(a - e) > 1e-9 for a, e in zip(o, exp["off"])):
                why = "C19.variant_offset_misread"
            elif list(b["sg"]) != exp["sg"]:
                why = "C19.variant_signs_misread"
            elif b["dof"] != exp["dof"]:
                why = "C19.variant_dof_misread"
        if why:
            out.append({"prop": "C19", "class": why, "direct": "fail", "document": texts[name], "expected": exp, "back": b})
    return out


def correspondence(tier, seed, n=None):
    recs = C.run_harness(["C19", tier, seed] + ([n] if n else []))
    failures = [r for r in recs if r.get("direct") == "fail"]
    rts = [r for r in recs if r.get("what") == "roundtrip"]
    dis, compared, distinct = [], 0, 0
    dist = collections.Counter()
    # (a) printed tree = model tree, model parse of it = implementation parse
    sel = rts[: (2000 if tier == "thorough" else 300)]
    exprs = []
    for r in sel:
        g = C.qlist([Fraction(repr(C.f64(h))) for h in r["geom"]])
        off = C.qlist([C.frac(h) for h in r["off"]])
        tree = ylit(r["tree"][0]) if r["tree"] else "YBad"
        exprs.append(f"run_to {g} {off} {C.zlist(r['sg'])} ({r['dof']})%Z {tree}")
    outs = C.coq_eval("c19a", "From VF Require Import Model.Yaml Exec.Yaml.\nOpen Scope string_scope.\nOpen Scope list_scope.", exprs, shard=40)
    for r, zs in zip(sel, outs):
        dist["roundtrip"] += 1
        if zs[0] != 1:
            dis.append({"why": "the document printed by to_yaml differs from the model's document tree", "record": {k: r[k] for k in ("case", "geom", "off", "sg", "dof", "tree")}})
        elif not same(r["back"], decode(zs[1:])):
            dis.append({"why": f"round trip: model parse {zs[1:5]}.. vs implementation {r['back']['outcome']}", "record": {k: r[k] for k in ("case", "geom", "off", "sg", "dof", "back")}})
        else:
            compared += 1
    # (b) generated variants
    rng = random.Random(seed * 7919 + 19)
    d = tempfile.mkdtemp(prefix="vh_c19_")
    try:
        nv = 3000 if tier == "thorough" else 400
        expected, texts = {}, {}
        for k in range(nv):
            text, exp = gen_variant(rng, k)
            open(f"{d}/v{k:05d}.yaml", "w").write(text)
            expected[f"v{k:05d}.yaml"], texts[f"v{k:05d}.yaml"] = exp, text
        frecs = [r for r in C.run_harness(["C19files", d]) if r.get("what") == "file"]
        failures += variant_oracle(frecs, expected, texts)
        dist["variant_documents_with_known_meaning"] = len([e for e in expected.values() if e])
    finally:
        shutil.rmtree(d, ignore_errors=True)
    exprs = ["run_from [" + "; ".join(ylit(t) for t in r["tree"]) + "]" if not isinstance(r["tree"], str) else "run_from []" for r in frecs]
    outs = C.coq_eval("c19b", "From VF Require Import Model.Yaml Exec.Yaml.\nOpen Scope string_scope.\nOpen Scope list_scope.", exprs, shard=50)
    for r, zs in zip(frecs, outs):
        b = r["back"]
        dist["variant:" + b["outcome"]] += 1
        if b["outcome"] == "panic":
            failures.append({"prop": "C19", "class": "C19.document_panics", "direct": "fail", "file_tree": r["tree"], "msg": b["msg"]})
            continue
        if isinstance(r["tree"], list) and any(isinstance(t, str) for t in r["tree"]):
            continue
        if same(b, decode(zs)):
            compared += 1
            if b["outcome"] == "ok":
                distinct += 1
        else:
            dis.append({"why": f"variant document: model {zs[:3]}.., implementation {b}", "record": {"tree": r["tree"], "back": b}})
    samples = [{"geom": [C.f64(h) for h in r["geom"]], "dof": r["dof"], "back": r["back"]["outcome"]} for r in rts[:2]]
    samples += [{"variant_tree": r["tree"], "outcome": r["back"]["outcome"]} for r in frecs[:2]]
    return {"evaluations": len(recs) + len(frecs), "compared": compared, "undecided": 0, "disagreements": dis, "failures": failures,
            "samples": samples, "distribution": dict(dist), "distinct_nontrivial": distinct}


def search(tier, seed, res):
    recs = C.run_harness(["C19", tier, seed + 1000, 20000])
    out = [r for r in recs if r.get("direct") == "fail"]
    if not out:
        rng = random.Random(seed * 104729 + 7)
        d = tempfile.mkdtemp(prefix="vh_c19s_")
        try:
            expected, texts = {}, {}
            for k in range(4000):
                text, exp = gen_variant(rng, k)
                open(f"{d}/v{k:05d}.yaml", "w").write(text)
                expected[f"v{k:05d}.yaml"], texts[f"v{k:05d}.yaml"] = exp, text
            frecs = [r for r in C.run_harness(["C19files", d]) if r.get("what") == "file"]
            out = variant_oracle(frecs, expected, texts)
        finally:
            shutil.rmtree(d, ignore_errors=True)
    return out
