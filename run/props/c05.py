"""C05 — wrist singularity detection and J4/J6 continuity."""
from props import _ikcommon as K
ID = "C05"
COQ_TARGETS = ["Exec/Kin.vo", "Gen/Consts.vo", "Properties/C05.vo"]
THEOREMS = ["C05_singular_iff_band", "C05_recovered_moves_equally", "C05_flag_iff_axes", "C05_collinear_is_singular",
            "C05_candidate_restores_previous", "C05_candidate_fixpoint", "C05_first_is_previous"]
LEVEL_TEXT = ("Coq theorems: a configuration is reported singular iff the model angle of J5 (sign, offset applied) lies strictly within "
              "the threshold of a multiple of pi, on either side (all reals, any period); the recovered candidate moves J4 and J6 by "
              "the same amount in model angles for any +-1 sign convention; geometric meaning on the link frames generated from "
              "forward_with_joint_poses: flagged <=> sine of the angle between the z axes of link frames 4 and 6 < sin(threshold), for "
              "every parameter set / sign / offset; the recovered candidate equals the previous vector when the singular kernel row has "
              "the previous arm angles, J5 and a congruent wrist sum, and the previous vector, once among the raw answers, is the first "
              "answer of inverse_continuing (unweighted cost) for every kernel / FK verdict")
LEVEL_NOTE = K.NOTE + "; the robustness of the 0.125 um shift is numeric and is decided by the oracle search on well-conditioned postures"
TECHNIQUE = K.TECH
RULE = ("KIN function records (is_close_to_multiple_of_pi, are_angles_close, kinematic_singularity with J5 at n*pi +- {0.3..30} thr, "
        "all sign/offset conventions) and entry-1 records on J5=0 / J5=pi poses with perturbed J4/J6; oracle: angle between axes 4 and 6 "
        "from the independent link chain vs the report; continuity: first answer equals previous on J5=0 poses")
EXPLANATION = "see LEVEL_NOTE"
ASSUMPTIONS = K.ASSUME
PARTIAL = ["'first continuation answer equals the previous joints': proved conditionally (the kernel row at the shifted pose has the previous arm angles and a congruent wrist sum; "
           "the candidate passes the pose check); that the f64 re-solve of a pose shifted by 0.125 um meets those conditions within tolerance is numeric conditioning: oracle search only"]
correspondence, search = K.make("C05", lambda r: r["fn"] in ("is_close_to_multiple_of_pi", "are_angles_close", "kinematic_singularity")
                                or (r["fn"] == "entry" and r["entry"] == 1 and r["kind"] in ("Sing0", "SingPi")))
