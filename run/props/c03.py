"""C03 — forward kinematics equals the OPW link chain."""
import collections
import common as C

ID = "C03"
COQ_TARGETS = ["Gen/Forward.vo", "Properties/C03.vo"]
THEOREMS = ["C03_fwd_eq_spec", "C03_chain_eq_spec", "C03_chain_last_is_fwd", "C03_chain_prefix",
            "C03_origin_offsets", "C03_chain_proper", "C03_fwd_proper", "C03_fwd_periodic"]
LEVEL_TEXT = ("Coq theorems for every parameter set and every real joint vector about models of forward() and "
              "forward_with_joint_poses() that are re-translated from src/kinematics_impl.rs on every run: closed form = product of the "
              "six elementary OPW transforms (ring identities in sin/cos), per-link poses = partial products, prefix dependence, "
              "origin offsets, proper rotations")
LEVEL_NOTE = ("trusted: translator run/rs2v.py (validated on every run by Interval-certified spot checks of the generated R "
              "expressions against values the implementation returned), nalgebra quaternion<->matrix conversion, f64 rounding")
TECHNIQUE = "Coq proof (ring/nsatz over R) about a model regenerated from the Rust source by a translator; Interval spot checks"
RULE = ("random OPW parameter sets (b != 0, zero/negative a1,a2, c4 = 0, all sign patterns, offsets) and 4 catalogue robots x joint "
        "vectors with |q| up to 100 rad; non-trivial = parameters with at least one offset or negative sign or b != 0; "
        "distinct = distinct (params, joints)")
EXPLANATION = ("the generated model IS the code (translator tie); spot checks prove |model(x) - rust(x)| <= 1e-9 inside Coq for "
               "sampled x; an independent f64 link-chain oracle searches for concrete failing inputs")
ASSUMPTIONS = ["pose rotation modelled as its rotation matrix (nalgebra UnitQuaternion conversions trusted, exercised by spot checks)"]
TRUSTED_EXTRA = ["coq-interval (Interval.Tactic) for the certified spot checks; uses vm_compute reflection"]


def spot_file(r):
    src = C.SPOT_PRELUDE + "From VF Require Import Gen.Forward.\n"
    src += "Definition p0 := " + C.params_lit(r["params"]) + ".\n"
    src += "Definition j0 := mkJ6 " + " ".join(C.rlit(C.frac(h)) for h in r["j"]) + ".\n"
    src += f"Ltac spot := cbv [fwd chain p0 j0 {C.PROJ}]; a2; interval with (i_prec 90).\n"
    n = 0
    import math
    scale = 1 + max(abs(C.f64(h)) for h in r["j"])
    tol = f"({int(math.ceil(scale))}/1000000000)"
    for nm, v in zip(C.ISO_FIELDS, r["fwd"]):
        src += f"Goal Rabs ({nm} (fwd p0 j0)) - {C.rlit(C.frac(v))}) <= {tol}. Proof. spot. Qed.\n"
        n += 1
    for li in (3, 6):
        for nm, v in zip(C.ISO_FIELDS, r[f"link{li}"]):
            src += f"Goal Rabs ({nm} (List.nth {li-1} (chain p0 j0) iid)) - {C.rlit(C.frac(v))}) <= {tol}. Proof. spot. Qed.\n"
            n += 1
    return src, n


def correspondence(tier, seed, n=None):
    recs = C.run_harness(["C03", tier, seed] + ([n] if n else []))
    cases = [r for r in recs if "fwd" in r]
    failures = [r for r in recs if r.get("direct") == "fail"]
    nspot = 48 if tier == "thorough" else 16
    step = max(1, len(cases) // nspot)
    chosen = cases[::step][:nspot]
    res = C.coq_spot("spot_c03", [spot_file(r) for r in chosen])
    dis = []
    goals = 0
    for (idx, fail), r in zip(res, chosen):
        goals += 36
        if fail:
            dis.append({"why": f"certified spot check failed (goal at line {fail['line']}): generated model and implementation differ by more than 1e-9",
                        "record": {k: r[k] for k in ("params", "j", "fwd", "case")}, "log": fail["log"][-600:]})
    dist = collections.Counter()
    distinct = set()
    for r in cases:
        P = r["params"]
        nontriv = any(s < 0 for s in P["sg"]) or any(C.f64(h) != 0 for h in P["off"]) or C.f64(P["geom"][2]) != 0
        dist["nontrivial_params" if nontriv else "plain_params"] += 1
        big = max(abs(C.f64(h)) for h in r["j"])
        dist["|q|>2pi" if big > 6.3 else "|q|<=2pi"] += 1
        if nontriv:
            distinct.add((tuple(P["geom"]), tuple(P["off"]), tuple(P["sg"]), tuple(r["j"])))
    samples = [{"params": {"geom": [C.f64(h) for h in r["params"]["geom"]], "off": [C.f64(h) for h in r["params"]["off"]], "sg": r["params"]["sg"]},
                "j": [C.f64(h) for h in r["j"]], "fwd_translation": [C.f64(h) for h in r["fwd"][9:]]} for r in cases[1:4]]
    return {"evaluations": len(cases), "compared": len(chosen), "undecided": 0, "disagreements": dis, "failures": failures,
            "samples": samples, "distribution": dict(dist, spot_goals=goals), "distinct_nontrivial": len(distinct)}


def search(tier, seed, res):
    out = []
    for s in range(3):
        recs = C.run_harness(["C03", tier, seed + 1000 + s, 100000])
        out += [r for r in recs if r.get("direct") == "fail"]
        if out:
            break
    return out
