"""C15 — Jacobian equals the geometric one."""
from props import _gencommon as G
import common as C
ID = "C15"
COQ_TARGETS = ["Gen/Forward.vo", "Proofs/JacobianFD.vo", "Properties/C15.vo"]
THEOREMS = ["C15_position_column", "C15_position_column_base", "C15_rotation_column", "C15_fd_bound"]
LEVEL_TEXT = ("Coq theorems (Coquelicot derivatives) for every parameter set, sign/offset convention, joint vector, joint index, coordinate and "
              "tool offset, about forward kinematics regenerated from the source: the derivative of the tool point w.r.t. joint i is "
              "sign_i * (axis_i x (point - origin_i)) with axis/origin taken from the per-link poses, also behind any base transform; perturbing "
              "joint i by e rotates the flange about that axis by sign_i*e exactly, so the rotation-log column has no truncation error; "
              "the forward-difference quotient of any coordinate of the tool point differs from the geometric column by at most |e| times "
              "the lever arm for every step |e| <= 1 (C15_fd_bound)")
LEVEL_NOTE = (G.NOTE + "; compute_jacobian itself is tied by certified spot checks: Coq proves with Interval that every entry of the matrix the "
              "implementation built is within eps * reach of the geometric column of the generated FK; nalgebra's scaled_axis / try_inverse / "
              "SVD are not modelled: the harness also compares Jacobian::new column by column with the geometric Jacobian of the independent link chain within "
              "5*eps*reach, and checks J*v = x (cond < 1e4), torques = J^T F and the agreement of the isometry/vector entry points")
TECHNIQUE = "Coq proof (Coquelicot auto_derive + ring, matrix algebra) about generated FK; harness comparison of the finite-difference Jacobian"
RULE = ("random robots (signs, offsets, b != 0) x joint vectors x eps in {1e-7,1e-6,3e-6,1e-5} x {bare, tool, base, base+tool} x random twists/"
        "wrenches; non-trivial = robots with a wrapper or a sign/offset; distinct = distinct cases")
EXPLANATION = LEVEL_NOTE
ASSUMPTIONS = ["nalgebra's scaled_axis of an axis-angle rotation is angle * axis (rotation rows)"]
PARTIAL = ["velocities (inverse / pseudo-inverse), torques (transpose) and the isometry-to-vector conversion: oracle only"]
TRUSTED_EXTRA = ["Coquelicot (real analysis library; its axioms are those of the Reals standard library)"]
_corr, search = G.make("C15", sample_keys=("case", "eps", "wrappers", "diff", "tol", "cond", "direct"))


def spot_file(r):
    """Coq certifies (Interval) that every entry of the Jacobian the implementation built is within eps * (lever arm bound) of the
    geometric column of the GENERATED forward kinematics -- the column C15_position_column / C15_rotation_column / C15_fd_bound are about"""
    import math
    P = r["robot"]["params"]
    eps = C.f64(r["eps"])
    src = C.SPOT_PRELUDE + "From VF Require Import Base.Num Gen.Forward Proofs.ForwardP Proofs.JacobianP.\n"
    src += "Definition p0 := " + C.params_lit(P) + ".\n"
    src += "Definition j0 := mkJ6 " + " ".join(C.rlit(C.frac(h)) for h in r["q"]) + ".\n"
    src += "Definition t0 := mkV3 0 0 0.\n"
    src += (f"Ltac spot := cbv [geo_col tip sgn local_axis vcoord ez ey iapp mapp vcross vsub vscale vadd fwd chain iid I3 p0 j0 t0 {C.PROJ}]; "
            "a2; interval with (i_prec 90).\n")
    g = [C.f64(h) for h in P["geom"]]
    reach = sum(abs(x) for x in g) + 1.0
    tol_p = C.rlit(C.Fraction(int(math.ceil((eps * reach + 1e-8 + 4e-10 / eps) * 1e9)), 10 ** 9))
    tol_r = C.rlit(C.Fraction(int(math.ceil((1e-8 + 4e-10 / eps) * 1e9)), 10 ** 9))
    n = 0
    for i in range(6):
        for k in range(3):
            v = C.rlit(C.frac(r["jac"][k][i]))
            src += f"Goal Rabs (vcoord {k} (geo_col p0 t0 j0 {i}) - {v}) <= {tol_p}. Proof. spot. Qed.\n"
            w = C.rlit(C.frac(r["jac"][3 + k][i]))
            src += (f"Goal Rabs (vcoord {k} (vscale (sgn p0 {i}) (mapp (rot (List.nth {i} (chain p0 j0) iid)) (local_axis {i}))) - {w}) <= {tol_r}. "
                    "Proof. spot. Qed.\n")
            n += 2
    return src, n


def correspondence(tier, seed, n=None):
    res = _corr(tier, seed, n)
    recs = C.run_harness(["C15", tier, seed + 3, 400])
    cand = [r for r in recs if r.get("jac") and r.get("direct") is not None and max(abs(C.f64(h)) for h in r["q"]) < 7]
    nspot = 12 if tier == "thorough" else 3
    chosen = cand[:: max(1, len(cand) // nspot)][:nspot]
    out = C.coq_spot("spot_c15", [spot_file(r) for r in chosen])
    for (idx, fail), r in zip(out, chosen):
        if fail:
            res["disagreements"].append({"why": f"certified spot check failed (line {fail['line']}): the Jacobian the implementation built is not the geometric "
                                                "column of the generated forward kinematics within eps * reach",
                                         "record": {k: r[k] for k in ("case", "robot", "q", "eps", "jac")}, "log": fail["log"][-500:]})
        else:
            res["compared"] += 1
    res["distribution"]["jacobian_spot_goals"] = 36 * len(chosen)
    return res
