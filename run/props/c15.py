"""C15 — Jacobian equals the geometric one."""
from props import _gencommon as G
ID = "C15"
COQ_TARGETS = ["Gen/Forward.vo", "Properties/C15.vo"]
THEOREMS = ["C15_position_column", "C15_position_column_base", "C15_rotation_column"]
LEVEL_TEXT = ("Coq theorems (Coquelicot derivatives) for every parameter set, sign/offset convention, joint vector, joint index, coordinate and "
              "tool offset, about forward kinematics regenerated from the source: the derivative of the tool point w.r.t. joint i is "
              "sign_i * (axis_i x (point - origin_i)) with axis/origin taken from the per-link poses, also behind any base transform; perturbing "
              "joint i by e rotates the flange about that axis by sign_i*e exactly, so the rotation-log column has no truncation error")
LEVEL_NOTE = (G.NOTE + "; the finite-difference code of compute_jacobian, nalgebra's scaled_axis / try_inverse / SVD are not modelled: the "
              "harness compares Jacobian::new column by column with the geometric Jacobian of the independent link chain within "
              "5*eps*reach, and checks J*v = x (cond < 1e4), torques = J^T F and the agreement of the isometry/vector entry points")
TECHNIQUE = "Coq proof (Coquelicot auto_derive + ring, matrix algebra) about generated FK; harness comparison of the finite-difference Jacobian"
RULE = ("random robots (signs, offsets, b != 0) x joint vectors x eps in {1e-7,1e-6,3e-6,1e-5} x {bare, tool, base, base+tool} x random twists/"
        "wrenches; non-trivial = robots with a wrapper or a sign/offset; distinct = distinct cases")
EXPLANATION = LEVEL_NOTE
ASSUMPTIONS = ["forward-difference truncation error bound (eps * reach / 2) is checked numerically, not proved"]
PARTIAL = ["finite-difference error bound, velocities (inverse / pseudo-inverse) and torques (transpose): oracle only"]
TRUSTED_EXTRA = ["Coquelicot (real analysis library; its axioms are those of the Reals standard library)"]
correspondence, search = G.make("C15", sample_keys=("case", "eps", "wrappers", "diff", "tol", "cond", "direct"))
