"""C15 — Jacobian equals the geometric one."""
from props import _gencommon as G
import common as C
ID = "C15"
# files this check also depends on (the quick tier runs at the thorough sizes when one of them differs from the fingerprinted tree)
EXTRA_FILES = ['src/tool.rs']
COQ_TARGETS = ["Gen/Forward.vo", "Proofs/JacobianFD.vo", "Exec/JacUse.vo", "Properties/C15.vo"]
THEOREMS = ["C15_position_column", "C15_position_column_base", "C15_rotation_column", "C15_fd_bound",
            "C15_torques_virtual_work", "C15_torques_unit_row", "C15_torques_linear", "C15_velocities_reproduce", "C15_velocities_error_iff",
            "C15_entry_points_agree"]
LEVEL_TEXT = ("Coq theorems (Coquelicot derivatives) for every parameter set, sign/offset convention, joint vector, joint index, coordinate and "
              "tool offset, about forward kinematics regenerated from the source: the derivative of the tool point w.r.t. joint i is "
              "sign_i * (axis_i x (point - origin_i)) with axis/origin taken from the per-link poses, also behind any base transform; perturbing "
              "joint i by e rotates the flange about that axis by sign_i*e exactly, so the rotation-log column has no truncation error; "
              "the forward-difference quotient of any coordinate of the tool point differs from the geometric column by at most |e| times "
              "the lever arm for every step |e| <= 1 (C15_fd_bound); model of the uses of the matrix (velocities_from_vector with inverse / "
              "pseudo-inverse fallback, torques_from_vector, isometry and fixed entry points): torques do the wrench's virtual work on every joint "
              "velocity (J^T), are linear, read out the rows for unit wrenches; velocities reproduce the twist whenever try_inverse answers "
              "(contract: right inverse), an error only when neither inverse exists; entry points delegate")
LEVEL_NOTE = (G.NOTE + "; compute_jacobian itself is tied by certified spot checks: Coq proves with Interval that every entry of the matrix the "
              "implementation built is within eps * reach of the geometric column of the generated FK; nalgebra's scaled_axis / try_inverse / "
              "SVD are not modelled: the harness also compares Jacobian::new column by column with the geometric Jacobian of the independent link chain within "
              "5*eps*reach, and checks J*v = x (cond < 1e4), torques = J^T F and the agreement of the isometry/vector entry points")
TECHNIQUE = "Coq proof (Coquelicot auto_derive + ring, matrix algebra) about generated FK; harness comparison of the finite-difference Jacobian"
RULE = ("random robots (signs, offsets, b != 0) x joint vectors x eps in {1e-7,1e-6,3e-6,1e-5} x {bare, tool, base, base+tool} x random twists/"
        "wrenches; non-trivial = robots with a wrapper or a sign/offset; distinct = distinct cases")
EXPLANATION = LEVEL_NOTE
ASSUMPTIONS = ["nalgebra's scaled_axis of an axis-angle rotation is angle * axis (rotation rows)"]
PARTIAL = ["nalgebra's try_inverse / SVD pseudo-inverse and scaled_axis are oracle parameters of the model (their recorded answers are replayed at Q: "
           "J*Jinv*x = x within cond*1e-9 exactly evaluated); the pseudo-inverse branch (singular matrix) is exercised by the oracle only"]
TRUSTED_EXTRA = ["Coquelicot (real analysis library; its axioms are those of the Reals standard library)"]
_corr, search = G.make("C15", sample_keys=("case", "eps", "wrappers", "diff", "tol", "cond", "direct"))


def spot_file(r):
    """Coq certifies (Interval) that every entry of the Jacobian the implementation built is within eps * (lever arm bound) of the
    geometric column of the GENERATED forward kinematics -- the column C15_position_column / C15_rotation_column / C15_fd_bound are about"""
    import math
    P = r["robot"]["params"]
    eps = C.f64(r["eps"])
    src = C.SPOT_PRELUDE + "From VF Require Import Base.Num Gen.Forward Proofs.ForwardP Proofs.JacobianP.\n"
    src += "Definition p0 := " + C.params_lit(P) + ".\n"
    src += "Definition j0 := mkJ6 " + " ".join(C.rlit(C.frac(h)) for h in r["q"]) + ".\n"
    src += "Definition t0 := mkV3 0 0 0.\n"
    src += (f"Ltac spot := cbv [geo_col tip sgn local_axis vcoord ez ey iapp mapp vcross vsub vscale vadd fwd chain iid I3 p0 j0 t0 {C.PROJ}]; "
            "a2; interval with (i_prec 90).\n")
    g = [C.f64(h) for h in P["geom"]]
    reach = sum(abs(x) for x in g) + 1.0
    tol_p = C.rlit(C.Fraction(int(math.ceil((eps * reach + 1e-8 + 2e-13 / eps * reach) * 1e10)), 10 ** 10))
    tol_r = C.rlit(C.Fraction(int(math.ceil((1e-8 + 2e-13 / eps) * 1e10)), 10 ** 10))
    n = 0
    for i in range(6):
        for k in range(3):
            v = C.rlit(C.frac(r["jac"][k][i]))
            src += f"Goal Rabs (vcoord {k} (geo_col p0 t0 j0 {i}) - {v}) <= {tol_p}. Proof. spot. Qed.\n"
            w = C.rlit(C.frac(r["jac"][3 + k][i]))
            src += (f"Goal Rabs (vcoord {k} (vscale (sgn p0 {i}) (mapp (rot (List.nth {i} (chain p0 j0) iid)) (local_axis {i}))) - {w}) <= {tol_r}. "
                    "Proof. spot. Qed.\n")
            n += 2
    return src, n


def correspondence(tier, seed, n=None):
    res = _corr(tier, seed, n)
    recs = C.run_harness(["C15", tier, seed + 3, 400])
    cand = [r for r in recs if r.get("jac") and r.get("direct") is not None and max(abs(C.f64(h)) for h in r["q"]) < 7]
    nspot = 12 if tier == "thorough" else 3
    chosen = cand[:: max(1, len(cand) // nspot)][:nspot]
    out = C.coq_spot("spot_c15", [spot_file(r) for r in chosen])
    for (idx, fail), r in zip(out, chosen):
        if fail:
            res["disagreements"].append({"why": f"certified spot check failed (line {fail['line']}): the Jacobian the implementation built is not the geometric "
                                                "column of the generated forward kinematics within eps * reach",
                                         "record": {k: r[k] for k in ("case", "robot", "q", "eps", "jac")}, "log": fail["log"][-500:]})
        else:
            res["compared"] += 1
    res["distribution"]["jacobian_spot_goals"] = 36 * len(chosen)
    # uses of the matrix: replay torques / velocities on the model at Q with the recorded matrix and try_inverse answer
    urecs = [r for r in C.run_harness(["C15", tier, seed + 5, 4000 if tier == "thorough" else 800]) if r.get("use")]

    def qmat(rows):
        return "[" + "; ".join(C.qlist([C.frac(h) for h in row]) for row in rows) + "]"
    exprs = [f"run_jacuse {qmat(r['use']['m'])} {qmat(r['use']['jinv']) if r['use']['jinv'] else '[]'} {C.qlist([C.frac(h) for h in r['use']['x']])}" for r in urecs]
    outs = C.coq_eval("c15u", "From VF Require Import Exec.JacUse.", exprs, shard=25)
    nuse = 0
    for r, zs in zip(urecs, outs):
        u = r["use"]
        x = [C.f64(h) for h in u["x"]]
        xn = sum(a * a for a in x) ** 0.5
        cond = float(r["cond"])
        tq_m = [float(C.unq(zs, 2 * i)) for i in range(6)]
        tq_i = [C.f64(h) for h in u["tq"]]
        scale = 1.0 + max(abs(a) for a in tq_m)
        why = None
        if any(abs(a - b) > 1e-12 * scale for a, b in zip(tq_m, tq_i)):
            why = f"torques: model J^T F = {tq_m}, implementation {tq_i}"
        elif zs[12] == 0:
            if u["vel"] is not None:
                why = "velocities: try_inverse gave no answer for a unit twist but velocities_from_vector answered"
        elif u["vel"] is None:
            why = "velocities: try_inverse answered but velocities_from_vector returned an error"
        else:
            v_m = [float(C.unq(zs, 13 + 2 * i)) for i in range(6)]
            v_i = [C.f64(h) for h in u["vel"]]
            res_m = [float(C.unq(zs, 25 + 2 * i)) for i in range(6)]
            vs = 1.0 + max(abs(a) for a in v_m)
            if any(abs(a - b) > 1e-9 * vs for a, b in zip(v_m, v_i)):
                why = f"velocities: model Jinv*x = {v_m}, implementation {v_i}"
            elif sum(a * a for a in res_m) ** 0.5 > 1e-10 * cond * (1.0 + xn):
                why = f"velocities do not reproduce the twist: exact residual J*(Jinv*x) - x = {res_m} (cond {cond:.3g})"
        if why:
            res["disagreements"].append({"why": why, "record": {k: r[k] for k in ("case", "robot", "q", "eps", "cond", "use", "_args") if k in r}})
        else:
            res["compared"] += 1
            nuse += 1
    res["distribution"]["matrix_use_replays"] = nuse
    return res
