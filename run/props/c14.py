"""C14 — single-joint offsets offered to search planners are legal and collision-free."""
import collections
import common as C
from props.c10 import safety_lit, table_lit

ID = "C14"
# files this check also depends on (the quick tier runs at the thorough sizes when one of them differs from the fingerprinted tree)
EXTRA_FILES = ['src/constraints.rs']
COQ_TARGETS = ["Exec/Collide.vo", "Gen/Forward.vo", "Properties/C14.vo"]
THEOREMS = ["C14_offered_iff_spec", "C14_offsets_spec", "C14_candidate_changes_one_joint", "C14_skipped_links_unmoved"]
LEVEL_TEXT = ("Coq theorem for every body configuration, safety table, oracle behaviour and scheduling choice: a single-joint candidate is "
              "offered iff it is within limits and the FULL brute-force pair check of that candidate is clean, given only that pairs of two "
              "unmoved bodies are clean (they are as in the collision-free start); the offers are exactly the offered ones among the twelve; candidate cand replaces joint cand/2 by the caller's from/to value and "
              "nothing else; every body on its skip list has, in the link poses generated from forward_with_joint_poses, the pose of the initial "
              "configuration (which is what makes skipping pairs of unmoved bodies sound)")
LEVEL_NOTE = ("same model and oracle tables as C10 with the skip set of joints before the moved one; tie: vm_compute of the Q instance on "
              "per-candidate parry3d tables vs non_colliding_offsets on scenes with a fake chain kinematics in which joint k moves links >= k, "
              "rayon pools {1,16}")
TECHNIQUE = "Coq proof over R with oracle/choice parameters + vm_compute correspondence on parry3d-computed tables"
RULE = ("collision-free initial vectors in random synthetic scenes (as C10) x from/to vectors x optional limits cutting candidates off; "
        "non-trivial = at least one candidate collides or is illegal; distinct = distinct scenes")
EXPLANATION = LEVEL_NOTE
ASSUMPTIONS = ["parry3d intersection_test and distance are the geometric truth (oracle)"]
PARTIAL = ["real rayon interleavings are represented by the universally quantified choice function"]


def expr(r):
    legal = "[" + "; ".join("true" if b else "false" for b in r["legal"]) + "]"
    ts = "[" + "; ".join(table_lit(t) for t in r["tables"]) + "]"
    return (f"run_c14 {'true' if r['tool'] else 'false'} {'true' if r['base'] else 'false'} {r['n_env']}%nat "
            f"{safety_lit(r['safety'])} {legal} {ts}")


def correspondence(tier, seed, n=None):
    recs = C.run_harness(["C14", tier, seed] + ([n] if n else []))
    cases = [r for r in recs if "tables" in r]
    failures = [r for r in recs if r.get("direct") == "fail"]
    outs = C.coq_eval("c14", "From VF Require Import Exec.Collide.", [expr(r) for r in cases], shard=8)
    dis, compared, undec, distinct = [], 0, 0, 0
    dist = collections.Counter()
    for r, zs in zip(cases, outs):
        und = set(r["undecided"])
        model = set(zs) - und
        impl = set(r["impl"]) - und
        dist[f"offers:{len(impl)}"] += 1
        if und:
            undec += 1
        else:
            compared += 1
        if len(r["expect"]) < 12:
            distinct += 1
        if model != impl:
            dis.append({"why": f"offers: model {sorted(model)} impl {sorted(impl)}", "record": {k: r[k] for k in ("case", "tool", "base", "n_env", "safety", "initial", "from", "to", "legal", "impl", "expect")}})
    samples = [{"case": r["case"], "legal": r["legal"], "impl_offers": r["impl"], "expected": r["expect"]} for r in cases[:3]]
    return {"evaluations": len(cases) * 12, "compared": compared, "undecided": undec, "disagreements": dis, "failures": failures,
            "samples": samples, "distribution": dict(dist), "distinct_nontrivial": distinct}


def search(tier, seed, res):
    out = []
    recs = C.run_harness(["C14", tier, seed + 1000, 1500])
    out += [r for r in recs if r.get("direct") == "fail"]
    return out
