"""C12 — a planned Cartesian stroke is collision-free, in limits, continuous and linear."""
import collections, math
from fractions import Fraction
import common as C

ID = "C12"
# files this check also depends on (the quick tier runs at the thorough sizes when one of them differs from the fingerprinted tree)
EXTRA_FILES = ['src/utils/utils.rs', 'src/collisions.rs', 'src/path_plan/rrt_to.rs']
COQ_TARGETS = ["Exec/Stroke.vo", "Properties/C12.vo"]
THEOREMS = ["C12_adaptive_spec", "C12_poses_key_order", "C12_probe_waypoints", "C12_no_interp_unless_requested", "C12_plan_success_iff",
            "C12_plan_is_a_probe", "C12_inter_on_segment", "C12_nsteps_fine", "C12_starts_at_from"]
LEVEL_TEXT = ("Coq theorems for every IK / RRT / interpolation oracle, recursion depth, cost limit and scheduling choice about a model of "
              "Cartesian::plan: the adaptive bisection emits a chain whose every transition costs at most max_transition_cost and whose "
              "way-points are answers of the collision-aware IK for poses on the segment; LAND, stroke and PARK poses are scheduled in order; "
              "every way-point of a successful plan is the landing solution, a collision-aware IK answer or an RRT node; interpolated way-points "
              "only when requested; success <=> some strategy succeeds, for every behaviour of find_map_any; densification is strictly inside "
              "the segment and fine enough; the first way-point is the caller's start configuration (on-boarding leg; RRT contract: a path "
              "begins with its start and ends with its goal, C13)")
LEVEL_NOTE = ("hand-written model of cartesian.rs over R with oracles; tie: hooks expose with_intermediate_poses and "
              "step_adaptive_linear_transition; the harness records every continuation-IK call (pose, previous, collision-filtered answers) and "
              "the model's Q instance replays the bisection with vm_compute (answers keyed by the dyadic position on the segment), the pose "
              "schedule is recomputed from segment lengths/angles; end-to-end Cartesian::plan is exercised by an independent oracle (FK of every "
              "way-point, collision verdict, distance to the polyline, transition costs, flags, rayon pools 1/16)")
TECHNIQUE = "Coq proof over R with oracle/choice parameters + vm_compute replay of recorded IK answers + end-to-end oracle"
RULE = ("IRB2400 cells with free / far / grazing / blocking box obstacles, a start standing 2 mm inside a 3 cm safety distance (no plan may begin there), a 8 mm obstacle that only the middle of one densified 5 cm step touches with a cost limit that forces the bisection through it, and a free cell whose stroke passes the wrist singularity 1 mm aside (RRT gap closing), 2-4 stroke poses 3-10 cm apart, step sizes {1,2,5} cm, cost limits "
        "{0.05,0.1,0.3}, recursion depths {0,2,6}, include-interpolation on/off, rayon pools {1,16}; non-trivial = bisection recursed at least "
        "once or the plan succeeded; distinct = distinct cells")
EXPLANATION = LEVEL_NOTE
ASSUMPTIONS = ["the collision-aware IK contract (answers are collision-free, within limits, realise the pose) is C01/C08/C11",
               "RRT paths are collision-free chains (C13)", "slerp/lerp of nalgebra = interpolation on the segment (checked numerically for translations)"]
PARTIAL = ["the cross-thread stop race and RRT randomness are modelled as arbitrary choices / oracle answers",
           "rotation interpolation (slerp) is not modelled; only translations are checked against the straight segment"]


def adaptive_expr(r):
    tab = []
    for e in r["table"]:
        t = C.f64(e["t"])
        D = 2 ** 12
        k = round(t * D)
        p = Fraction(k, D)
        ans = "[" + "; ".join(C.qlist([C.frac(h) for h in a]) for a in e["ans"]) + "]"
        tab.append(f"({C.qlit(p)}, {C.qlist([C.frac(h) for h in e['prev']])}, {ans})")
    return (f"run_adaptive {r['depth']}%nat {C.qlist([C.frac(h) for h in r['starting']])} {C.qlist([C.frac(h) for h in r['coef']])} "
            f"{C.qlit(C.frac(r['max_cost']))} [" + "; ".join(tab) + "]")


def poses_expr(r):
    seg = "[" + "; ".join(f"({C.qlit(C.frac(d))}, {C.qlit(C.frac(th))})" for d, th in r["segments"]) + "]"
    return f"run_poses {seg} {C.qlit(C.frac(r['step_m']))} {C.qlit(C.frac(r['step_rad']))}"


def correspondence(tier, seed, n=None):
    recs = C.run_harness(["C12", tier, seed] + ([n] if n else []))
    plans = [r for r in recs if r.get("what") == "plan"]
    failures = [r for r in plans if r.get("direct") == "fail"]
    st = C.run_harness(["C12stages", tier, seed])
    failures += [r for r in st if r.get("direct") == "fail"]
    ad = [r for r in st if r.get("what") == "adaptive"]
    po = [r for r in st if r.get("what") == "poses"]
    dis, compared, undec, distinct = [], 0, 0, 0
    dist = collections.Counter()
    outs = C.coq_eval("c12a", "From VF Require Import Exec.Stroke.", [adaptive_expr(r) for r in ad], shard=20)
    for r, zs in zip(ad, outs):
        dist[f"adaptive:calls{len(r['table'])}:{'ok' if r['track'] is not None else 'err'}"] += 1
        # margin: a transition cost within 1e-9 of the limit may be decided differently by f64
        if zs[0] == 0:
            model = None
        else:
            model = [[float(C.unq(zs, 2 + 12 * k + 2 * i)) for i in range(6)] for k in range(zs[1])]
        impl = None if r["track"] is None else [[C.f64(h) for h in s] for s in r["track"]]
        if (model is None) == (impl is None) and (model is None or (len(model) == len(impl) and all(abs(a - b) <= 1e-12 for m, s in zip(model, impl) for a, b in zip(m, s)))):
            compared += 1
            if len(r["table"]) > 1:
                distinct += 1
        else:
            dis.append({"why": f"adaptive bisection: model {None if model is None else len(model)} way-points, implementation {None if impl is None else len(impl)}",
                        "record": {k: r[k] for k in ("case", "starting", "max_cost", "depth", "track")}})
    outs = C.coq_eval("c12p", "From VF Require Import Exec.Stroke.", [poses_expr(r) for r in po], shard=50)
    for r, zs in zip(po, outs):
        marginal = any(min((C.f64(d) / C.f64(r["step_m"])) % 1, 1 - (C.f64(d) / C.f64(r["step_m"])) % 1) < 1e-9 for d, _ in r["segments"])
        if list(zs) == list(r["flags"]):
            compared += 1
        elif marginal:
            undec += 1
        else:
            dis.append({"why": f"pose schedule flags differ: model {zs[:12]}.. ({len(zs)}) implementation {r['flags'][:12]}.. ({len(r['flags'])})", "record": r})
    for r in plans:
        dist[f"plan:{r['layout']}:{r['outcomes']}"] += 1
        if r["outcomes"] and r["outcomes"][0]:
            distinct += 1
    samples = [{"layout": r["layout"], "include": r["include"], "outcomes": r["outcomes"], "waypoints": len(r["path"]) if r["path"] else 0, "class": r["class"]} for r in plans[:4]]
    return {"evaluations": len(plans) + len(st), "compared": compared, "undecided": undec, "disagreements": dis, "failures": failures,
            "samples": samples, "distribution": dict(dist), "distinct_nontrivial": distinct}


def search(tier, seed, res):
    recs = C.run_harness(["C12", tier, seed + 1000, 400])
    return [r for r in recs if r.get("direct") == "fail"]
