"""C18 — random joint vectors drawn from constraints always satisfy them."""
import collections, math
import common as C

ID = "C18"
COQ_TARGETS = ["Exec/C07.vo", "Exec/C18.vo", "Properties/C18.vo"]
THEOREMS = ["C18_sample_compliant", "C18_range_nonempty", "C18_sampler_total", "C18_nonvacuous"]
LEVEL_TEXT = ("Coq theorems for all limits, every half period and EVERY outcome of the random generator (the uniform variates are "
              "universally quantified in [0,1)): each drawn vector is accepted by the same constraints; the range handed to the generator "
              "is never empty (no panic); the unwrap loop terminates")
LEVEL_NOTE = ("theorems about the hand-written model of random_angles over R; tie to constraints.rs: the thread-local RNG cannot be driven, "
              "so the correspondence is image membership — 1500 draws per constraint set must lie inside the exact image [lo,hi) the model's "
              "Q instance computes and approach both ends (2% of the width); rand's gen_range is modelled as from + u*width")
TECHNIQUE = "Coq proof over R with the random stream universally quantified + vm_compute image correspondence on sampled draws"
RULE = ("constraint sets with per-joint kinds: from==to, wrapping with both limits positive / negative / straddling zero, ordinary, the "
        "historical (3,1), almost full turn, narrow, arbitrary in [-2pi,2pi]^2; 1500 draws each; non-trivial = wrapping joint present; "
        "distinct = distinct (from,to) vectors")
EXPLANATION = LEVEL_NOTE
ASSUMPTIONS = ["gen_range(0.0..w) returns u*w with u in [0,1) and panics iff w <= 0 or non-finite"]
PARTIAL = ["the thread-local RNG itself is outside the model (universally quantified stream)"]


def correspondence(tier, seed, n=None):
    recs = C.run_harness(["C18", tier, seed] + ([n] if n else []))
    cases = [r for r in recs if "from" in r]
    failures = [r for r in recs if r.get("direct") == "fail"]
    exprs, idx = [], []
    for ci, r in enumerate(cases):
        for i in range(6):
            exprs.append(f"run_c18 {C.qlit(C.frac(r['from'][i]))} {C.qlit(C.frac(r['to'][i]))}")
            idx.append((ci, i))
    outs = C.coq_eval("c18", "From VF Require Import Exec.C18.", exprs, shard=400)
    dis, compared, undec = [], 0, 0
    dist = collections.Counter()
    distinct = set()
    for (ci, i), zs in zip(idx, outs):
        r = cases[ci]
        if r["panic"]:
            continue
        if zs[0] == 0:
            dis.append({"why": "model out of fuel", "record": r}); continue
        lo, hi = float(C.unq(zs, 1)), float(C.unq(zs, 3))
        f, t = C.f64(r["from"][i]), C.f64(r["to"][i])
        kind = "unconstrained" if f == t else ("ordinary" if f < t else "wrapping")
        dist[kind] += 1
        glo, ghi = C.f64(r["lo"][i]), C.f64(r["hi"][i])
        w = hi - lo
        turns = (f - t) / (2 * math.pi)
        if w < 1e-9 or (f > t and abs(turns - round(turns)) < 1e-9):
            # zero width, or reversed limits a whole number of turns apart (e.g. 249.875 and -110.125 degrees): whether the arc is a
            # point or a full turn is decided by the last bit of from - to; the property speaks of arcs of positive width
            undec += 1
            continue
        compared += 1
        if f > t:
            distinct.add((tuple(r["from"]), tuple(r["to"])))
        why = None
        if glo < lo - 1e-9 or ghi > hi + 1e-9:
            why = f"joint {i}: draws [{glo},{ghi}] leave the model image [{lo},{hi})"
        elif glo > lo + 0.02 * w or ghi < hi - 0.02 * w:
            why = f"joint {i}: draws [{glo},{ghi}] do not cover the model image [{lo},{hi})"
        if why:
            dis.append({"why": why, "record": r})
    # the constraints' own verdict on a draw: the C07 model (compute_centers + inside_bounds) on the first draw of every case
    sel = [r for r in cases if not r["panic"]]
    outs2 = C.coq_eval("c18c", "From VF Require Import Exec.C07.", [f"run_c07 0 {C.qlist([C.frac(h) for h in r['from']])} {C.qlist([C.frac(h) for h in r['to']])} {C.qlist([C.frac(h) for h in r['draw']])}" for r in sel], shard=200)
    for r, zs in zip(sel, outs2):
        if zs[0] != 1:
            dis.append({"why": "model constructor failed", "record": r}); continue
        flags = [zs[2 + 8 * i + 5: 2 + 8 * i + 8] for i in range(6)]
        if any(len(set(fl)) > 1 for fl in flags):
            undec += 1                      # the draw is within 1e-9 of an arc end
            continue

        def degenerate(fh, th):
            f, t = C.f64(fh), C.f64(th)
            turns = (f - t) / (2 * math.pi)
            return (f > t and abs(turns - round(turns)) < 1e-9) or (f < t and t - f < 1e-9)
        if any(degenerate(r["from"][i], r["to"][i]) for i in range(6)):
            # an arc narrower than the margin (limits a whole number of turns apart): every draw is within 1e-9 of both ends, and
            # perturbing the draw cannot show it (both neighbours are outside); same rule as for the image above
            undec += 1
            continue
        compared += 1
        dist["draw_verdict"] += 1
        if (zs[1] == 1) != bool(r["draw_ok"]):
            dis.append({"why": f"compliant(draw): model {zs[1] == 1}, implementation {r['draw_ok']}", "record": {k_: r[k_] for k_ in ("case", "from", "to", "draw", "draw_ok")}})
    samples = [{"from": [C.f64(h) for h in r["from"]], "to": [C.f64(h) for h in r["to"]], "lo": [C.f64(h) for h in r["lo"]],
                "hi": [C.f64(h) for h in r["hi"]], "bad": r["bad"]} for r in cases[:2]]
    return {"evaluations": len(cases) * 1500, "compared": compared, "undecided": undec, "disagreements": dis, "failures": failures,
            "samples": samples, "distribution": dict(dist), "distinct_nontrivial": len(distinct)}


def search(tier, seed, res):
    out = []
    for s in range(2):
        recs = C.run_harness(["C18", tier, seed + 1000 + s, 3000])
        out += [r for r in recs if r.get("direct") == "fail"]
        if out:
            break
    return out
