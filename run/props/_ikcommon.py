"""Shared correspondence()/search() for the properties decided on the kinematics glue model."""
import collections
import common as C
import kincorr


def make(prop, want, n_quick=500, n_thorough=6000):
    def correspondence(tier, seed, n=None):
        res = kincorr.run(tier, seed, n or (n_thorough if tier == "thorough" else n_quick), want=want)
        recs = C.run_harness([prop, tier, seed])
        own = [r for r in recs if r.get("prop") == prop or r.get("class") == "harness.crash"]
        res["failures"] = [r for r in own if r.get("direct") == "fail"]
        dist = collections.Counter(res["distribution"])
        for r in own:
            dist["oracle:" + str(r.get("what", r.get("kind", r.get("entry", ""))))] += 1
        res["distribution"] = dict(dist)
        res["evaluations"] += len(own)
        res["oracle_cases"] = len(own)
        res["samples"] = res["samples"] + [{k: v for k, v in r.items() if k in ("case", "kind", "entry", "what", "nsol", "direct")} for r in own[:2]]
        return res

    def search(tier, seed, res):
        out = []
        for s in range(3):
            recs = C.run_harness([prop, tier, seed + 1000 + s, 60000])
            out += [r for r in recs if r.get("direct") == "fail"]
            if out:
                break
        return out
    return correspondence, search


NOTE = ("theorems are about the hand-written glue model Model/Kin.v over R with the closed-form kernel and the FK verdict as oracle "
        "parameters; tie to kinematics_impl.rs: the model's Q instance is evaluated with vm_compute on recorded kernel answers / FK "
        "verdicts (verif_hooks trace) and compared with the four entry points; f64 rounding not modelled (margin re-evaluation at +-1e-9)")
TECH = "Coq proof over R of a hand-written glue model + vm_compute correspondence with recorded oracles + independent FK oracle search"
ASSUME = ["kernel answers and FK verdicts are recorded from the implementation and fed to the model as oracle tables",
          "sorting modelled as stable insertion sort (slice::sort_by is stable)",
          "f64 rounding: disagreements that vanish when thresholds/limits move by 1e-9 or that are exact half-turn / cost ties are counted undecided"]
