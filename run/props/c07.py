"""C07 — joint limits mean arc membership modulo 2*pi."""
import collections
import common as C

ID = "C07"
LEVEL_TEXT = ("Coq theorems (all reals, every half-period hp>0, lists of any length) that the model of Constraints accepts a vector "
              "exactly when every joint lies on its arc modulo 2*hp, with periodicity, full-turn, from==to, centre and filter corollaries; "
              "the hand-written model is tied to constraints.rs by an exact-rational correspondence check on every run")
LEVEL_NOTE = ("theorems are about the Gallina model over R; the tie to the Rust code is differential (vm_compute of the Q instance vs the "
              "implementation on lattice and random inputs, margin-guarded at 1e-9); f64 rounding not modelled")
TECHNIQUE = "Coq proof over R of a hand-written model + vm_compute correspondence against the implementation"
COQ_TARGETS = ["Exec/C07.vo", "Properties/C07.vo"]
THEOREMS = ["C07_compliant_iff_on_arc", "C07_constructor_total", "C07_angle_periodic", "C07_limits_periodic",
            "C07_full_turn", "C07_equal_limits_unconstrained", "C07_centres_accepted", "C07_filter_spec",
            "C07_from_degrees_same", "C07_update_range_same", "C07_nonvacuous"]
RULE = ("cases drawn by the harness PRNG (seed): half on the 5-degree lattice in [-4pi,4pi]^3 per joint, half random reals with "
        "from==to, narrow, nearly-full-wrap and near-boundary angles over-represented; constructors new / from_degrees / "
        "update_range in rotation; a case is non-trivial when at least one joint is constrained (from != to) and the model "
        "decision is stable under +-1e-9 (decided); distinct = distinct (from,to,x) triples")
EXPLANATION = ("theorems over R for every half-period hp>0 about the hand-written model of constraints.rs; the model's Q instance "
               "is evaluated with vm_compute on the exact rationals of the f64 inputs and compared with Constraints::compliant/"
               "filter and the centres/tolerances the implementation computed")
ASSUMPTIONS = ["f64 rounding is not modelled: cases whose model decision changes within +-1e-9 of the angle are counted undecided",
               "half period: theorems for all hp>0; execution with the rational denoted by f64 PI"]


def expr(r):
    fr = [C.frac(h) for h in r["from"]]
    to = [C.frac(h) for h in r["to"]]
    xs = [C.frac(h) for h in r["x"]]
    return f"run_c07 {r['ctor']} {C.qlist(fr)} {C.qlist(to)} {C.qlist(xs)}"


def decode(zs):
    """-> (ok, compliant, joints[(centre, tol|None, (b-,b0,b+))])"""
    if zs[0] == 0:
        return None
    comp = zs[1] == 1
    js, i = [], 2
    while i < len(zs):
        c = C.unq(zs, i); i += 2
        fin = zs[i] == 1; t = C.unq(zs, i + 1); i += 3
        b = tuple(zs[i:i + 3]); i += 3
        js.append((c, t if fin else None, b))
    return comp, js


def correspondence(tier, seed, n=None):
    args = ["C07", tier, seed] + ([n] if n else [])
    recs = C.run_harness(args)
    cases = [r for r in recs if "from" in r]
    failures = [r for r in recs if r.get("direct") == "fail"]
    outs = C.coq_eval("c07", "From VF Require Import Exec.C07.", [expr(r) for r in cases])
    dis, undec, compared = [], 0, 0
    dist = collections.Counter()
    distinct = set()
    for r, zs in zip(cases, outs):
        m = decode(zs)
        if m is None:
            dis.append({"why": "model out of fuel", "record": r}); continue
        comp, js = m
        why = None
        # a wrap-around pair whose distance is a whole number of turns up to rounding: the number of
        # unwrap steps (zero-width arc vs full turn) depends on f64 rounding -> undecided
        import math
        tp = 2 * math.pi
        if any(C.f64(a) > C.f64(b) and min((C.f64(a) - C.f64(b)) % tp, tp - (C.f64(a) - C.f64(b)) % tp) < 1e-9
               for a, b in zip(r["kfrom"], r["kto"])):
            undec += 1
            dist["undecided_whole_turn_wrap"] += 1
            continue
        inf = float("inf")
        for i, (c, t, b) in enumerate(js):
            ic, it = C.f64(r["centers"][i]), C.f64(r["tols"][i])
            if (t is None) != (it == inf):
                why = f"joint {i}: tolerance finiteness differs (model {t}, impl {it})"
            elif t is not None and not (C.close(c, ic) and C.close(t, it)):
                why = f"joint {i}: centre/tolerance differ (model {float(c)},{float(t)} impl {ic},{it})"
        decided_false = any(b == (0, 0, 0) for _, _, b in js)
        all_decided = all(b[0] == b[1] == b[2] for _, _, b in js)
        kind = "lattice" if all(abs((C.f64(h) * 180 / 3.141592653589793 if r["ctor"] != 1 else C.f64(h)) / 5 - round((C.f64(h) * 180 / 3.141592653589793 if r["ctor"] != 1 else C.f64(h)) / 5)) < 1e-6 for h in r["from"]) else "random"
        dist[f"ctor{r['ctor']}/{kind}"] += 1
        if why is None:
            if decided_false:
                exp = False
            elif all_decided:
                exp = True
            else:
                exp = None
            if exp is None:
                undec += 1
                dist["undecided"] += 1
            else:
                compared += 1
                dist["accepted" if exp else "rejected"] += 1
                if any(a != b2 for a, b2 in zip(r["kfrom"], r["kto"])):
                    distinct.add((tuple(r["from"]), tuple(r["to"]), tuple(r["x"])))
                if exp != r["compliant"]:
                    why = f"compliant: model {exp}, impl {r['compliant']}"
                elif r["filter_len"] != int(exp) + int(r["centre_ok"]):
                    why = "filter length differs from compliant"
        if why:
            dis.append({"why": why, "record": r, "model": zs})
    samples = [{"ctor": r["ctor"], "from": [C.f64(h) for h in r["from"]], "to": [C.f64(h) for h in r["to"]],
                "x": [C.f64(h) for h in r["x"]], "impl_compliant": r["compliant"]} for r in cases[:3]]
    return {"evaluations": len(cases), "compared": compared, "undecided": undec, "disagreements": dis,
            "failures": failures, "samples": samples, "distribution": dict(dist), "distinct_nontrivial": len(distinct)}


def search(tier, seed, res):
    """deeper search with the independent oracle (other seeds, more cases)"""
    out = []
    for s in range(3):
        recs = C.run_harness(["C07", tier, seed + 1000 + s, 60000])
        out += [r for r in recs if r.get("direct") == "fail"]
        if out:
            break
    return out
