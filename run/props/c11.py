"""C11 — collision-aware IK returns exactly the non-colliding solutions, in order."""
from props import _gencommon as G
ID = "C11"
# files this check also depends on (the quick tier runs at the thorough sizes when one of them differs from the fingerprinted tree)
EXTRA_FILES = ['src/tool.rs', 'src/constraints.rs', 'src/kinematics_impl.rs']
COQ_TARGETS = ["Gen/Delegation.vo", "Properties/C11.vo"]
THEOREMS = ["C11_shape_entries", "C11_shape_delegates", "C11_remove_collisions_spec", "C11_shape_stack"]
LEVEL_TEXT = ("Coq theorems about KinematicsWithShape code regenerated from src/kinematics_with_shape.rs: each inverse entry point = the "
              "order-preserving filter of the underlying stack's answers by the collision verdict; forward, link poses, limits and singularity "
              "delegate; the stack built by both constructors is Tool(Base(OPW with limits))")
LEVEL_NOTE = G.NOTE + "; remove_collisions and the constructor are recognised by template (a rewrite is reported as a broken translation); the collision verdict itself is C10"
TECHNIQUE = G.TECH
RULE = ("catalogue robots with box link meshes, random base/tool isometries, environments, both constructors, safety settings, 4 entry points; "
        "compared with an independently assembled Tool(Base(OPWKinematics)) stack filtered by collides(); non-trivial = the stack returned a solution")
EXPLANATION = LEVEL_NOTE
ASSUMPTIONS = []
correspondence, search = G.make("C11", sample_keys=("case", "ctor", "entry", "n_stack", "n_free", "nsol", "direct"), search_n=10000)
