"""C16 — parallelogram coupling."""
from props import _gencommon as G
ID = "C16"
# files this check also depends on (the quick tier runs at the thorough sizes when one of them differs from the fingerprinted tree)
EXTRA_FILES = ['src/tool.rs']
COQ_TARGETS = ["Gen/Delegation.vo", "Properties/C16.vo"]
THEOREMS = ["C16_para_forward", "C16_para_links", "C16_para_entries", "C16_para_roundtrip", "C16_para_compose", "C16_para_under_tool_base"]
LEVEL_TEXT = ("Coq theorems for every scaling, driven != coupled index pair, inner robot and joint vector about Parallelogram code "
              "regenerated from src/parallelogram.rs: forward and link poses at the reduced coupled joint, every inverse entry point "
              "= inner answers with the coupling added back, exact round trip, composition of two couplings and nesting under tool/base")
LEVEL_NOTE = G.NOTE
TECHNIQUE = G.TECH
RULE = ("random robots x (driven, coupled, scaling in [-2,2]) x joint vectors x {single coupling, two couplings, under tool+base} x 4 entry points")
EXPLANATION = LEVEL_NOTE
ASSUMPTIONS = []
correspondence, search = G.make("C16")
