"""C09 — tool/base/frame wrappers compose consistently."""
from props import _gencommon as G
ID = "C09"
# files this check also depends on (the quick tier runs at the thorough sizes when one of them differs from the fingerprinted tree)
EXTRA_FILES = ['src/parallelogram.rs']
COQ_TARGETS = ["Gen/Delegation.vo", "Properties/C09.vo"]
THEOREMS = ["C09_stack_forward", "C09_stack_entries", "C09_stack_roundtrip", "C09_stack_roundtrip_5dof", "C09_links_tool",
            "C09_links_base", "C09_links_last_base", "C09_links_last_frame", "C09_stack_constraints", "C09_gantry_forward",
            "C09_linear_axis_forward", "C09_nonvacuous"]
LEVEL_TEXT = ("Coq theorems by induction over wrapper stacks of any depth and order, for all isometries, inner robots and arguments: "
              "forward = base*robot*tool, the exhaustive 4x3 delegation matrix (each inverse entry point calls the same entry point inside at "
              "the inversely transformed pose), exact round trip (and tool point + axis for axial tools), link-pose rules, limits delegation, "
              "LinearAxis/Gantry composition — about wrapper code regenerated from src/tool.rs and src/frame.rs on every run")
LEVEL_NOTE = G.NOTE + "; isometries are modelled as rotation matrix + translation over R; within-tolerance (not exact) inner answers are exercised by the oracle only"
TECHNIQUE = G.TECH
RULE = ("random robots x stacks of depth 1..3 of Tool/Base/Frame in any order with random isometries (axial tools for the 5-DOF entries) x "
        "joint vectors x entry points; LinearAxis/Gantry cases; non-trivial = the entry point returned a solution")
EXPLANATION = LEVEL_NOTE
ASSUMPTIONS = ["nalgebra Isometry3 product/inverse modelled by icomp/iinv"]
correspondence, search = G.make("C09")
