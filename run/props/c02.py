"""C02 — inverse kinematics is complete away from singularities; the answer set is closed."""
import collections, math
from fractions import Fraction
import common as C
import kincorr

ID = "C02"
COQ_TARGETS = ["Gen/Inverse.vo", "Exec/Finish.vo", "Proofs/CompleteK.vo", "Proofs/TwinK.vo", "Proofs/DistinctP.vo", "Properties/C02.vo"]
THEOREMS = ["C02_twin_in_table", "C02_twin_in_table_def", "C02_fk_twin", "C02_twin_distinct", "C02_kernel_sound",
            "C02_rows_eq", "C02_table_complete", "C02_inverse_complete", "C02_complete_nonvacuous", "C02_kernel_twin_closed", "C02_candidate_fk", "C02_rows_distinct"]
LEVEL_TEXT = ("Coq theorems about the closed-form branch table of inverse_intern, RE-TRANSLATED from the source on every run (60+ lets, acos/"
              "atan2/sqrt, with the finiteness of every entry): branches 4..7 are entry by entry the wrist-flipped twins of branches 0..3 with "
              "the same finiteness; COMPLETENESS: for every geometry with a real forearm and upper arm, every sign/offset convention "
              "and every joint vector whose model angles are away from the shoulder, elbow/reach and wrist singularities, one of the "
              "eight rows of the generated table equals the configuration (same sine and cosine entry by entry) with every intermediate "
              "value finite, the finishing glue lets it through and plain inverse returns the joint vector up to whole turns when it "
              "is within the limits (C02_table_complete, C02_inverse_complete; the generated table is by conversion the hand-written "
              "closed-form expressions, C02_rows_eq); the twin reaches exactly the same pose in the reference link chain (so both or neither pass the FK "
              "cross-check: the answer set is closed under the twin); twins differ modulo whole turns unless sin(theta5) = 0 (no duplicates "
              "between a branch and its twin); every row the kernel returns passed the FK cross-check and is normalised (kernel contract of C01)")
LEVEL_NOTE = ("translator tie for the branch table (validated by Interval-certified spot checks of generated R expressions against the raw table "
              "the implementation traced); hand-written finishing glue (offsets/signs, finiteness, wrap, FK check) tied by vm_compute "
              "correspondence on traced tables and recorded FK verdicts.  Completeness is proved over R (exact arithmetic: the FK "
              "cross-check of the originating row compares a pose with itself); that the f64 rows pass the 1e-6 cross-check, and the "
              "equal size of the answer set for the pose of each member, are decided by the oracle search on non-singular configurations "
              "with independent margins")
TECHNIQUE = "Coq proof about a generated kernel model (reflexivity/ring/trig identities) + Interval spot checks + vm_compute glue correspondence + oracle search"
RULE = ("random robots (b != 0, negative a1/a2, c4 = 0, all sign patterns, offsets) x random joint vectors; non-singular by independent margins "
        "(|sin q5|, elbow, shoulder, reach); non-trivial = non-singular configurations with 8 or 4 answers; distinct = distinct cases")
EXPLANATION = LEVEL_NOTE
ASSUMPTIONS = ["nalgebra quaternion -> rotation matrix conversion (spot tolerance 1e-5 absorbs it)"]
PARTIAL = ["'same size of the answer set for the pose of each member' and the f64 accuracy of the originating row: oracle only"]
TRUSTED_EXTRA = ["coq-interval for the certified spot checks"]


def rl(x):
    f = Fraction(x).limit_denominator(10 ** 12)
    return f"({f.numerator}/{f.denominator})"


def pose_of(P, j):
    g = [C.f64(h) for h in P["geom"]]; off = [C.f64(h) for h in P["off"]]; sg = P["sg"]
    a1, a2, b, c1, c2, c3, c4 = g
    q = [j[i] * sg[i] - off[i] for i in range(6)]
    rz = lambda t: [[math.cos(t), -math.sin(t), 0], [math.sin(t), math.cos(t), 0], [0, 0, 1]]
    ry = lambda t: [[math.cos(t), 0, math.sin(t)], [0, 1, 0], [-math.sin(t), 0, math.cos(t)]]
    mm = lambda a, b_: [[sum(a[i][k] * b_[k][jj] for k in range(3)) for jj in range(3)] for i in range(3)]
    mv = lambda a, v: [sum(a[i][k] * v[k] for k in range(3)) for i in range(3)]
    R, t = rz(q[0]), [0, 0, c1]
    for rot, tr in [(ry(q[1]), [a1, b, 0]), (ry(q[2]), [0, 0, c2]), (rz(q[3]), [a2, 0, 0]), (ry(q[4]), [0, 0, c3]), (rz(q[5]), [0, 0, c4])]:
        tv = mv(R, tr); t = [t[i] + tv[i] for i in range(3)]; R = mm(R, rot)
    return R, t


def spot_file(r):
    P = r["robot"]["params"]
    R, t = pose_of(P, [C.f64(h) for h in r["q"]])
    src = C.SPOT_PRELUDE + "From VF Require Import Base.Num Gen.Inverse.\n"
    src += "Definition p0 := " + C.params_lit(P) + ".\n"
    src += "Definition pose0 := mkIso (mkM3 " + " ".join(rl(R[i][k]) for i in range(3) for k in range(3)) + ") (mkV3 " + " ".join(rl(x) for x in t) + ").\n"
    src += ("Ltac a2i := repeat first [ rewrite atan2_pos by interval | rewrite atan2_neg_nonneg by interval | rewrite atan2_neg_neg by interval "
            "| rewrite acos_atan by (split; interval) ].\n")
    th = [[C.f64(h) for h in row] for row in r["theta"]]
    n = 0
    for row in (0, 2):
        if not all(math.isfinite(x) for x in th[row]):
            continue
        for col in range(3):  # arm angles only: the wrist columns nest sin and cos of these and are too deep for one interval call
            src += (f"Goal Rabs (nth {col} (nth {row} (ik_theta p0 pose0) nil) 0 - {rl(th[row][col])}) <= 1/100000.\n"
                    f"Proof. cbv [ik_theta p0 pose0 nth {C.PROJ}]; a2i; interval with (i_prec 60). Qed.\n")
            n += 1
    return src, n


def finish_expr(r):
    P = r["robot"]["params"]
    sg = C.qlist([Fraction(s) for s in P["sg"]])
    off = C.qlist([C.frac(h) for h in P["off"]])
    rows = []
    for row in r["theta"]:
        cells = []
        for h in row:
            x = C.f64(h)
            cells.append(f"({C.qlit(Fraction(x))}, true)" if math.isfinite(x) else "(0, false)")
        rows.append("[" + "; ".join(cells) + "]")
    ver = "[" + "; ".join(f"({C.qlist([C.frac(h) for h in v['c']])}, {'true' if v['ok'] else 'false'})" for v in r["verdicts"]) + "]"
    return f"run_finish {sg} {off} [{'; '.join(rows)}] {ver}"


def correspondence(tier, seed, n=None):
    recs = C.run_harness(["C02", tier, seed] + ([n] if n else []))
    cases = [r for r in recs if r.get("prop") == "C02" and "q" in r]
    failures = [r for r in recs if r.get("direct") == "fail"]
    dis, compared, undec = [], 0, 0
    dist = collections.Counter()
    for r in cases:
        dist[f"nonsingular={r['nonsingular']}/nsol={r['nsol']}"] += 1
    # (1) finishing glue on traced tables
    sel = [r for r in cases if r["theta"]][: (3000 if tier == "thorough" else 400)]
    outs = C.coq_eval("c02f", "From VF Require Import Exec.Finish.", [finish_expr(r) for r in sel], shard=50)
    for r, zs in zip(sel, outs):
        model = kincorr.decode_sols(zs)
        impl = [[C.f64(h) for h in s] for s in r["kernel"]]
        if kincorr.sols_equal(model, impl):
            compared += 1
        else:
            dis.append({"why": f"finishing glue: model {len(model)} rows, implementation {len(impl)}", "record": {k: r[k] for k in ("case", "robot", "q", "kernel")}})
    # (2) certified spot checks of the generated branch table
    ns = [r for r in cases if r["nonsingular"] and r["theta"] and all(abs(C.f64(h)) < 7 for row in r["theta"] for h in row if math.isfinite(C.f64(h)))]
    chosen = ns[:: max(1, len(ns) // (24 if tier == "thorough" else 8))][: (24 if tier == "thorough" else 8)]
    res = C.coq_spot("spot_c02", [spot_file(r) for r in chosen])
    goals = 0
    for (idx, fail), r in zip(res, chosen):
        goals += 6
        if fail:
            dis.append({"why": f"certified spot check of the generated branch table failed (line {fail['line']})", "record": {k: r[k] for k in ("case", "robot", "q")}, "log": fail["log"][-400:]})
        else:
            compared += 1
    dist["spot_goals"] = goals
    samples = [{"case": r["case"], "nonsingular": r["nonsingular"], "nsol": r["nsol"], "q": [C.f64(h) for h in r["q"]]} for r in cases[:3]]
    return {"evaluations": len(cases), "compared": compared, "undecided": undec, "disagreements": dis, "failures": failures,
            "samples": samples, "distribution": dict(dist), "distinct_nontrivial": len([r for r in cases if r["nonsingular"] and r["nsol"] >= 4])}


def search(tier, seed, res):
    recs = C.run_harness(["C02", tier, seed + 1000, 100000])
    return [r for r in recs if r.get("direct") == "fail"]
