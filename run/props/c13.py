"""C13 — RRT path."""
import collections
import common as C

ID = "C13"
# files this check also depends on (the quick tier runs at the thorough sizes when one of them differs from the fingerprinted tree)
EXTRA_FILES = ['src/collisions.rs']
COQ_TARGETS = ["Exec/Rrt.vo", "Properties/C13.vo"]
THEOREMS = ["C13_path_ok", "C13_box_closed", "C13_cancel_before", "C13_cancel_at_iteration", "C13_triangle"]
LEVEL_TEXT = ("Coq theorems by induction over planner iterations, for every collision predicate, every outcome of the random sampling, every "
              "cancellation pattern, any dimension and any tree growth: a returned path starts at start, ends at goal, consists of checked "
              "vertices, hops <= 3 steps (tree edges <= 1 step, one junction of three), stays in any interpolation-closed set (the box of "
              "non-wrapping limits is one); a flag seen raised yields an error, never a path")
LEVEL_NOTE = ("hand-written model of rrt_to.rs over R (trees as vertex lists, first-minimiser nearest neighbour, fuelled connect); tie: the hook "
              "re-exports dual_rrt_connect, the harness drives it with a recorded sample stream, box obstacles in joint space and stop patterns, "
              "the model's Q instance (rational sqrt to 2^-80) replays the same stream with vm_compute and the paths are compared point by point")
TECHNIQUE = "Coq proof over R by induction over iterations with sample/stop/obstacle oracles universally quantified + vm_compute replay correspondence"
RULE = ("start/goal free points, 0-3 box obstacles or walls with a gap in a 2-3 dimensional slice of [-3,3]^6, step in {0.1,0.25,0.5,1}, try "
        "budgets {5,40,400}, cancellation never / before / raised at the k-th collision query; non-trivial = a path with more than two "
        "nodes was returned; distinct = distinct cases")
EXPLANATION = LEVEL_NOTE
ASSUMPTIONS = ["kd-tree nearest neighbour = first minimiser (ties outside the model: a differing path with an exact tie is counted undecided)",
               "plan_rrt's closures (collides / random_angles) are the oracles; they are covered by C10 and C18"]
PARTIAL = ["thread-local RNG = universally quantified sample stream; end-to-end plan_rrt is exercised through the C12 oracle"]


def qpts(ps):
    return "[" + "; ".join(C.qlist([C.frac(h) for h in p]) for p in ps) + "]"


def expr(r):
    obs = "[" + "; ".join(f"({C.qlist([C.frac(h) for h in o['lo']])}, {C.qlist([C.frac(h) for h in o['hi']])})" for o in r["obs"]) + "]"
    return (f"run_c13 {C.qlist([C.frac(h) for h in r['start']])} {C.qlist([C.frac(h) for h in r['goal']])} {C.qlit(C.frac(r['step']))} "
            f"{r['max_try']}%nat {obs} {qpts(r['samples']) if r['samples'] else '[[]]'} ({r['stop_from_iter']})%Z")


def decode(zs):
    if zs[0] == 0:
        return "failed", None
    if zs[0] == 1:
        return "Cancelled", None
    if zs[0] == 2:
        return "fuel", None
    n = zs[1]
    pts, i = [], 2
    for _ in range(n):
        pts.append([float(C.unq(zs, i + 2 * k)) for k in range(6)])
        i += 12
    return "ok", pts


def correspondence(tier, seed, n=None):
    recs = C.run_harness(["C13", tier, seed] + ([n] if n else []))
    cases = [r for r in recs if "start" in r and "obs" in r]
    e2e = [r for r in recs if r.get("what") == "e2e"]
    failures = [r for r in recs if r.get("direct") == "fail"]
    outs = C.coq_eval("c13", "From VF Require Import Exec.Rrt.", [expr(r) for r in cases], shard=12)
    dis, compared, undec, distinct = [], 0, 0, 0
    dist = collections.Counter()
    for r, zs in zip(cases, outs):
        res, pts = decode(zs)
        dist[f"result:{r['result']}/cancel{r['cancel_mode']}"] += 1
        dist["e2e_plan_rrt_cases"] = len(e2e)
        why = None
        if res == "fuel":
            why = "model out of fuel"
        elif res != r["result"]:
            why = f"outcome: model {res}, impl {r['result']}"
        elif res == "ok":
            ip = [[C.f64(h) for h in p] for p in r["path"]]
            if len(ip) != len(pts) or any(abs(a - b) > 1e-9 for p, q in zip(ip, pts) for a, b in zip(p, q)):
                why = f"path: model {len(pts)} nodes, impl {len(ip)} nodes, first difference at index " + \
                      str(next((k for k, (p, q) in enumerate(zip(ip, pts)) if any(abs(a - b) > 1e-9 for a, b in zip(p, q))), min(len(ip), len(pts))))
            if len(ip) > 2:
                distinct += 1
        if why:
            dis.append({"why": why, "record": {k: r[k] for k in ("case", "start", "goal", "step", "max_try", "obs", "cancel_mode", "stop_from_iter", "result")}})
        else:
            compared += 1
    samples = [{"case": r["case"], "step": C.f64(r["step"]), "max_try": r["max_try"], "n_obs": len(r["obs"]), "cancel_mode": r["cancel_mode"],
                "result": r["result"], "path_len": len(r["path"]) if r["path"] else 0, "hops_max": r["hops_max"]} for r in cases[:4]]
    return {"evaluations": len(cases) + len(e2e), "compared": compared, "undecided": undec, "disagreements": dis, "failures": failures,
            "samples": samples, "distribution": dict(dist), "distinct_nontrivial": distinct}


def search(tier, seed, res):
    recs = C.run_harness(["C13", tier, seed + 1000, 5000])
    return [r for r in recs if r.get("direct") == "fail"]
