"""C04 — continuation IK ordered by closeness to the previous joints."""
from props import _ikcommon as K
ID = "C04"
COQ_TARGETS = ["Exec/Kin.vo", "Properties/C04.vo", "Proofs/FirstK.vo"]
THEOREMS = ["C04_normalize_near_nearest", "C04_continuing_sorted", "C04_continuing_5dof_sorted", "C04_continuing_superset", "C04_previous_first"]
LEVEL_TEXT = ("Coq theorems: normalize_near returns the nearest 2pi-representative for every previous in [-2pi,2pi] and kernel angle in "
              "[-pi,pi]; the continuation lists are StronglySorted by the documented cost for every weight and the sentinel; every plain "
              "inverse answer appears modulo whole turns; PREVIOUS FIRST: on the concrete kernel (finishing glue over the generated "
              "table), previous joints within +-2pi and within the limits that realise a non-singular pose are the head of "
              "inverse_continuing when sorting is by distance to previous (C04_previous_first, from the completeness theorem of C02)")
LEVEL_NOTE = K.NOTE
TECHNIQUE = K.TECH
RULE = ("KIN records for entries 1 and 3 plus normalize_near / calculate_distance function records; oracle: nearest representative, "
        "cost ordering recomputed independently, superset, previous-first, 60-step joint-space trajectories; non-trivial = "
        "at least one solution returned; distinct = distinct (case, entry) / argument tuples")
EXPLANATION = "see LEVEL_NOTE"
ASSUMPTIONS = K.ASSUME
PARTIAL = ["previous-first is proved over R for sorting by distance to previous (weight 0) on non-singular configurations; that the f64 solver keeps the "
           "branch step by step along a sampled trajectory is decided by the oracle search"]
correspondence, search = K.make("C04", lambda r: (r["fn"] == "entry" and r["entry"] in (1, 3)) or r["fn"] in ("normalize_near", "calculate_distance", "sort_by_closeness"))
