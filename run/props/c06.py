"""C06 — 5-DOF inverse keeps tool point/axis and J6 as requested."""
from props import _ikcommon as K
ID = "C06"
COQ_TARGETS = ["Exec/Kin.vo", "Properties/C06.vo"]
THEOREMS = ["C06_inverse_5dof_j6", "C06_continuing_5dof_j6", "C06_dof5_dispatch", "C06_dof5_inverse_j6_zero"]
LEVEL_TEXT = ("Coq theorems: every answer of the 5-DOF entry points carries exactly the caller's J6 (argument / previous J6 / 0 for plain "
              "inverse of a 5-DOF robot) and a robot declared 5-DOF dispatches all four entry points to them")
LEVEL_NOTE = K.NOTE + "; tool point and axis accuracy and presence of the originating J1..J5 are decided by the oracle search (independent FK)"
TECHNIQUE = K.TECH
RULE = ("KIN records for entries 2,3 and for dof-5 robots; oracle cases: dof 5 and 6 robots x 4 entry points x J6 values x previous "
        "kinds x constraints; checks J6 bit-exact, tool point (1e-6) and axis, originating J1..J5 present when non-singular")
EXPLANATION = "see LEVEL_NOTE"
ASSUMPTIONS = K.ASSUME
PARTIAL = ["axis accuracy of the 5-DOF kernel (not re-checked by the code) and completeness: oracle search only"]
correspondence, search = K.make("C06", lambda r: r["fn"] == "entry" and (r["entry"] >= 2 or r["robot"]["params"]["dof"] == 5))
