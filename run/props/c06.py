"""C06 — 5-DOF inverse keeps tool point/axis and J6 as requested."""
from props import _ikcommon as K
from props import _finish as F
ID = "C06"
# files this check also depends on (the quick tier runs at the thorough sizes when one of them differs from the fingerprinted tree)
EXTRA_FILES = ['src/tool.rs']
COQ_TARGETS = ["Exec/Kin.vo", "Exec/Finish.vo", "Gen/Inverse.vo", "Proofs/Complete5.vo", "Proofs/Axis5.vo", "Properties/C06.vo"]
THEOREMS = ["C06_inverse_5dof_j6", "C06_continuing_5dof_j6", "C06_dof5_dispatch", "C06_dof5_inverse_j6_zero",
            "C06_concrete_inverse_5dof", "C06_concrete_continuing_5dof", "C06_twin5_in_table", "C06_fk_twin5",
            "C06_table5_is_table6", "C06_inverse_5dof_complete", "C06_kernel5_axis", "C06_inverse_5dof_axis", "C06_continuing_5dof_axis"]
LEVEL_TEXT = ("Coq theorems: every answer of the 5-DOF entry points carries exactly the caller's J6 (argument / previous J6 / 0 for plain "
              "inverse of a 5-DOF robot) and a robot declared 5-DOF dispatches all four entry points to them; the same end to end for the "
              "concrete kernel (finishing glue over the branch table GENERATED from inverse_intern_5_dof): every answer passed the position "
              "check against the generated forward kinematics and carries the caller's J6; the generated table is closed under the wrist "
              "flip (J4+pi, -J5), which keeps tool point and tool axis; COMPLETENESS: the 5-DOF table is by conversion the 6-DOF table without its J6 "
              "column, and away from the singularities inverse_5dof returns the originating J1..J5 (modulo whole turns) with the caller's J6")
LEVEL_NOTE = K.NOTE + "; tool point and axis accuracy and presence of the originating J1..J5 are decided by the oracle search (independent FK)"
TECHNIQUE = K.TECH
RULE = ("KIN records for entries 2,3 and for dof-5 robots; oracle cases: dof 5 and 6 robots x 4 entry points x J6 values x previous "
        "kinds x constraints; checks J6 bit-exact, tool point (1e-6) and axis, originating J1..J5 present when non-singular")
EXPLANATION = "see LEVEL_NOTE"
ASSUMPTIONS = K.ASSUME
PARTIAL = ["over R every 5-DOF answer has exactly the requested tool axis (C06_*_axis); that the f64 kernel keeps it within the stated accuracy is decided by the oracle search"]
_corr, search = K.make("C06", lambda r: r["fn"] == "entry" and (r["entry"] >= 2 or r["robot"]["params"]["dof"] == 5))


def correspondence(tier, seed, n=None):
    """KIN correspondence of the entry points + the finishing glue of the 5-DOF kernel (Model/Finish.v finish5) on traced 8x5 tables:
    offsets/signs on five joints, finiteness, wrap to [-pi, pi] of J1..J5 only, the caller's J6 appended untouched, position check."""
    res = _corr(tier, seed, n)
    res["failures"] += F.finish5(res, tier, seed, 3000 if tier == "thorough" else 400)
    return res
