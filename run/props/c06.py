"""C06 — 5-DOF inverse keeps tool point/axis and J6 as requested."""
from props import _ikcommon as K
import common as C
import kincorr
ID = "C06"
COQ_TARGETS = ["Exec/Kin.vo", "Exec/Finish.vo", "Properties/C06.vo"]
THEOREMS = ["C06_inverse_5dof_j6", "C06_continuing_5dof_j6", "C06_dof5_dispatch", "C06_dof5_inverse_j6_zero"]
LEVEL_TEXT = ("Coq theorems: every answer of the 5-DOF entry points carries exactly the caller's J6 (argument / previous J6 / 0 for plain "
              "inverse of a 5-DOF robot) and a robot declared 5-DOF dispatches all four entry points to them")
LEVEL_NOTE = K.NOTE + "; tool point and axis accuracy and presence of the originating J1..J5 are decided by the oracle search (independent FK)"
TECHNIQUE = K.TECH
RULE = ("KIN records for entries 2,3 and for dof-5 robots; oracle cases: dof 5 and 6 robots x 4 entry points x J6 values x previous "
        "kinds x constraints; checks J6 bit-exact, tool point (1e-6) and axis, originating J1..J5 present when non-singular")
EXPLANATION = "see LEVEL_NOTE"
ASSUMPTIONS = K.ASSUME
PARTIAL = ["axis accuracy of the 5-DOF kernel (not re-checked by the code) and completeness: oracle search only"]
_corr, search = K.make("C06", lambda r: r["fn"] == "entry" and (r["entry"] >= 2 or r["robot"]["params"]["dof"] == 5))


def finish5_expr(r):
    import math
    from fractions import Fraction
    P = r["robot"]["params"]
    sg = C.qlist([Fraction(s) for s in P["sg"]])
    off = C.qlist([C.frac(h) for h in P["off"]])
    rows = []
    for row in r["theta5"]:
        cells = []
        for h in row:
            x = C.f64(h)
            cells.append(f"({C.qlit(Fraction(x))}, true)" if math.isfinite(x) else "(0, false)")
        rows.append("[" + "; ".join(cells) + "]")
    ver = "[" + "; ".join(f"({C.qlist([C.frac(h) for h in v['c']])}, {'true' if v['ok'] else 'false'})" for v in r["verdicts5"]) + "]"
    return f"run_finish5 {sg} {off} {C.qlit(C.frac(r['j6used']))} [{'; '.join(rows)}] {ver}"


def correspondence(tier, seed, n=None):
    """KIN correspondence of the entry points + the finishing glue of the 5-DOF kernel (Model/Finish.v finish5) on traced 8x5 tables:
    offsets/signs on five joints, finiteness, wrap to [-pi, pi] of J1..J5 only, the caller's J6 appended untouched, position check."""
    res = _corr(tier, seed, n)
    recs = C.run_harness(["C06", tier, seed + 7, 3000 if tier == "thorough" else 400])
    sel = [r for r in recs if r.get("prop") == "C06" and r.get("theta5") and not r.get("und5")]
    res["undecided"] += len([r for r in recs if r.get("und5")])
    outs = C.coq_eval("c06f", "From VF Require Import Exec.Finish.", [finish5_expr(r) for r in sel], shard=50)
    for r, zs in zip(sel, outs):
        model = kincorr.decode_sols(zs)
        impl = [[C.f64(h) for h in s] for s in r["kernel5"]]
        # J6 must be the caller's value exactly (no tolerance): the model appends it verbatim
        exact6 = all(float(m[5]) == s[5] for m, s in zip(model, impl))
        if kincorr.sols_equal(model, impl) and exact6:
            res["compared"] += 1
        else:
            res["disagreements"].append({"why": f"5-DOF finishing glue: model {len(model)} rows, implementation {len(impl)} (or J6 not verbatim)",
                                         "record": {k: r[k] for k in ("case", "robot", "j", "j6used", "kernel5")}})
    res["evaluations"] += len(sel)
    res["distribution"]["finish5_tables"] = len(sel)
    res["failures"] += [r for r in recs if r.get("direct") == "fail"]
    return res
