"""C10 — collision verdicts equal a brute-force pairwise check."""
import collections
from fractions import Fraction
import common as C

ID = "C10"
COQ_TARGETS = ["Exec/Collide.vo", "Gen/Consts.vo", "Properties/C10.vo"]
THEOREMS = ["C10_all_mode_eq_brute", "C10_first_mode_sub_nonempty", "C10_nocheck_empty", "C10_collides_iff_exists", "C10_min_distance_sym", "C10_prefilter_design"]
LEVEL_TEXT = ("Coq theorems for every body configuration (tool/base presence, any number of environment objects), every safety table and "
              "every behaviour of the geometry oracles and of find_map_any: all-collisions mode lists exactly the relevant, non-exempt pairs "
              "the brute-force check flags; first-collision mode returns a subset that is empty iff that set is empty (for EVERY scheduling "
              "choice); no-check returns nothing; collides <-> some relevant pair is flagged")
LEVEL_NOTE = ("hand-written model of the pair enumeration / per-pair decision of collisions.rs over R, geometry as oracle parameters, "
              "rayon as an arbitrary choice function; hypothesis prefilter_sound (the enlarged-box pre-filter only discards pairs farther than "
              "r) is about code in this repo and is TESTED: the executable model uses the exact distance, so an unsound pre-filter shows as a "
              "disagreement; tie: vm_compute of the Q instance on oracle tables computed with parry3d directly vs collides/collision_details/"
              "near on synthetic scenes under several rayon pool sizes")
TECHNIQUE = "Coq proof over R with oracle/choice parameters + vm_compute correspondence on parry3d-computed tables"
RULE = ("synthetic scenes: 6 link boxes of differing vertex counts (overlapping / nested / near / far), optional tool and base, 0-3 environment "
        "boxes and plates, random safety tables (touch-only, positive distances, per-pair overrides, NEVER_COLLIDES on any pair incl. J1/base), "
        "3 check modes, rayon pools {1,3,16} (thorough 1..16); pairs within 2e-4 of their threshold are undecided; non-trivial = at least "
        "one relevant pair flagged; distinct = distinct scenes")
EXPLANATION = LEVEL_NOTE
ASSUMPTIONS = ["parry3d intersection_test and distance are the geometric truth (oracle)", "f32 link poses: pairs within 2e-4 m of the threshold undecided"]
PARTIAL = ["real rayon interleavings are represented by the universally quantified choice function; pool sizes 1..16 are exercised by the harness"]
MODE = {"first": 0, "all": 1, "nocheck": 2}


def safety_lit(s):
    sp = "[" + "; ".join(f"(({a})%Z, ({b})%Z, {C.qlit(C.frac(v))})" for a, b, v in s["special"]) + "]"
    return f"(mk_safety {C.qlit(C.frac(s['env']))} {C.qlit(C.frac(s['robot']))} {sp} {MODE[s['mode']]})"


def table_lit(t):
    return "[" + "; ".join(f"(({a})%Z, ({b})%Z, {'true' if it else 'false'}, {C.qlit(C.frac(d))})" for a, b, it, d, _r in t) + "]"


def expr(r):
    return (f"run_c10 {'true' if r['tool'] else 'false'} {'true' if r['base'] else 'false'} {r['n_env']}%nat "
            f"{safety_lit(r['safety'])} {safety_lit(r['near_safety'])} {table_lit(r['table'])} {table_lit(r['near_table'])}")


def decode(zs):
    coll = zs[0] == 1
    n = zs[1]
    det = {(zs[2 + 2 * k], zs[3 + 2 * k]) for k in range(n)}
    o = 2 + 2 * n
    m = zs[o]
    near = {(zs[o + 1 + 2 * k], zs[o + 2 + 2 * k]) for k in range(m)}
    return coll, det, near


def correspondence(tier, seed, n=None):
    recs = C.run_harness(["C10", tier, seed] + ([n] if n else []))
    cases = [r for r in recs if "table" in r]
    failures = [r for r in recs if r.get("direct") == "fail"]
    outs = C.coq_eval("c10", "From VF Require Import Exec.Collide.", [expr(r) for r in cases], shard=30)
    dis, compared, undec = [], 0, 0
    dist = collections.Counter()
    distinct = 0
    for r, zs in zip(cases, outs):
        coll, det, near = decode(zs)
        und = {tuple(p) for p in r["undecided"]}
        und_n = {tuple(p) for p in r["near_undecided"]}
        idet = {tuple(p) for p in r["impl"]["details"]}
        inear = {tuple(p) for p in r["impl"]["near"]}
        mode = r["safety"]["mode"]
        dist[f"mode:{mode}"] += 1
        dist[f"tool{int(r['tool'])}base{int(r['base'])}env{r['n_env']}"] += 1
        why = None
        if near - und_n != inear - und_n:
            why = f"near: model {sorted(near)} impl {sorted(inear)}"
        if mode == "all" and det - und != idet - und:
            why = f"collision_details(all): model {sorted(det)} impl {sorted(idet)}"
        if mode == "first":
            # model hits (all mode) are not printed in first mode; compare emptiness and membership through near-like reasoning
            if (len(det - und) == 0) != (len(idet - und) == 0) and not und:
                why = f"collision_details(first): emptiness model {sorted(det)} impl {sorted(idet)}"
        if mode == "nocheck" and (idet or r["impl"]["collides"]):
            why = "nocheck mode reports something"
        if not und and coll != r["impl"]["collides"]:
            why = f"collides: model {coll} impl {r['impl']['collides']}"
        if und or und_n:
            undec += 1
        else:
            compared += 1
        if det or near:
            distinct += 1
        if why:
            dis.append({"why": why, "record": {k: r[k] for k in ("case", "tool", "base", "n_env", "safety", "near_safety", "q", "impl", "undecided")}})
    samples = [{"case": r["case"], "tool": r["tool"], "base": r["base"], "n_env": r["n_env"], "mode": r["safety"]["mode"],
                "pairs_in_table": len(r["table"]), "impl": r["impl"]} for r in cases[:3]]
    return {"evaluations": len(cases), "compared": compared, "undecided": undec, "disagreements": dis, "failures": failures,
            "samples": samples, "distribution": dict(dist), "distinct_nontrivial": distinct}


def search(tier, seed, res):
    out = []
    for s in range(2):
        recs = C.run_harness(["C10", tier, seed + 1000 + s, 3000])
        out += [r for r in recs if r.get("direct") == "fail"]
        if out:
            break
    return out
