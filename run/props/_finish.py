"""Correspondence of the finishing glue (Model/Finish.v) with the tails of inverse_intern / inverse_intern_5_dof on traced branch tables."""
import math
from fractions import Fraction
import common as C
import kincorr


def _rows(table):
    rows = []
    for row in table:
        cells = []
        for h in row:
            x = C.f64(h)
            cells.append(f"({C.qlit(Fraction(x))}, true)" if math.isfinite(x) else "(0, false)")
        rows.append("[" + "; ".join(cells) + "]")
    return "[" + "; ".join(rows) + "]"


def _verdicts(vs):
    return "[" + "; ".join(f"({C.qlist([C.frac(h) for h in v['c']])}, {'true' if v['ok'] else 'false'})" for v in vs) + "]"


def _sgoff(P):
    return C.qlist([Fraction(s) for s in P["sg"]]), C.qlist([C.frac(h) for h in P["off"]])


def finish_expr(r):
    sg, off = _sgoff(r["robot"]["params"])
    return f"run_finish {sg} {off} {_rows(r['theta'])} {_verdicts(r['verdicts'])}"


def finish5_expr(r):
    sg, off = _sgoff(r["robot"]["params"])
    return f"run_finish5 {sg} {off} {C.qlit(C.frac(r['j6used']))} {_rows(r['theta5'])} {_verdicts(r['verdicts5'])}"


def finish6(res, tier, seed, n):
    """6-DOF kernel tail: C02 harness records carry the traced 8x6 table, the FK verdicts and the kernel output"""
    recs = C.run_harness(["C02", tier, seed + 11, n])
    sel = [r for r in recs if r.get("prop") == "C02" and r.get("theta")]
    outs = C.coq_eval("fin6", "From VF Require Import Exec.Finish.", [finish_expr(r) for r in sel], shard=50)
    for r, zs in zip(sel, outs):
        model = kincorr.decode_sols(zs)
        impl = [[C.f64(h) for h in s] for s in r["kernel"]]
        if kincorr.sols_equal(model, impl):
            res["compared"] += 1
        else:
            res["disagreements"].append({"why": f"finishing glue: model {len(model)} rows, implementation {len(impl)}", "record": {k: r[k] for k in ("case", "robot", "q", "kernel")}})
    res["evaluations"] += len(sel)
    res["distribution"]["finish6_tables"] = len(sel)


def finish5(res, tier, seed, n):
    """5-DOF kernel tail: C06 harness records carry the traced 8x5 table, position verdicts, the caller's J6 and the kernel output"""
    recs = C.run_harness(["C06", tier, seed + 7, n])
    sel = [r for r in recs if r.get("prop") == "C06" and r.get("theta5") and not r.get("und5")]
    res["undecided"] += len([r for r in recs if r.get("und5")])
    outs = C.coq_eval("fin5", "From VF Require Import Exec.Finish.", [finish5_expr(r) for r in sel], shard=50)
    for r, zs in zip(sel, outs):
        model = kincorr.decode_sols(zs)
        impl = [[C.f64(h) for h in s] for s in r["kernel5"]]
        exact6 = all(float(m[5]) == s[5] for m, s in zip(model, impl))    # J6 verbatim, no tolerance
        if kincorr.sols_equal(model, impl) and exact6:
            res["compared"] += 1
        else:
            res["disagreements"].append({"why": f"5-DOF finishing glue: model {len(model)} rows, implementation {len(impl)} (or J6 not verbatim)",
                                         "record": {k: r[k] for k in ("case", "robot", "j", "j6used", "kernel5")}})
    res["evaluations"] += len(sel)
    res["distribution"]["finish5_tables"] = len(sel)
    return [r for r in recs if r.get("direct") == "fail"]
