"""C01 — every IK answer reproduces the requested pose."""
from props import _ikcommon as K
ID = "C01"
COQ_TARGETS = ["Exec/Kin.vo", "Properties/C01.vo"]
THEOREMS = ["C01_inverse_sound", "C01_continuing_sound", "C01_inverse_5dof_sound", "C01_continuing_5dof_sound"]
LEVEL_TEXT = ("Coq theorems: every answer of the four entry points realises the requested pose (within the solver's accuracy) given the "
              "kernel contract (kernel rows are FK-cross-checked) and the FK verdict on singular candidates; answers adopted from a "
              "0.125 um shifted pose only when the unshifted pose has no kernel answer")
LEVEL_NOTE = K.NOTE
TECHNIQUE = K.TECH
RULE = ("all KIN entry records; oracle cases: random robots (dof 5/6) x pose kinds (reachable, J5=0, J5=pi, unreachable, on the J1 axis, "
        "stretched, random, NaN/inf components) x 4 entry points x previous kinds (origin, near, random, |q|<=40, sentinel); independent "
        "f64 link-chain FK of every returned vector; non-trivial = at least one solution returned")
EXPLANATION = "see LEVEL_NOTE"
ASSUMPTIONS = K.ASSUME
PARTIAL = ["the kernel contract (rows returned by inverse_intern passed compare_poses) is an oracle hypothesis here; NaN/inf inputs: sweep only"]
correspondence, search = K.make("C01", lambda r: r["fn"] == "entry")
