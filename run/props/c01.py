"""C01 — every IK answer reproduces the requested pose."""
from props import _ikcommon as K
from props import _finish as F
ID = "C01"
# files this check also depends on (the quick tier runs at the thorough sizes when one of them differs from the fingerprinted tree)
EXTRA_FILES = ['src/constraints.rs']
COQ_TARGETS = ["Exec/Kin.vo", "Exec/Finish.vo", "Gen/Inverse.vo", "Properties/C01.vo"]
THEOREMS = ["C01_inverse_sound", "C01_continuing_sound", "C01_inverse_5dof_sound", "C01_continuing_5dof_sound",
            "C01_concrete_inverse", "C01_concrete_continuing", "C01_concrete_inverse_5dof", "C01_concrete_continuing_5dof", "C01_unreachable_empty"]
LEVEL_TEXT = ("Coq theorems: every answer of the four entry points realises the requested pose (within the solver's accuracy) given the "
              "kernel contract (kernel rows are FK-cross-checked) and the FK verdict on singular candidates; answers adopted from a "
              "0.125 um shifted pose only when the unshifted pose has no kernel answer.  End to end (C01_concrete_*): for the concrete "
              "kernel = finishing glue over the branch tables GENERATED from inverse_intern / inverse_intern_5_dof, every answer of every "
              "entry point passed the pose comparison against the GENERATED forward kinematics (periodicity of FK under whole turns proved), "
              "and every angle of plain inverse lies in [-pi, pi]; no kernel hypothesis left, only the meaning of nalgebra's comparison")
LEVEL_NOTE = K.NOTE
TECHNIQUE = K.TECH
RULE = ("all KIN entry records; oracle cases: random robots (dof 5/6) x pose kinds (reachable, J5=0, J5=pi, unreachable, on the J1 axis, "
        "stretched, random, NaN/inf components) x 4 entry points x previous kinds (origin, near, random, |q|<=40, sentinel); independent "
        "f64 link-chain FK of every returned vector; non-trivial = at least one solution returned")
EXPLANATION = "see LEVEL_NOTE"
ASSUMPTIONS = K.ASSUME
PARTIAL = ["NaN/inf inputs: sweep only; the pose comparison (nalgebra) enters as a hypothesis on its verdict"]
_corr, search = K.make("C01", lambda r: r["fn"] == "entry")


def correspondence(tier, seed, n=None):
    """KIN correspondence of the four entry points + the tails of both kernels (offsets/signs, finiteness, normalisation to
    [-pi, pi], FK cross-check) on traced branch tables"""
    res = _corr(tier, seed, n)
    F.finish6(res, tier, seed, 3000 if tier == "thorough" else 300)
    res["failures"] += F.finish5(res, tier, seed, 2000 if tier == "thorough" else 200)
    return res
