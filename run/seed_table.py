#!/usr/bin/env python3
"""Development tool: markdown table of the seeded patches of one round (seeded/<ID><suffix>/meta.json + results.json).

  python3 run/seed_table.py r3 C03 C06 C09 ...
"""
import json, os, re, sys


def cell(x, n):
    x = re.sub(r"\s+", " ", str(x)).replace("|", "/")
    return x if len(x) <= n else x[:n - 3] + "..."


def main(suffix, ids):
    print("| patch | change (agent's summary, shortened) | measured rate (agent) | how it is caught (quick tier) | failing input |")
    print("|---|---|---|---|---|")
    for pid in ids:
        d = f"/verif/seeded/{pid}{suffix}"
        meta = json.load(open(f"{d}/meta.json"))
        res = json.load(open(f"{d}/results.json")) if os.path.exists(f"{d}/results.json") else {}
        for m in meta:
            key = f"{m['patch']}:{pid}:quick"
            r = res.get(key)
            how, inp = "not run", ""
            if r:
                tail = r["tail"][-1] if r["tail"] else ""
                mm = re.search(r"disagreements (\d+), oracle failures (\d+)", tail)
                parts = []
                if mm and int(mm.group(1)):
                    parts.append(f"correspondence ({mm.group(1)})")
                if mm and int(mm.group(2)):
                    parts.append(f"oracle ({mm.group(2)})")
                if not parts and r["caught"]:
                    parts.append("proof / translator obligation")
                how = "; ".join(parts) if r["caught"] else "**missed**"
                inp = "yes" if r["with_failing_input"] else ("no" if r["caught"] else "")
            rate = m.get("violation_rate") or m.get("measured_violation_rate") or next((v for k, v in m.items() if "rate" in k and v), "")
            if isinstance(rate, dict):
                rate = json.dumps(rate)
            mr = re.search(r"['\"]?rate['\"]?\s*[:=]\s*([0-9.eE+-]+)", str(rate))
            if mr:
                rate = mr.group(1)
            print(f"| {pid} {suffix} {m['patch'][:-5]} | {cell(m.get('summary', ''), 150)} | {cell(rate, 60)} | {how} | {inp} |")


if __name__ == "__main__":
    main(sys.argv[1], sys.argv[2:])
