#!/usr/bin/env python3
"""One entry point for every property:  check.py <ID> [--tier quick|thorough]

 1 regenerate coq/Gen from /repo/src (translator)       -> BROKEN(translate)
 2 make the property's .vo (theorems re-checked)        -> BROKEN(theorem)
 3 hygiene grep + Print Assumptions audit               -> BROKEN(hygiene/axiom)
 4 rebuild the harness against /repo's working tree     -> BROKEN(harness-build)
 5 correspondence: implementation vs executable model   -> BROKEN(correspondence)
 6 independent property oracle on the implementation    -> failing inputs
 7 if BROKEN: deeper search for a failing input
 8 classify against known_findings.json, write evidence, VIOLATION lines, exit code
"""
import glob
import argparse, importlib, json, os, sys, time, traceback

sys.path.insert(0, os.path.dirname(os.path.abspath(__file__)))
import common as C
from common import Broken


def load_known():
    p = f"{C.ROOT}/known_findings.json"
    if not os.path.exists(p):
        return []
    return json.load(open(p))


def main():
    ap = argparse.ArgumentParser()
    ap.add_argument("prop")
    ap.add_argument("--tier", default=os.environ.get("VERIF_TIER", "quick"))
    ap.add_argument("--seed", type=int, default=int(os.environ.get("VERIF_SEED", "1")))
    a = ap.parse_args()
    prop, tier, seed = a.prop, a.tier, a.seed
    if tier not in ("quick", "thorough"):
        tier = "quick"
    t0 = time.time()
    mod = importlib.import_module(f"props.{prop.lower()}")
    # how hard to look: if a source file this property is anchored in differs from the tree the machinery was validated on,
    # the correspondence and the oracle run at the thorough sizes (a difference is never a violation by itself)
    run_tier, escalated = tier, []
    notes = []
    try:
        import fingerprint
        anchored = set()
        for line in open(f"{C.ROOT}/properties.jsonl"):
            pj = json.loads(line)
            if pj["id"] == prop:
                anchored = set(pj.get("anchors", {}).get("files", []))
        anchored |= set(getattr(mod, "EXTRA_FILES", []))
        escalated = [f for f in fingerprint.changed() if f in anchored or not anchored]
        if escalated and tier == "quick" and not os.environ.get("VERIF_NO_ESCALATE"):
            run_tier = "thorough"
            print(f"note: {', '.join(escalated)} differ(s) from the fingerprinted tree: correspondence and oracle run at thorough size")
            notes.append("escalated to thorough sizes: " + ", ".join(escalated) + " differ from the fingerprinted tree")
    except Exception as e:
        print("note: fingerprint comparison unavailable:", repr(e))
    os.makedirs(C.REPLAY, exist_ok=True)
    for old_replay in glob.glob(f"{C.REPLAY}/{prop}-*.json"):      # replay files of an earlier run say nothing about this one
        try:
            os.remove(old_replay)
        except OSError:
            pass
    os.makedirs(f"{C.ROOT}/evidence", exist_ok=True)
    broken = []          # (what, detail)
    discharged = 0
    axioms = []

    # 1 translator
    gen_info = {}
    try:
        import translate
        gen_info = translate.regenerate(prop)
    except Broken as b:
        broken.append((f"translate:{b.what}", b.detail))
    except ImportError:
        pass

    # 2 theorems
    proof_ok = False
    try:
        if tier == "thorough":
            for t in mod.COQ_TARGETS:
                for ext in (".vo", ".vok", ".vos", ".glob"):
                    try:
                        os.remove(f"{C.COQ}/{t[:-3]}{ext}")
                    except OSError:
                        pass
        ok, log = C.coq_make([t for t in mod.COQ_TARGETS if t.startswith("Exec/") or t.startswith("Model/") or t.startswith("Gen/")])
        if not ok:
            broken.append(("model-build", log[-3000:]))
        ok, log = C.coq_make(mod.COQ_TARGETS)
        if ok:
            proof_ok = True
        else:
            import re
            m = re.search(r'File "\./([^"]+)", line (\d+)', log)
            where = f"{m.group(1)}:{m.group(2)}" if m else "?"
            broken.append((f"theorem:{where}", log[-3000:]))
    except Exception as e:  # timeout etc.
        broken.append(("coq-build", repr(e)))

    # 3 hygiene + assumptions
    bad = C.hygiene()
    if bad:
        broken.append(("hygiene", "; ".join(bad[:20])))
    if proof_ok:
        try:
            axioms, extra, closed = C.assumptions(prop, mod.THEOREMS)
            if extra:
                broken.append(("axiom-not-allowed", ", ".join(extra)))
            else:
                discharged = len(mod.THEOREMS)
        except Broken as b:
            broken.append((b.what, b.detail))
    coqchk = None
    if tier == "thorough" and proof_ok:
        rc, out = C.sh(["coqchk", "-silent", "-o", "-Q", C.COQ, "VF", f"VF.Properties.{prop}"], timeout=3000)
        coqchk = "ok" if rc == 0 else "FAILED"
        if rc != 0:
            broken.append(("coqchk", out[-2000:]))
        else:
            notes.append("coqchk: " + " ".join(out.split())[-600:])

    # 4 harness, 5 correspondence, 6 direct oracle
    res = {"evaluations": 0, "compared": 0, "undecided": 0, "disagreements": [], "failures": [], "samples": [], "distribution": {}}
    try:
        C.build_harness()
        res = mod.correspondence(run_tier, seed)
    except Broken as b:
        broken.append((b.what, b.detail))
    except Exception as e:
        broken.append(("harness-run", traceback.format_exc()[-3000:]))
    if res["disagreements"]:
        d0 = res["disagreements"][0]
        broken.append(("correspondence", json.dumps(d0)[:3000]))

    failures = list(res["failures"])
    # 7 deeper search when something no longer checks and no failing input is at hand yet
    if broken and not failures and hasattr(mod, "search"):
        try:
            failures += mod.search(run_tier, seed, res)
        except Exception as e:
            notes.append("search failed: " + repr(e))

    # 8 classify
    known = [k for k in load_known() if k.get("property") == prop]
    known_classes = {k["class"]: k for k in known if k.get("status") == "known"}
    seen_known, violations = {}, []
    for f in failures:
        cls = f.get("class", "")
        if cls in known_classes:
            seen_known.setdefault(cls, f)
        else:
            violations.append(f)
    lines = []
    for cls, f in seen_known.items():
        lines.append(f"KNOWN-FINDING: property={prop} {cls}: {known_classes[cls].get('description','')}")
    n = 0
    reported_classes = set()
    for f in violations:
        cls = f.get("class", "")
        if cls in reported_classes:
            continue
        reported_classes.add(cls)
        n += 1
        path = f"{C.REPLAY}/{prop}-{n}.json"
        json.dump({"property": prop, "kind": "failing-input", "class": cls, "record": f,
                   "broken": [b[0] for b in broken],
                   "replay_cmd": f"python3 {C.ROOT}/run/replay.py {path}"}, open(path, "w"), indent=1)
        lines.append(f"VIOLATION property={prop} replay={path}")
        if n >= 5:
            break
    if broken and not violations:
        # the property is no longer shown to hold; nothing concrete found (known findings do not explain a break)
        path = f"{C.REPLAY}/{prop}-unchecked.json"
        json.dump({"property": prop, "kind": "unchecked-obligation",
                   "broken": [{"what": w, "detail": d} for w, d in broken],
                   "note": "no failing input found by the search; the theorem / correspondence named here no longer checks"},
                  open(path, "w"), indent=1)
        lines.append(f"VIOLATION property={prop} replay={path} no-failing-input-found")

    wall = time.time() - t0
    obligations = len(mod.THEOREMS) + 1   # + the correspondence itself
    corr_ok = not any(w == "correspondence" or w.startswith("harness") or w.startswith("model") for w, _ in broken)
    ev = {
        "property_id": prop, "tier": tier, "seed": seed, "level": "proof",
        "coverage": {
            "obligations": obligations,
            "discharged": discharged + (1 if corr_ok and res["evaluations"] > 0 else 0),
            "checker_cmd": f"make -C {C.COQ} -j16 {' '.join(mod.COQ_TARGETS)} && coqc -Q {C.COQ} VF {C.CASES}/assum_{prop}.v  (Print Assumptions of every theorem)"
                           + ("; coqchk -o VF.Properties." + prop if tier == "thorough" else ""),
            "trusted_base": C.TRUSTED_BASE + getattr(mod, "TRUSTED_EXTRA", []),
            "theorems": mod.THEOREMS,
            "axioms": axioms,
            "coqchk": coqchk,
            "generated_models": gen_info,
            "evaluations": res["evaluations"],
            "distinct_nontrivial": res.get("distinct_nontrivial", res["compared"]),
            "rule": getattr(mod, "RULE", ""),
            "compared_model_vs_impl": res["compared"],
            "undecided_margin": res["undecided"],
            "disagreements": len(res["disagreements"]),
            "direct_oracle_failures": len(res["failures"]),
            "distribution": res["distribution"],
            "samples": res["samples"][:5],
            "broken": [w for w, _ in broken],
            "known_findings_seen": sorted(seen_known),
            "partial": getattr(mod, "PARTIAL", []),
            "explanation": getattr(mod, "EXPLANATION", ""),
        },
        "assumptions": getattr(mod, "ASSUMPTIONS", []),
        "wall_s": round(wall, 2),
        "violations": len([l for l in lines if l.startswith("VIOLATION")]),
        "notes": notes,
    }
    json.dump(ev, open(f"{C.ROOT}/evidence/{prop}.json", "w"), indent=1)
    for w, d in broken:
        print(f"BROKEN {prop}: {w}")
        if os.environ.get("VERIF_VERBOSE"):
            print(d)
    for l in lines:
        print(l)
    print(f"{prop} {tier}: theorems {discharged}/{len(mod.THEOREMS)}, cases {res['evaluations']}, compared {res['compared']}, "
          f"undecided {res['undecided']}, disagreements {len(res['disagreements'])}, oracle failures {len(res['failures'])}, {wall:.1f}s")
    sys.exit(1 if any(l.startswith("VIOLATION") for l in lines) else 0)


if __name__ == "__main__":
    main()
