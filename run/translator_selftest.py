#!/usr/bin/env python3
"""Development tool: sensitivity of the translator.  Every single-token mutation of the translated regions of
kinematics_impl.rs (forward, forward_with_joint_poses, the closed-form part of inverse_intern / inverse_intern_5_dof) must
either change the generated Coq text or be refused - a mutation the translator does not see would be a blind spot of the
translator tie.  Prints a summary; nothing here is registered in MANIFEST.json."""
import random, re, sys
sys.path.insert(0, "/verif/run")
import translate
from common import Broken

SRC = open("/repo/src/kinematics_impl.rs").read()


def region(name, end_marker):
    i = SRC.index(f"fn {name}(")
    j = SRC.index(end_marker, i)
    return i, j


REGIONS = {
    "forward": region("forward", "fn forward_with_joint_poses("),
    "forward_with_joint_poses": region("forward_with_joint_poses", "fn inverse_5dof("),
    "inverse_intern": (SRC.index("fn inverse_intern("), SRC.index("let mut sols", SRC.index("fn inverse_intern("))),
    "inverse_intern_5_dof": (SRC.index("fn inverse_intern_5_dof("), SRC.index("let mut sols", SRC.index("fn inverse_intern_5_dof("))),
}
GEN = {"forward": translate.gen_forward, "forward_with_joint_poses": translate.gen_forward,
       "inverse_intern": translate.gen_inverse, "inverse_intern_5_dof": translate.gen_inverse}
MUT = [(r"\bsin\b", "cos"), (r"\bcos\b", "sin"), (r" \+ ", " - "), (r" - ", " + "), (r" \* ", " + "), (r"\batan2\b", "hypot"),
       (r"\bacos\b", "asin"), (r"\b2\.0\b", "3.0"), (r"theta1_i\b", "theta1_ii"), (r"theta5_iv\b", "theta5_iii"), (r"\bc1\b", "c2"),
       (r"\ba1\b", "a2"), (r"\[0\]", "[1]"), (r"\bs23\[1\]", "s23[0]"), (r"\bPI\b", "(PI / 2.0)")]


def main(n=400, seed=1):
    rng = random.Random(seed)
    base = {k: GEN[k](SRC) for k in REGIONS}
    seen = refused = unseen = 0
    blind = []
    for _ in range(n):
        name = rng.choice(list(REGIONS))
        i, j = REGIONS[name]
        body = SRC[i:j]
        body_code = body
        pat, rep = rng.choice(MUT)
        hits = [m for m in re.finditer(pat, body_code) if "//" not in body_code[body_code.rfind("\n", 0, m.start()) + 1:m.start()]]
        if not hits:
            continue
        m = rng.choice(hits)
        mutated = SRC[:i] + body[:m.start()] + rep + body[m.end():] + SRC[j:]
        try:
            out = GEN[name](mutated)
            if out != base[name]:
                seen += 1
            else:
                unseen += 1
                blind.append((name, pat, rep, body[max(0, m.start() - 40):m.end() + 20].replace("\n", " ")))
        except (Broken, Exception):
            refused += 1
    print(f"mutations: changed generated text {seen}, refused {refused}, NOT SEEN {unseen}")
    for b in blind[:20]:
        print("  blind:", b)
    return unseen


if __name__ == "__main__":
    sys.exit(1 if main() else 0)
