#!/usr/bin/env python3
"""Fingerprints of /repo's Rust sources (comments and whitespace removed).

  fingerprint.py --write     record the current tree in /verif/fingerprints.json (do this after a fix: / hook commit)
  fingerprint.py             print the files that differ from the recorded tree

The checks use this only to decide HOW HARD to look: when a file a property is anchored in differs from the tree the
machinery was validated on, the quick tier runs its correspondence and oracle at the thorough sizes.  A difference is never
reported as a violation by itself."""
import glob, hashlib, json, os, re, sys

REPO, OUT = "/repo", "/verif/fingerprints.json"


def normalise(text):
    text = re.sub(r"/\*.*?\*/", "", text, flags=re.S)
    text = re.sub(r"//[^\n]*", "", text)
    return re.sub(r"\s+", "", text)


def current():
    fp = {}
    for p in sorted(glob.glob(f"{REPO}/src/**/*.rs", recursive=True)):
        fp[os.path.relpath(p, REPO)] = hashlib.sha256(normalise(open(p, encoding="utf-8", errors="replace").read()).encode()).hexdigest()
    return fp


def changed():
    ref = json.load(open(OUT)) if os.path.exists(OUT) else {}
    now = current()
    return sorted(f for f in set(ref) | set(now) if ref.get(f) != now.get(f))


if __name__ == "__main__":
    if "--write" in sys.argv:
        json.dump(current(), open(OUT, "w"), indent=1)
        print("written", OUT)
    else:
        print("\n".join(changed()) or "(no difference)")
