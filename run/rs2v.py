"""rs2v: translator from a small, closed subset of Rust (straight-line f64 / nalgebra code)
to Gallina over R.  Anything outside the subset raises Refuse (handled like a broken proof).

Symbolic values: scalar expression trees, Vec3, Mat3, Iso (rotation matrix + translation),
arrays.  Every Rust `let` becomes one or more Gallina `let`s on scalars (A-normal form), so the
proofs can `cbv zeta` and use ring/field on named pieces.
"""
import re


class Refuse(Exception):
    pass


# ------------------------------------------------------------------ tokenizer
TOK = re.compile(r"""
  (?P<ws>\s+|//[^\n]*|/\*.*?\*/)
 |(?P<str>"(?:[^"\\]|\\.)*")
 |(?P<num>\d+\.\d*(?:[eE][+-]?\d+)?|\d+[eE][+-]?\d+|\d+)(?:_?f64|_?f32)?
 |(?P<id>[A-Za-z_][A-Za-z_0-9]*)
 |(?P<op>::|->|=>|==|!=|<=|>=|\+=|-=|&&|\|\||[-+*/%=<>!&|.,;:()\[\]{}'#?])
""", re.X | re.S)


def tokenize(src):
    out, i = [], 0
    while i < len(src):
        m = TOK.match(src, i)
        if not m:
            raise Refuse(f"cannot tokenize at: {src[i:i+30]!r}")
        i = m.end()
        if m.lastgroup == "ws":
            continue
        if m.lastgroup == "num":
            out.append(("num", m.group("num")))
        else:
            out.append((m.lastgroup, m.group(m.lastgroup)))
    return out


# ------------------------------------------------------------------ AST of Rust expressions
class P:
    def __init__(self, toks):
        self.t, self.i = toks, 0

    def peek(self, k=0):
        return self.t[self.i + k] if self.i + k < len(self.t) else ("eof", "")

    def eat(self, v=None):
        tok = self.peek()
        if v is not None and tok[1] != v:
            raise Refuse(f"expected {v!r}, got {tok[1]!r} near token {self.i}")
        self.i += 1
        return tok

    def at(self, v):
        return self.peek()[1] == v

    # expr := additive
    def expr(self):
        return self.additive()

    def additive(self):
        a = self.multiplicative()
        while self.peek()[1] in ("+", "-"):
            op = self.eat()[1]
            b = self.multiplicative()
            a = ("bin", op, a, b)
        return a

    def multiplicative(self):
        a = self.cast()
        while self.peek()[1] in ("*", "/"):
            op = self.eat()[1]
            b = self.cast()
            a = ("bin", op, a, b)
        return a

    def cast(self):
        a = self.unary()
        while self.at("as"):
            self.eat()
            ty = self.eat()[1]
            if ty != "f64":
                raise Refuse(f"cast to {ty}")
            a = ("cast", a)
        return a

    def unary(self):
        if self.at("-"):
            self.eat()
            return ("neg", self.unary())
        if self.at("*") or self.at("&"):
            self.eat()
            return self.unary()          # deref / borrow: transparent for values
        return self.postfix()

    def args(self):
        self.eat("(")
        xs = []
        while not self.at(")"):
            xs.append(self.expr())
            if self.at(","):
                self.eat()
        self.eat(")")
        return xs

    def postfix(self):
        a = self.primary()
        while True:
            if self.at("."):
                self.eat()
                name = self.eat()
                if name[0] == "num":       # tuple field
                    a = ("field", a, name[1])
                elif self.at("("):
                    a = ("method", a, name[1], self.args())
                elif self.at("::"):        # turbofish e.g. cast::<f32>()
                    raise Refuse("turbofish")
                else:
                    a = ("field", a, name[1])
            elif self.at("["):
                self.eat()
                if self.at("("):
                    self.eat()
                    i = self.expr(); self.eat(","); j = self.expr()
                    self.eat(")"); self.eat("]")
                    a = ("index2", a, i, j)
                else:
                    i = self.expr(); self.eat("]")
                    a = ("index", a, i)
            else:
                return a

    def primary(self):
        k, v = self.peek()
        if k == "num":
            self.eat()
            return ("num", v)
        if v == "(":
            self.eat()
            xs = [self.expr()]
            tup = False
            while self.at(","):
                tup = True
                self.eat()
                if self.at(")"):
                    break
                xs.append(self.expr())
            self.eat(")")
            return ("tuple", xs) if tup else xs[0]
        if v == "[":
            self.eat()
            xs = []
            while not self.at("]"):
                xs.append(self.expr())
                if self.at(";"):          # [x; n]
                    self.eat(); n = self.expr(); self.eat("]")
                    return ("repeat", xs[0], n)
                if self.at(","):
                    self.eat()
            self.eat("]")
            return ("array", xs)
        if k == "id":
            path = [self.eat()[1]]
            while self.at("::"):
                self.eat()
                path.append(self.eat()[1])
            if self.at("("):
                return ("call", path, self.args())
            return ("path", path)
        raise Refuse(f"unexpected token {v!r}")


# ------------------------------------------------------------------ symbolic values
def S(*a):
    return ("S",) + a


def num(v):
    return S("num", v)


ZERO, ONE = num("0"), num("1")


def is_zero(s):
    return s[1] == "num" and float(s[2]) == 0.0


def is_one(s):
    return s[1] == "num" and float(s[2]) == 1.0


def add(a, b):
    if is_zero(a): return b
    if is_zero(b): return a
    return S("add", a, b)


def sub(a, b):
    if is_zero(b): return a
    if is_zero(a): return neg(b)
    return S("sub", a, b)


def mul(a, b):
    if is_zero(a) or is_zero(b): return ZERO
    if is_one(a): return b
    if is_one(b): return a
    return S("mul", a, b)


def div(a, b):
    return S("div", a, b)


def neg(a):
    if is_zero(a): return ZERO
    return S("neg", a)


def fn(name, *args):
    return S("fn", name, list(args))


class Vec3(list):
    pass


class Mat3(list):      # 3 rows of 3
    pass


class Iso(tuple):      # (Mat3, Vec3)
    pass


class Arr(list):
    pass


def mmul(a, b):
    return Mat3([[add(add(mul(a[i][0], b[0][j]), mul(a[i][1], b[1][j])), mul(a[i][2], b[2][j])) for j in range(3)] for i in range(3)])


def mapp(a, v):
    return Vec3([add(add(mul(a[i][0], v[0]), mul(a[i][1], v[1])), mul(a[i][2], v[2])) for i in range(3)])


def vadd(a, b):
    return Vec3([add(x, y) for x, y in zip(a, b)])


def vsub(a, b):
    return Vec3([sub(x, y) for x, y in zip(a, b)])


def icomp(a, b):
    return Iso((mmul(a[0], b[0]), vadd(a[1], mapp(a[0], b[1]))))


def rot_axis(axis, q):
    s, c = fn("sin", q), fn("cos", q)
    if axis == "z":
        return Mat3([[c, neg(s), ZERO], [s, c, ZERO], [ZERO, ZERO, ONE]])
    if axis == "y":
        return Mat3([[c, ZERO, s], [ZERO, ONE, ZERO], [neg(s), ZERO, c]])
    if axis == "x":
        return Mat3([[ONE, ZERO, ZERO], [ZERO, c, neg(s)], [ZERO, s, c]])
    raise Refuse("axis")


AXIS = {"x_axis": Vec3([ONE, ZERO, ZERO]), "y_axis": Vec3([ZERO, ONE, ZERO]), "z_axis": Vec3([ZERO, ZERO, ONE])}


def show(s):
    """Gallina text of a scalar tree"""
    k = s[1]
    if k == "num":
        v = s[2]
        if re.fullmatch(r"\d+", v):
            return v
        if re.fullmatch(r"\d+\.0*", v):
            return v.split(".")[0]
        # decimal / exponent literal -> exact rational
        from fractions import Fraction
        fr = Fraction(v)
        return f"({fr.numerator} / {fr.denominator})"
    if k == "var":
        return s[2]
    if k == "neg":
        return f"(- {show(s[2])})"
    if k in ("add", "sub", "mul", "div"):
        op = {"add": "+", "sub": "-", "mul": "*", "div": "/"}[k]
        return f"({show(s[2])} {op} {show(s[3])})"
    if k == "fn":
        return "(" + s[2] + " " + " ".join(show(a) for a in s[3]) + ")"
    raise Refuse(f"show {k}")


# ------------------------------------------------------------------ evaluator
class Ctx:
    """Evaluation context: `lookup(path/field access)` is supplied by the caller (parameters, joints...)"""

    def __init__(self, externals, lets_prefix=""):
        self.env = {}
        self.lets = []           # (name, scalar tree)
        self.ext = externals     # callable(ast) -> value or None
        self.declared = set()

    def bind_scalar(self, name, s):
        nm = "v_" + name
        self.lets.append((nm, s))
        return S("var", nm)

    def bind(self, name, val):
        if isinstance(val, tuple) and val and val[0] == "S":
            self.env[name] = self.bind_scalar(name, val)
        elif isinstance(val, Vec3):
            self.env[name] = Vec3([self.bind_scalar(f"{name}_{i}", val[i]) for i in range(3)])
        elif isinstance(val, Mat3):
            self.env[name] = Mat3([[self.bind_scalar(f"{name}_{i}{j}", val[i][j]) for j in range(3)] for i in range(3)])
        elif isinstance(val, Iso):
            m = Mat3([[self.bind_scalar(f"{name}_r{i}{j}", val[0][i][j]) for j in range(3)] for i in range(3)])
            v = Vec3([self.bind_scalar(f"{name}_t{i}", val[1][i]) for i in range(3)])
            self.env[name] = Iso((m, v))
        elif isinstance(val, Arr):
            self.env[name] = Arr([self._bind_anon(f"{name}_{i}", x) for i, x in enumerate(val)])
        else:
            raise Refuse(f"cannot bind {name}: {type(val)}")

    def _bind_anon(self, name, val):
        self.bind(name, val)
        v = self.env.pop(name)
        return v

    def ev(self, e):
        x = self.ext(e, self)
        if x is not None:
            return x
        k = e[0]
        if k == "num":
            return num(e[1])
        if k == "path":
            p = e[1]
            if len(p) == 1 and p[0] in self.env:
                return self.env[p[0]]
            if p[-1] == "PI":
                return S("var", "PI")
            if p[-2:] == ["f64", "NAN"]:
                raise Refuse("NAN in kernel")
            raise Refuse(f"unknown name {'::'.join(p)}")
        if k == "neg":
            a = self.ev(e[1])
            if isinstance(a, Vec3):
                return Vec3([neg(x) for x in a])
            return neg(a)
        if k == "cast":
            return self.ev(e[1])
        if k == "bin":
            a, b = self.ev(e[2]), self.ev(e[3])
            return self.binop(e[1], a, b)
        if k == "tuple":
            return tuple(self.ev(x) for x in e[1])
        if k == "array":
            return Arr([self.ev(x) for x in e[1]])
        if k == "index":
            a = self.ev(e[1])
            i = e[2]
            if i[0] != "num":
                raise Refuse("non-literal index")
            return a[int(i[1])]
        if k == "index2":
            a = self.ev(e[1])
            if not isinstance(a, Mat3) or e[2][0] != "num" or e[3][0] != "num":
                raise Refuse("bad matrix index")
            return a[int(e[2][1])][int(e[3][1])]
        if k == "field":
            a = self.ev(e[1])
            f = e[2]
            if isinstance(a, Vec3) and f in "xyz":
                return a["xyz".index(f)]
            if isinstance(a, Iso) and f == "translation":
                return a[1]
            if isinstance(a, Iso) and f == "rotation":
                return a[0]
            if isinstance(a, Vec3) and f == "vector":
                return a
            raise Refuse(f"field .{f}")
        if k == "method":
            return self.method(e)
        if k == "call":
            return self.call(e)
        raise Refuse(f"expression kind {k}")

    def binop(self, op, a, b):
        sa = isinstance(a, tuple) and a and a[0] == "S"
        sb = isinstance(b, tuple) and b and b[0] == "S"
        if sa and sb:
            return {"+": add, "-": sub, "*": mul, "/": div}[op](a, b)
        if op == "*" and isinstance(a, Mat3) and isinstance(b, Mat3):
            return mmul(a, b)
        if op == "*" and isinstance(a, Mat3) and isinstance(b, Vec3):
            return mapp(a, b)
        if op == "*" and sa and isinstance(b, Vec3):
            return Vec3([mul(a, x) for x in b])
        if op == "*" and sa and isinstance(b, Mat3):
            return Mat3([[mul(a, x) for x in r] for r in b])
        if op == "*" and isinstance(a, Iso) and isinstance(b, Iso):
            return icomp(a, b)
        if op == "+" and isinstance(a, Vec3) and isinstance(b, Vec3):
            return vadd(a, b)
        if op == "-" and isinstance(a, Vec3) and isinstance(b, Vec3):
            return vsub(a, b)
        raise Refuse(f"operator {op} on {type(a).__name__},{type(b).__name__}")

    def method(self, e):
        _, recv, name, args = e
        a = self.ev(recv)
        sa = isinstance(a, tuple) and a and a[0] == "S"
        if sa and name in ("sin", "cos", "sqrt", "acos", "abs") and not args:
            return fn({"abs": "Rabs"}.get(name, name), a)
        if sa and name == "powi" and len(args) == 1 and args[0][0] == "num" and args[0][1].isdigit() and 1 <= int(args[0][1]) <= 4:
            r = a
            for _ in range(int(args[0][1]) - 1):
                r = mul(r, a)
            return r
        if sa and name == "hypot" and len(args) == 1:
            b = self.ev(args[0])
            return fn("sqrt", add(mul(a, a), mul(b, b)))
        if sa and name == "sin_cos" and not args:
            return (fn("sin", a), fn("cos", a))
        if sa and name == "atan2" and len(args) == 1:
            return fn("atan2", a, self.ev(args[0]))
        if isinstance(a, Mat3) and name in ("to_rotation_matrix", "into_inner", "clone") and not args:
            return a
        if isinstance(a, Vec3) and name in ("into_inner", "clone") and not args:
            return a
        if isinstance(a, Mat3) and name == "transform_vector" and len(args) == 1:
            return mapp(a, self.ev(args[0]))
        if isinstance(a, Mat3) and name == "transpose" and not args:
            return Mat3([[a[j][i] for j in range(3)] for i in range(3)])
        raise Refuse(f"method .{name}() on {type(a).__name__}")

    def call(self, e):
        _, path, args = e
        p = [x for x in path if x not in ("nalgebra", "na", "std")]
        name = "::".join(p)
        if name in ("f64::sin", "f64::cos", "f64::sqrt", "f64::acos") and len(args) == 1:
            return fn(p[1], self.ev(args[0]))
        if name == "f64::abs" and len(args) == 1:
            return fn("Rabs", self.ev(args[0]))
        if name == "f64::hypot" and len(args) == 2:
            a, b = self.ev(args[0]), self.ev(args[1])
            return fn("sqrt", add(mul(a, a), mul(b, b)))
        if name == "f64::powi" and len(args) == 2 and args[1][0] == "num" and args[1][1].isdigit() and 1 <= int(args[1][1]) <= 4:
            a = self.ev(args[0]); r = a
            for _ in range(int(args[1][1]) - 1):
                r = mul(r, a)
            return r
        if name == "f64::atan2" and len(args) == 2:
            return fn("atan2", self.ev(args[0]), self.ev(args[1]))
        if name == "Matrix3::new" and len(args) == 9:
            v = [self.ev(x) for x in args]
            return Mat3([v[0:3], v[3:6], v[6:9]])
        if name in ("Vector3::new", "Translation3::new") and len(args) == 3:
            return Vec3([self.ev(x) for x in args])
        if name in ("Vector3::x_axis", "Vector3::y_axis", "Vector3::z_axis") and not args:
            return AXIS[p[1]]
        if name in ("Translation3::from",) and len(args) == 1:
            v = self.ev(args[0])
            if isinstance(v, Vec3):
                return v
        if name == "Rotation3::from_matrix_unchecked" and len(args) == 1:
            return self.ev(args[0])
        if name == "UnitQuaternion::from_rotation_matrix" and len(args) == 1:
            m = self.ev(args[0])
            if isinstance(m, Mat3):
                return m          # pose rotation is modelled by its rotation matrix (nalgebra conversion trusted)
        if name == "UnitQuaternion::from_axis_angle" and len(args) == 2:
            ax, q = self.ev(args[0]), self.ev(args[1])
            for nm, v in AXIS.items():
                if ax == v:
                    return rot_axis(nm[0], q)
            raise Refuse("axis of from_axis_angle")
        if name in ("Isometry3::from_parts", "Pose::from_parts") and len(args) == 2:
            t, r = self.ev(args[0]), self.ev(args[1])
            if isinstance(t, Vec3) and isinstance(r, Mat3):
                return Iso((r, t))
        raise Refuse(f"call {name}/{len(args)}")


# ------------------------------------------------------------------ statements
def split_statements(body):
    """body: token list of a block without the outer braces -> list of token lists (split at top-level ';')."""
    out, cur, depth = [], [], 0
    for t in body:
        if t[1] in "([{":
            depth += 1
        elif t[1] in ")]}":
            depth -= 1
        if t[1] == ";" and depth == 0:
            out.append(cur); cur = []
        else:
            cur.append(t)
    if cur:
        out.append(cur)
    return out


def run_block(stmts, ctx, stop=None):
    """Executes let / assignment statements; returns value of the trailing expression (or None)."""
    result = None
    for st in stmts:
        if not st:
            continue
        if stop and stop(st):
            break
        if st[0][1] == "let":
            i = 1
            if st[i][1] == "mut":
                i += 1
            # pattern
            if st[i][1] == "(":
                names, i = [], i + 1
                while st[i][1] != ")":
                    if st[i][0] == "id":
                        names.append(st[i][1])
                    i += 1
                i += 1
                pat = names
            else:
                pat = st[i][1]; i += 1
            # optional type
            if i < len(st) and st[i][1] == ":":
                d = 0
                i += 1
                while i < len(st) and not (st[i][1] == "=" and d == 0):
                    if st[i][1] in "[(<": d += 1
                    if st[i][1] in "])>": d -= 1
                    i += 1
            if i >= len(st):
                ctx.declared.add(pat)       # `let x;`
                continue
            if st[i][1] != "=":
                raise Refuse(f"let without '=': {' '.join(t[1] for t in st[:8])}")
            p = P(st[i + 1:])
            val = ctx.ev(p.expr())
            if p.i != len(p.t):
                raise Refuse(f"trailing tokens in let {pat}")
            if isinstance(pat, list):
                if not isinstance(val, tuple) or len(val) != len(pat):
                    raise Refuse("tuple pattern")
                for n, v in zip(pat, val):
                    ctx.bind(n, v)
            else:
                ctx.bind(pat, val)
        elif len(st) > 2 and st[0][0] == "id" and st[1][1] == "=":
            name = st[0][1]
            if name not in ctx.declared:
                raise Refuse(f"assignment to {name} (only deferred-initialisation is supported)")
            ctx.declared.discard(name)
            p = P(st[2:])
            val = ctx.ev(p.expr())
            if p.i != len(p.t):
                raise Refuse(f"trailing tokens in assignment {name}")
            ctx.bind(name, val)
        else:
            p = P(st)
            result = ctx.ev(p.expr())
            if p.i != len(p.t):
                raise Refuse("trailing tokens in final expression: " + " ".join(t[1] for t in st[:10]))
    return result


def find_fn(src, impl_header, fn_name):
    """Returns the source text of the body of `fn fn_name` inside the first block starting with impl_header."""
    i = src.find(impl_header)
    if i < 0:
        raise Refuse(f"impl not found: {impl_header}")
    j = src.index("{", i)
    end = match_brace(src, j)
    block = src[j + 1:end]
    m = re.search(r"\bfn\s+" + re.escape(fn_name) + r"\s*\(", block)
    if not m:
        raise Refuse(f"fn {fn_name} not found in {impl_header}")
    k = block.index("{", m.end())
    sig = block[m.start():k]
    e = match_brace(block, k)
    return sig, block[k + 1:e]


def match_brace(s, i):
    d = 0
    in_line = False
    k = i
    while k < len(s):
        c = s[k]
        if s.startswith("//", k):
            k = s.index("\n", k)
            continue
        if c == "{":
            d += 1
        elif c == "}":
            d -= 1
            if d == 0:
                return k
        k += 1
    raise Refuse("unbalanced braces")


def emit_lets(lets, indent="  "):
    return "".join(f"{indent}let {n} := {show(s)} in\n" for n, s in lets)


def show_iso(v):
    m, t = v
    return ("(mkIso (mkM3 " + " ".join(show(m[i][j]) for i in range(3) for j in range(3)) + ") (mkV3 "
            + " ".join(show(x) for x in t) + "))")


# ------------------------------------------------------------------ definedness (NaN / inf propagation)
def def_cond(s, letnames):
    """Gallina bool: the f64 value of scalar tree s is finite given finite inputs (sqrt of a negative, acos out of
    [-1,1] and division by zero are the only sources of NaN/inf in the translated subset)"""
    k = s[1]
    if k == "num":
        return []
    if k == "var":
        return [f"d_{s[2]}"] if s[2] in letnames else []
    if k == "neg":
        return def_cond(s[2], letnames)
    if k in ("add", "sub", "mul"):
        return def_cond(s[2], letnames) + def_cond(s[3], letnames)
    if k == "div":
        return def_cond(s[2], letnames) + def_cond(s[3], letnames) + [f"(negb (Reqb {show(s[3])} 0))"]
    if k == "fn":
        out = []
        for a in s[3]:
            out += def_cond(a, letnames)
        if s[2] == "sqrt":
            out.append(f"(Rleb 0 {show(s[3][0])})")
        if s[2] == "acos":
            out.append(f"(Rleb (-1) {show(s[3][0])})")
            out.append(f"(Rleb {show(s[3][0])} 1)")
        return out
    raise Refuse(f"def_cond {k}")


def emit_lets_defined(lets, indent="  "):
    names = {n for n, _ in lets}
    out = ""
    for n, s in lets:
        cs = def_cond(s, names)
        cond = "true" if not cs else " && ".join(cs)
        out += f"{indent}let {n} := {show(s)} in\n{indent}let d_{n} := ({cond})%bool in\n"
    return out
