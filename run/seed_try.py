#!/usr/bin/env python3
"""Ingest seeded breaking changes produced by sub-agents and run the checks against them.

  seed_try.py ingest <ID> <worktree>     verify each patch in the scratch worktree (66 tests pass, demo fails on the
                                        patched tree and passes on the clean one) and copy it to /verif/seeded/<ID>/
  seed_try.py run <ID> [patchN.diff] [--tier quick] [--props C01,C04]
                                        apply each stored patch to /repo, run the property's check (plus extra props),
                                        undo the patch, and record the outcome in /verif/seeded/<ID>/results.json
Nothing here is registered in MANIFEST.json; it is a development tool.
"""
import json, os, shutil, subprocess, sys, time

VERIF = "/verif"
FEATURES = "allow_filesystem collisions stroke_planning"
ENV = dict(os.environ, CARGO_NET_OFFLINE="true")


def sh(cmd, cwd=None, timeout=3600):
    p = subprocess.run(cmd, shell=True, cwd=cwd, env=ENV, stdout=subprocess.PIPE, stderr=subprocess.STDOUT, text=True, timeout=timeout)
    return p.returncode, p.stdout


def ingest(pid, wt, name=None):
    src = os.path.join(wt, "seeded")
    dst = os.path.join(VERIF, "seeded", name or pid)
    os.makedirs(dst, exist_ok=True)
    meta = json.load(open(os.path.join(src, "meta.json")))
    out = []
    sh("git checkout -- src", cwd=wt)
    for m in meta:
        patch, demo = m["patch"], m["demo"]
        ex = os.path.splitext(demo)[0]
        if not os.path.exists(os.path.join(wt, "examples", demo)):
            shutil.copy(os.path.join(src, demo), os.path.join(wt, "examples", demo))
        rec = dict(m)
        rc, o = sh(f'cargo run --offline --no-default-features --features "{FEATURES}" --example {ex}', cwd=wt)
        rec["demo_clean_exit"] = rc
        rc, o = sh(f"git apply seeded/{patch}", cwd=wt)
        rec["applies"] = rc == 0
        rc, o = sh(f'cargo test --offline --lib --no-default-features --features "{FEATURES}"', cwd=wt)
        line = [l for l in o.splitlines() if l.startswith("test result")]
        rec["tests"] = line[-1] if line else o[-300:]
        rec["tests_pass_confirmed"] = rc == 0 and bool(line) and "66 passed" in line[-1]
        rc, o = sh(f'cargo run --offline --no-default-features --features "{FEATURES}" --example {ex}', cwd=wt)
        rec["demo_patched_exit"] = rc
        rec["demo_patched_tail"] = o.strip().splitlines()[-6:]
        sh("git checkout -- src", cwd=wt)
        rec["confirmed"] = rec["applies"] and rec["tests_pass_confirmed"] and rec["demo_clean_exit"] == 0 and rec["demo_patched_exit"] != 0
        shutil.copy(os.path.join(src, patch), os.path.join(dst, patch))
        shutil.copy(os.path.join(src, demo), os.path.join(dst, demo))
        out.append(rec)
        print(pid, patch, "confirmed" if rec["confirmed"] else "NOT CONFIRMED", rec["tests"], "demo clean/patched:", rec["demo_clean_exit"], rec["demo_patched_exit"])
    json.dump(out, open(os.path.join(dst, "meta.json"), "w"), indent=1)


def run(pid, only=None, tier="quick", props=None):
    dst = os.path.join(VERIF, "seeded", pid)
    meta = json.load(open(os.path.join(dst, "meta.json")))
    respath = os.path.join(dst, "results.json")
    results = json.load(open(respath)) if os.path.exists(respath) else {}
    rc, o = sh("git status --porcelain", cwd="/repo")
    assert o.strip() == "", "/repo is not clean: " + o
    for m in meta:
        patch = m["patch"]
        if only and patch != only:
            continue
        rc, o = sh(f"git apply {dst}/{patch}", cwd="/repo")
        assert rc == 0, o
        try:
            for prop in (props or [pid[:3]]):
                t0 = time.time()
                rc, o = sh(f"python3 run/check.py {prop} --tier {tier}", cwd=VERIF, timeout=7200)
                viol = [l for l in o.splitlines() if l.startswith("VIOLATION")]
                tail = o.strip().splitlines()[-12:]
                key = f"{patch}:{prop}:{tier}"
                results[key] = {"exit": rc, "violation_lines": viol, "seconds": round(time.time() - t0, 1),
                                "caught": rc == 1 and bool(viol),
                                "with_failing_input": bool(viol) and not any(v.rstrip().endswith("no-failing-input-found") for v in viol),
                                "tail": tail}
                # keep the replay file(s) the check named as part of the record
                for v in viol:
                    rp = [w.split("=", 1)[1] for w in v.split() if w.startswith("replay=")]
                    for r in rp:
                        if os.path.exists(r):
                            shutil.copy(r, os.path.join(dst, f"replay_{patch}_{prop}_{os.path.basename(r)}"))
                print(key, "exit", rc, viol[:2] if viol else "NO VIOLATION LINE", f"{time.time()-t0:.0f}s", flush=True)
        finally:
            sh("git checkout -- .", cwd="/repo")
    json.dump(results, open(respath, "w"), indent=1)
    # evidence / replay of a mutated run must not stay behind
    sh("git checkout -- evidence", cwd=VERIF)


if __name__ == "__main__":
    a = sys.argv[1:]
    if a[0] == "ingest":
        ingest(a[1], a[2], a[3] if len(a) > 3 else None)
    else:
        tier, props, only = "quick", None, None
        rest = a[2:]
        while rest:
            x = rest.pop(0)
            if x == "--tier":
                tier = rest.pop(0)
            elif x == "--props":
                props = rest.pop(0).split(",")
            else:
                only = x
        run(a[1], only, tier, props)
