//! C09: tool / base / frame wrappers compose consistently in both directions (any nesting <= 3).
use crate::ik::*;
use crate::robots::*;
use crate::util::*;
use nalgebra::{Isometry3, Translation3, UnitQuaternion, Vector3};
use rs_opw_kinematics::frame::Frame;
use rs_opw_kinematics::kinematic_traits::{Joints, Kinematics, Pose};
use rs_opw_kinematics::tool::{Base, Tool};
use std::f64::consts::PI;
use std::sync::Arc;

pub fn random_iso(rng: &mut Rng, axial: bool) -> Pose {
    if axial {
        Isometry3::from_parts(Translation3::new(0.0, 0.0, dy(rng.range(-0.3, 0.5), 10)), UnitQuaternion::from_axis_angle(&Vector3::z_axis(), dy(rng.range(-3.0, 3.0), 10)))
    } else {
        let ax = nalgebra::Unit::new_normalize(Vector3::new(rng.range(-1.0, 1.0), rng.range(-1.0, 1.0), rng.range(-1.0, 1.0) + 1e-3));
        Isometry3::from_parts(Translation3::new(dy(rng.range(-0.5, 0.5), 10), dy(rng.range(-0.5, 0.5), 10), dy(rng.range(-0.5, 0.5), 10)), UnitQuaternion::from_axis_angle(&ax, rng.range(-3.0, 3.0)))
    }
}

#[derive(Clone)]
pub enum W { Tool(Pose), Base(Pose), Frame(Pose) }

pub fn build(inner: Arc<dyn Kinematics>, ws: &[W]) -> Arc<dyn Kinematics> {
    // ws[0] is the outermost wrapper
    let mut k = inner;
    for w in ws.iter().rev() {
        k = match w { W::Tool(t) => Arc::new(Tool { robot: k, tool: *t }), W::Base(b) => Arc::new(Base { robot: k, base: *b }), W::Frame(f) => Arc::new(Frame { robot: k, frame: *f }) };
    }
    k
}
/// independent composition: base * robot * tool
pub fn expected_forward(ws: &[W], inner: &Pose) -> Pose {
    let mut p = *inner;
    for w in ws.iter().rev() { p = match w { W::Tool(t) => p * t, W::Frame(f) => p * f, W::Base(b) => b * p }; }
    p
}
fn pdiff(a: &Pose, b: &Pose) -> (f64, f64) { ((a.translation.vector - b.translation.vector).norm(), a.rotation.angle_to(&b.rotation)) }

pub fn main(tier: &str, seed: u64, n_override: Option<u64>) {
    let n = n_override.unwrap_or(if tier == "thorough" { 100_000 } else { 5_000 });
    let mut rng = Rng::new(seed ^ 0xC09);
    for idx in 0..n {
        let mut r = random_robot(&mut rng, idx, idx % 3 == 0, None);
        let five = idx % 2 == 1;
        let depth = 1 + rng.below(3) as usize;
        let ws: Vec<W> = (0..depth).map(|_| match rng.below(3) { 0 => W::Tool(random_iso(&mut rng, five)), 1 => W::Base(random_iso(&mut rng, false)), _ => W::Frame(random_iso(&mut rng, five)) }).collect();
        let j = origin_joints(&mut rng, &r, PoseKind::Reachable);
        if let Some(c) = &mut r.cons { *c = random_constraints(&mut rng, Some(&j)); }
        let inner: Arc<dyn Kinematics> = Arc::new(r.solver());
        let k = build(inner.clone(), &ws);
        let mut direct = "ok".to_string(); let mut class = String::new();
        let mut fail = |c: String| { if direct == "ok" { direct = "fail".into(); class = c; } };
        // forward composition
        let f = k.forward(&j);
        let want = expected_forward(&ws, &pose_of(&r, &j));
        let (d, a) = pdiff(&f, &want);
        if d > 1e-9 || a > 1e-9 { fail("C09.forward_is_not_base_robot_tool".into()); }
        // links
        let links = k.forward_with_joint_poses(&j);
        let mut exp: Vec<Pose> = ref_chain(&r.p, &j).iter().map(ref_to_pose).collect();
        for w in ws.iter().rev() { match w { W::Tool(_) => {}, W::Base(b) => { for p in exp.iter_mut() { *p = b * *p; } }, W::Frame(fr) => { exp[5] = exp[5] * fr; } } }
        for i in 0..6 { let (d, a) = pdiff(&links[i], &exp[i]); if d > 1e-9 || a > 1e-9 { fail(format!("C09.link_pose_{}_wrong", i + 1)); } }
        if !ws.iter().any(|w| matches!(w, W::Tool(_))) { let (d, a) = pdiff(&links[5], &f); if d > 1e-9 || a > 1e-9 { fail("C09.last_link_differs_from_forward".into()); } }
        // limits reported = inner's
        match (k.constraints(), inner.constraints()) {
            (Some(a), Some(b)) => if a.from != b.from || a.to != b.to { fail("C09.limits_not_those_of_inner_robot".into()); },
            (None, None) => {}, _ => fail("C09.limits_not_those_of_inner_robot".into()),
        }
        // inverse entry points
        let entry: u8 = if five { 2 + rng.below(2) as u8 } else { rng.below(2) as u8 };
        let prev: Joints = match rng.below(4) { 0 => j, 1 => std::array::from_fn(|i| j[i] + rng.range(-0.3, 0.3)), 2 => std::array::from_fn(|_| rng.range(-2.0 * PI, 2.0 * PI)), _ => std::array::from_fn(|i| j[i] + 2.0 * PI * rng.int(-1, 1) as f64) };
        let j6 = dy(rng.range(-3.0, 3.0), 12);
        let sols = call_entry(k.as_ref(), entry, &f, &prev, j6);
        let lever: f64 = 1.0 + ws.iter().map(|w| match w { W::Tool(t) | W::Frame(t) => t.translation.vector.norm(), W::Base(_) => 0.0 }).sum::<f64>();
        for s in &sols {
            let back = k.forward(s);
            let (d, a) = pdiff(&back, &f);
            if entry < 2 { if d > 2e-6 * lever || a > 2e-6 { fail(format!("C09.answer_does_not_map_back_entry{}", entry)); } }
            else {
                let za = back.rotation * Vector3::z(); let zb = f.rotation * Vector3::z();
                if d > 2e-5 * lever || za.cross(&zb).norm() > 2e-5 { fail(format!("C09.answer_point_or_axis_wrong_entry{}", entry)); }
                let want6 = if entry == 2 { j6 } else { prev[5] };
                if s[5] != want6 { fail(format!("C09.five_dof_j6_not_callers_entry{}", entry)); }
            }
        }
        // every entry point of the stack is the wrapped robot's entry point at the transformed pose: same answers, same order
        {
            let mut ip = f;
            for w in ws.iter() { match w { W::Tool(t) | W::Frame(t) => ip = ip * t.inverse(), W::Base(b) => ip = b.inverse() * ip } }
            let expect = call_entry(inner.as_ref(), entry, &ip, &prev, j6);
            let same = expect.len() == sols.len() && expect.iter().zip(sols.iter()).all(|(a, b)| (0..6).all(|i| (a[i] - b[i]).abs() <= 1e-9 || (a[i].is_nan() && b[i].is_nan())));
            if !same { fail(format!("C09.stack_answers_differ_from_inner_robot_at_transformed_pose_entry{}", entry)); }
        }
        if entry == 1 || entry == 3 {
            let w0 = r.cons.as_ref().map(|c| c.2).unwrap_or(0.0);
            if w0 == 0.0 {
                let nj = if entry == 3 { 5 } else { 6 };
                let dist = |s: &Joints| (0..nj).map(|i| (s[i] - prev[i]).abs()).sum::<f64>();
                for w in sols.windows(2) { if dist(&w[0]) > dist(&w[1]) + 1e-9 { fail(format!("C09.continuation_order_lost_entry{}", entry)); } }
            }
        }
        // the originating joints must be found through the stack (6-DOF entries, non-singular, within limits)
        if entry < 2 && nonsingular(&r, &j) && compliant_oracle(&r.cons, &j) == Some(true) && !sols.iter().any(|s| joints_close_mod(s, &j, 1e-5)) {
            fail(format!("C09.origin_not_found_through_stack_entry{}", entry));
        }
        let wsj: Vec<String> = ws.iter().map(|w| match w { W::Tool(t) => format!("{{\"tool\":{}}}", pose_json(t)), W::Base(t) => format!("{{\"base\":{}}}", pose_json(t)), W::Frame(t) => format!("{{\"frame\":{}}}", pose_json(t)) }).collect();
        println!("{}", Obj::new().s("prop", "C09").i("case", idx as i64).raw("robot", &r.json()).raw("stack", &format!("[{}]", wsj.join(","))).fs("j", &j)
            .i("entry", entry as i64).fs("prev", &prev).f("j6", j6).i("nsol", sols.len() as i64).s("direct", &direct).s("class", &class).done());
    }
    // LinearAxis / Gantry forward composition
    for idx in 0..(n / 10).max(20) {
        let r = random_robot(&mut rng, idx, false, None);
        let j = origin_joints(&mut rng, &r, PoseKind::Reachable);
        let base = random_iso(&mut rng, false);
        let inner: Arc<dyn Kinematics> = Arc::new(r.bare());
        let axis = rng.below(3) as u32;
        let d = dy(rng.range(-2.0, 2.0), 10);
        let la = rs_opw_kinematics::tool::verif_hooks::linear_axis(inner.clone(), axis, base);
        let got = la.forward(d, &j);
        let tr = match axis { 0 => Translation3::new(d, 0.0, 0.0), 1 => Translation3::new(0.0, d, 0.0), _ => Translation3::new(0.0, 0.0, d) };
        let want = base * tr * pose_of(&r, &j);
        let (dd, a) = pdiff(&got, &want);
        let mut direct = "ok"; let mut class = "";
        if dd > 1e-9 || a > 1e-9 { direct = "fail"; class = "C09.linear_axis_forward_wrong"; }
        let g = rs_opw_kinematics::tool::verif_hooks::gantry(inner.clone(), base);
        let t3 = Translation3::new(d, dy(rng.range(-1.0, 1.0), 10), dy(rng.range(-1.0, 1.0), 10));
        let (dd, a) = pdiff(&g.forward(&t3, &j), &(base * t3 * pose_of(&r, &j)));
        if (dd > 1e-9 || a > 1e-9) && direct == "ok" { direct = "fail"; class = "C09.gantry_forward_wrong"; }
        println!("{}", Obj::new().s("prop", "C09").s("what", "axis").i("case", idx as i64).raw("robot", &r.json()).fs("j", &j).i("axis", axis as i64).f("d", d)
            .s("direct", direct).s("class", class).done());
    }
}
