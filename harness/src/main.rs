mod util;
mod c07;
mod robots;
mod c03;

fn main() {
    let args: Vec<String> = std::env::args().collect();
    if args.len() < 2 { eprintln!("usage: vh <prop> <tier> <seed> [n] | vh replay <prop> <file>"); std::process::exit(2); }
    if args[1] == "replay" {
        let text = std::fs::read_to_string(&args[3]).expect("replay file");
        let line = text.lines().find(|l| l.contains("\"prop\"")).expect("record line");
        match args[2].as_str() { "C07" => c07::replay(line), p => panic!("no replay for {}", p) }
        return;
    }
    let tier = args.get(2).map(|s| s.as_str()).unwrap_or("quick");
    let seed: u64 = args.get(3).and_then(|s| s.parse().ok()).unwrap_or(1);
    let n: Option<u64> = args.get(4).and_then(|s| s.parse().ok());
    match args[1].as_str() {
        "C07" => c07::main(tier, seed, n),
        "C03" => c03::main(tier, seed, n),
        p => { eprintln!("unknown property {}", p); std::process::exit(2); }
    }
}
