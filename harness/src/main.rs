mod util;
mod c07;
mod robots;
mod c03;
mod ik;
mod c01;
mod kin;
mod c05;
mod c04;
mod c06;
mod c08;
mod c09;
mod c16;
mod c18;
mod scene;
mod c10;
mod c14;
mod c11;
mod c13;
mod c17;
mod c19;
mod c15;
mod c12;
mod c20;
mod c02;

fn main() {
    let args: Vec<String> = std::env::args().collect();
    if args.len() < 2 { eprintln!("usage: vh <prop> <tier> <seed> [n] | vh replay <prop> <file>"); std::process::exit(2); }
    if args[1] == "C19files" { c19::files(&args[2]); return; }
    if args[1] == "C20files" { c20::files(&args[2]); return; }
    if args[1] == "C20names" { c20::names(&std::fs::read_to_string(&args[2]).unwrap()); return; }
    if args[1] == "replay" {
        let text = std::fs::read_to_string(&args[3]).expect("replay file");
        let line = text.lines().find(|l| l.contains("\"prop\"")).expect("record line");
        match args[2].as_str() { "C07" => c07::replay(line), p => panic!("no replay for {}", p) }
        return;
    }
    let tier = args.get(2).map(|s| s.as_str()).unwrap_or("quick");
    let seed: u64 = args.get(3).and_then(|s| s.parse().ok()).unwrap_or(1);
    let n: Option<u64> = args.get(4).and_then(|s| s.parse().ok());
    match args[1].as_str() {
        "C07" => c07::main(tier, seed, n),
        "C03" => c03::main(tier, seed, n),
        "C01" => c01::main(tier, seed, n),
        "KIN" => kin::main(tier, seed, n),
        "C05" => c05::main(tier, seed, n),
        "C04" => c04::main(tier, seed, n),
        "C06" => c06::main(tier, seed, n),
        "C08" => c08::main(tier, seed, n),
        "C09" => c09::main(tier, seed, n),
        "C16" => c16::main(tier, seed, n),
        "C18" => c18::main(tier, seed, n),
        "C10" => c10::main(tier, seed, n),
        "C14" => c14::main(tier, seed, n),
        "C11" => c11::main(tier, seed, n),
        "C13" => c13::main(tier, seed, n),
        "C17" => c17::main(tier, seed, n),
        "C19" => c19::main(tier, seed, n),
        "C15" => c15::main(tier, seed, n),
        "C12" => c12::main(tier, seed, n),
        "C12stages" => c12::stages(tier, seed, n),
        "C02" => c02::main(tier, seed, n),
        p => { eprintln!("unknown property {}", p); std::process::exit(2); }
    }
}
