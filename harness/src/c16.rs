//! C16: parallelogram coupling is applied consistently in forward and inverse kinematics.
use crate::c09::{random_iso};
use crate::ik::*;
use crate::robots::*;
use crate::util::*;
use rs_opw_kinematics::kinematic_traits::{Joints, Kinematics, Pose};
use rs_opw_kinematics::parallelogram::Parallelogram;
use rs_opw_kinematics::tool::{Base, Tool};
use std::f64::consts::PI;
use std::sync::Arc;

fn pdiff(a: &Pose, b: &Pose) -> (f64, f64) { ((a.translation.vector - b.translation.vector).norm(), a.rotation.angle_to(&b.rotation)) }

pub fn main(tier: &str, seed: u64, n_override: Option<u64>) {
    let n = n_override.unwrap_or(if tier == "thorough" { 100_000 } else { 5_000 });
    let mut rng = Rng::new(seed ^ 0xC16);
    for idx in 0..n {
        let r = random_robot(&mut rng, idx, false, None);
        let inner: Arc<dyn Kinematics> = Arc::new(r.bare());
        let driven = rng.below(6) as usize;
        let mut coupled = rng.below(6) as usize;
        if coupled == driven { coupled = (coupled + 1 + rng.below(5) as usize) % 6; }
        let scaling = if rng.below(4) == 0 { [1.0, -1.0, 0.5, 2.0][rng.below(4) as usize] } else { dy(rng.range(-2.0, 2.0), 8) };
        let para: Arc<dyn Kinematics> = Arc::new(Parallelogram { robot: inner.clone(), scaling, driven, coupled });
        let mut direct = "ok".to_string(); let mut class = String::new();
        let mut fail = |c: String| { if direct == "ok" { direct = "fail".into(); class = c; } };
        let q = random_joints(&mut rng, 3.0);
        let mut qa = q; qa[coupled] -= scaling * q[driven];
        // forward and links
        let (d, a) = pdiff(&para.forward(&q), &pose_of(&r, &qa));
        if d > 1e-9 || a > 1e-9 { fail("C16.forward_not_inner_at_reduced_coupled_joint".into()); }
        let links = para.forward_with_joint_poses(&q);
        let exp = ref_chain(&r.p, &qa);
        for i in 0..6 { let (d, a) = pdiff(&links[i], &ref_to_pose(&exp[i])); if d > 1e-9 || a > 1e-9 { fail(format!("C16.link_{}_not_inner_at_reduced_coupled_joint", i + 1)); } }
        // inverse entry points map back
        let mode = idx % 3;
        let entry = rng.below(4) as u8;
        let (k, target): (Arc<dyn Kinematics>, Pose) = match mode {
            0 => (para.clone(), para.forward(&q)),
            1 => { // two couplings
                let d2 = (driven + 2) % 6; let mut c2 = (coupled + 3) % 6; if c2 == d2 { c2 = (c2 + 1) % 6; }
                let s2 = dy(rng.range(-2.0, 2.0), 8);
                let outer: Arc<dyn Kinematics> = Arc::new(Parallelogram { robot: para.clone(), scaling: s2, driven: d2, coupled: c2 });
                // composition of the two reductions
                let mut q1 = q; q1[c2] -= s2 * q[d2];
                let mut q2 = q1; q2[coupled] -= scaling * q1[driven];
                let (d, a) = pdiff(&outer.forward(&q), &pose_of(&r, &q2));
                if d > 1e-9 || a > 1e-9 { fail("C16.two_couplings_do_not_compose".into()); }
                let t = outer.forward(&q); (outer, t)
            }
            _ => { // nested with tool and base
                let t = random_iso(&mut rng, entry >= 2); let b = random_iso(&mut rng, false); // the 5-DOF entries presuppose an axial tool
                let st: Arc<dyn Kinematics> = Arc::new(Tool { robot: Arc::new(Base { robot: para.clone(), base: b }), tool: t });
                let (d, a) = pdiff(&st.forward(&q), &(b * pose_of(&r, &qa) * t));
                if d > 1e-9 || a > 1e-9 { fail("C16.coupling_under_tool_base_wrong".into()); }
                let tg = st.forward(&q); (st, tg)
            }
        };
        let prev: Joints = match rng.below(3) { 0 => q, 1 => std::array::from_fn(|i| q[i] + rng.range(-0.3, 0.3)), _ => std::array::from_fn(|_| rng.range(-2.0 * PI, 2.0 * PI)) };
        let j6 = q[5];
        let sols = call_entry(k.as_ref(), entry, &target, &prev, j6);
        for s in &sols {
            let back = k.forward(s);
            let (d, a) = pdiff(&back, &target);
            if entry < 2 { if d > 5e-6 || a > 5e-6 { fail(format!("C16.answer_does_not_map_back_entry{}", entry)); } }
            else if d > 5e-5 { fail(format!("C16.answer_tool_point_wrong_entry{}", entry)); }
        }
        println!("{}", Obj::new().s("prop", "C16").i("case", idx as i64).raw("robot", &r.json()).i("driven", driven as i64).i("coupled", coupled as i64).f("scaling", scaling)
            .fs("q", &q).i("mode", mode as i64).i("entry", entry as i64).i("nsol", sols.len() as i64).s("direct", &direct).s("class", &class).done());
    }
}
