//! C15: Jacobian = geometric Jacobian (axis x lever, axis); velocities/torques are its inverse/transpose.
use crate::c09::{build, random_iso, W};
use crate::ik::*;
use crate::robots::*;
use crate::util::*;
use nalgebra::{Isometry3, Matrix6, Translation3, UnitQuaternion, Vector3, Vector6};
use rs_opw_kinematics::jacobian::Jacobian;
use rs_opw_kinematics::kinematic_traits::Kinematics;
use std::f64::consts::PI;
use std::sync::Arc;

/// recover the matrix through torques_from_vector(e_k) = k-th row
pub fn matrix_of(j: &Jacobian) -> Matrix6<f64> {
    let mut m = Matrix6::zeros();
    for k in 0..6 { let mut e = Vector6::zeros(); e[k] = 1.0; let row = j.torques_from_vector(&e); for c in 0..6 { m[(k, c)] = row[c]; } }
    m
}

pub fn main(tier: &str, seed: u64, n_override: Option<u64>) {
    let n = n_override.unwrap_or(if tier == "thorough" { 100_000 } else { 4_000 });
    let mut rng = Rng::new(seed ^ 0xC15);
    for idx in 0..n {
        let r = random_robot(&mut rng, idx, false, None);
        let mut q = origin_joints(&mut rng, &r, PoseKind::Reachable);
        // a Jacobian exists everywhere: a fifth of the cases has the wrist nearly straight (tool point millimetres to micrometres from the
        // J4 axis: a short lever arm, a small but non-zero column)
        if idx % 5 == 2 { let mut qm = r.to_model(&q); let e = 10f64.powf(rng.range(-5.0, -1.5)) * if rng.bool() { 1.0 } else { -1.0 }; qm[4] = if rng.below(4) == 0 { PI + e } else { e }; q = r.from_model(&qm); }
        let eps = [1e-7, 1e-6, 1e-5, 3e-6][rng.below(4) as usize];
        let ws: Vec<W> = match idx % 4 { 0 => vec![], 1 => vec![W::Tool(random_iso(&mut rng, false))], 2 => vec![W::Base(random_iso(&mut rng, false))],
            _ => vec![W::Base(random_iso(&mut rng, false)), W::Tool(random_iso(&mut rng, false))] };
        let inner: Arc<dyn Kinematics> = Arc::new(r.bare());
        let k = build(inner, &ws);
        struct Wrap(Arc<dyn Kinematics>);
        impl Kinematics for Wrap {
            fn inverse(&self, p: &rs_opw_kinematics::kinematic_traits::Pose) -> rs_opw_kinematics::kinematic_traits::Solutions { self.0.inverse(p) }
            fn inverse_continuing(&self, p: &rs_opw_kinematics::kinematic_traits::Pose, j: &rs_opw_kinematics::kinematic_traits::Joints) -> rs_opw_kinematics::kinematic_traits::Solutions { self.0.inverse_continuing(p, j) }
            fn forward(&self, j: &rs_opw_kinematics::kinematic_traits::Joints) -> rs_opw_kinematics::kinematic_traits::Pose { self.0.forward(j) }
            fn inverse_5dof(&self, p: &rs_opw_kinematics::kinematic_traits::Pose, j6: f64) -> rs_opw_kinematics::kinematic_traits::Solutions { self.0.inverse_5dof(p, j6) }
            fn inverse_continuing_5dof(&self, p: &rs_opw_kinematics::kinematic_traits::Pose, j: &rs_opw_kinematics::kinematic_traits::Joints) -> rs_opw_kinematics::kinematic_traits::Solutions { self.0.inverse_continuing_5dof(p, j) }
            fn constraints(&self) -> &Option<rs_opw_kinematics::constraints::Constraints> { self.0.constraints() }
            fn kinematic_singularity(&self, j: &rs_opw_kinematics::kinematic_traits::Joints) -> Option<rs_opw_kinematics::kinematic_traits::Singularity> { self.0.kinematic_singularity(j) }
            fn forward_with_joint_poses(&self, j: &rs_opw_kinematics::kinematic_traits::Joints) -> [rs_opw_kinematics::kinematic_traits::Pose; 6] { self.0.forward_with_joint_poses(j) }
        }
        let wk = Wrap(k.clone());
        let jac = Jacobian::new(&wk, &q, eps);
        let m = matrix_of(&jac);
        // geometric Jacobian from the independent chain (base applied to the link poses, tool to the tip)
        let mut base = Isometry3::identity(); let mut tool = Isometry3::identity();
        for w in &ws { match w { W::Base(b) => base = base * b, W::Tool(t) | W::Frame(t) => tool = tool * t } }
        let chain = ref_chain(&r.p, &q);
        let tip = (base * ref_to_pose(&chain[5]) * tool).translation.vector;
        let mut g = Matrix6::zeros();
        for i in 0..6 {
            let li = base * ref_to_pose(&chain[i]);
            let a_local = if i == 0 || i == 3 || i == 5 { Vector3::z() } else { Vector3::y() };
            let axis = (li.rotation * a_local) * r.p.sign_corrections[i] as f64;
            let lin = axis.cross(&(tip - li.translation.vector));
            for c in 0..3 { g[(c, i)] = lin[c]; g[(3 + c, i)] = axis[c]; }
        }
        let reach = tip.norm() + 2.0;
        // truncation (second derivative <= reach) + rounding of the difference quotient (positions of a few metres: 1e-15 / eps) + slack
        let tol = 5.0 * eps * reach + 2e-13 / eps * reach + 1e-8;
        let diff = (m - g).abs().max();
        let mut direct = "ok".to_string(); let mut class = String::new();
        let mut fail = |c: &str| { if direct == "ok" { direct = "fail".into(); class = c.into(); } };
        if diff > tol { let (mut br, mut bc, mut bv) = (0, 0, 0.0); for a in 0..6 { for b in 0..6 { let d = (m[(a, b)] - g[(a, b)]).abs(); if d > bv { bv = d; br = a; bc = b; } } } fail(if br < 3 { "C15.position_rows_not_axis_cross_lever" } else { "C15.rotation_rows_not_joint_axis" }); let _ = bc; }
        // velocities / torques
        let x = Vector6::new(rng.range(-1.0, 1.0), rng.range(-1.0, 1.0), rng.range(-1.0, 1.0), rng.range(-0.5, 0.5), rng.range(-0.5, 0.5), rng.range(-0.5, 0.5));
        let svd = nalgebra::linalg::SVD::new(m, false, false);
        let smax = svd.singular_values.max(); let smin = svd.singular_values.min();
        let cond = if smin > 0.0 { smax / smin } else { f64::INFINITY };
        if cond < 1e4 {
            match jac.velocities_from_vector(&x) {
                Ok(v) => { let v6 = Vector6::new(v[0], v[1], v[2], v[3], v[4], v[5]); if (m * v6 - x).norm() > 1e-9 * cond * (1.0 + x.norm()) { fail("C15.velocities_do_not_reproduce_twist"); } }
                Err(_) => fail("C15.velocities_error_on_well_conditioned_jacobian"),
            }
            // isometry entry point agrees with the vector one
            let iso = Isometry3::from_parts(Translation3::new(x[0], x[1], x[2]), UnitQuaternion::from_scaled_axis(Vector3::new(x[3], x[4], x[5])));
            if let (Ok(a), Ok(b)) = (jac.velocities(&iso), jac.velocities_from_vector(&x)) { if (0..6).any(|i| (a[i] - b[i]).abs() > 1e-9 * cond) { fail("C15.velocity_entry_points_disagree"); } }
            if let (Ok(a), Ok(b)) = (jac.velocities_fixed(x[0], x[1], x[2]), jac.velocities_from_vector(&Vector6::new(x[0], x[1], x[2], 0.0, 0.0, 0.0))) { if (0..6).any(|i| (a[i] - b[i]).abs() > 1e-12 * cond) { fail("C15.velocities_fixed_disagrees"); } }
        }
        let f = x;
        let tq = jac.torques_from_vector(&f);
        let want = m.transpose() * f;
        if (0..6).any(|i| (tq[i] - want[i]).abs() > 1e-12 * (1.0 + want.norm())) { fail("C15.torques_not_transpose_times_wrench"); }
        let iso = Isometry3::from_parts(Translation3::new(f[0], f[1], f[2]), UnitQuaternion::from_scaled_axis(Vector3::new(f[3], f[4], f[5])));
        let tq2 = jac.torques(&iso);
        if (0..6).any(|i| (tq[i] - tq2[i]).abs() > 1e-9 * (1.0 + want.norm())) { fail("C15.torque_entry_points_disagree"); }
        // recorded for the model replay (torques / velocities at Q): twist = wrench, try_inverse's answer read out column by column
        let mat = |mm: &Matrix6<f64>| format!("[{}]", (0..6).map(|a| fxs(&(0..6).map(|b| mm[(a, b)]).collect::<Vec<f64>>())).collect::<Vec<_>>().join(","));
        let use_rec = if idx % 8 == 0 && cond < 1e4 {
            let mut ji = Matrix6::zeros(); let mut okinv = true;
            for kk in 0..6 { let mut e = Vector6::zeros(); e[kk] = 1.0; match jac.velocities_from_vector(&e) { Ok(c) => { for a in 0..6 { ji[(a, kk)] = c[a]; } } Err(_) => okinv = false } }
            let vel = jac.velocities_from_vector(&x).ok();
            Obj::new().raw("m", &mat(&m)).raw("jinv", &if okinv { mat(&ji) } else { "null".to_string() }).fs("x", x.as_slice())
                .raw("vel", &match vel { Some(v) => fxs(&v), None => "null".to_string() }).fs("tq", &tq).done()
        } else { "null".to_string() };
        println!("{}", Obj::new().s("prop", "C15").raw("use", &use_rec).i("case", idx as i64).raw("robot", &r.json()).fs("q", &q).f("eps", eps).i("wrappers", ws.len() as i64)
            .d("diff", diff).d("tol", tol).d("cond", cond).raw("jac", &if ws.is_empty() { format!("[{}]", (0..6).map(|a| fxs(&(0..6).map(|b| m[(a, b)]).collect::<Vec<f64>>())).collect::<Vec<_>>().join(",")) } else { "null".to_string() }).s("direct", &direct).s("class", &class).done());
    }
}
