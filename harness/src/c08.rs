//! C08: a constrained solver returns exactly the compliant solutions of the unconstrained query.
use crate::ik::*;
use crate::robots::*;
use crate::util::*;
use rs_opw_kinematics::kinematic_traits::{Joints, Kinematics};
use crate::c09::{build, random_iso, W};
use std::sync::Arc;
use std::f64::consts::PI;

pub fn main(tier: &str, seed: u64, n_override: Option<u64>) {
    let n = n_override.unwrap_or(if tier == "thorough" { 200_000 } else { 8_000 });
    let mut rng = Rng::new(seed ^ 0xC08);
    for idx in 0..n {
        let kind = [PoseKind::Reachable, PoseKind::Reachable, PoseKind::Sing0, PoseKind::Random, PoseKind::SingPi][(idx % 5) as usize];
        let mut r = random_robot(&mut rng, idx, false, None);
        if idx % 4 == 1 { r.p.dof = 5; }
        let (pose, origin) = make_pose(&mut rng, &r, kind);
        r.cons = Some(random_constraints(&mut rng, origin.as_ref()));
        let o = origin.unwrap_or([0.0; 6]);
        let entry = rng.below(4) as u8;
        let prev: Joints = match rng.below(4) { 0 => o, 1 => std::array::from_fn(|i| o[i] + rng.range(-0.4, 0.4)), 2 => std::array::from_fn(|_| rng.range(-2.0 * PI, 2.0 * PI)), _ => sentinel() };
        let j6 = dy(rng.range(-3.0, 3.0), 12);
        let con = call_entry(&r.solver(), entry, &pose, &prev, j6);
        let unc = call_entry(&r.bare(), entry, &pose, &prev, j6);
        let mut direct = "ok".to_string(); let mut class = String::new();
        let five = r.p.dof == 5 || entry >= 2;
        for s in &con {
            // J6 of a 5-DOF answer is the caller's value and is subject to the limits like any joint
            if compliant_oracle(&r.cons, s) == Some(false) && direct == "ok" { direct = "fail".into(); class = format!("C08.noncompliant_answer_entry{}_dof{}", entry, r.p.dof); }
        }
        for u in &unc {
            // With the CONSTRAINT_CENTERED sentinel the two queries use different reference vectors (constraint
            // centres vs zeros), so the representative picked on the singular J4+J6 continuum legitimately differs.
            let singular_rep = prev[0].is_nan() && r.to_model(u)[4].sin().abs() < 1e-3;
            if compliant_oracle(&r.cons, u) == Some(true) && !singular_rep {
                let n = if five { 5 } else { 6 };
                let found = con.iter().any(|c| (0..n).all(|i| ang_diff(c[i], u[i]) < 1e-7));
                if !found && direct == "ok" { direct = "fail".into(); class = format!("C08.compliant_solution_dropped_entry{}_dof{}", entry, r.p.dof); }
            }
        }
        // the same through wrapper stacks (depth 1..3 of tool / base / frame, optionally a parallelogram around the robot):
        // the stack reports the limits of the robot it wraps, and every answer mapped back to the inner robot's joints is within them
        if idx % 4 == 0 && direct == "ok" {
            let depth = 1 + rng.below(3) as usize;
            let ws: Vec<W> = (0..depth).map(|_| match rng.below(3) { 0 => W::Tool(random_iso(&mut rng, five)), 1 => W::Base(random_iso(&mut rng, false)), _ => W::Frame(random_iso(&mut rng, five)) }).collect();
            let inner: Arc<dyn Kinematics> = Arc::new(r.solver());
            let para = rng.below(3) == 0;
            let scaling = [1.0, 0.5, -1.0][rng.below(3) as usize];
            let core: Arc<dyn Kinematics> = if para { Arc::new(rs_opw_kinematics::parallelogram::Parallelogram { robot: inner.clone(), scaling, driven: 1, coupled: 2 }) } else { inner.clone() };
            let stack = build(core, &ws);
            let same = match (stack.constraints(), inner.constraints()) { (Some(a), Some(b)) => a.from == b.from && a.to == b.to && a.sorting_weight == b.sorting_weight, (None, None) => true, _ => false };
            if !same { direct = "fail".into(); class = "C08.wrapper_reports_other_limits".into(); }
            let wpose = stack.forward(&o);
            let sols = match entry { 0 => stack.inverse(&wpose), 1 => stack.inverse_continuing(&wpose, &prev), 2 => stack.inverse_5dof(&wpose, j6), _ => stack.inverse_continuing_5dof(&wpose, &prev) };
            for s in &sols {
                // the limits are those of the wrapped robot: undo the parallelogram coupling before testing
                let mut inner_j = *s; if para { inner_j[2] -= scaling * inner_j[1]; }
                if compliant_oracle(&r.cons, &inner_j) == Some(false) && direct == "ok" { direct = "fail".into(); class = format!("C08.noncompliant_answer_through_wrappers_entry{}", entry); }
            }
        }
        println!("{}", Obj::new().s("prop", "C08").i("case", idx as i64).raw("robot", &r.json()).s("kind", &format!("{:?}", kind)).i("entry", entry as i64)
            .raw("pose", &pose_json(&pose)).raw("prev", &if prev[0].is_nan() { "null".to_string() } else { fxs(&prev) }).f("j6", j6)
            .i("n_constrained", con.len() as i64).i("n_unconstrained", unc.len() as i64).s("direct", &direct).s("class", &class).done());
    }
}
