//! C08: a constrained solver returns exactly the compliant solutions of the unconstrained query.
use crate::ik::*;
use crate::robots::*;
use crate::util::*;
use rs_opw_kinematics::kinematic_traits::Joints;
use std::f64::consts::PI;

pub fn main(tier: &str, seed: u64, n_override: Option<u64>) {
    let n = n_override.unwrap_or(if tier == "thorough" { 200_000 } else { 8_000 });
    let mut rng = Rng::new(seed ^ 0xC08);
    for idx in 0..n {
        let kind = [PoseKind::Reachable, PoseKind::Reachable, PoseKind::Sing0, PoseKind::Random, PoseKind::SingPi][(idx % 5) as usize];
        let mut r = random_robot(&mut rng, idx, false, None);
        if idx % 4 == 1 { r.p.dof = 5; }
        let (pose, origin) = make_pose(&mut rng, &r, kind);
        r.cons = Some(random_constraints(&mut rng, origin.as_ref()));
        let o = origin.unwrap_or([0.0; 6]);
        let entry = rng.below(4) as u8;
        let prev: Joints = match rng.below(4) { 0 => o, 1 => std::array::from_fn(|i| o[i] + rng.range(-0.4, 0.4)), 2 => std::array::from_fn(|_| rng.range(-2.0 * PI, 2.0 * PI)), _ => sentinel() };
        let j6 = dy(rng.range(-3.0, 3.0), 12);
        let con = call_entry(&r.solver(), entry, &pose, &prev, j6);
        let unc = call_entry(&r.bare(), entry, &pose, &prev, j6);
        let mut direct = "ok".to_string(); let mut class = String::new();
        let five = r.p.dof == 5 || entry >= 2;
        for s in &con {
            // J6 of a 5-DOF answer is the caller's value and is subject to the limits like any joint
            if compliant_oracle(&r.cons, s) == Some(false) && direct == "ok" { direct = "fail".into(); class = format!("C08.noncompliant_answer_entry{}_dof{}", entry, r.p.dof); }
        }
        for u in &unc {
            // With the CONSTRAINT_CENTERED sentinel the two queries use different reference vectors (constraint
            // centres vs zeros), so the representative picked on the singular J4+J6 continuum legitimately differs.
            let singular_rep = prev[0].is_nan() && r.to_model(u)[4].sin().abs() < 1e-3;
            if compliant_oracle(&r.cons, u) == Some(true) && !singular_rep {
                let n = if five { 5 } else { 6 };
                let found = con.iter().any(|c| (0..n).all(|i| ang_diff(c[i], u[i]) < 1e-7));
                if !found && direct == "ok" { direct = "fail".into(); class = format!("C08.compliant_solution_dropped_entry{}_dof{}", entry, r.p.dof); }
            }
        }
        println!("{}", Obj::new().s("prop", "C08").i("case", idx as i64).raw("robot", &r.json()).s("kind", &format!("{:?}", kind)).i("entry", entry as i64)
            .raw("pose", &pose_json(&pose)).raw("prev", &if prev[0].is_nan() { "null".to_string() } else { fxs(&prev) }).f("j6", j6)
            .i("n_constrained", con.len() as i64).i("n_unconstrained", unc.len() as i64).s("direct", &direct).s("class", &class).done());
    }
}
