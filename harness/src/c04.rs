//! C04: continuation answers are nearest representatives, sorted by the documented cost,
//! a superset of plain inverse, previous-first, and track a trajectory.
use crate::ik::*;
use crate::robots::*;
use crate::util::*;
use rs_opw_kinematics::kinematic_traits::{Joints, Kinematics};
use std::f64::consts::PI;

fn dist(a: &Joints, b: &Joints) -> f64 { (0..6).map(|i| (a[i] - b[i]).abs()).sum() }
fn cost(r: &Robot, centers: &Joints, previous: &Joints, a: &Joints) -> f64 {
    match &r.cons { None => dist(a, previous), Some((_, _, w)) => if *w == 0.0 { dist(a, previous) } else { (if *w == 1.0 { 0.0 } else { dist(a, previous) }) * (1.0 - w) + dist(a, centers) * w } }
}

pub fn main(tier: &str, seed: u64, n_override: Option<u64>) {
    let n = n_override.unwrap_or(if tier == "thorough" { 200_000 } else { 6_000 });
    let mut rng = Rng::new(seed ^ 0xC04);
    for idx in 0..n {
        let mut direct = "ok".to_string(); let mut class = String::new();
        if idx % 10 == 9 {
            // ---- trajectory tracking
            let r = random_robot(&mut rng, idx, false, None);
            let k = r.bare();
            let q0 = origin_joints(&mut rng, &r, PoseKind::Reachable);
            let dq: Joints = std::array::from_fn(|_| rng.range(-0.6, 0.6));
            let steps = 60;
            let path: Vec<Joints> = (0..=steps).map(|s| std::array::from_fn(|i| q0[i] + dq[i] * s as f64 / steps as f64)).collect();
            let all_ns = path.iter().all(|q| nonsingular(&r, q));
            let mut prev = path[0];
            let mut worst = 0.0f64;
            if all_ns {
                for q in &path[1..] {
                    let s = k.inverse_continuing(&pose_of(&r, q), &prev);
                    if s.is_empty() { direct = "fail".into(); class = "C04.trajectory_lost_no_answer".into(); break; }
                    let e = (0..6).map(|i| (s[0][i] - q[i]).abs()).fold(0.0, f64::max);
                    worst = worst.max(e);
                    if e > 1e-5 { direct = "fail".into(); class = "C04.trajectory_branch_switch".into(); break; }
                    prev = s[0];
                }
            }
            println!("{}", Obj::new().s("prop", "C04").s("what", "trajectory").i("case", idx as i64).raw("robot", &r.json()).fs("q0", &q0).fs("dq", &dq)
                .b("nonsingular_path", all_ns).d("worst", worst).s("direct", &direct).s("class", &class).done());
            continue;
        }
        let kind = [PoseKind::Reachable, PoseKind::Reachable, PoseKind::Sing0, PoseKind::Random, PoseKind::NearSing][(idx % 5) as usize];
        let mut r = random_robot(&mut rng, idx, false, None);
        let (pose, origin) = make_pose(&mut rng, &r, kind);
        if idx % 2 == 0 { r.cons = Some(random_constraints(&mut rng, origin.as_ref())); }
        let k = r.solver();
        let o = origin.unwrap_or([0.0; 6]);
        let pk = rng.below(5);
        let prev: Joints = match pk {
            0 => o,
            1 => std::array::from_fn(|i| (o[i] + rng.range(-0.4, 0.4)).clamp(-2.0 * PI, 2.0 * PI)),
            2 | 3 => std::array::from_fn(|_| rng.range(-2.0 * PI, 2.0 * PI)),
            _ => sentinel(),
        };
        let entry = if rng.below(4) == 0 { 3u8 } else { 1u8 };
        let sols = call_entry(&k, entry, &pose, &prev, 0.0);
        let centers: Joints = match &r.cons { Some((f, t, w)) => rs_opw_kinematics::constraints::Constraints::new(*f, *t, *w).centers, None => [0.0; 6] };
        let previous = if prev[0].is_nan() { centers } else { prev };
        let nj = if entry == 3 { 5 } else { 6 };
        // nearest representative
        for s in &sols { for i in 0..nj { if (s[i] - previous[i]).abs() > PI + 1e-9 && previous[i].abs() <= 2.0 * PI + 1e-9 && direct == "ok" { direct = "fail".into(); class = "C04.not_nearest_representative".into(); } } }
        // ordering
        for w in sols.windows(2) {
            if cost(&r, &centers, &previous, &w[0]) > cost(&r, &centers, &previous, &w[1]) + 1e-9 && direct == "ok" { direct = "fail".into(); class = "C04.not_sorted_by_cost".into(); }
        }
        // superset of plain inverse
        if entry == 1 {
            for s0 in k.inverse(&pose) {
                if !sols.iter().any(|s| joints_close_mod(s, &s0, 1e-7)) && direct == "ok" { direct = "fail".into(); class = "C04.plain_solution_missing".into(); }
            }
        }
        // previous first
        let w0 = r.cons.as_ref().map(|c| c.2).unwrap_or(0.0);
        if pk == 0 && origin.is_some() && kind == PoseKind::Reachable && entry == 1 && w0 == 0.0 && nonsingular(&r, &o)
            && compliant_oracle(&r.cons, &o) == Some(true) && o.iter().all(|x| x.abs() <= 2.0 * PI) {
            if (sols.is_empty() || !joints_close(&sols[0], &o, 1e-6)) && direct == "ok" { direct = "fail".into(); class = "C04.previous_not_first".into(); }
        }
        println!("{}", Obj::new().s("prop", "C04").s("what", "query").i("case", idx as i64).raw("robot", &r.json()).s("kind", &format!("{:?}", kind))
            .i("entry", entry as i64).raw("pose", &pose_json(&pose)).raw("prev", &if prev[0].is_nan() { "null".to_string() } else { fxs(&prev) })
            .i("nsol", sols.len() as i64).s("direct", &direct).s("class", &class).done());
    }
}
