//! C02: inverse kinematics is complete away from singularities; the answer set is closed (same size for the pose
//! of each answer, contains the wrist-flipped twin, no duplicates).
use crate::ik::*;
use crate::robots::*;
use crate::util::*;
use rs_opw_kinematics::kinematic_traits::{Joints, Kinematics};
use rs_opw_kinematics::kinematics_impl::verif_hooks as H;
use std::f64::consts::PI;

pub fn main(tier: &str, seed: u64, n_override: Option<u64>) {
    let n = n_override.unwrap_or(if tier == "thorough" { 300_000 } else { 10_000 });
    let mut rng = Rng::new(seed ^ 0xC02);
    for idx in 0..n {
        let r = random_robot(&mut rng, idx, false, None);
        let k = r.bare();
        let mut q = origin_joints(&mut rng, &r, PoseKind::Reachable);
        // a share of the cases close to (but outside) the wrist singularity: |sin q5| between 1e-3 and 2e-2, far above the solver's
        // own 0.01 degree band (1.7e-4) and above what f64 needs (the recovered J4/J6 are off by ~1e-16 / |sin q5|)
        let near_wrist = idx % 5 == 0;
        if near_wrist {
            let mut m = r.to_model(&q);
            let eps = dy(rng.range(1.2e-3, 2e-2), 30) * if rng.bool() { 1.0 } else { -1.0 };
            m[4] = if rng.bool() { eps } else { PI - eps };
            q = r.from_model(&m);
        }
        let ns = nonsingular_w(&r, &q, if near_wrist { 1e-3 } else { 0.02 });
        let pose = pose_of(&r, &q);
        let _ = H::take_trace();
        let sols = k.inverse(&pose);
        let theta: Vec<[[f64; 6]; 8]> = H::take_trace().into_iter().filter_map(|e| if let H::Event::Theta(t) = e { Some(t) } else { None }).collect();
        let mut direct = "ok".to_string(); let mut class = String::new();
        let mut fail = |c: &str| { if direct == "ok" { direct = "fail".into(); class = c.into(); } };
        if ns {
            if !sols.iter().any(|s| joints_close_mod(s, &q, 1e-6)) { fail("C02.originating_configuration_missing"); }
            // twin of each answer (model angles): (q4 + pi, -q5, q6 - pi)
            for s in &sols {
                let m = r.to_model(s);
                let tw = r.from_model(&[m[0], m[1], m[2], m[3] + PI, -m[4], m[5] - PI]);
                if !sols.iter().any(|t| joints_close_mod(t, &tw, 1e-6)) { fail("C02.wrist_flipped_twin_missing"); }
            }
            // no duplicates
            for a in 0..sols.len() { for b in (a + 1)..sols.len() { if joints_close_mod(&sols[a], &sols[b], 1e-7) { fail("C02.duplicate_solution"); } } }
            // same size for the pose of each returned solution (when that solution is itself non-singular)
            for s in &sols {
                if nonsingular(&r, s) {
                    let n2 = k.inverse(&pose_of(&r, s)).len();
                    if n2 != sols.len() { fail("C02.answer_set_size_changes_between_members"); }
                }
            }
        }
        let th = if theta.is_empty() { "null".to_string() } else { fxss(&theta[0].to_vec()) };
        // FK verdict of every finite branch, computed on a candidate the harness forms itself
        let mut verd: Vec<String> = Vec::new();
        if !theta.is_empty() {
            for row in theta[0].iter() {
                if row.iter().all(|x| x.is_finite()) {
                    let cand: Joints = std::array::from_fn(|i| { let mut a = (row[i] + r.p.offsets[i]) * r.p.sign_corrections[i] as f64; while a > PI { a -= 2.0 * PI } while a < -PI { a += 2.0 * PI } a });
                    let ok = H::compare_poses(&pose, &k.forward(&cand), H::DISTANCE_TOLERANCE, H::ANGULAR_TOLERANCE);
                    verd.push(format!("{{\"c\":{},\"ok\":{}}}", fxs(&cand), ok));
                }
            }
        }
        let kernel = H::inverse_intern(&k, &pose);
        let _ = H::take_trace();
        println!("{}", Obj::new().s("prop", "C02").i("case", idx as i64).raw("robot", &r.json()).fs("q", &q).b("nonsingular", ns).i("nsol", sols.len() as i64)
            .raw("theta", &th).raw("verdicts", &format!("[{}]", verd.join(","))).raw("kernel", &sols_json(&kernel)).s("direct", &direct).s("class", &class).done());
    }
}
