//! C05: wrist singularity detected geometrically (band around collinear J4/J6 axes, either side,
//! any offsets/signs); J5 = 0 continuation returns the previous joints first; recovered J4/J6 move equally.
use crate::ik::*;
use crate::robots::*;
use crate::util::*;
use rs_opw_kinematics::kinematic_traits::{Joints, Kinematics};
use rs_opw_kinematics::kinematics_impl::verif_hooks as H;
use std::f64::consts::PI;

fn axes_angle(r: &Robot, j: &Joints) -> f64 {
    // angle between the rotation axes of joints 4 and 6 from the independent chain: z axis of link 3 frame
    // after Rz(q4) is unchanged (axis 4 = z of link 4), axis 6 = z of link 6
    let c = ref_chain(&r.p, j);
    let a4 = [c[3].r[0][2], c[3].r[1][2], c[3].r[2][2]];
    let a6 = [c[5].r[0][2], c[5].r[1][2], c[5].r[2][2]];
    let cr = [a4[1] * a6[2] - a4[2] * a6[1], a4[2] * a6[0] - a4[0] * a6[2], a4[0] * a6[1] - a4[1] * a6[0]];
    (cr[0] * cr[0] + cr[1] * cr[1] + cr[2] * cr[2]).sqrt().asin() // in [0, pi/2]: angle to the nearest collinear position
}

pub fn main(tier: &str, seed: u64, n_override: Option<u64>) {
    let n = n_override.unwrap_or(if tier == "thorough" { 200_000 } else { 6_000 });
    let mut rng = Rng::new(seed ^ 0xC05);
    let thr = H::SINGULARITY_ANGLE_THR;
    for idx in 0..n {
        let r = random_robot(&mut rng, idx, false, None);
        let k = r.bare();
        if idx % 2 == 0 {
            // ---- detection
            let mut q: Joints = std::array::from_fn(|_| dy(rng.range(-3.0, 3.0), 16));
            let m = rng.int(-2, 2) as f64;
            // factors of the band: coarse ones, and a fine sweep of +-1% around the edge (the margin guard below is 1e-9 rad = 6e-6 of the band)
            let f = if rng.below(3) == 0 { rng.range(0.99, 1.01) } else { [0.3, 0.9, 0.97, 1.03, 1.1, 2.0, 30.0][rng.below(7) as usize] };
            let eps = thr * f * if rng.bool() { 1.0 } else { -1.0 };
            q[4] = m * PI + eps;
            let j = r.from_model(&q);
            let got = k.kinematic_singularity(&j).is_some();
            let ang = axes_angle(&r, &j);
            let want = ang < thr;
            let marginal = (ang - thr).abs() < 1e-9;
            let mut direct = "ok"; let mut class = String::new();
            if !marginal && got != want {
                direct = "fail";
                class = if want { format!("C05.collinear_axes_not_reported{}", if eps < 0.0 { "_negative_side" } else { "" }) } else { "C05.reported_singular_outside_band".into() };
            }
            println!("{}", Obj::new().s("prop", "C05").s("what", "detect").i("case", idx as i64).raw("robot", &r.json()).fs("j", &j)
                .d("axes_angle", ang).d("eps_over_thr", eps / thr).b("reported", got).s("direct", direct).s("class", &class).done());
        } else {
            // ---- continuity at J5 = 0
            let mut q: Joints = std::array::from_fn(|_| dy(rng.range(-2.8, 2.8), 16));
            q[4] = 0.0;
            // well conditioned arm: elbow and shoulder far from singular
            let psi3 = f64::atan2(r.p.a2, r.p.c3);
            let kk = (r.p.a2 * r.p.a2 + r.p.c3 * r.p.c3).sqrt();
            let cx1 = r.p.c2 * q[1].sin() + kk * (q[1] + q[2] + psi3).sin() + r.p.a1;
            let well = (q[2] + psi3).sin().abs() > 0.3 && cx1.abs() > 0.15 && (cx1 * cx1 + r.p.b * r.p.b).sqrt() > r.p.b.abs() + 0.1
                && (cx1 + 2.0 * -r.p.a1).abs() > 0.0;
            let j = r.from_model(&q);
            let pose = pose_of(&r, &j);
            // ... and the sensitivity of the arm to the 0.125 um shift, computed on the independent link chain: the orientation error the
            // recovered candidate is predicted to have (solver's acceptance: 1e-6 rad); "well conditioned" = below half of that for some shift
            let well = well && recovery_error(&r, &j, &pose) < 0.5e-6;
            let _ = H::take_trace();
            let sols = k.inverse_continuing(&pose, &j);
            let cands: Vec<(Joints, bool)> = H::take_trace().into_iter().filter_map(|e| if let H::Event::Candidate(c, v) = e { Some((c, v)) } else { None }).collect();
            let mut direct = "ok"; let mut class = String::new();
            // equal moves of J4 and J6 (model angles) of every accepted candidate
            for (c, ok) in &cands {
                if *ok {
                    let (cm, pm) = (r.to_model(c), r.to_model(&j));
                    if ((cm[3] - pm[3]) - (cm[5] - pm[5])).abs() > 1e-9 { direct = "fail"; class = "C05.recovered_j4_j6_move_differently".into(); }
                }
            }
            // is a second IK branch (another arm configuration) simultaneously singular?  (excluded by the property's quantifier)
            // The solver looks at the pose and at its three 0.125 um shifts; a branch counts when its model J5 is inside the
            // detection band (with a 2x safety factor) at any of them and its J1..J3 are not those of the previous joints.
            let bare = r.bare();
            let mut other_singular = false;
            for d in 0..4 {
                for s in H::inverse_intern(&bare, &shifted(&pose, d)) {
                    let m = r.to_model(&s);
                    let band = { let a = m[4].rem_euclid(std::f64::consts::PI); a.min(std::f64::consts::PI - a) < 2.0 * H::SINGULARITY_ANGLE_THR };
                    let same_arm = (0..3).all(|i| ang_diff(s[i], j[i]) < 1e-3);
                    if band && !same_arm { other_singular = true; }
                }
            }
            let _ = H::take_trace();
            if well && !other_singular && direct == "ok" {
                if sols.is_empty() || !joints_close(&sols[0], &j, 2e-5) { direct = "fail"; class = "C05.singular_continuation_first_is_not_previous".into(); }
            }
            println!("{}", Obj::new().s("prop", "C05").s("what", "continuity").i("case", idx as i64).raw("robot", &r.json()).fs("j", &j)
                .b("well", well).b("other_singular", other_singular).i("ncand", cands.len() as i64)
                .raw("first", &if sols.is_empty() { "null".to_string() } else { fxs(&sols[0]) }).s("direct", direct).s("class", &class).done());
        }
    }
}

/// Predicted orientation error of the singular recovery, from the independent link chain only.  For each of the three shifted
/// poses: move J1..J3 (Newton on the wrist centre of the reference chain) so that the wrist centre follows the shift, read the wrist
/// angles the pose then needs (Rz Ry Rz), redistribute J4/J6 around the previous values keeping their sum, and measure how far the
/// rotation of that candidate is from the requested one - for the row and for its wrist-flipped twin (whichever the solver meets
/// first), taking the worse.  Returns the best (smallest) such error over the three shifts.
fn recovery_error(r: &Robot, j: &Joints, pose: &rs_opw_kinematics::kinematic_traits::Pose) -> f64 {
    use nalgebra::{Matrix3, Rotation3, Vector3};
    let p = &r.p;
    let rm = |m: &[[f64; 3]; 3]| Matrix3::new(m[0][0], m[0][1], m[0][2], m[1][0], m[1][1], m[1][2], m[2][0], m[2][1], m[2][2]);
    let rz = |a: f64| Rotation3::from_axis_angle(&Vector3::z_axis(), a).into_inner();
    let ry = |a: f64| Rotation3::from_axis_angle(&Vector3::y_axis(), a).into_inner();
    let wrap = |mut a: f64| { while a > PI { a -= 2.0 * PI } while a < -PI { a += 2.0 * PI } a };
    let want_r = rm(&pose_to_ref(pose).r);
    let prev = r.to_model(j);
    let wc = |jj: &Joints| { let c = ref_chain(p, jj); Vector3::new(c[4].t[0], c[4].t[1], c[4].t[2]) };
    let mut best = f64::INFINITY;
    for d in 1..4 {
        let sp = shifted(pose, d);
        let target = sp.translation.vector - want_r * Vector3::new(0.0, 0.0, p.c4);
        let mut jj = *j;
        for _ in 0..3 {
            let c0 = wc(&jj);
            let h = 1e-6;
            let mut jac = Matrix3::zeros();
            for i in 0..3 { let mut jp = jj; jp[i] += h; let mut jn = jj; jn[i] -= h; let col = (wc(&jp) - wc(&jn)) / (2.0 * h); for a in 0..3 { jac[(a, i)] = col[a]; } }
            match jac.try_inverse() { Some(inv) => { let dq = inv * (target - c0); for i in 0..3 { jj[i] += dq[i]; } } None => return f64::INFINITY }
        }
        if (wc(&jj) - target).norm() > 1e-10 { continue; }
        let r0c = rm(&ref_chain(p, &jj)[2].r);
        let w = r0c.transpose() * want_r;                      // = Rz(t4) Ry(t5) Rz(t6)
        let t5 = w[(2, 2)].clamp(-1.0, 1.0).acos();
        let (t4, t6) = (w[(1, 2)].atan2(w[(0, 2)]), w[(2, 1)].atan2(-w[(2, 0)]));
        let jd = wrap((t4 + t6) - (prev[3] + prev[5])) / 2.0;
        let mut worst = 0.0f64;
        for sgn in [1.0, -1.0] {
            let cand = rz(prev[3] + jd) * ry(sgn * t5) * rz(prev[5] + jd);
            let e = Rotation3::from_matrix_unchecked(cand.transpose() * w).angle();
            worst = worst.max(e);
        }
        best = best.min(worst);
    }
    best
}
