//! C05: wrist singularity detected geometrically (band around collinear J4/J6 axes, either side,
//! any offsets/signs); J5 = 0 continuation returns the previous joints first; recovered J4/J6 move equally.
use crate::ik::*;
use crate::robots::*;
use crate::util::*;
use rs_opw_kinematics::kinematic_traits::{Joints, Kinematics};
use rs_opw_kinematics::kinematics_impl::verif_hooks as H;
use std::f64::consts::PI;

fn axes_angle(r: &Robot, j: &Joints) -> f64 {
    // angle between the rotation axes of joints 4 and 6 from the independent chain: z axis of link 3 frame
    // after Rz(q4) is unchanged (axis 4 = z of link 4), axis 6 = z of link 6
    let c = ref_chain(&r.p, j);
    let a4 = [c[3].r[0][2], c[3].r[1][2], c[3].r[2][2]];
    let a6 = [c[5].r[0][2], c[5].r[1][2], c[5].r[2][2]];
    let cr = [a4[1] * a6[2] - a4[2] * a6[1], a4[2] * a6[0] - a4[0] * a6[2], a4[0] * a6[1] - a4[1] * a6[0]];
    (cr[0] * cr[0] + cr[1] * cr[1] + cr[2] * cr[2]).sqrt().asin() // in [0, pi/2]: angle to the nearest collinear position
}

pub fn main(tier: &str, seed: u64, n_override: Option<u64>) {
    let n = n_override.unwrap_or(if tier == "thorough" { 200_000 } else { 6_000 });
    let mut rng = Rng::new(seed ^ 0xC05);
    let thr = H::SINGULARITY_ANGLE_THR;
    for idx in 0..n {
        let r = random_robot(&mut rng, idx, false, None);
        let k = r.bare();
        if idx % 2 == 0 {
            // ---- detection
            let mut q: Joints = std::array::from_fn(|_| dy(rng.range(-3.0, 3.0), 16));
            let m = rng.int(-2, 2) as f64;
            // factors of the band: coarse ones, and a fine sweep of +-1% around the edge (the margin guard below is 1e-9 rad = 6e-6 of the band)
            let f = if rng.below(3) == 0 { rng.range(0.99, 1.01) } else { [0.3, 0.9, 0.97, 1.03, 1.1, 2.0, 30.0][rng.below(7) as usize] };
            let eps = thr * f * if rng.bool() { 1.0 } else { -1.0 };
            q[4] = m * PI + eps;
            let j = r.from_model(&q);
            let got = k.kinematic_singularity(&j).is_some();
            let ang = axes_angle(&r, &j);
            let want = ang < thr;
            let marginal = (ang - thr).abs() < 1e-9;
            let mut direct = "ok"; let mut class = String::new();
            if !marginal && got != want {
                direct = "fail";
                class = if want { format!("C05.collinear_axes_not_reported{}", if eps < 0.0 { "_negative_side" } else { "" }) } else { "C05.reported_singular_outside_band".into() };
            }
            println!("{}", Obj::new().s("prop", "C05").s("what", "detect").i("case", idx as i64).raw("robot", &r.json()).fs("j", &j)
                .d("axes_angle", ang).d("eps_over_thr", eps / thr).b("reported", got).s("direct", direct).s("class", &class).done());
        } else {
            // ---- continuity at J5 = 0
            let mut q: Joints = std::array::from_fn(|_| dy(rng.range(-2.8, 2.8), 16));
            q[4] = 0.0;
            // well conditioned arm: elbow and shoulder far from singular
            let psi3 = f64::atan2(r.p.a2, r.p.c3);
            let kk = (r.p.a2 * r.p.a2 + r.p.c3 * r.p.c3).sqrt();
            let cx1 = r.p.c2 * q[1].sin() + kk * (q[1] + q[2] + psi3).sin() + r.p.a1;
            let well = (q[2] + psi3).sin().abs() > 0.3 && cx1.abs() > 0.15 && (cx1 * cx1 + r.p.b * r.p.b).sqrt() > r.p.b.abs() + 0.1
                && (cx1 + 2.0 * -r.p.a1).abs() > 0.0;
            let j = r.from_model(&q);
            let pose = pose_of(&r, &j);
            let _ = H::take_trace();
            let sols = k.inverse_continuing(&pose, &j);
            let cands: Vec<(Joints, bool)> = H::take_trace().into_iter().filter_map(|e| if let H::Event::Candidate(c, v) = e { Some((c, v)) } else { None }).collect();
            let mut direct = "ok"; let mut class = String::new();
            // equal moves of J4 and J6 (model angles) of every accepted candidate
            for (c, ok) in &cands {
                if *ok {
                    let (cm, pm) = (r.to_model(c), r.to_model(&j));
                    if ((cm[3] - pm[3]) - (cm[5] - pm[5])).abs() > 1e-9 { direct = "fail"; class = "C05.recovered_j4_j6_move_differently".into(); }
                }
            }
            // is a second IK branch (another arm configuration) simultaneously singular?  (excluded by the property's quantifier)
            // The solver looks at the pose and at its three 0.125 um shifts; a branch counts when its model J5 is inside the
            // detection band (with a 2x safety factor) at any of them and its J1..J3 are not those of the previous joints.
            let bare = r.bare();
            let mut other_singular = false;
            for d in 0..4 {
                for s in H::inverse_intern(&bare, &shifted(&pose, d)) {
                    let m = r.to_model(&s);
                    let band = { let a = m[4].rem_euclid(std::f64::consts::PI); a.min(std::f64::consts::PI - a) < 2.0 * H::SINGULARITY_ANGLE_THR };
                    let same_arm = (0..3).all(|i| ang_diff(s[i], j[i]) < 1e-3);
                    if band && !same_arm { other_singular = true; }
                }
            }
            let _ = H::take_trace();
            if well && !other_singular && direct == "ok" {
                if sols.is_empty() || !joints_close(&sols[0], &j, 2e-5) { direct = "fail"; class = "C05.singular_continuation_first_is_not_previous".into(); }
            }
            println!("{}", Obj::new().s("prop", "C05").s("what", "continuity").i("case", idx as i64).raw("robot", &r.json()).fs("j", &j)
                .b("well", well).b("other_singular", other_singular).i("ncand", cands.len() as i64)
                .raw("first", &if sols.is_empty() { "null".to_string() } else { fxs(&sols[0]) }).s("direct", direct).s("class", &class).done());
        }
    }
}
