//! C14: non_colliding_offsets = exactly the legal, fully collision-free single-joint candidates.
use crate::c10::{brute, class_of, safety_json};
use crate::scene::*;
use crate::util::*;
use rs_opw_kinematics::collisions::CheckMode;
use rs_opw_kinematics::constraints::{Constraints, BY_PREV};
use rs_opw_kinematics::kinematic_traits::Joints;

pub fn main(tier: &str, seed: u64, n_override: Option<u64>) {
    let n = n_override.unwrap_or(if tier == "thorough" { 6_000 } else { 300 });
    let pools: Vec<usize> = if tier == "thorough" { vec![1, 2, 4, 8, 16] } else { vec![1, 16] };
    let mut rng = Rng::new(seed ^ 0xC14);
    let mut done = 0u64; let mut tries = 0u64;
    while done < n && tries < n * 40 {
        tries += 1;
        let mut s = random_scene(&mut rng, tries);
        let ids = body_ids(&s);
        let md = if rng.bool() { CheckMode::AllCollsions } else { CheckMode::FirstCollisionOnly };
        s.body.safety = random_safety(&mut rng, &ids, md);
        let initial: Joints = std::array::from_fn(|_| (rng.range(-0.1, 0.1) * 512.0).round() / 512.0);
        // the property quantifies over collision-free initial vectors (no undecided pair either)
        let (hit0, und0, _) = brute(&s, &s.body.safety, &initial, 2e-4);
        if !hit0.is_empty() || !und0.is_empty() { continue; }
        let from: Joints = std::array::from_fn(|i| initial[i] - (rng.range(0.02, 0.5) * 512.0).round() / 512.0);
        let to: Joints = std::array::from_fn(|i| initial[i] + (rng.range(0.02, 0.5) * 512.0).round() / 512.0);
        let mut limits: Option<(Joints, Joints)> = None;
        if rng.below(3) == 0 {
            // limits that cut some of the candidates off
            let mut lf: Joints = std::array::from_fn(|i| if rng.below(3) == 0 { initial[i] - 0.01 } else { initial[i] - 1.0 });
            let mut lt: Joints = std::array::from_fn(|i| if rng.below(3) == 0 { initial[i] + 0.01 } else { initial[i] + 1.0 });
            // a limit a fraction of a milliradian beyond or short of a candidate value
            for i in 0..6 { match rng.below(8) {
                0 => lt[i] = to[i] + rng.range(1e-4, 9e-4) * if rng.bool() { 1.0 } else { -1.0 },
                1 => lf[i] = from[i] + rng.range(1e-4, 9e-4) * if rng.bool() { 1.0 } else { -1.0 },
                _ => {} } }
            let tp = 2.0 * std::f64::consts::PI;
            match rng.below(4) {
                0 => {}
                // the same arcs written one turn away (limits are arcs modulo whole turns)
                1 => { let sh = if rng.bool() { tp } else { -tp }; for i in 0..6 { if rng.bool() { lf[i] += sh; lt[i] += sh; } } }
                // the same arcs in the 0..2pi convention: a range straddling zero becomes a wrap-around range (from > to)
                2 => { for i in 0..6 { lf[i] = lf[i].rem_euclid(tp); lt[i] = lt[i].rem_euclid(tp); } }
                // a start that is itself outside the limits in one joint
                _ => { let b = rng.below(6) as usize; lf[b] = initial[b] + 0.005; lt[b] = initial[b] + 1.0; }
            }
            s.kin.cons = Some(Constraints::new(lf, lt, BY_PREV));
            limits = Some((lf, lt));
        }
        // expected: candidate k = (joint k/2, target from|to)
        let mut expect: Vec<usize> = Vec::new(); let mut undecided: Vec<usize> = Vec::new();
        let mut tables: Vec<String> = Vec::new(); let mut legal: Vec<bool> = Vec::new();
        let mut cands: Vec<Joints> = Vec::new(); let mut legal_und: Vec<usize> = Vec::new();
        for k in 0..12 {
            let mut c = initial; c[k / 2] = if k % 2 == 0 { from[k / 2] } else { to[k / 2] };
            cands.push(c);
            // legality by the independent arc test (C07's oracle), not by the crate's own compliant()
            let arc: Vec<Option<bool>> = match &limits { None => vec![Some(true)], Some((lf, lt)) => (0..6).map(|i| crate::c07::on_arc(lf[i], lt[i], c[i], 1e-9)).collect() };
            let ok = arc.iter().all(|a| *a == Some(true));
            let arc_undecided = !ok && arc.iter().all(|a| *a != Some(false));
            legal.push(ok);
            if arc_undecided { undecided.push(k); legal_und.push(k); continue; }
            let (hit, und, rows) = brute(&s, &s.body.safety, &c, 2e-4);
            tables.push(format!("[{}]", rows.join(",")));
            if !ok { continue; }
            if !und.is_empty() && hit.is_empty() { undecided.push(k); } else if hit.is_empty() { expect.push(k); }
        }
        let mut direct = "ok".to_string(); let mut class = String::new();
        let mut fail = |c: String| { if direct == "ok" { direct = "fail".into(); class = c; } };
        let mut first: Option<Vec<usize>> = None;
        for &np in &pools {
            let pool = rayon::ThreadPoolBuilder::new().num_threads(np).build().unwrap();
            let got: Vec<Joints> = pool.install(|| s.body.non_colliding_offsets(&initial, &from, &to, &s.kin));
            let gk: Vec<usize> = got.iter().map(|g| cands.iter().position(|c| c == g).unwrap_or(99)).collect();
            for &k in &gk {
                if k == 99 { fail("C14.offered_vector_is_not_a_single_joint_candidate".into()); continue; }
                if legal_und.contains(&k) { continue; }
                if !legal[k] { fail("C14.offered_candidate_outside_limits".into()); }
                else if !expect.contains(&k) && !undecided.contains(&k) {
                    let (hit, _, _) = brute(&s, &s.body.safety, &cands[k], 2e-4);
                    let p = hit.iter().next().cloned().unwrap_or((0, 0));
                    fail(format!("C14.colliding_candidate_offered_{}_{}", class_of(p.0), class_of(p.1)));
                }
            }
            for &k in &expect { if !gk.contains(&k) { fail("C14.free_legal_candidate_withheld".into()); } }
            match &first { None => first = Some(gk.clone()), Some(f) => { let (mut a, mut b) = (f.clone(), gk.clone()); a.sort(); b.sort(); if a != b { fail("C14.offers_depend_on_thread_count".into()); } } }
        }
        done += 1;
        println!("{}", Obj::new().s("prop", "C14").i("case", done as i64).b("tool", s.body.tool.is_some()).b("base", s.body.base.is_some())
            .i("n_env", s.body.collision_environment.len() as i64).raw("safety", &safety_json(&s.body.safety)).fs("initial", &initial).fs("from", &from).fs("to", &to)
            .raw("legal", &format!("{:?}", legal)).raw("tables", &format!("[{}]", tables.join(","))).raw("expect", &format!("{:?}", expect)).raw("undecided", &format!("{:?}", undecided))
            .raw("impl", &format!("{:?}", first.unwrap_or_default())).s("direct", &direct).s("class", &class).done());
    }
}
