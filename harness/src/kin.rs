//! Correspondence records for the glue model of kinematics_impl.rs (Model/Kin.v):
//! the implementation's answers together with the recorded oracle answers
//! (kernel tables at the shifted poses, FK verdicts of singular candidates).
use crate::ik::*;
use crate::robots::*;
use crate::util::*;
use rs_opw_kinematics::kinematic_traits::{Joints, Kinematics};
use rs_opw_kinematics::kinematics_impl::verif_hooks as H;
use std::f64::consts::PI;

fn interesting_angle(rng: &mut Rng) -> f64 {
    let base = [0.0, PI, -PI, 2.0 * PI, -2.0 * PI, PI / 2.0, 3.0 * PI][rng.below(7) as usize];
    match rng.below(5) {
        0 => base,
        1 => base + rng.range(-3e-4, 3e-4),
        2 => base + rng.range(-1e-2, 1e-2),
        _ => rng.range(-7.0, 7.0),
    }
}

/// sort_by_closeness on lists whose costs are close together (differences from 1e-6 to a few 1e-3) and on ordinary lists
fn sort_record(rng: &mut Rng, i: u64) {
    let mut r = random_robot(rng, i, false, None);
    if rng.bool() { r.cons = Some(random_constraints(rng, None)); }
    let k = r.solver();
    let prev: Joints = std::array::from_fn(|_| dy(rng.range(-3.0, 3.0), 16));
    let n = 2 + rng.below(7) as usize;
    let base: Joints = std::array::from_fn(|j| dy(prev[j] + rng.range(-1.5, 1.5), 16));
    let mut sols: Vec<Joints> = (0..n).map(|_| {
        let mut s = base;
        // move one or two coordinates by a small amount: costs differ by the same order
        let scale = [1e-6, 1e-5, 1e-4, 3e-4, 1e-3, 0.5][rng.below(6) as usize];
        for _ in 0..(1 + rng.below(2)) { let j = rng.below(6) as usize; s[j] = dy(s[j] + rng.range(-scale, scale), 30); }
        s }).collect();
    let input = sols.clone();
    H::sort_by_closeness(&k, &mut sols, &prev);
    println!("{}", Obj::new().s("prop", "KIN").s("fn", "sort_by_closeness").raw("robot", &r.json()).fs("args", &prev).raw("sols", &sols_json(&input)).raw("out", &sols_json(&sols)).done());
}

pub fn fn_records(rng: &mut Rng, n: u64) {
    for i in 0..n {
        match i % 6 {
            5 => sort_record(rng, i),
            0 => { let (a, b) = (interesting_angle(rng), if rng.bool() { interesting_angle(rng) } else { rng.range(-6.5, 6.5) });
                   println!("{}", Obj::new().s("prop", "KIN").s("fn", "normalize_near").fs("args", &[a, b]).f("out", H::normalize_near(a, b)).done()); }
            1 => { let a = interesting_angle(rng);
                   println!("{}", Obj::new().s("prop", "KIN").s("fn", "is_close_to_multiple_of_pi").fs("args", &[a, H::SINGULARITY_ANGLE_THR]).b("out", H::is_close_to_multiple_of_pi(a, H::SINGULARITY_ANGLE_THR)).done()); }
            2 => { let (a, b) = (interesting_angle(rng), if rng.bool() { 0.0 } else { interesting_angle(rng) });
                   println!("{}", Obj::new().s("prop", "KIN").s("fn", "are_angles_close").fs("args", &[a, b]).b("out", H::are_angles_close(a, b)).done()); }
            3 => { let a: Joints = std::array::from_fn(|_| dy(rng.range(-7.0, 7.0), 20)); let b: Joints = std::array::from_fn(|_| dy(rng.range(-7.0, 7.0), 20));
                   let mut ab = a.to_vec(); ab.extend_from_slice(&b);
                   println!("{}", Obj::new().s("prop", "KIN").s("fn", "calculate_distance").fs("args", &ab).f("out", H::calculate_distance(&a, &b)).done()); }
            _ => { let r = random_robot(rng, i, false, None); let mut j: Joints = std::array::from_fn(|_| dy(rng.range(-3.0, 3.0), 16));
                   let q5 = interesting_angle(rng); j[4] = (q5 + r.p.offsets[4]) * r.p.sign_corrections[4] as f64;
                   let out = r.bare().kinematic_singularity(&j).is_some();
                   println!("{}", Obj::new().s("prop", "KIN").s("fn", "kinematic_singularity").raw("robot", &r.json()).fs("args", &j).b("out", out).done()); }
        }
    }
}

/// Independent re-statement (model angles) of the J4/J6 redistribution on a wrist-singular kernel answer: the candidate the
/// solver is expected to examine.  Its FK verdict is recorded next to the traced ones, so that the model finds a verdict for ITS
/// candidate even when the implementation examined a different one.
fn ref_candidate(r: &Robot, previous: &Joints, now: &Joints) -> Joints {
    let tp = 2.0 * PI;
    let m = |j: &Joints, i: usize| j[i] * r.p.sign_corrections[i] as f64 - r.p.offsets[i];
    let fm = |q: f64, i: usize| (q + r.p.offsets[i]) * r.p.sign_corrections[i] as f64;
    let close0 = |a: f64| { let mut d = a.abs() % tp; if d > PI { d = tp - d; } d < H::SINGULARITY_ANGLE_THR };
    let wrap = |mut a: f64| { while a > PI { a -= tp; } while a < -PI { a += tp; } a };
    let (p4, p6, n4, n6) = (m(previous, 3), m(previous, 5), m(now, 3), m(now, 5));
    let zero5 = close0(m(now, 4));
    let (s, s_n) = if zero5 { (p4 + p6, n4 + n6) } else { (p4 - p6, n4 - n6) };
    let now5 = if zero5 { now[4] } else { H::normalize_near(now[4], previous[4]) };
    let jd = wrap(s_n - s) / 2.0;
    [now[0], now[1], now[2], fm(p4 + jd, 3), now5, fm(p6 + jd, 5)]
}
fn ref_singular(r: &Robot, j: &Joints) -> bool {
    let tp = 2.0 * PI; let a = (j[4] * r.p.sign_corrections[4] as f64 - r.p.offsets[4]).rem_euclid(tp); let t = H::SINGULARITY_ANGLE_THR;
    a < t || tp - a < t || (PI - a).abs() < t
}

pub fn entry_record(rng: &mut Rng, idx: u64) {
    let kinds = [PoseKind::Reachable, PoseKind::Sing0, PoseKind::Reachable, PoseKind::SingPi, PoseKind::Sing0, PoseKind::Random, PoseKind::NearSing];
    let kind = kinds[(idx % 7) as usize];
    let mut r = random_robot(rng, idx, false, None);
    if idx % 5 == 2 { r.p.dof = 5; }
    let (pose, origin) = make_pose(rng, &r, kind);
    if idx % 2 == 0 { r.cons = Some(random_constraints(rng, origin.as_ref())); }
    let entry = rng.below(4) as u8;
    let o = origin.unwrap_or([0.0; 6]);
    let mut prev: Joints = match rng.below(6) {
        0 | 1 => o,
        2 => std::array::from_fn(|i| dy(o[i] + rng.range(-0.3, 0.3), 20)),
        3 => std::array::from_fn(|_| dy(rng.range(-2.0 * PI, 2.0 * PI), 20)),
        4 => std::array::from_fn(|i| o[i] + 2.0 * PI * rng.int(-1, 1) as f64),
        _ => sentinel(),
    };
    // CONSTRAINT_CENTERED matters with constraints: give it a fair share there
    if r.cons.is_some() && rng.below(3) == 0 { prev = sentinel(); }
    // perturb J4/J6 of prev on singular poses (the interesting continuation case)
    if matches!(kind, PoseKind::Sing0 | PoseKind::SingPi | PoseKind::NearSing) && !prev[0].is_nan() && rng.bool() {
        let d = dy(rng.range(-1.0, 1.0), 16);
        prev[3] += d * r.p.sign_corrections[3] as f64; prev[5] -= d * r.p.sign_corrections[5] as f64;
    }
    let j6 = dy(rng.range(-3.0, 3.0), 12);
    let k = r.solver();
    let bare = r.bare();
    let _ = H::take_trace();
    let out = call_entry(&k, entry, &pose, &prev, j6);
    let cands: Vec<(Joints, bool)> = H::take_trace().into_iter().filter_map(|e| if let H::Event::Candidate(c, v) = e { Some((c, v)) } else { None }).collect();
    let five = r.p.dof == 5 || entry >= 2;
    let j6used = match entry { 0 => 0.0, 2 => j6, _ => prev[5] };
    let mut o = Obj::new().s("prop", "KIN").s("fn", "entry").i("case", idx as i64).raw("robot", &r.json()).s("kind", &format!("{:?}", kind))
        .i("entry", entry as i64).b("sentinel", prev[0].is_nan()).fs("prev", &[if prev[0].is_nan() { 0.0 } else { prev[0] }, prev[1], prev[2], prev[3], prev[4], prev[5]])
        .f("j6", j6).f("j6used", j6used);
    if five {
        o = o.raw("kernel5", &sols_json(&H::inverse_intern_5_dof(&bare, &pose, j6used)));
    } else {
        let n = if entry == 0 { 1 } else { 4 };
        let ks: Vec<String> = (0..n).map(|d| sols_json(&H::inverse_intern(&bare, &shifted(&pose, d)))).collect();
        o = o.raw("kernel", &format!("[{}]", ks.join(",")));
    }
    let _ = H::take_trace();
    // verdicts of the reference candidates (see ref_candidate)
    let mut cands = cands;
    if !five && entry == 1 {
        let previous: Joints = if prev[0].is_nan() { k.constraints().as_ref().map(|c| c.centers).unwrap_or([0.0; 6]) } else { prev };
        for d in 0..4 {
            if let Some(nowk) = H::inverse_intern(&bare, &shifted(&pose, d)).iter().find(|s| ref_singular(&r, s)) {
                let c = ref_candidate(&r, &previous, nowk);
                if c.iter().all(|x| x.is_finite()) {
                    let v = H::compare_poses(&pose, &bare.forward(&c), H::DISTANCE_TOLERANCE, H::ANGULAR_TOLERANCE);
                    cands.push((c, v));
                }
            }
        }
        let _ = H::take_trace();
    }
    let cj: Vec<String> = cands.iter().map(|(c, v)| format!("{{\"c\":{},\"ok\":{}}}", fxs(c), v)).collect();
    println!("{}", o.raw("cands", &format!("[{}]", cj.join(","))).raw("out", &sols_json(&out)).done());
}

pub fn main(tier: &str, seed: u64, n_override: Option<u64>) {
    let n = n_override.unwrap_or(if tier == "thorough" { 20_000 } else { 1_500 });
    let mut rng = Rng::new(seed ^ 0x4B494E);
    fn_records(&mut rng, n);
    for idx in 0..n { entry_record(&mut rng, idx); }
}
