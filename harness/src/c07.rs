//! C07: joint limits = arc membership modulo 2*pi.  Drives Constraints::{new,
//! from_degrees,update_range,compliant,filter} and an independent arc oracle.
use crate::util::*;
use rs_opw_kinematics::constraints::{Constraints, BY_PREV};
use std::f64::consts::PI;

/// independent oracle: Some(accepted) or None when within `eps` of an arc end
pub fn on_arc(from: f64, to: f64, x: f64, eps: f64) -> Option<bool> {
    if from == to { return Some(true); }
    let tp = 2.0 * PI;
    if from < to && to - from >= tp + eps { return Some(true); }
    let span = if from < to { to - from } else { (to - from).rem_euclid(tp) };
    if from < to && (span - tp).abs() <= eps { return None; }
    let off = (x - from).rem_euclid(tp);
    if off < eps || tp - off < eps || (off - span).abs() < eps || (tp - off - (tp - span)).abs() < eps {
        return None;
    }
    // from > to and (from-to) a whole number of turns: zero-width arc; span ~ 0 or ~ 2pi
    if from > to && (span < eps || tp - span < eps) { return None; }
    Some(off <= span)
}

pub struct Case { pub ctor: u8, pub from: [f64; 6], pub to: [f64; 6], pub x: [f64; 6] }

const INIT_FROM: [f64; 6] = [0.0, 0.1, -0.2, 0.3, 1.0, 2.0];
const INIT_TO: [f64; 6] = [1.0, 1.0, 0.5, -0.5, 1.0, 7.0];
pub fn build(c: &Case) -> Constraints {
    match c.ctor {
        0 => Constraints::new(c.from, c.to, BY_PREV),
        1 => {
            // inputs are DEGREES for this constructor
            let r: [std::ops::RangeInclusive<f64>; 6] = std::array::from_fn(|i| c.from[i]..=c.to[i]);
            Constraints::from_degrees(r, BY_PREV)
        }
        _ => {
            let mut k = Constraints::new(INIT_FROM, INIT_TO, BY_PREV);
            k.update_range(c.from, c.to);
            k
        }
    }
}

fn lattice_deg(rng: &mut Rng) -> f64 { (rng.int(-144, 144) * 5) as f64 }

pub fn gen_case(rng: &mut Rng, idx: u64) -> Case {
    let ctor = (idx % 3) as u8;
    let kind = rng.below(10);
    let mut from = [0.0; 6]; let mut to = [0.0; 6]; let mut x = [0.0; 6];
    for i in 0..6 {
        let (mut f, mut t, mut a);
        if kind < 5 {
            // 5 degree lattice in [-4pi, 4pi] (values in degrees here)
            f = lattice_deg(rng); t = lattice_deg(rng); a = lattice_deg(rng);
            if rng.below(8) == 0 { t = f; }
            if rng.below(8) == 0 { t = f + 360.0 * rng.int(-1, 2) as f64; }
        } else {
            f = rng.range(-720.0, 720.0); t = rng.range(-720.0, 720.0); a = rng.range(-720.0, 720.0);
            if rng.below(10) == 0 { t = f; }
            if rng.below(6) == 0 { t = f - rng.range(0.0, 3.0); }       // nearly full wrap
            if rng.below(6) == 0 { t = f + rng.range(0.0, 3.0); }       // narrow
            if rng.below(4) == 0 { a = f + rng.range(-2.0, 2.0) + 360.0 * rng.int(-2, 2) as f64; }
            if rng.below(4) == 0 { a = t + rng.range(-2.0, 2.0) + 360.0 * rng.int(-2, 2) as f64; }
        }
        if ctor == 1 { from[i] = f; to[i] = t; } else { from[i] = f.to_radians(); to[i] = t.to_radians(); }
        x[i] = a.to_radians();
    }
    // most cases: only one or two joints are "interesting", the others sit on the centre
    if rng.below(3) != 0 {
        let keep = rng.below(6) as usize;
        for i in 0..6 { if i != keep && rng.below(4) != 0 { from[i] = if ctor == 1 { -170.0 } else { -3.0 }; to[i] = if ctor == 1 { 170.0 } else { 3.0 }; x[i] = rng.range(-2.0, 2.0); } }
    }
    // update_range that moves only one end of a joint's range (the other end keeps the value the constraints were built with)
    if ctor == 2 {
        for i in 0..6 { match rng.below(6) { 0 => from[i] = INIT_FROM[i], 1 => to[i] = INIT_TO[i], _ => {} } }
    }
    Case { ctor, from, to, x }
}

pub fn run_case(c: &Case, idx: u64) -> String {
    let k = build(c);
    let compliant = k.compliant(&c.x);
    let filt = k.filter(&vec![c.x, k.centers]);
    // direct oracle on the limits the CALLER gave (degrees converted here for the degree constructor), not on what the object stored
    let mut verdict: Option<bool> = Some(true);
    let mut per = Vec::new();
    for i in 0..6 {
        let (lf, lt) = if c.ctor == 1 { (c.from[i].to_radians(), c.to[i].to_radians()) } else { (c.from[i], c.to[i]) };
        let v = on_arc(lf, lt, c.x[i], 1e-9);
        per.push(match v { Some(true) => 1, Some(false) => 0, None => 2 });
        verdict = match (verdict, v) { (_, Some(false)) => Some(false), (Some(false), _) => Some(false), (None, _) | (_, None) => None, _ => Some(true) };
    }
    // a definite rejection of one joint decides the vector even if another joint is marginal
    let mut direct = "ok"; let mut class = "";
    match verdict {
        Some(v) if v != compliant => { direct = "fail"; class = if v { "C07.compliant_rejects_on_arc" } else { "C07.compliant_accepts_off_arc" }; }
        _ => {}
    }
    let centre_ok = k.compliant(&k.centers);
    if !centre_ok && direct == "ok" { direct = "fail"; class = "C07.centre_rejected"; }
    let filt_expect = (compliant as usize) + (centre_ok as usize);
    if filt.len() != filt_expect && direct == "ok" { direct = "fail"; class = "C07.filter_differs_from_compliant"; }
    Obj::new().s("prop", "C07").i("case", idx as i64).i("ctor", c.ctor as i64)
        .fs("from", &c.from).fs("to", &c.to).fs("x", &c.x)
        .fs("kfrom", &k.from).fs("kto", &k.to)
        .fs("centers", &k.centers).fs("tols", &k.tolerances)
        .b("compliant", compliant).i("filter_len", filt.len() as i64).b("centre_ok", centre_ok)
        .raw("oracle_per", &format!("{:?}", per))
        .s("direct", direct).s("class", class).done()
}

pub fn main(tier: &str, seed: u64, n_override: Option<u64>) {
    let n = n_override.unwrap_or(if tier == "thorough" { 40_000 } else { 3_000 });
    let mut rng = Rng::new(seed ^ 0xC07);
    for idx in 0..n { let c = gen_case(&mut rng, idx); println!("{}", run_case(&c, idx)); }
}

pub fn replay(rec: &str) {
    // rec: a JSON line previously printed; re-run the implementation on it
    let get = |key: &str| -> Vec<f64> {
        let pat = format!("\"{}\":[", key);
        let s = &rec[rec.find(&pat).expect("key") + pat.len()..];
        let s = &s[..s.find(']').unwrap()];
        s.split(',').map(parse_fx).collect()
    };
    let ctor = { let p = "\"ctor\":"; let s = &rec[rec.find(p).unwrap() + p.len()..]; s[..s.find(',').unwrap()].parse::<u8>().unwrap() };
    let (f, t, x) = (get("from"), get("to"), get("x"));
    let c = Case { ctor, from: std::array::from_fn(|i| f[i]), to: std::array::from_fn(|i| t[i]), x: std::array::from_fn(|i| x[i]) };
    println!("{}", run_case(&c, 0));
}
