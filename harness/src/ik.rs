//! Shared case generation and independent oracles for the inverse-kinematics properties.
use crate::c07::on_arc;
use crate::robots::*;
use crate::util::*;
use nalgebra::{Isometry3, Translation3};
use rs_opw_kinematics::constraints::Constraints;
use rs_opw_kinematics::kinematic_traits::{Joints, Kinematics, Pose, Solutions, CONSTRAINT_CENTERED};
use rs_opw_kinematics::kinematics_impl::OPWKinematics;
use rs_opw_kinematics::parameters::opw_kinematics::Parameters;
use std::f64::consts::PI;

pub const TOL_D: f64 = 1.0e-6;
pub const TOL_A: f64 = 1.0e-6;
pub const SLACK: f64 = 1.05; // independent FK differs from the solver's own FK by rounding only

#[derive(Clone)]
pub struct Robot { pub p: Parameters, pub cons: Option<([f64; 6], [f64; 6], f64)> }
impl Robot {
    pub fn solver(&self) -> OPWKinematics {
        match &self.cons { Some((f, t, w)) => OPWKinematics::new_with_constraints(self.p, Constraints::new(*f, *t, *w)), None => OPWKinematics::new(self.p) }
    }
    pub fn bare(&self) -> OPWKinematics { OPWKinematics::new(self.p) }
    pub fn json(&self) -> String {
        let c = match &self.cons { Some((f, t, w)) => Obj::new().fs("from", f).fs("to", t).f("w", *w).done(), None => "null".into() };
        Obj::new().raw("params", &params_json(&self.p)).raw("cons", &c).done()
    }
    pub fn to_model(&self, j: &Joints) -> Joints { std::array::from_fn(|i| j[i] * self.p.sign_corrections[i] as f64 - self.p.offsets[i]) }
    pub fn from_model(&self, q: &Joints) -> Joints { std::array::from_fn(|i| (q[i] + self.p.offsets[i]) * self.p.sign_corrections[i] as f64) }
}

pub fn wrap(x: f64) -> f64 { let mut a = x % (2.0 * PI); if a > PI { a -= 2.0 * PI } if a < -PI { a += 2.0 * PI } a }
pub fn ang_diff(a: f64, b: f64) -> f64 { wrap(a - b).abs() }
pub fn joints_close_mod(a: &Joints, b: &Joints, eps: f64) -> bool { (0..6).all(|i| ang_diff(a[i], b[i]) < eps) }
pub fn joints_close(a: &Joints, b: &Joints, eps: f64) -> bool { (0..6).all(|i| (a[i] - b[i]).abs() < eps) }

pub fn random_constraints(rng: &mut Rng, around: Option<&Joints>) -> ([f64; 6], [f64; 6], f64) {
    let mut f = [0.0; 6]; let mut t = [0.0; 6];
    for i in 0..6 {
        match rng.below(6) {
            0 => { f[i] = 0.0; t[i] = 0.0; }                                        // unconstrained
            1 => { let c = around.map(|a| a[i]).unwrap_or(rng.range(-3.0, 3.0)); let w = if rng.below(4) == 0 { rng.range(2e-5, 4e-4) } else { rng.range(0.05, 0.6) }; f[i] = dy(c - w, 30); t[i] = dy(c + w, 30); } // narrow, down to a locked joint (tens of microradians)
            2 => { f[i] = dy(rng.range(0.5, 3.0), 20); t[i] = dy(rng.range(-3.0, -0.5), 20); }        // wrapping
            3 => { f[i] = dy(rng.range(-6.0, 0.0), 20); t[i] = dy(f[i] + rng.range(0.2, 7.0), 20); }  // wide / beyond a turn
            _ => { f[i] = dy(rng.range(-3.1, -0.2), 20); t[i] = dy(rng.range(0.2, 3.1), 20); }
        }
    }
    // the same arcs written one whole turn away (centres beyond +-pi): limits are arcs modulo whole turns
    if rng.below(4) == 0 { for i in 0..6 { if rng.bool() { let sh = if rng.bool() { 2.0 * PI } else { -2.0 * PI }; if f[i] != t[i] { f[i] = dy(f[i] + sh, 20); t[i] = dy(t[i] + sh, 20); } } } }
    let w = match rng.below(4) { 0 => 0.0, 1 => 1.0, _ => dy(rng.unit(), 8) };
    (f, t, w)
}

#[derive(Clone, Copy, PartialEq, Debug)]
pub enum PoseKind { Reachable, Sing0, SingPi, Unreachable, OnAxis, Stretched, Random, NearSing }

/// model-angle joints for a kind; returns external joints
pub fn origin_joints(rng: &mut Rng, r: &Robot, kind: PoseKind) -> Joints {
    let mut q: Joints = std::array::from_fn(|_| dy(rng.range(-3.0, 3.0), 16));
    match kind {
        PoseKind::Sing0 => q[4] = 0.0,
        PoseKind::SingPi => q[4] = PI,
        // inside the 0.01 degree detection band but not on the singularity
        PoseKind::NearSing => { let e = rng.range(2e-6, 1.6e-4) * if rng.bool() { 1.0 } else { -1.0 }; q[4] = if rng.below(4) == 0 { PI + e } else { e }; }
        PoseKind::Stretched => { q[2] = -f64::atan2(r.p.a2, r.p.c3) + PI / 2.0 - PI / 2.0; }
        _ => {
            // keep away from the wrist singularity for plain reachable cases
            if q[4].abs() < 0.05 { q[4] = 0.3; }
            if (q[4].abs() - PI).abs() < 0.05 { q[4] = 2.5; }
        }
    }
    r.from_model(&q)
}

pub fn pose_of(r: &Robot, j: &Joints) -> Pose { ref_to_pose(&ref_chain(&r.p, j)[5]) }

pub fn make_pose(rng: &mut Rng, r: &Robot, kind: PoseKind) -> (Pose, Option<Joints>) {
    match kind {
        PoseKind::Unreachable => {
            let j = origin_joints(rng, r, PoseKind::Reachable);
            let mut rp = ref_chain(&r.p, &j)[5];
            let far = 3.0 * (r.p.a1.abs() + r.p.a2.abs() + r.p.b.abs() + r.p.c1.abs() + r.p.c2.abs() + r.p.c3.abs() + r.p.c4.abs()) + 1.0;
            rp.t[rng.below(3) as usize] += far * if rng.bool() { 1.0 } else { -1.0 };
            (ref_to_pose(&rp), None)
        }
        PoseKind::OnAxis => {
            // wrist centre on the J1 axis: translate so that c.x = c.y = 0
            let j = origin_joints(rng, r, PoseKind::Reachable);
            let mut rp = ref_chain(&r.p, &j)[5];
            let zc = [rp.r[0][2] * r.p.c4, rp.r[1][2] * r.p.c4];
            rp.t[0] = zc[0]; rp.t[1] = zc[1];
            (ref_to_pose(&rp), None)
        }
        PoseKind::Random => {
            let j = origin_joints(rng, r, PoseKind::Reachable);
            let mut rp = ref_chain(&r.p, &j)[5];
            for i in 0..3 { rp.t[i] = dy(rng.range(-2.0, 2.0), 12); }
            (ref_to_pose(&rp), None)
        }
        k => { let j = origin_joints(rng, r, k); (pose_of(r, &j), Some(j)) }
    }
}

pub fn random_robot(rng: &mut Rng, idx: u64, with_cons: bool, around: Option<&Joints>) -> Robot {
    let p = if idx % 6 == 0 { known_params(idx / 6) } else { random_params(rng) };
    let cons = if with_cons { Some(random_constraints(rng, around)) } else { None };
    Robot { p, cons }
}

/// Non-singularity margins of C02 computed from the model angles (oracle side).
pub fn nonsingular(r: &Robot, j: &Joints) -> bool { nonsingular_w(r, j, 0.02) }
/// the same with an explicit wrist margin on |sin q5|
pub fn nonsingular_w(r: &Robot, j: &Joints, wrist: f64) -> bool { nonsingular_we(r, j, wrist, 0.02) }
/// ... and an explicit elbow margin on |sin(q3 + psi3)| (0 = stretched, pi = folded)
pub fn nonsingular_we(r: &Robot, j: &Joints, wrist: f64, elbow: f64) -> bool {
    let q = r.to_model(j);
    let p = &r.p;
    if q[4].sin().abs() < wrist { return false; }
    let psi3 = f64::atan2(p.a2, p.c3);
    if (q[2] + psi3).sin().abs() < elbow { return false; }       // elbow
    let k = (p.a2 * p.a2 + p.c3 * p.c3).sqrt();
    if k < 0.05 || p.c2.abs() < 0.05 { return false; }
    // shoulder: wrist centre away from the J1 axis (and from the b-circle)
    let cx1 = p.c2 * q[1].sin() + k * (q[1] + q[2] + psi3).sin() + p.a1;
    let rho2 = cx1 * cx1 + p.b * p.b;
    if rho2.sqrt() < 0.02 + p.b.abs() * 1.02 { return false; }
    if cx1.abs() < 0.02 { return false; }
    // second-shoulder branch elbow margin: s2 triangle must not be degenerate either
    true
}

/// Independent check that `s` realises `pose`; `axis_only`: position + tool axis (5-DOF)
pub fn realises(r: &Robot, pose: &Pose, s: &Joints, axis_only: bool) -> (bool, f64, f64) {
    let f = ref_chain(&r.p, s)[5];
    let want = pose_to_ref(pose);
    let (d, a) = pose_diff(&f, &want);
    if !axis_only { return (d <= TOL_D * SLACK && a <= TOL_A * SLACK, d, a); }
    let dot = (f.r[0][2] * want.r[0][2] + f.r[1][2] * want.r[1][2] + f.r[2][2] * want.r[2][2]).clamp(-1.0, 1.0);
    let cr = [f.r[1][2] * want.r[2][2] - f.r[2][2] * want.r[1][2], f.r[2][2] * want.r[0][2] - f.r[0][2] * want.r[2][2], f.r[0][2] * want.r[1][2] - f.r[1][2] * want.r[0][2]];
    let sn = (cr[0] * cr[0] + cr[1] * cr[1] + cr[2] * cr[2]).sqrt();
    let ang = sn.atan2(dot);
    (d <= TOL_D * SLACK && ang <= 1.0e-5, d, ang)
}

pub fn compliant_oracle(cons: &Option<([f64; 6], [f64; 6], f64)>, j: &Joints) -> Option<bool> {
    match cons {
        None => Some(true),
        Some((f, t, _)) => {
            let mut und = false;
            for i in 0..6 { match on_arc(f[i], t[i], j[i], 1e-9) { Some(false) => return Some(false), None => und = true, _ => {} } }
            if und { None } else { Some(true) }
        }
    }
}

pub fn shifted(pose: &Pose, d: usize) -> Pose {
    let s = rs_opw_kinematics::kinematics_impl::verif_hooks::DISTANCE_TOLERANCE / 8.0;
    let dd = [[0.0, 0.0, 0.0], [s, 0.0, 0.0], [0.0, s, 0.0], [0.0, 0.0, s]][d];
    Isometry3::from_parts(Translation3::new(pose.translation.x + dd[0], pose.translation.y + dd[1], pose.translation.z + dd[2]), pose.rotation)
}

pub fn pose_json(p: &Pose) -> String { fxs(&pose_fields(&pose_to_ref(p))) }
pub fn sols_json(s: &Solutions) -> String { fxss(s) }
pub fn sentinel() -> Joints { CONSTRAINT_CENTERED }

/// run `f` catching panics
pub fn guarded<R>(f: impl FnOnce() -> R + std::panic::UnwindSafe) -> Result<R, String> {
    std::panic::catch_unwind(f).map_err(|e| {
        if let Some(s) = e.downcast_ref::<&str>() { s.to_string() } else if let Some(s) = e.downcast_ref::<String>() { s.clone() } else { "panic".into() }
    })
}

pub fn call_entry(k: &dyn Kinematics, entry: u8, pose: &Pose, prev: &Joints, j6: f64) -> Solutions {
    match entry { 0 => k.inverse(pose), 1 => k.inverse_continuing(pose, prev), 2 => k.inverse_5dof(pose, j6), _ => k.inverse_continuing_5dof(pose, prev) }
}
