//! C19: parameter YAML round-trips; every documented syntax variant parses; malformed input never panics.
use crate::ik::guarded;
use crate::robots::dy;
use crate::util::*;
use rs_opw_kinematics::parameters::opw_kinematics::Parameters;
use yaml_rust2::{Yaml, YamlLoader};

fn tmp(name: &str) -> String { format!("{}/vh_c19_{}_{}.yaml", std::env::temp_dir().display(), std::process::id(), name) }

pub fn yaml_json(y: &Yaml) -> String {
    match y {
        Yaml::Integer(i) => format!("{{\"int\":{}}}", i),
        Yaml::Real(s) => format!("{{\"real\":{}}}", jstr(s)),
        Yaml::String(s) => format!("{{\"str\":{}}}", jstr(s)),
        Yaml::Array(a) => format!("{{\"arr\":[{}]}}", a.iter().map(yaml_json).collect::<Vec<_>>().join(",")),
        Yaml::Hash(h) => format!("{{\"map\":[{}]}}", h.iter().map(|(k, v)| format!("[{},{}]", yaml_json(k), yaml_json(v))).collect::<Vec<_>>().join(",")),
        Yaml::Boolean(b) => format!("{{\"bool\":{}}}", b),
        Yaml::Null => "{\"null\":true}".into(),
        _ => "{\"other\":true}".into(),
    }
}
pub fn params_out(r: &Result<Result<Parameters, String>, String>) -> String {
    match r {
        Err(p) => Obj::new().s("outcome", "panic").s("msg", p).done(),
        Ok(Err(e)) => Obj::new().s("outcome", "err").s("msg", e).done(),
        Ok(Ok(p)) => Obj::new().s("outcome", "ok").fs("geom", &[p.a1, p.a2, p.b, p.c1, p.c2, p.c3, p.c4]).fs("off", &p.offsets)
            .raw("sg", &format!("{:?}", p.sign_corrections)).i("dof", p.dof as i64).done(),
    }
}
pub fn load(path: &str) -> Result<Result<Parameters, String>, String> {
    guarded(std::panic::AssertUnwindSafe(|| Parameters::from_yaml_file(path).map_err(|e| format!("{:?}", e).chars().take(80).collect::<String>())))
}

fn nice(rng: &mut Rng) -> f64 {
    // ... and genuinely small lengths (fractions of a millimetre down to nanometres): small is not zero
    match rng.below(7) { 0 => 0.0, 1 => rng.int(-3, 3) as f64, 2 => dy(rng.range(-2.0, 2.0), 3), 3 => rng.range(-1.0, 1.0) * 10f64.powi(-(rng.int(3, 9) as i32)), _ => (rng.range(-2.0, 2.0) * 1000.0).round() / 1000.0 }
}

pub fn main(tier: &str, seed: u64, n_override: Option<u64>) {
    std::panic::set_hook(Box::new(|_| {}));
    let n = n_override.unwrap_or(if tier == "thorough" { 20_000 } else { 1_500 });
    let mut rng = Rng::new(seed ^ 0xC19);
    // ---- round trip of to_yaml
    for idx in 0..n {
        let dof = if rng.below(3) == 0 { 5 } else { 6 };
        let mut p = Parameters { a1: nice(&mut rng), a2: nice(&mut rng), b: nice(&mut rng), c1: nice(&mut rng), c2: nice(&mut rng), c3: nice(&mut rng), c4: nice(&mut rng),
            offsets: std::array::from_fn(|_| match rng.below(7) {
                0 | 1 => 0.0,
                2 => (10.0 * rng.int(-36, 36) as f64).to_radians(),          // whole tens of degrees (90, 180, -270 ...)
                3 => (rng.int(-360, 360) as f64).to_radians(),               // whole degrees
                4 => rng.range(-1.0, 1.0) * 1e-7,                            // below the printed precision
                _ => (rng.int(-1800000, 1800000) as f64 / 10000.0).to_radians() }),
            sign_corrections: std::array::from_fn(|_| if rng.bool() { 1 } else { -1 }), dof };
        if dof == 5 { p.sign_corrections[5] = 0; }
        let text = p.to_yaml();
        let path = tmp("rt");
        std::fs::write(&path, &text).unwrap();
        let back = load(&path);
        let _ = std::fs::remove_file(&path);
        let tree = YamlLoader::load_from_str(&text).map(|d| d.iter().map(yaml_json).collect::<Vec<_>>().join(",")).unwrap_or_else(|_| "".into());
        let mut direct = "ok".to_string(); let mut class = String::new();
        match &back {
            Err(_) => { direct = "fail".into(); class = "C19.roundtrip_panics".into(); }
            Ok(Err(e)) => { direct = "fail".into(); class = format!("C19.roundtrip_rejected_{}", e.split(|c: char| !c.is_alphanumeric()).next().unwrap_or("")); }
            Ok(Ok(q)) => {
                let g = [(p.a1, q.a1), (p.a2, q.a2), (p.b, q.b), (p.c1, q.c1), (p.c2, q.c2), (p.c3, q.c3), (p.c4, q.c4)];
                if g.iter().any(|(a, b)| a != b) { direct = "fail".into(); class = "C19.roundtrip_geometry_differs".into(); }
                else if p.sign_corrections != q.sign_corrections { direct = "fail".into(); class = "C19.roundtrip_signs_differ".into(); }
                else if p.dof != q.dof { direct = "fail".into(); class = "C19.roundtrip_dof_differs".into(); }
                else if (0..6).any(|i| (p.offsets[i] - q.offsets[i]).abs() > 0.00005001f64.to_radians()) { direct = "fail".into(); class = "C19.roundtrip_offset_beyond_printed_precision".into(); }
            }
        }
        println!("{}", Obj::new().s("prop", "C19").s("what", "roundtrip").i("case", idx as i64).fs("geom", &[p.a1, p.a2, p.b, p.c1, p.c2, p.c3, p.c4]).fs("off", &p.offsets)
            .raw("sg", &format!("{:?}", p.sign_corrections)).i("dof", dof as i64).raw("tree", &format!("[{}]", tree)).raw("back", &params_out(&back))
            .s("direct", &direct).s("class", &class).done());
    }
    // ---- arbitrary bytes / malformed text must not panic
    for idx in 0..n {
        let len = rng.below(60) as usize;
        let alphabet: &[u8] = b"abc: -[]{},#\n \t\"'01.9e&*!|>%@`opw_kinematics_geometric_parameters\xff\x00deg()";
        let bytes: Vec<u8> = match rng.below(4) {
            0 => (0..len).map(|_| rng.below(256) as u8).collect(),
            1 => (0..len).map(|_| alphabet[rng.below(alphabet.len() as u64) as usize]).collect(),
            2 => { let mut t = Parameters::irb2400_10().to_yaml().into_bytes(); let k = rng.below(t.len() as u64) as usize; t.truncate(k); t }
            _ => { let mut t = Parameters::irb2400_10().to_yaml().into_bytes(); for _ in 0..3 { let k = rng.below(t.len() as u64) as usize; t[k] = alphabet[rng.below(alphabet.len() as u64) as usize]; } t }
        };
        let path = tmp("fz");
        std::fs::write(&path, &bytes).unwrap();
        let r = load(&path);
        let _ = std::fs::remove_file(&path);
        let (direct, class) = if r.is_err() { ("fail", "C19.malformed_input_panics") } else { ("ok", "") };
        println!("{}", Obj::new().s("prop", "C19").s("what", "fuzz").i("case", idx as i64).raw("bytes", &format!("{:?}", bytes)).raw("back", &params_out(&r)).s("direct", direct).s("class", class).done());
    }
}

/// parse every *.yaml in a directory (written by the runner: generated syntax variants)
pub fn files(dir: &str) {
    std::panic::set_hook(Box::new(|_| {}));
    let mut names: Vec<String> = std::fs::read_dir(dir).unwrap().filter_map(|e| e.ok()).map(|e| e.path().display().to_string()).filter(|p| p.ends_with(".yaml")).collect();
    names.sort();
    for p in names {
        let r = load(&p);
        let text = std::fs::read_to_string(&p).unwrap_or_default();
        let tree = YamlLoader::load_from_str(&text).map(|d| d.iter().map(yaml_json).collect::<Vec<_>>().join(",")).unwrap_or_else(|_| "\"unparsable\"".into());
        println!("{}", Obj::new().s("prop", "C19").s("what", "file").s("file", &p).raw("tree", &format!("[{}]", tree)).raw("back", &params_out(&r)).done());
    }
}
