//! C12: a planned Cartesian stroke is collision-free, in limits, continuous and linear.
use crate::ik::*;
use crate::robots::*;
use crate::scene::box_mesh;
use crate::util::*;
use nalgebra::{Isometry3, Translation3, UnitQuaternion, Vector3};
use parry3d::shape::TriMesh;
use rs_opw_kinematics::cartesian::{Cartesian, PathFlags, DEFAULT_TRANSITION_COSTS};
use rs_opw_kinematics::collisions::{CheckMode, CollisionBody, SafetyDistances};
use rs_opw_kinematics::constraints::{Constraints, BY_PREV};
use rs_opw_kinematics::kinematic_traits::{Joints, Kinematics, Pose};
use rs_opw_kinematics::kinematics_with_shape::KinematicsWithShape;
use rs_opw_kinematics::parameters::opw_kinematics::Parameters;
use rs_opw_kinematics::rrt::RRTPlanner;
use rs_opw_kinematics::utils::transition_costs;

pub struct Cell { pub robot: KinematicsWithShape, pub q0: Joints, pub from: Joints, pub land: Pose, pub steps: Vec<Pose>, pub park: Pose, pub layout: &'static str,
    pub env: Vec<(TriMesh, Isometry3<f32>)>, pub margin: f32, pub link_half: f32,
    /// planner settings the layout needs (check step, cost limit, recursion depth) and the two check poses the bisection stage should bridge
    pub tune: Option<(f64, f64, usize)>, pub probe: Option<(Pose, Pose)> }

/// smallest distance between the link boxes at joints `j` and one box obstacle, by parry3d directly (link poses from the bare robot)
fn box_gap(r: &Robot, j: &Joints, link_half: f32, ob: &TriMesh, ob_pose: &Isometry3<f32>) -> f32 {
    let link = box_mesh(link_half, link_half, link_half, 1);
    let mut best = f32::INFINITY;
    for l in ref_chain(&r.p, j).iter() {
        let p = ref_to_pose(l);
        let pf: Isometry3<f32> = Isometry3::from_parts(Translation3::new(p.translation.x as f32, p.translation.y as f32, p.translation.z as f32), p.rotation.cast::<f32>());
        if let Ok(d) = parry3d::query::distance(&pf, &link, ob_pose, ob) { best = best.min(d); }
    }
    best
}

pub fn make_cell(rng: &mut Rng, layout: u64) -> Cell {
    let p = Parameters::irb2400_10();
    let r = Robot { p, cons: None };
    // a comfortable posture in front of the robot
    let q0: Joints = [dy(rng.range(-0.6, 0.6), 10), dy(rng.range(0.2, 0.6), 10), dy(rng.range(-0.3, 0.2), 10), dy(rng.range(-0.5, 0.5), 10), dy(rng.range(0.6, 1.2), 10), dy(rng.range(-0.5, 0.5), 10)];
    let p0 = pose_of(&r, &q0);
    let dir = Vector3::new(0.0, if rng.bool() { 1.0 } else { -1.0 }, 0.0);
    let nsteps = 2 + rng.below(3) as usize;
    let hop = [0.03, 0.06, 0.1][rng.below(3) as usize];
    let up = Vector3::new(0.0, 0.0, 0.08);
    let steps: Vec<Pose> = (0..nsteps).map(|i| Isometry3::from_parts(Translation3::from(p0.translation.vector + dir * hop * i as f64), p0.rotation)).collect();
    let land = Isometry3::from_parts(Translation3::from(p0.translation.vector + up), p0.rotation);
    let last = steps[nsteps - 1];
    let park = Isometry3::from_parts(Translation3::from(last.translation.vector + up), last.rotation);
    let sz = 0.03f32;
    let meshes: [TriMesh; 6] = std::array::from_fn(|_| box_mesh(sz, sz, sz, 1));
    let mut env: Vec<CollisionBody> = Vec::new();
    let mid = p0.translation.vector + dir * hop * (nsteps as f64 - 1.0) * 0.5;
    if layout % 7 == 6 {
        // free space, the tool keeps its axis and rolls about it from +176 to -176 degrees between the two stroke poses:
        // the two orientations are 8 degrees apart but their quaternions have a negative dot product
        let roll = |deg: f64| -> UnitQuaternion<f64> { p0.rotation * UnitQuaternion::from_axis_angle(&Vector3::z_axis(), deg.to_radians()) };
        let at = |k: f64, deg: f64| -> Pose { Isometry3::from_parts(Translation3::from(p0.translation.vector + dir * 0.05 * k), roll(deg)) };
        let cons = Constraints::new([-3.1, -2.0, -2.5, -3.1, -2.2, -6.2], [3.1, 2.0, 1.5, 3.1, 2.2, 6.2], BY_PREV);
        let robot = KinematicsWithShape::with_safety(p, cons, meshes, box_mesh(0.1, 0.1, 0.02, 1), Isometry3::identity(), box_mesh(0.01, 0.01, 0.02, 1), Isometry3::identity(), env,
            SafetyDistances::standard(CheckMode::FirstCollisionOnly));
        let land = at(0.0, 176.0);
        let from = robot.inverse_continuing(&land, &q0).first().cloned().unwrap_or(q0);
        return Cell { robot, q0, from, land, steps: vec![at(1.0, 176.0), at(2.0, -176.0)], park: at(3.0, -176.0), layout: "roll", env: vec![], margin: 0.0, link_half: sz, tune: None, probe: None };
    }
    if layout % 5 == 4 {
        // free space, the stroke passes the wrist singularity (J5 = 0) a millimetre aside: J4/J6 have to swing within a few
        // millimetres, no linear transition within the cost limit exists, bisection runs out of depth, RRT closes the gap
        let base_q = |j5: f64| -> Joints { [q0[0], q0[1], q0[2], 0.0, j5, 0.0] };
        let at = |j5: f64| -> Pose { let p = pose_of(&r, &base_q(j5)); Isometry3::from_parts(Translation3::from(p.translation.vector + Vector3::new(0.0, 0.001, 0.0)), p.rotation) };
        let cons = Constraints::new([-3.1, -2.0, -2.5, -3.1, -2.2, -3.1], [3.1, 2.0, 1.5, 3.1, 2.2, 3.1], BY_PREV);
        let robot = KinematicsWithShape::with_safety(p, cons, meshes, box_mesh(0.1, 0.1, 0.02, 1), Isometry3::identity(), box_mesh(0.01, 0.01, 0.02, 1), Isometry3::identity(), env,
            SafetyDistances::standard(CheckMode::FirstCollisionOnly));
        return Cell { robot, q0, from: base_q(-0.5), land: at(-0.5), steps: vec![at(-0.35), at(0.35)], park: at(0.5), layout: "wrist", env: vec![], margin: 0.0, link_half: sz, tune: None, probe: None };
    }
    let limits = || Constraints::new([-3.1, -2.0, -2.5, -3.1, -2.2, -3.1], [3.1, 2.0, 1.5, 3.1, 2.2, 3.1], BY_PREV);
    if layout % 11 == 7 {
        // the start configuration stands INSIDE the safety distance of an obstacle without touching it (2 mm short of the 3 cm margin):
        // it is a colliding configuration at the configured safety distances, so no plan may begin with it
        let margin = 0.03f32;
        let mut from = q0; from[0] += 0.6 * if rng.bool() { 1.0 } else { -1.0 };
        let tip = ref_to_pose(&ref_chain(&p, &from)[5]).translation.vector;
        let out = Vector3::new(tip.x, tip.y, 0.0).normalize();
        let ob = box_mesh(0.02, 0.02, 0.02, 2);
        let at = |s: f64| -> Isometry3<f32> { let c = tip + out * s; Isometry3::from_parts(Translation3::new(c.x as f32, c.y as f32, c.z as f32), UnitQuaternion::identity()) };
        let (mut lo, mut hi) = (0.0f64, 0.4f64);                       // gap(lo) < target <= gap(hi)
        let target = margin - 0.002;
        for _ in 0..40 { let m = 0.5 * (lo + hi); if box_gap(&r, &from, sz, &ob, &at(m)) < target { lo = m } else { hi = m } }
        let pose = at(hi);
        let gap = box_gap(&r, &from, sz, &ob, &pose);
        if gap > 0.01 && gap < margin - 0.0005 {
            let mut safety = SafetyDistances::standard(CheckMode::FirstCollisionOnly);
            safety.to_environment = margin;
            env.push(CollisionBody { mesh: box_mesh(0.02, 0.02, 0.02, 2), pose });
            let robot = KinematicsWithShape::with_safety(p, limits(), meshes, box_mesh(0.1, 0.1, 0.02, 1), Isometry3::identity(), box_mesh(0.01, 0.01, 0.02, 1), Isometry3::identity(), env, safety);
            return Cell { robot, q0, from, land, steps, park, layout: "start_in_margin", env: vec![(ob, pose)], margin, link_half: sz, tune: None, probe: None };
        }
    }
    if layout % 11 == 9 || (layout >= 11 && layout % 11 == 2) {
        // a small obstacle that only the middle of one densified step touches: both check poses around it (5 cm apart) are free, the
        // point half way between them is not; the cost limit is below the cost of that step, so the bisection has to visit the middle
        let solver = r.solver();
        let pose_at = |y: f64| -> Pose { Isometry3::from_parts(Translation3::from(p0.translation.vector + dir * y), p0.rotation) };
        let jq = |y: f64| -> Option<Joints> { solver.inverse_continuing(&pose_at(y), &q0).first().cloned() };
        if let (Some(ja), Some(jm), Some(jb)) = (jq(0.0), jq(0.025), jq(0.05)) {
            let ob = box_mesh(0.004, 0.004, 0.004, 2);
            let side = Vector3::new(1.0, 0.0, 0.0) * if rng.bool() { 1.0 } else { -1.0 };
            let down = Vector3::new(0.0, 0.0, -1.0);
            let u = (side * rng.range(0.3, 1.0) + down * rng.range(0.0, 1.0)).normalize();
            let c0 = p0.translation.vector + dir * 0.025;
            let at = |s: f64| -> Isometry3<f32> { let c = c0 + u * s; Isometry3::from_parts(Translation3::new(c.x as f32, c.y as f32, c.z as f32), UnitQuaternion::identity()) };
            // the meshes are surfaces: walk in from outside in millimetre steps to the first touch, then refine
            let first = (0..300).rev().map(|k| k as f64 * 0.001).find(|x| box_gap(&r, &jm, sz, &ob, &at(*x)) == 0.0);
            if let Some(touch) = first {
                let (mut lo, mut hi) = (touch, touch + 0.001);             // touches at lo, free at hi
                for _ in 0..30 { let m = 0.5 * (lo + hi); if box_gap(&r, &jm, sz, &ob, &at(m)) == 0.0 { lo = m } else { hi = m } }
                let pose = at(lo - 0.0015);
                let cost = ref_cost(&ja, &jb, &DEFAULT_TRANSITION_COSTS);
                let free_elsewhere = [0.0, 0.05, 0.1].iter().all(|y| jq(*y).map(|j| box_gap(&r, &j, sz, &ob, &pose) > 0.002).unwrap_or(false))
                    && [land, park].iter().all(|k| solver.inverse_continuing(k, &q0).first().map(|j| box_gap(&r, j, sz, &ob, &pose) > 0.002).unwrap_or(false));
                if box_gap(&r, &jm, sz, &ob, &pose) == 0.0 && free_elsewhere && cost > 1e-3 {
                    env.push(CollisionBody { mesh: box_mesh(0.004, 0.004, 0.004, 2), pose });
                    let robot = KinematicsWithShape::with_safety(p, limits(), meshes, box_mesh(0.1, 0.1, 0.02, 1), Isometry3::identity(), box_mesh(0.01, 0.01, 0.02, 1), Isometry3::identity(), env,
                        SafetyDistances::standard(CheckMode::FirstCollisionOnly));
                    let steps = vec![pose_at(0.0), pose_at(0.1)];
                    let park = Isometry3::from_parts(Translation3::from(pose_at(0.1).translation.vector + up), p0.rotation);
                    let from: Joints = std::array::from_fn(|i| q0[i] + rng.range(-0.05, 0.05));
                    return Cell { robot, q0, from, land, steps, park, layout: "corner", env: vec![(ob, pose)], margin: 0.0, link_half: sz,
                        tune: Some((0.05, 0.7 * cost, 6)), probe: Some((pose_at(0.0), pose_at(0.05))) };
                }
            }
        }
    }
    let near_miss = layout % 7 == 5;
    let (layout_name, obstacle) = if near_miss {
        // an obstacle 2 cm from the flange body along the whole stroke, with a 4 cm safety distance: every stroke pose is too close
        ("near_miss", Some((mid + Vector3::new(0.03 + 0.04 + 0.02, 0.0, 0.0), 0.04f32)))
    } else { match layout % 4 {
        0 => ("free", None),
        1 => ("far", Some((mid + Vector3::new(0.0, 0.0, -0.6), 0.1f32))),
        2 => ("grazing", Some((mid + Vector3::new(0.25, 0.0, 0.0), 0.08f32))),
        _ => ("blocking", Some((mid, 0.05f32))),
    } };
    let mut env_rec: Vec<(TriMesh, Isometry3<f32>)> = Vec::new();
    if let Some((c, h)) = obstacle {
        let pose = Isometry3::from_parts(Translation3::new(c.x as f32, c.y as f32, c.z as f32), UnitQuaternion::identity());
        env.push(CollisionBody { mesh: box_mesh(h, h, h, 2), pose });
        env_rec.push((box_mesh(h, h, h, 2), pose));
    }
    // some cells keep a safety distance to the environment
    let margin: f32 = if near_miss || layout % 3 == 1 { 0.04 } else { 0.0 };
    let cons = Constraints::new([-3.1, -2.0, -2.5, -3.1, -2.2, -3.1], [3.1, 2.0, 1.5, 3.1, 2.2, 3.1], BY_PREV);
    let mut safety = SafetyDistances::standard(CheckMode::FirstCollisionOnly);
    safety.to_environment = margin;
    let robot = KinematicsWithShape::with_safety(p, cons, meshes, box_mesh(0.1, 0.1, 0.02, 1), Isometry3::identity(), box_mesh(0.01, 0.01, 0.02, 1), Isometry3::identity(), env, safety);
    let from: Joints = std::array::from_fn(|i| q0[i] + rng.range(-0.05, 0.05));
    Cell { robot, q0, from, land, steps, park, layout: layout_name, env: env_rec, margin, link_half: sz, tune: None, probe: None }
}

pub fn planner<'a>(cell: &'a Cell, rng: &mut Rng, include: bool) -> Cartesian<'a> {
    let wrist = cell.layout == "wrist";
    if cell.layout == "roll" {
        return Cartesian { robot: &cell.robot, check_step_m: 0.5, check_step_rad: 1.0, max_transition_cost: 0.02, transition_coefficients: DEFAULT_TRANSITION_COSTS,
            linear_recursion_depth: 14, rrt: RRTPlanner { step_size_joint_space: 0.05, max_try: 300, debug: false }, include_linear_interpolation: include, debug: false };
    }
    if let Some((step_m, max_cost, depth)) = cell.tune {
        return Cartesian { robot: &cell.robot, check_step_m: step_m, check_step_rad: 0.05, max_transition_cost: max_cost, transition_coefficients: DEFAULT_TRANSITION_COSTS,
            linear_recursion_depth: depth, rrt: RRTPlanner { step_size_joint_space: 0.05, max_try: 300, debug: false }, include_linear_interpolation: include, debug: false };
    }
    Cartesian { robot: &cell.robot, check_step_m: if wrist { 0.5 } else { [0.01, 0.02, 0.05][rng.below(3) as usize] }, check_step_rad: if wrist { 1.0 } else { 0.05 },
        max_transition_cost: if wrist { 0.05 } else { [0.05, 0.1, 0.3][rng.below(3) as usize] }, transition_coefficients: DEFAULT_TRANSITION_COSTS,
        linear_recursion_depth: if wrist { [2usize, 4, 6][rng.below(3) as usize] } else { [0usize, 2, 6][rng.below(3) as usize] }, rrt: RRTPlanner { step_size_joint_space: 0.05, max_try: 300, debug: false },
        include_linear_interpolation: include, debug: false }
}

/// the documented transition cost, written out here: weighted sum of the joint moves
fn ref_cost(a: &Joints, b: &Joints, coef: &Joints) -> f64 { (0..6).map(|i| (a[i] - b[i]).abs() * coef[i]).sum() }

/// smallest distance between a link box (placed at the link poses the robot reports) and the environment, by parry3d directly
pub fn env_distance(cell: &Cell, j: &Joints) -> f32 {
    let poses = cell.robot.forward_with_joint_poses(j);
    let link = box_mesh(cell.link_half, cell.link_half, cell.link_half, 1);
    let mut best = f32::INFINITY;
    for p in poses.iter() {
        let pf: Isometry3<f32> = Isometry3::from_parts(Translation3::new(p.translation.x as f32, p.translation.y as f32, p.translation.z as f32), p.rotation.cast::<f32>());
        for (m, ep) in &cell.env { if let Ok(d) = parry3d::query::distance(&pf, &link, ep, m) { best = best.min(d); } }
    }
    best
}

/// how far a rotation is from the geodesic between two rotations (0 on it)
fn off_geodesic(a: &UnitQuaternion<f64>, b: &UnitQuaternion<f64>, w: &UnitQuaternion<f64>) -> f64 { a.angle_to(w) + w.angle_to(b) - a.angle_to(b) }

fn seg_dist(p: &Vector3<f64>, a: &Vector3<f64>, b: &Vector3<f64>) -> f64 {
    let ab = b - a; let l2 = ab.norm_squared();
    if l2 == 0.0 { return (p - a).norm(); }
    let t = ((p - a).dot(&ab) / l2).clamp(0.0, 1.0);
    (p - (a + ab * t)).norm()
}

pub fn main(tier: &str, seed: u64, n_override: Option<u64>) {
    let n = n_override.unwrap_or(if tier == "thorough" { 2_000 } else { 120 });
    let pools: Vec<usize> = if tier == "thorough" { vec![1, 2, 4, 8, 16] } else { vec![1, 16] };
    let mut rng = Rng::new(seed ^ 0xC12);
    // the crate prints progress lines on stdout; they are not JSON and are ignored by the runner
    for idx in 0..n {
        let cell = make_cell(&mut rng, idx);
        let include = idx % 3 != 2 || cell.layout == "corner";
        let pl = planner(&cell, &mut rng, include);
        let mut fails: Vec<String> = Vec::new();
        let mut fail = |c: &str| { if !fails.iter().any(|f| f == c) { fails.push(c.into()); } };
        let mut outcomes: Vec<bool> = Vec::new();
        let mut first_path: Option<Vec<(Joints, u32)>> = None;
        for &np in &pools {
            let pool = rayon::ThreadPoolBuilder::new().num_threads(np).build().unwrap();
            let res = pool.install(|| pl.plan(&cell.from, &cell.land, cell.steps.clone(), &cell.park));
            outcomes.push(res.is_ok());
            if let Ok(path) = res {
                if first_path.is_none() { first_path = Some(path.iter().map(|a| (a.joints, a.flags.bits())).collect()); }
                let key: Vec<Pose> = std::iter::once(cell.land).chain(cell.steps.iter().cloned()).chain(std::iter::once(cell.park)).collect();
                // (a) collision free and within limits
                for a in &path {
                    if cell.robot.collides(&a.joints) { fail("C12.waypoint_collides"); }
                    // independent of the crate's collision code: no link closer to the environment than the safety distance
                    if !cell.env.is_empty() { let d = env_distance(&cell, &a.joints); if d < cell.margin - 2e-4 || (cell.margin == 0.0 && d == 0.0) { fail("C12.waypoint_closer_than_safety_distance"); } }
                    if let Some(c) = cell.robot.constraints() { if !c.compliant(&a.joints) { eprintln!("OUTSIDE case {} pool {} flags {} joints {:?}", idx, np, a.flags.bits(), a.joints); fail("C12.waypoint_outside_limits"); } }
                }
                // (b) starts at the given start configuration
                if path.is_empty() || !joints_close(&path[0].joints, &cell.from, 1e-9) { fail("C12.path_does_not_start_at_from"); }
                // (c) key poses in order with their flags, reproduced by FK
                let orig: Vec<&rs_opw_kinematics::cartesian::AnnotatedJoints> = path.iter().filter(|a| a.flags.intersects(PathFlags::LAND | PathFlags::TRACE | PathFlags::PARK) && !a.flags.contains(PathFlags::LIN_INTERP)).collect();
                let want_flags: Vec<PathFlags> = std::iter::once(PathFlags::LAND).chain(cell.steps.iter().map(|_| PathFlags::TRACE)).chain(std::iter::once(PathFlags::PARK)).collect();
                // RRT-closed sections repeat the flag of their target pose: collapse runs
                let mut seq: Vec<(PathFlags, Joints)> = Vec::new();
                for a in &orig { let f = a.flags & (PathFlags::LAND | PathFlags::TRACE | PathFlags::PARK); seq.push((f, a.joints)); }
                let mut ki = 0usize;
                for (f, j) in &seq {
                    if ki < want_flags.len() && f.bits() == want_flags[ki].bits() {
                        let fk = cell.robot.forward(j);
                        let d = (fk.translation.vector - key[ki].translation.vector).norm() + fk.rotation.angle_to(&key[ki].rotation);
                        if d < 1e-5 { ki += 1; }
                    }
                }
                if ki != want_flags.len() { fail("C12.key_poses_missing_or_out_of_order"); }
                // (d) Cartesian way-points on the straight polyline, (e) transition cost
                let poly: Vec<Vector3<f64>> = key.iter().map(|p| p.translation.vector).collect();
                for (i, a) in path.iter().enumerate() {
                    let cart = a.flags.intersects(PathFlags::LIN_INTERP | PathFlags::LAND | PathFlags::PARK | PathFlags::TRACE);
                    if cart && a.flags.contains(PathFlags::LIN_INTERP) {
                        let t = cell.robot.forward(&a.joints).translation.vector;
                        let dmin = poly.windows(2).map(|w| seg_dist(&t, &w[0], &w[1])).fold(f64::INFINITY, f64::min);
                        if dmin > 1e-5 { fail("C12.cartesian_waypoint_off_the_segment"); }
                        // ... and its orientation on the geodesic between the orientations of the two poses it interpolates
                        let rw = cell.robot.forward(&a.joints).rotation;
                        let rmin = key.windows(2).filter(|w| seg_dist(&t, &w[0].translation.vector, &w[1].translation.vector) <= 1e-5)
                            .map(|w| off_geodesic(&w[0].rotation, &w[1].rotation, &rw)).fold(f64::INFINITY, f64::min);
                        if rmin > 1e-4 { fail("C12.cartesian_waypoint_orientation_off_the_interpolation"); }
                    }
                    if i > 0 && a.flags.contains(PathFlags::LIN_INTERP) && path[i - 1].flags.intersects(PathFlags::LIN_INTERP | PathFlags::LAND | PathFlags::TRACE) {
                        let c = ref_cost(&path[i - 1].joints, &a.joints, &pl.transition_coefficients);
                        if c > pl.max_transition_cost + 1e-9 { fail("C12.transition_cost_exceeded"); }
                    }
                }
                // (f) interpolated way-points only when requested
                if !include && path.iter().any(|a| a.flags.contains(PathFlags::LIN_INTERP)) { fail("C12.interpolated_waypoints_although_not_requested"); }
            }
        }
        // (g) scheduling independence when no random re-planning can be involved
        if cell.layout == "free" || cell.layout == "far" { if outcomes.iter().any(|o| *o != outcomes[0]) { fail("C12.success_depends_on_thread_count"); } }
        let pj = match &first_path { Some(p) => format!("[{}]", p.iter().map(|(j, f)| format!("{{\"j\":{},\"f\":{}}}", fxs(j), f)).collect::<Vec<_>>().join(",")), None => "null".into() };
        let base = |direct: &str, class: &str, path: &str| Obj::new().s("prop", "C12").s("what", "plan").i("case", idx as i64).s("layout", cell.layout).b("include", include).fs("from", &cell.from)
            .i("nsteps", cell.steps.len() as i64).f("step_m", pl.check_step_m).f("max_cost", pl.max_transition_cost).i("depth", pl.linear_recursion_depth as i64)
            .raw("outcomes", &format!("{:?}", outcomes)).raw("path", path).s("direct", direct).s("class", class).done();
        if fails.is_empty() { println!("{}", base("ok", "", &pj)); }
        for (k, f) in fails.iter().enumerate() { println!("{}", base("fail", f, if k == 0 { &pj } else { "null" })); }
    }
}

// ---------------------------------------------------------------------------------------------
// correspondence records for the hand-written planner model (Model/Stroke.v)
use std::sync::Mutex;
pub struct Recording { pub inner: std::sync::Arc<dyn Kinematics>, pub log: std::sync::Arc<Mutex<Vec<(Pose, Joints, Vec<Joints>)>>> }
impl Kinematics for Recording {
    fn inverse(&self, p: &Pose) -> rs_opw_kinematics::kinematic_traits::Solutions { self.inner.inverse(p) }
    fn inverse_continuing(&self, p: &Pose, j: &Joints) -> rs_opw_kinematics::kinematic_traits::Solutions {
        let r = self.inner.inverse_continuing(p, j);
        self.log.lock().unwrap().push((*p, *j, r.clone()));
        r
    }
    fn forward(&self, j: &Joints) -> Pose { self.inner.forward(j) }
    fn inverse_5dof(&self, p: &Pose, j6: f64) -> rs_opw_kinematics::kinematic_traits::Solutions { self.inner.inverse_5dof(p, j6) }
    fn inverse_continuing_5dof(&self, p: &Pose, j: &Joints) -> rs_opw_kinematics::kinematic_traits::Solutions { self.inner.inverse_continuing_5dof(p, j) }
    fn constraints(&self) -> &Option<Constraints> { self.inner.constraints() }
    fn kinematic_singularity(&self, j: &Joints) -> Option<rs_opw_kinematics::kinematic_traits::Singularity> { self.inner.kinematic_singularity(j) }
    fn forward_with_joint_poses(&self, j: &Joints) -> [Pose; 6] { self.inner.forward_with_joint_poses(j) }
}

pub fn stages(tier: &str, seed: u64, n_override: Option<u64>) {
    use rs_opw_kinematics::cartesian::verif_hooks as H;
    let n = n_override.unwrap_or(if tier == "thorough" { 3_000 } else { 200 });
    let mut rng = Rng::new(seed ^ 0xC12_57A6);
    for idx in 0..n {
        let mut cell = make_cell(&mut rng, idx);
        let log = std::sync::Arc::new(Mutex::new(Vec::new()));
        cell.robot.kinematics = std::sync::Arc::new(Recording { inner: cell.robot.kinematics.clone(), log: log.clone() });
        let pl = planner(&cell, &mut rng, true);
        // ---- pose schedule
        let poses = H::with_intermediate_poses(&pl, &cell.land, &cell.steps, &cell.park);
        let key: Vec<Pose> = std::iter::once(cell.land).chain(cell.steps.iter().cloned()).chain(std::iter::once(cell.park)).collect();
        let seg: Vec<String> = key.windows(2).map(|w| {
            let d = (w[1].translation.vector - w[0].translation.vector).norm();
            let th = (w[1].rotation * w[0].rotation.inverse()).angle();
            format!("[{},{}]", fx(d), fx(th))
        }).collect();
        // direct check: every interpolated pose lies on its segment at parameter i/steps
        let mut direct = "ok"; let mut class = "";
        let mut ki = 0usize; let mut run: Vec<&(Pose, u32)> = Vec::new();
        for p in poses.iter().skip(1) {
            if p.1 == PathFlags::LIN_INTERP.bits() { run.push(p); continue; }
            let (a, b) = (key[ki].translation.vector, key[ki + 1].translation.vector);
            let steps = run.len() + 1;
            for (i, q) in run.iter().enumerate() {
                let want = a + (b - a) * ((i + 1) as f64 / steps as f64);
                if (q.0.translation.vector - want).norm() > 1e-9 && direct == "ok" { direct = "fail"; class = "C12.interpolated_pose_not_evenly_on_segment"; }
            }
            if (p.0.translation.vector - b).norm() > 1e-12 && direct == "ok" { direct = "fail"; class = "C12.key_pose_altered"; }
            run.clear(); ki += 1;
        }
        println!("{}", Obj::new().s("prop", "C12").s("what", "poses").i("case", idx as i64).f("step_m", pl.check_step_m).f("step_rad", pl.check_step_rad)
            .raw("segments", &format!("[{}]", seg.join(","))).raw("flags", &format!("{:?}", poses.iter().map(|p| p.1).collect::<Vec<_>>()))
            .s("direct", direct).s("class", class).done());
        // ---- adaptive bisection between the first two key poses
        log.lock().unwrap().clear();
        let (from, to) = match cell.probe { Some((a, b)) => (a, b), None => (key[0], key[1]) };
        let starting = cell.q0;
        let starting = { let s = cell.robot.kinematics.inverse_continuing(&from, &starting); if s.is_empty() { continue } else { s[0] } };
        log.lock().unwrap().clear();
        let res = H::step_adaptive_linear_transition(&pl, &starting, &from, &to, 0);
        let entries = log.lock().unwrap().clone();
        let (a, b) = (from.translation.vector, to.translation.vector);
        let l2 = (b - a).norm_squared();
        let mut tab: Vec<String> = Vec::new();
        let mut direct = "ok"; let mut class = "";
        for (p, prev, ans) in &entries {
            let t = (p.translation.vector - a).dot(&(b - a)) / l2;
            let on = (p.translation.vector - (a + (b - a) * t)).norm();
            if (on > 1e-9 || t < -1e-9 || t > 1.0 + 1e-9) && direct == "ok" { direct = "fail"; class = "C12.bisection_pose_off_the_segment"; }
            let free: Vec<Joints> = ans.iter().filter(|s| !cell.robot.collides(s)).cloned().collect();
            tab.push(format!("{{\"t\":{},\"prev\":{},\"ans\":{}}}", fx(t), fxs(prev), fxss(&free)));
        }
        if let Ok(track) = &res {
            let mut prev = starting;
            for s in track { if transition_costs(&prev, s, &pl.transition_coefficients) > pl.max_transition_cost + 1e-12 && direct == "ok" { direct = "fail"; class = "C12.bisection_transition_cost_exceeded"; } prev = *s; }
        }
        println!("{}", Obj::new().s("prop", "C12").s("what", "adaptive").i("case", idx as i64).fs("starting", &starting).f("max_cost", pl.max_transition_cost)
            .fs("coef", &pl.transition_coefficients).i("depth", pl.linear_recursion_depth as i64).raw("table", &format!("[{}]", tab.join(",")))
            .raw("track", &match &res { Ok(t) => fxss(t), Err(_) => "null".into() }).s("direct", direct).s("class", class).done());
    }
}
