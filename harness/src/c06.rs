//! C06: 5-DOF inverse keeps tool point and axis, J6 as requested; dof==5 robots answer all entry points.
use crate::ik::*;
use crate::robots::*;
use crate::util::*;
use rs_opw_kinematics::kinematic_traits::{Joints, Kinematics};
use rs_opw_kinematics::kinematics_impl::verif_hooks as H;
use std::f64::consts::PI;
use crate::c09::{build, random_iso, W};
use std::sync::Arc;

pub fn main(tier: &str, seed: u64, n_override: Option<u64>) {
    let n = n_override.unwrap_or(if tier == "thorough" { 200_000 } else { 8_000 });
    let mut rng = Rng::new(seed ^ 0xC06);
    for idx in 0..n {
        let mut r = random_robot(&mut rng, idx, false, None);
        if idx % 2 == 0 { r.p.dof = 5; }
        let mut j = origin_joints(&mut rng, &r, PoseKind::Reachable);
        // "non-singular" is the solver's own notion (the 0.01 degree band on J5): some cases sit just outside that band, others have the
        // elbow within a few milliradians of stretched / folded (wrist centre micrometres inside the reach boundary)
        let (mut wrist_m, mut elbow_m) = (0.02, 0.02);
        if idx % 8 == 1 { let mut qm = r.to_model(&j); let e = 10f64.powf(rng.range(-3.6, -2.3)) * if rng.bool() { 1.0 } else { -1.0 }; qm[4] = if rng.below(4) == 0 { PI + e } else { e }; j = r.from_model(&qm); wrist_m = 2.4e-4; }
        if idx % 8 == 5 { let mut qm = r.to_model(&j); let e = 10f64.powf(rng.range(-3.5, -2.0)) * if rng.bool() { 1.0 } else { -1.0 }; qm[2] = -f64::atan2(r.p.a2, r.p.c3) + if rng.below(4) == 0 { PI + e } else { e }; j = r.from_model(&qm); elbow_m = 3.0e-4; }
        let pose = pose_of(&r, &j);
        if idx % 3 == 0 { r.cons = Some(random_constraints(&mut rng, Some(&j))); }
        let k = r.solver();
        let entry: u8 = if r.p.dof == 5 { rng.below(4) as u8 } else { 2 + rng.below(2) as u8 };
        // the caller's J6 is arbitrary: also beyond one turn, at the ends of [-pi, pi] and far away
        let j6 = match rng.below(5) { 0 | 1 => dy(rng.range(-3.0, 3.0), 12), 2 => dy(rng.range(-10.0, 10.0), 12), 3 => (if rng.bool() { PI } else { -PI }) + dy(rng.range(-0.01, 0.01), 20), _ => dy(rng.range(-100.0, 100.0), 12) };
        let prev: Joints = match rng.below(4) { 0 => j, 1 => std::array::from_fn(|i| j[i] + rng.range(-0.3, 0.3)), 2 => std::array::from_fn(|_| rng.range(-2.0 * PI, 2.0 * PI)), _ => std::array::from_fn(|_| dy(rng.range(-15.0, 15.0), 12)) };
        let sols = call_entry(&k, entry, &pose, &prev, j6);
        let want6 = match entry { 0 => 0.0, 2 => j6, _ => prev[5] };
        let mut direct = "ok".to_string(); let mut class = String::new();
        for s in &sols {
            if s[5].to_bits() != want6.to_bits() && !(s[5] == 0.0 && want6 == 0.0) && direct == "ok" { direct = "fail".into(); class = format!("C06.j6_not_callers_value_entry{}", entry); }
            let (ok, _, _) = realises(&r, &pose, s, true);
            if !ok && direct == "ok" { direct = "fail".into(); class = format!("C06.point_or_axis_wrong_entry{}", entry); }
        }
        // originating J1..J5 among the answers when non-singular and within limits
        let mut jq = j; jq[5] = want6;
        let decided = compliant_oracle(&r.cons, &jq);
        if nonsingular_we(&r, &j, wrist_m, elbow_m) && decided == Some(true) {
            let found = sols.iter().any(|s| (0..5).all(|i| ang_diff(s[i], j[i]) < 1e-6));
            if !found && direct == "ok" { direct = "fail".into(); class = if sols.is_empty() && r.p.dof == 5 && entry < 2 { format!("C06.dof5_robot_returns_nothing_entry{}", entry) } else { format!("C06.origin_missing_entry{}", entry) }; }
        }
        // the same behind axial tools / bases: tool point and axis of the STACK, J6 still the caller's value
        if idx % 4 == 3 && direct == "ok" {
            let depth = 1 + rng.below(2) as usize;
            let ws: Vec<W> = (0..depth).map(|_| if rng.bool() { W::Tool(random_iso(&mut rng, true)) } else { W::Base(random_iso(&mut rng, false)) }).collect();
            let inner: Arc<dyn rs_opw_kinematics::kinematic_traits::Kinematics> = Arc::new(r.solver());
            let stack = build(inner, &ws);
            let wpose = stack.forward(&j);
            let wsols = match entry { 0 => stack.inverse(&wpose), 1 => stack.inverse_continuing(&wpose, &prev), 2 => stack.inverse_5dof(&wpose, j6), _ => stack.inverse_continuing_5dof(&wpose, &prev) };
            let lever: f64 = 1.0 + ws.iter().map(|w| match w { W::Tool(t) | W::Frame(t) => t.translation.vector.norm(), W::Base(_) => 0.0 }).sum::<f64>();
            for s in &wsols {
                if s[5].to_bits() != want6.to_bits() && !(s[5] == 0.0 && want6 == 0.0) && direct == "ok" { direct = "fail".into(); class = format!("C06.j6_not_callers_value_through_wrappers_entry{}", entry); }
                let back = stack.forward(s);
                let d = (back.translation.vector - wpose.translation.vector).norm();
                let (za, zb) = (back.rotation * nalgebra::Vector3::z(), wpose.rotation * nalgebra::Vector3::z());
                if (d > 2e-5 * lever || za.cross(&zb).norm() > 2e-5) && direct == "ok" { direct = "fail".into(); class = format!("C06.point_or_axis_wrong_through_wrappers_entry{}", entry); }
            }
        }
        // a robot declared 5-DOF in a parameter file (dof at the top level, as to_yaml prints it, or inside the geometric block)
        if idx % 10 == 4 && r.p.dof == 5 && direct == "ok" {
            use rs_opw_kinematics::kinematic_traits::Kinematics as _;
            let mut text = r.p.to_yaml();
            if rng.bool() { text = text.replace("\ndof: 5", "").replace("opw_kinematics_geometric_parameters:\n", "opw_kinematics_geometric_parameters:\n  dof: 5\n"); }
            let path = format!("{}/vh_c06_{}_{}.yaml", std::env::temp_dir().display(), std::process::id(), idx);
            std::fs::write(&path, &text).unwrap();
            let loaded = rs_opw_kinematics::parameters::opw_kinematics::Parameters::from_yaml_file(&path);
            let _ = std::fs::remove_file(&path);
            match loaded {
                Err(_) => { direct = "fail".into(); class = "C06.five_dof_parameter_file_rejected".into(); }
                Ok(q) => {
                    if q.dof != 5 { direct = "fail".into(); class = "C06.declared_5dof_read_as_6dof".into(); }
                    else {
                        let kq = rs_opw_kinematics::kinematics_impl::OPWKinematics::new(q);
                        let sols = kq.inverse(&pose);
                        if nonsingular(&r, &j) && sols.is_empty() { direct = "fail".into(); class = "C06.dof5_robot_from_file_returns_nothing".into(); }
                        if sols.iter().any(|s| s[5] != 0.0) && direct == "ok" { direct = "fail".into(); class = "C06.dof5_robot_from_file_j6_not_zero".into(); }
                    }
                }
            }
        }
        // the 5-DOF kernel on this pose: traced branch table, position verdict of every finite branch (formed here), kernel output
        let bare = r.bare();
        let _ = H::take_trace();
        let kernel5 = H::inverse_intern_5_dof(&bare, &pose, want6);
        let theta5: Vec<[[f64; 5]; 8]> = H::take_trace().into_iter().filter_map(|e| if let H::Event::Theta5(t) = e { Some(t) } else { None }).collect();
        let mut verd: Vec<String> = Vec::new(); let mut und = false;
        if !theta5.is_empty() {
            for row in theta5[0].iter() {
                if row.iter().all(|x| x.is_finite()) {
                    let cand: Joints = std::array::from_fn(|i| if i == 5 { want6 } else { let mut a = (row[i] + r.p.offsets[i]) * r.p.sign_corrections[i] as f64; while a > PI { a -= 2.0 * PI } while a < -PI { a += 2.0 * PI } a });
                    let d = (pose.translation.vector - bare.forward(&cand).translation.vector).norm();
                    if (d - H::DISTANCE_TOLERANCE).abs() < 1e-9 { und = true; }
                    verd.push(format!("{{\"c\":{},\"ok\":{}}}", fxs(&cand), d <= H::DISTANCE_TOLERANCE));
                }
            }
        }
        let th5 = if theta5.is_empty() { "null".to_string() } else { format!("[{}]", theta5[0].iter().map(|row| fxs(&row.to_vec())).collect::<Vec<_>>().join(",")) };
        println!("{}", Obj::new().s("prop", "C06").i("case", idx as i64).raw("robot", &r.json()).i("entry", entry as i64).fs("j", &j)
            .f("j6", j6).f("j6used", want6).fs("prev", &prev).raw("theta5", &th5).raw("verdicts5", &format!("[{}]", verd.join(","))).raw("kernel5", &sols_json(&kernel5)).b("und5", und).i("nsol", sols.len() as i64).s("direct", &direct).s("class", &class).done());
    }
}
