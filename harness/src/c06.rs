//! C06: 5-DOF inverse keeps tool point and axis, J6 as requested; dof==5 robots answer all entry points.
use crate::ik::*;
use crate::robots::*;
use crate::util::*;
use rs_opw_kinematics::kinematic_traits::Joints;
use std::f64::consts::PI;

pub fn main(tier: &str, seed: u64, n_override: Option<u64>) {
    let n = n_override.unwrap_or(if tier == "thorough" { 200_000 } else { 8_000 });
    let mut rng = Rng::new(seed ^ 0xC06);
    for idx in 0..n {
        let mut r = random_robot(&mut rng, idx, false, None);
        if idx % 2 == 0 { r.p.dof = 5; }
        let j = origin_joints(&mut rng, &r, PoseKind::Reachable);
        let pose = pose_of(&r, &j);
        if idx % 3 == 0 { r.cons = Some(random_constraints(&mut rng, Some(&j))); }
        let k = r.solver();
        let entry: u8 = if r.p.dof == 5 { rng.below(4) as u8 } else { 2 + rng.below(2) as u8 };
        let j6 = dy(rng.range(-3.0, 3.0), 12);
        let prev: Joints = match rng.below(3) { 0 => j, 1 => std::array::from_fn(|i| j[i] + rng.range(-0.3, 0.3)), _ => std::array::from_fn(|_| rng.range(-2.0 * PI, 2.0 * PI)) };
        let sols = call_entry(&k, entry, &pose, &prev, j6);
        let want6 = match entry { 0 => 0.0, 2 => j6, _ => prev[5] };
        let mut direct = "ok".to_string(); let mut class = String::new();
        for s in &sols {
            if s[5].to_bits() != want6.to_bits() && !(s[5] == 0.0 && want6 == 0.0) && direct == "ok" { direct = "fail".into(); class = format!("C06.j6_not_callers_value_entry{}", entry); }
            let (ok, _, _) = realises(&r, &pose, s, true);
            if !ok && direct == "ok" { direct = "fail".into(); class = format!("C06.point_or_axis_wrong_entry{}", entry); }
        }
        // originating J1..J5 among the answers when non-singular and within limits
        let mut jq = j; jq[5] = want6;
        let decided = compliant_oracle(&r.cons, &jq);
        if nonsingular(&r, &j) && decided == Some(true) {
            let found = sols.iter().any(|s| (0..5).all(|i| ang_diff(s[i], j[i]) < 1e-6));
            if !found && direct == "ok" { direct = "fail".into(); class = if sols.is_empty() && r.p.dof == 5 && entry < 2 { format!("C06.dof5_robot_returns_nothing_entry{}", entry) } else { format!("C06.origin_missing_entry{}", entry) }; }
        }
        println!("{}", Obj::new().s("prop", "C06").i("case", idx as i64).raw("robot", &r.json()).i("entry", entry as i64).fs("j", &j)
            .f("j6", j6).fs("prev", &prev).i("nsol", sols.len() as i64).s("direct", &direct).s("class", &class).done());
    }
}
