//! Synthetic collision scenes: boxes/plates with differing vertex counts, a fake Kinematics that places
//! the links at chosen poses, brute-force oracle tables computed with parry3d directly.
use crate::util::*;
use nalgebra::{Isometry3, Point3, Translation3, UnitQuaternion, Vector3};
use parry3d::shape::TriMesh;
use rs_opw_kinematics::collisions::{BaseBody, CheckMode, CollisionBody, RobotBody, SafetyDistances, NEVER_COLLIDES};
use rs_opw_kinematics::constraints::Constraints;
use rs_opw_kinematics::kinematic_traits::{Joints, Kinematics, Pose, Singularity, Solutions, ENV_START_IDX, J_BASE, J_TOOL};
use std::collections::HashMap;

/// axis-aligned box centred at the origin, each face subdivided into `sub` x `sub` cells (=> differing vertex counts)
pub fn box_mesh(hx: f32, hy: f32, hz: f32, sub: usize) -> TriMesh {
    let mut verts: Vec<Point3<f32>> = Vec::new();
    let mut idx: Vec<[u32; 3]> = Vec::new();
    let h = [hx, hy, hz];
    for axis in 0..3 {
        for sgn in [-1.0f32, 1.0] {
            let (u, v) = ((axis + 1) % 3, (axis + 2) % 3);
            let base = verts.len() as u32;
            for a in 0..=sub { for b in 0..=sub {
                let mut p = [0.0f32; 3];
                p[axis] = sgn * h[axis];
                p[u] = -h[u] + 2.0 * h[u] * a as f32 / sub as f32;
                p[v] = -h[v] + 2.0 * h[v] * b as f32 / sub as f32;
                verts.push(Point3::new(p[0], p[1], p[2]));
            } }
            let n = (sub + 1) as u32;
            for a in 0..sub as u32 { for b in 0..sub as u32 {
                let i0 = base + a * n + b;
                idx.push([i0, i0 + n, i0 + 1]);
                idx.push([i0 + 1, i0 + n, i0 + n + 1]);
            } }
        }
    }
    TriMesh::new(verts, idx).expect("box mesh")
}

/// Fake kinematics: link i sits at `home[i]` translated by joints (link i moves with joints 0..=i: a chain in which
/// joint k translates links >= k along x by its value) - no rotation needed for the pair logic.
pub struct FakeChain { pub home: [Pose; 6], pub dir: [Vector3<f64>; 6], pub cons: Option<Constraints> }
impl Kinematics for FakeChain {
    fn inverse(&self, _: &Pose) -> Solutions { vec![] }
    fn inverse_continuing(&self, _: &Pose, _: &Joints) -> Solutions { vec![] }
    fn forward(&self, qs: &Joints) -> Pose { self.forward_with_joint_poses(qs)[5] }
    fn inverse_5dof(&self, _: &Pose, _: f64) -> Solutions { vec![] }
    fn inverse_continuing_5dof(&self, _: &Pose, _: &Joints) -> Solutions { vec![] }
    fn constraints(&self) -> &Option<Constraints> { &self.cons }
    fn kinematic_singularity(&self, _: &Joints) -> Option<Singularity> { None }
    fn forward_with_joint_poses(&self, q: &Joints) -> [Pose; 6] {
        std::array::from_fn(|i| {
            let mut t = self.home[i].translation.vector;
            for k in 0..=i { t += self.dir[k] * q[k]; }
            Isometry3::from_parts(Translation3::from(t), self.home[i].rotation)
        })
    }
}

pub struct Scene { pub body: RobotBody, pub kin: FakeChain, pub descr: String }

pub fn rot_small(rng: &mut Rng) -> UnitQuaternion<f64> {
    if rng.bool() { UnitQuaternion::identity() } else { UnitQuaternion::from_euler_angles(rng.range(-0.6, 0.6), rng.range(-0.6, 0.6), rng.range(-3.0, 3.0)) }
}

/// bodies identified like the crate does: 0..5 links, J_TOOL, J_BASE, ENV_START_IDX + k
pub fn body_ids(s: &Scene) -> Vec<usize> {
    let mut v: Vec<usize> = (0..6).collect();
    if s.body.tool.is_some() { v.push(J_TOOL); }
    if s.body.base.is_some() { v.push(J_BASE); }
    for k in 0..s.body.collision_environment.len() { v.push(ENV_START_IDX + k); }
    v
}
pub fn shape_pose<'a>(s: &'a Scene, id: usize, links: &[Isometry3<f32>; 6]) -> (&'a TriMesh, Isometry3<f32>) {
    if id < 6 { (&s.body.joint_meshes[id], links[id]) }
    else if id == J_TOOL { (s.body.tool.as_ref().unwrap(), links[5]) }
    else if id == J_BASE { let b = s.body.base.as_ref().unwrap(); (&b.mesh, b.base_pose) }
    else { let e = &s.body.collision_environment[id - ENV_START_IDX]; (&e.mesh, e.pose) }
}
/// the pair list of the property text
pub fn relevant_pairs(s: &Scene) -> Vec<(usize, usize)> {
    let mut v = Vec::new();
    let ne = s.body.collision_environment.len();
    for i in 0..6 { for j in (i + 2)..6 { v.push((i, j)); } }
    for i in 0..6 { for e in 0..ne { v.push((i, ENV_START_IDX + e)); } }
    if s.body.tool.is_some() {
        for e in 0..ne { v.push((J_TOOL, ENV_START_IDX + e)); }
        for i in 0..4 { v.push((i, J_TOOL)); }
    }
    if s.body.base.is_some() { for i in 1..6 { v.push((i, J_BASE)); } }
    if s.body.tool.is_some() && s.body.base.is_some() { v.push((J_TOOL, J_BASE)); }
    v
}
pub fn links_f32(s: &Scene, q: &Joints) -> [Isometry3<f32>; 6] { s.kin.forward_with_joint_poses(q).map(|p| p.cast::<f32>()) }

/// (intersects, distance) of a pair computed with parry3d directly
pub fn pair_geometry(s: &Scene, a: usize, b: usize, links: &[Isometry3<f32>; 6]) -> (bool, f32) {
    let (sa, pa) = shape_pose(s, a, links);
    let (sb, pb) = shape_pose(s, b, links);
    let it = parry3d::query::intersection_test(&pa, sa, &pb, sb).expect("supported");
    let d = parry3d::query::distance(&pa, sa, &pb, sb).expect("supported");
    (it, d)
}

pub fn random_safety(rng: &mut Rng, s_ids: &[usize], mode: CheckMode) -> SafetyDistances {
    let mut special: HashMap<(u16, u16), f32> = HashMap::new();
    let nsp = rng.below(5);
    for _ in 0..nsp {
        let a = rng.pick(s_ids); let b = rng.pick(s_ids);
        if a == b || special.contains_key(&(b as u16, a as u16)) { continue; }
        let v = match rng.below(3) { 0 => NEVER_COLLIDES, 1 => 0.0, _ => [0.02f32, 0.05, 0.15, 0.3][rng.below(4) as usize] };
        special.insert((a as u16, b as u16), v);
    }
    let pick = |rng: &mut Rng| [0.0f32, 0.0, 0.03, 0.1, 0.25][rng.below(5) as usize];
    SafetyDistances { to_environment: pick(rng), to_robot_default: pick(rng), special_distances: special, mode }
}

pub fn random_scene(rng: &mut Rng, idx: u64) -> Scene {
    // links: boxes of various sizes laid out along x with random gaps; some overlap, some nest, some near
    let mut meshes: Vec<TriMesh> = Vec::new();
    let mut home: Vec<Pose> = Vec::new();
    let mut x = 0.0f64;
    for i in 0..6 {
        let big = rng.below(4) == 0;
        let h: [f32; 3] = if big { [dyf(rng.range(0.2, 0.5)), dyf(rng.range(0.2, 0.5)), dyf(rng.range(0.2, 0.5))] } else { [dyf(rng.range(0.03, 0.12)), dyf(rng.range(0.03, 0.12)), dyf(rng.range(0.03, 0.12))] };
        meshes.push(box_mesh(h[0], h[1], h[2], 1 + rng.below(4) as usize));
        let gap = match rng.below(5) { 0 => -0.05, 1 => 0.02, 2 => 0.08, 3 => 0.2, _ => 0.6 };
        x += gap + h[0] as f64 + 0.1;
        let y = if rng.below(3) == 0 { rng.range(-0.3, 0.3) } else { 0.0 };
        home.push(Isometry3::from_parts(Translation3::new(dy2(x), dy2(y), dy2(rng.range(-0.1, 0.1))), rot_small(rng)));
        let _ = i;
    }
    // sometimes put a small link strictly inside the loosened box of a big neighbour-but-one (nesting case)
    if rng.below(3) == 0 {
        let a = rng.below(4) as usize; let b = a + 2 + rng.below((4 - a as u64).max(1).min(2)) as usize;
        if b < 6 {
            let t = home[a].translation.vector + Vector3::new(rng.range(-0.02, 0.02), rng.range(-0.02, 0.02), rng.range(-0.02, 0.02));
            home[b] = Isometry3::from_parts(Translation3::from(t), rot_small(rng));
            if rng.bool() { meshes[b] = box_mesh(0.6, 0.6, 0.6, 2); } // b encloses a at a distance
        }
    }
    let joint_meshes: [TriMesh; 6] = std::array::from_fn(|i| meshes[i].clone());
    let tool = if idx % 4 != 0 { Some(box_mesh(dyf(rng.range(0.02, 0.2)), dyf(rng.range(0.02, 0.2)), dyf(rng.range(0.05, 0.4)), 1 + rng.below(3) as usize)) } else { None };
    let base = if idx % 3 != 0 {
        let p = Isometry3::from_parts(Translation3::new(dy2(rng.range(-0.5, 1.5)), dy2(rng.range(-0.3, 0.3)), dy2(rng.range(-0.4, 0.1))), rot_small(rng));
        Some(BaseBody { mesh: box_mesh(dyf(rng.range(0.1, 0.5)), dyf(rng.range(0.1, 0.5)), dyf(rng.range(0.05, 0.3)), 1 + rng.below(3) as usize), base_pose: p.cast::<f32>() })
    } else { None };
    let ne = rng.below(4) as usize;
    let mut env = Vec::new();
    for _ in 0..ne {
        let plate = rng.bool();
        let m = if plate { box_mesh(dyf(rng.range(0.3, 1.5)), dyf(rng.range(0.3, 1.5)), 0.01, 1 + rng.below(5) as usize) } else { box_mesh(dyf(rng.range(0.05, 0.4)), dyf(rng.range(0.05, 0.4)), dyf(rng.range(0.05, 0.4)), 1 + rng.below(3) as usize) };
        let p = Isometry3::from_parts(Translation3::new(dy2(rng.range(-0.5, x + 0.5)), dy2(rng.range(-0.6, 0.6)), dy2(rng.range(-0.6, 0.6))), rot_small(rng));
        env.push(CollisionBody { mesh: m, pose: p.cast::<f32>() });
    }
    let dir: [Vector3<f64>; 6] = std::array::from_fn(|_| Vector3::new(1.0, 0.0, 0.0));
    let body = RobotBody { joint_meshes, tool, base, collision_environment: env, safety: SafetyDistances::standard(CheckMode::AllCollsions) };
    Scene { body, kin: FakeChain { home: std::array::from_fn(|i| home[i]), dir, cons: None }, descr: String::new() }
}
fn dyf(x: f64) -> f32 { ((x * 256.0).round() / 256.0) as f32 }
fn dy2(x: f64) -> f64 { (x * 1024.0).round() / 1024.0 }
