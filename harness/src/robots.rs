//! Random OPW robots and an INDEPENDENT forward-kinematics reference (plain f64 matrices,
//! no nalgebra isometry code shared with the implementation).
use crate::util::*;
use rs_opw_kinematics::parameters::opw_kinematics::Parameters;

pub type M3 = [[f64; 3]; 3];
pub type V3 = [f64; 3];
#[derive(Clone, Copy, Debug)]
pub struct RefPose { pub r: M3, pub t: V3 }

pub fn mmul(a: &M3, b: &M3) -> M3 {
    let mut c = [[0.0; 3]; 3];
    for i in 0..3 { for j in 0..3 { c[i][j] = a[i][0] * b[0][j] + a[i][1] * b[1][j] + a[i][2] * b[2][j]; } }
    c
}
pub fn mapp(a: &M3, v: &V3) -> V3 {
    [a[0][0] * v[0] + a[0][1] * v[1] + a[0][2] * v[2], a[1][0] * v[0] + a[1][1] * v[1] + a[1][2] * v[2], a[2][0] * v[0] + a[2][1] * v[1] + a[2][2] * v[2]]
}
pub fn rz(q: f64) -> M3 { let (s, c) = q.sin_cos(); [[c, -s, 0.0], [s, c, 0.0], [0.0, 0.0, 1.0]] }
pub fn ry(q: f64) -> M3 { let (s, c) = q.sin_cos(); [[c, 0.0, s], [0.0, 1.0, 0.0], [-s, 0.0, c]] }
pub fn comp(a: &RefPose, r: M3, t: V3) -> RefPose {
    let rt = mapp(&a.r, &t);
    RefPose { r: mmul(&a.r, &r), t: [a.t[0] + rt[0], a.t[1] + rt[1], a.t[2] + rt[2]] }
}
/// six link poses of the OPW model, product of elementary transforms
pub fn ref_chain(p: &Parameters, j: &[f64; 6]) -> [RefPose; 6] {
    let q: Vec<f64> = (0..6).map(|i| j[i] * p.sign_corrections[i] as f64 - p.offsets[i]).collect();
    let l1 = RefPose { r: rz(q[0]), t: [0.0, 0.0, p.c1] };
    let l2 = comp(&l1, ry(q[1]), [p.a1, p.b, 0.0]);
    let l3 = comp(&l2, ry(q[2]), [0.0, 0.0, p.c2]);
    let l4 = comp(&l3, rz(q[3]), [p.a2, 0.0, 0.0]);
    let l5 = comp(&l4, ry(q[4]), [0.0, 0.0, p.c3]);
    let l6 = comp(&l5, rz(q[5]), [0.0, 0.0, p.c4]);
    [l1, l2, l3, l4, l5, l6]
}
pub fn pose_to_ref(p: &nalgebra::Isometry3<f64>) -> RefPose {
    let m = p.rotation.to_rotation_matrix();
    let mut r = [[0.0; 3]; 3];
    for i in 0..3 { for j in 0..3 { r[i][j] = m[(i, j)]; } }
    RefPose { r, t: [p.translation.x, p.translation.y, p.translation.z] }
}
pub fn ref_to_pose(p: &RefPose) -> nalgebra::Isometry3<f64> {
    let m = nalgebra::Matrix3::new(p.r[0][0], p.r[0][1], p.r[0][2], p.r[1][0], p.r[1][1], p.r[1][2], p.r[2][0], p.r[2][1], p.r[2][2]);
    let rot = nalgebra::Rotation3::from_matrix_unchecked(m);
    nalgebra::Isometry3::from_parts(nalgebra::Translation3::new(p.t[0], p.t[1], p.t[2]), nalgebra::UnitQuaternion::from_rotation_matrix(&rot))
}
/// (translation distance, rotation angle) between two poses
pub fn pose_diff(a: &RefPose, b: &RefPose) -> (f64, f64) {
    let d = ((a.t[0] - b.t[0]).powi(2) + (a.t[1] - b.t[1]).powi(2) + (a.t[2] - b.t[2]).powi(2)).sqrt();
    // trace of a^T b
    let mut tr = 0.0;
    for i in 0..3 { for j in 0..3 { tr += a.r[i][j] * b.r[i][j]; } }
    let c = ((tr - 1.0) / 2.0).clamp(-1.0, 1.0);
    // robust small-angle: use Frobenius norm of difference
    let mut fro = 0.0;
    for i in 0..3 { for j in 0..3 { fro += (a.r[i][j] - b.r[i][j]).powi(2); } }
    let ang = if c > 0.9 { 2.0 * (fro.sqrt() / (2.0 * 2f64.sqrt())).asin() } else { c.acos() };
    (d, ang)
}
pub fn pose_fields(p: &RefPose) -> Vec<f64> {
    vec![p.r[0][0], p.r[0][1], p.r[0][2], p.r[1][0], p.r[1][1], p.r[1][2], p.r[2][0], p.r[2][1], p.r[2][2], p.t[0], p.t[1], p.t[2]]
}

/// dyadic rounding so that values are short exact rationals (keeps Coq literals small)
pub fn dy(x: f64, bits: i32) -> f64 { let s = (2f64).powi(bits); (x * s).round() / s }

pub fn random_params(rng: &mut Rng) -> Parameters {
    let kind = rng.below(10);
    let len = |rng: &mut Rng, lo: f64, hi: f64| dy(rng.range(lo, hi), 10);
    let mut p = Parameters {
        a1: len(rng, -0.3, 0.5), a2: len(rng, -0.3, 0.3), b: 0.0,
        c1: len(rng, 0.1, 1.0), c2: len(rng, 0.3, 1.2), c3: len(rng, 0.3, 1.2), c4: len(rng, 0.05, 0.4),
        offsets: [0.0; 6], sign_corrections: [1; 6], dof: 6,
    };
    if kind >= 3 { p.b = len(rng, -0.3, 0.3); }
    if kind == 4 { p.a1 = 0.0; }
    if kind == 5 { p.a2 = 0.0; }
    if kind == 6 { p.c4 = 0.0; }
    if kind >= 2 {
        for i in 0..6 {
            if rng.bool() { p.sign_corrections[i] = -1; }
            // arbitrary offsets: mostly within a half turn, some beyond one whole turn
            if rng.below(3) != 0 { p.offsets[i] = if rng.below(5) == 0 { dy(rng.range(-7.0, 7.0), 12) } else { dy(rng.range(-3.2, 3.2), 12) }; }
        }
    }
    p
}
pub fn known_params(i: u64) -> Parameters {
    match i % 4 { 0 => Parameters::irb2400_10(), 1 => Parameters::staubli_tx2_160l(), 2 => Parameters::kuka_kr6_r700_sixx(), _ => Parameters::fanuc_r2000ib_200r() }
}
pub fn random_joints(rng: &mut Rng, span: f64) -> [f64; 6] { std::array::from_fn(|_| dy(rng.range(-span, span), 16)) }

pub fn params_json(p: &Parameters) -> String {
    Obj::new().fs("geom", &[p.a1, p.a2, p.b, p.c1, p.c2, p.c3, p.c4]).fs("off", &p.offsets)
        .raw("sg", &format!("{:?}", p.sign_corrections)).i("dof", p.dof as i64).done()
}
