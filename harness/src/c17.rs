//! C17: Frame::frame from three point pairs = the rigid motion mapping them; guards; forward_transformed.
use crate::c09::random_iso;
use crate::ik::*;
use crate::robots::*;
use crate::util::*;
use nalgebra::{Point3, Vector3};
use rs_opw_kinematics::frame::{ColinearPoints, Frame, NotIsometry};
use rs_opw_kinematics::kinematic_traits::Kinematics;
use std::sync::Arc;

fn pt(rng: &mut Rng, far: bool) -> Point3<f64> {
    let s = if far { 1000.0 } else { 2.0 };
    Point3::new(dy(rng.range(-s, s), 10), dy(rng.range(-s, s), 10), dy(rng.range(-s, s), 10))
}
fn pj(p: &Point3<f64>) -> String { fxs(&[p.x, p.y, p.z]) }

pub fn main(tier: &str, seed: u64, n_override: Option<u64>) {
    let n = n_override.unwrap_or(if tier == "thorough" { 200_000 } else { 6_000 });
    let mut rng = Rng::new(seed ^ 0xC17);
    for idx in 0..n {
        let kind = idx % 8;
        let m = random_iso(&mut rng, false);
        let far = rng.below(5) == 0;
        let mut p1 = pt(&mut rng, far);
        let mut p2 = pt(&mut rng, far); let mut p3 = pt(&mut rng, far);
        if kind == 1 { // exactly collinear source (exactly representable: p3 = p1 + 2 (p2 - p1) on the dyadic grid)
            p3 = Point3::from(p1.coords + 2.0 * (p2 - p1));
        }
        if kind == 2 { // nearly collinear
            let d = p2 - p1; p3 = Point3::from(p1.coords + 0.5 * d + Vector3::new(1e-3, -2e-3, 1.5e-3));
        }
        if kind == 7 { p2 = Point3::from(p1.coords + Vector3::new(0.25, 0.0, 0.0)); p3 = Point3::from(p1.coords + Vector3::new(0.0, 0.5, 0.0)); }
        let mut q1 = m * p1; let mut q2 = m * p2; let mut q3 = m * p3;
        let mut expect = "ok";
        let mut cross = (p2 - p1).cross(&(p3 - p1)).norm();
        if kind == 1 { expect = "collinear_source"; }
        if kind == 3 { // perturb beyond the 5 mm tolerance along the p1-p2 direction
            // ... of one side only, a different side in turn: 1-2 (stretch q2 away from q1), 1-3 (swing q1 about q2, which keeps 1-2),
            // 2-3 (swing q3 about q1, which keeps 1-3)
            let d = |a: &Point3<f64>, b: &Point3<f64>| (a - b).norm();
            match (idx / 8) % 3 {
                0 => {
                    // half of them right at the edge of the 5 mm guard (micrometres beyond it), stretching or shrinking the side
                    let edge = (idx / 24) % 2 == 1;
                    let delta = if edge { 0.005 + rng.range(0.0, 1.0).powi(2) * 4e-5 + 2e-8 } else { 0.0065 };
                    let sgn = if edge && rng.bool() && (q2 - q1).norm() > 0.1 { -1.0 } else { 1.0 };
                    let dir = (q2 - q1).normalize(); q2 = q2 + dir * (sgn * delta);
                }
                1 => {
                    let ax = nalgebra::Unit::new_normalize((q1 - q2).cross(&(q3 - q2)));
                    let before = d(&q1, &q3);
                    let mut ang = 0.01; let mut cand = q1;
                    for _ in 0..12 { cand = q2 + nalgebra::UnitQuaternion::from_axis_angle(&ax, ang) * (q1 - q2); if (d(&cand, &q3) - before).abs() > 0.0065 { break; } ang *= 1.6; }
                    if (d(&cand, &q3) - before).abs() > 0.0065 { q1 = cand; } else { let dir = (q2 - q1).normalize(); q2 = q2 + dir * 0.0065; }
                }
                _ => {
                    let ax = nalgebra::Unit::new_normalize((q2 - q1).cross(&(q3 - q1)));
                    let before = d(&q2, &q3);
                    let mut ang = 0.01; let mut cand = q3;
                    for _ in 0..12 { cand = q1 + nalgebra::UnitQuaternion::from_axis_angle(&ax, ang) * (q3 - q1); if (d(&q2, &cand) - before).abs() > 0.0065 { break; } ang *= 1.6; }
                    if (d(&q2, &cand) - before).abs() > 0.0065 { q3 = cand; } else { let dir = (q2 - q1).normalize(); q2 = q2 + dir * 0.0065; }
                }
            }
            expect = "not_isometry";
        }
        if kind == 4 { // perturb below the tolerance
            // half of them micrometres inside the 5 mm guard, stretching or shrinking the side
            let edge = (idx / 8) % 2 == 1;
            let delta = if edge { 0.005 - rng.range(0.0, 1.0).powi(2) * 4e-5 - 2e-8 } else { 0.003 };
            let sgn = if edge && rng.bool() && (q3 - q1).norm() > 0.1 { -1.0 } else { 1.0 };
            let dir = (q3 - q1).normalize(); q3 = q3 + dir * (sgn * delta); expect = "ok_perturbed";
        }
        if kind == 5 {
            // collinear target: the guard order is congruence, source, target, and a collinear target with exactly congruent distances
            // implies a collinear source, so the target branch is reached only within the 5 mm slack: a thin source triangle
            // (height 2-4 mm) against an exactly collinear target (dyadic coordinates, q3 the exact midpoint)
            let h = 0.001953125 * (1.0 + rng.below(2) as f64);
            let d = Vector3::new(1.0, 0.0, 0.0) * (0.5 + 0.25 * rng.below(4) as f64);
            p1 = Point3::new(0.25 * rng.int(-4, 4) as f64, 0.25 * rng.int(-4, 4) as f64, 0.0); p2 = p1 + d; p3 = p1 + 0.5 * d + Vector3::new(0.0, h, 0.0);
            let dq = [Vector3::new(1.0, 0.0, 0.0), Vector3::new(0.0, 1.0, 0.0), Vector3::new(0.0, 0.0, -1.0)][rng.below(3) as usize] * d.norm();
            q1 = Point3::new(3.0, 1.0, 2.0); q2 = q1 + dq; q3 = q1 + 0.5 * dq;
            expect = "collinear_target";
        }
        if kind == 6 { // forward_transformed
            let r = random_robot(&mut rng, idx, false, None);
            let j = origin_joints(&mut rng, &r, PoseKind::Reachable);
            let fr = Frame { robot: Arc::new(r.bare()), frame: m };
            // `previous` is its own argument: equal to the joints, near them, or somewhere else (another branch, another turn)
            let prev: rs_opw_kinematics::kinematic_traits::Joints = match rng.below(3) { 0 => j, 1 => std::array::from_fn(|i| j[i] + rng.range(-0.3, 0.3)), _ => std::array::from_fn(|_| rng.range(-6.0, 6.0)) };
            let (sols, pose) = fr.forward_transformed(&j, &prev);
            // = the wrapped robot's continuation from `previous` at the transformed pose
            let expect = r.bare().inverse_continuing(&(m * pose_of(&r, &j)), &prev);
            let want = m * pose_of(&r, &j);
            let mut direct = "ok"; let mut class = "";
            if (pose.translation.vector - want.translation.vector).norm() > 1e-9 || pose.rotation.angle_to(&want.rotation) > 1e-9 { direct = "fail"; class = "C17.transformed_pose_is_not_frame_times_forward"; }
            for s in &sols { let (ok, _, _) = realises(&r, &pose, s, false); if !ok && direct == "ok" { direct = "fail"; class = "C17.transformed_solution_does_not_realise_pose"; } }
            let dist = |s: &[f64; 6]| (0..6).map(|i| (s[i] - prev[i]).abs()).sum::<f64>();
            for w in sols.windows(2) { if dist(&w[0]) > dist(&w[1]) + 1e-9 && direct == "ok" { direct = "fail"; class = "C17.transformed_solutions_not_ordered"; } }
            let same = expect.len() == sols.len() && expect.iter().zip(sols.iter()).all(|(a, b)| (0..6).all(|i| (a[i] - b[i]).abs() <= 1e-9));
            if !same && direct == "ok" { direct = "fail"; class = "C17.transformed_solutions_are_not_the_continuation_from_previous"; }
            println!("{}", Obj::new().s("prop", "C17").s("what", "forward_transformed").i("case", idx as i64).i("nsol", sols.len() as i64).s("direct", direct).s("class", class).done());
            continue;
        }
        if kind == 5 { cross = (p2 - p1).cross(&(p3 - p1)).norm(); }
        if kind == 3 || kind == 4 {
            let dd = |a: &Point3<f64>, b: &Point3<f64>| (a - b).norm();
            let mm = (dd(&p1, &p2) - dd(&q1, &q2)).abs().max((dd(&p1, &p3) - dd(&q1, &q3)).abs()).max((dd(&p2, &p3) - dd(&q2, &q3)).abs());
            if (mm - 0.005).abs() < 1e-9 { continue; }
            expect = if mm > 0.005 { "not_isometry" } else { "ok_perturbed" };
        }
        let res = Frame::frame(p1, p2, p3, q1, q2, q3);
        let got = classify(&res);
        let mut direct = "ok".to_string(); let mut class = String::new();
        let mut vals: Vec<f64> = Vec::new();
        match (&res, expect) {
            (Ok(f), "ok") | (Ok(f), "ok_perturbed") => {
                let rf = pose_to_ref(f);
                vals = pose_fields(&rf);
                // proper
                let mut e = 0.0f64;
                for a in 0..3 { for b in 0..3 { let mut d = 0.0; for k in 0..3 { d += rf.r[k][a] * rf.r[k][b]; } e = e.max((d - if a == b { 1.0 } else { 0.0 }).abs()); } }
                if e > 1e-9 { direct = "fail".into(); class = "C17.frame_not_a_proper_rotation".into(); }
                if expect == "ok" && cross > 1e-3 {
                    let scale = 1.0 + p1.coords.norm().max(p2.coords.norm()).max(p3.coords.norm());
                    for (p, q) in [(p1, q1), (p2, q2), (p3, q3)] { if ((f * p) - q).norm() > 1e-9 * scale * scale / cross.min(1.0) && direct == "ok" { direct = "fail".into(); class = "C17.frame_does_not_map_point_to_image".into(); } }
                    if ((f.translation.vector - m.translation.vector).norm() > 1e-8 * scale * scale / cross.min(1.0) || f.rotation.angle_to(&m.rotation) > 1e-8 * scale / cross.min(1.0)) && direct == "ok" { direct = "fail".into(); class = "C17.frame_differs_from_the_motion".into(); }
                }
            }
            (_, "ok") | (_, "ok_perturbed") => { direct = "fail".into(); class = format!("C17.valid_triple_rejected_{}", got); }
            (_, e) => { if got != e { direct = "fail".into(); class = format!("C17.expected_{}_got_{}", e, got); } }
        }
        println!("{}", Obj::new().s("prop", "C17").s("what", "frame").i("case", idx as i64).i("kind", kind as i64)
            .raw("p", &format!("[{},{},{}]", pj(&p1), pj(&p2), pj(&p3))).raw("q", &format!("[{},{},{}]", pj(&q1), pj(&q2), pj(&q3)))
            .s("expect", expect).s("got", &got).fs("frame", &vals).d("cross", cross).s("direct", &direct).s("class", &class).done());
    }
}
fn classify(r: &Result<nalgebra::Isometry3<f64>, Box<dyn std::error::Error>>) -> String {
    match r {
        Ok(_) => "ok".into(),
        Err(e) => if let Some(c) = e.downcast_ref::<ColinearPoints>() { if c.source { "collinear_source".into() } else { "collinear_target".into() } }
                  else if e.downcast_ref::<NotIsometry>().is_some() { "not_isometry".into() } else { "other_error".into() },
    }
}
