//! C01: every IK answer of every entry point reproduces the pose (independent FK), is finite,
//! plain inverse is normalised to [-pi,pi], unreachable poses give [], never a panic.
use crate::ik::*;
use crate::robots::*;
use crate::util::*;
use rs_opw_kinematics::kinematic_traits::{Joints, Pose};
use std::f64::consts::PI;

pub fn check(r: &Robot, pose: &Pose, entry: u8, prev: &Joints, j6: f64, unreachable: bool) -> (String, String, usize) {
    let k = r.solver();
    let res = guarded(std::panic::AssertUnwindSafe(|| call_entry(&k, entry, pose, prev, j6)));
    let sols = match res { Err(m) => return ("fail".into(), format!("C01.panic_entry{}: {}", entry, m.chars().take(60).collect::<String>()), 0), Ok(s) => s };
    let five = r.p.dof == 5 || entry >= 2;
    for s in &sols {
        if !s.iter().all(|x| x.is_finite()) { return ("fail".into(), format!("C01.nonfinite_entry{}", entry), sols.len()); }
        let (ok, _d, _a) = realises(r, pose, s, five);
        if !ok { return ("fail".into(), format!("C01.{}_entry{}", if five { "wrong_point_or_axis_5dof" } else { "wrong_pose" }, entry), sols.len()); }
        if entry == 0 {
            let n = if five { 5 } else { 6 };
            if !(0..n).all(|i| s[i].abs() <= PI + 1e-12) { return ("fail".into(), "C01.inverse_not_normalised".into(), sols.len()); }
        }
    }
    if unreachable && !sols.is_empty() { return ("fail".into(), format!("C01.unreachable_nonempty_entry{}", entry), sols.len()); }
    ("ok".into(), String::new(), sols.len())
}

pub fn main(tier: &str, seed: u64, n_override: Option<u64>) {
    std::panic::set_hook(Box::new(|_| {}));
    let n = n_override.unwrap_or(if tier == "thorough" { 300_000 } else { 12_000 });
    let mut rng = Rng::new(seed ^ 0xC01);
    let kinds = [PoseKind::Reachable, PoseKind::Reachable, PoseKind::Sing0, PoseKind::SingPi, PoseKind::Unreachable, PoseKind::OnAxis, PoseKind::Stretched, PoseKind::Random, PoseKind::NearSing];
    for idx in 0..n {
        let mut r = random_robot(&mut rng, idx, idx % 3 == 0, None);
        if idx % 7 == 3 { r.p.dof = 5; }
        let kind = kinds[(idx % 9) as usize];
        let (mut pose, origin) = make_pose(&mut rng, &r, kind);
        let entry = (rng.below(4)) as u8;
        let mut prev: Joints = match rng.below(5) {
            0 => origin.unwrap_or([0.0; 6]),
            1 => { let o = origin.unwrap_or([0.0; 6]); std::array::from_fn(|i| o[i] + rng.range(-0.05, 0.05)) }
            2 => std::array::from_fn(|_| rng.range(-2.0 * PI, 2.0 * PI)),
            3 => std::array::from_fn(|_| rng.range(-40.0, 40.0)),
            _ => sentinel(),
        };
        if entry == 3 && prev[0].is_nan() && rng.bool() { prev = [0.0; 6]; }
        let j6 = dy(rng.range(-3.0, 3.0), 12);
        let mut tag = format!("{:?}", kind);
        if idx % 97 == 5 {
            // non-finite pose component
            let bad = [f64::NAN, f64::INFINITY, f64::NEG_INFINITY][rng.below(3) as usize];
            let mut t = pose.translation;
            match rng.below(3) { 0 => t.x = bad, 1 => t.y = bad, _ => t.z = bad }
            pose = Pose::from_parts(t, pose.rotation);
            tag = "NonFinite".into();
        }
        let unreachable = kind == PoseKind::Unreachable || tag == "NonFinite";
        let (direct, class, nsol) = check(&r, &pose, entry, &prev, j6, unreachable);
        println!("{}", Obj::new().s("prop", "C01").i("case", idx as i64).raw("robot", &r.json()).s("kind", &tag)
            .i("entry", entry as i64).raw("pose", &if tag == "NonFinite" { "null".to_string() } else { pose_json(&pose) })
            .raw("prev", &if prev[0].is_nan() { "null".to_string() } else { fxs(&prev) }).f("j6", j6)
            .i("nsol", nsol as i64).s("direct", &direct).s("class", &class).done());
    }
}
