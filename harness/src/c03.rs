//! C03: forward kinematics = OPW link chain.
use crate::robots::*;
use crate::util::*;
use rs_opw_kinematics::kinematic_traits::Kinematics;
use rs_opw_kinematics::kinematics_impl::OPWKinematics;
use rs_opw_kinematics::parameters::opw_kinematics::Parameters;

pub fn run_case(p: &Parameters, j: &[f64; 6], idx: u64, rng: &mut Rng) -> String {
    let k = OPWKinematics::new(*p);
    let f = pose_to_ref(&k.forward(j));
    let links: Vec<RefPose> = k.forward_with_joint_poses(j).iter().map(pose_to_ref).collect();
    let r = ref_chain(p, j);
    let scale = 1.0 + j.iter().fold(0.0f64, |a, b| a.max(b.abs()));
    let tol = 2e-10 * scale; // f64 sin/cos of large arguments lose absolute accuracy ~ |q| ulp
    let mut direct = "ok"; let mut class = String::new(); let mut worst = (0.0f64, 0.0f64);
    let (d, a) = pose_diff(&f, &r[5]);
    worst = (worst.0.max(d), worst.1.max(a));
    if d > tol || a > tol { direct = "fail"; class = "C03.forward_differs_from_chain_reference".into(); }
    for i in 0..6 {
        let (d, a) = pose_diff(&links[i], &r[i]);
        worst = (worst.0.max(d), worst.1.max(a));
        if (d > tol || a > tol) && direct == "ok" { direct = "fail"; class = format!("C03.link{}_differs_from_reference", i + 1); }
    }
    let (d, a) = pose_diff(&links[5], &f);
    if (d > tol || a > tol) && direct == "ok" { direct = "fail"; class = "C03.last_link_differs_from_forward".into(); }
    // prefix dependence: change joints after i, link i must not move at all
    let i = rng.below(5) as usize;
    let mut j2 = *j;
    for m in (i + 1)..6 { j2[m] += rng.range(-3.0, 3.0); }
    let links2: Vec<RefPose> = k.forward_with_joint_poses(&j2).iter().map(pose_to_ref).collect();
    for m in 0..=i {
        if pose_fields(&links2[m]) != pose_fields(&links[m]) && direct == "ok" { direct = "fail"; class = format!("C03.link{}_depends_on_later_joint", m + 1); }
    }
    // offsets between consecutive origins
    let want = [(p.a1 * p.a1 + p.b * p.b).sqrt(), p.c2.abs(), p.a2.abs(), p.c3.abs(), p.c4.abs()];
    for m in 0..5 {
        let dd = ((links[m + 1].t[0] - links[m].t[0]).powi(2) + (links[m + 1].t[1] - links[m].t[1]).powi(2) + (links[m + 1].t[2] - links[m].t[2]).powi(2)).sqrt();
        if (dd - want[m]).abs() > 1e-9 && direct == "ok" { direct = "fail"; class = format!("C03.origin_offset_{}_{}", m + 1, m + 2); }
    }
    // properness
    for l in links.iter().chain(std::iter::once(&f)) {
        let mut t = [[0.0; 3]; 3];
        for a in 0..3 { for b in 0..3 { t[a][b] = l.r[a][b]; } }
        let rt = [[t[0][0], t[1][0], t[2][0]], [t[0][1], t[1][1], t[2][1]], [t[0][2], t[1][2], t[2][2]]];
        let id = mmul(&rt, &t);
        let det = t[0][0] * (t[1][1] * t[2][2] - t[1][2] * t[2][1]) - t[0][1] * (t[1][0] * t[2][2] - t[1][2] * t[2][0]) + t[0][2] * (t[1][0] * t[2][1] - t[1][1] * t[2][0]);
        let mut e = (det - 1.0).abs();
        for a in 0..3 { for b in 0..3 { e = e.max((id[a][b] - if a == b { 1.0 } else { 0.0 }).abs()); } }
        if e > 1e-9 && direct == "ok" { direct = "fail"; class = "C03.rotation_not_proper".into(); }
    }
    let mut o = Obj::new().s("prop", "C03").i("case", idx as i64).raw("params", &params_json(p)).fs("j", j)
        .fs("fwd", &pose_fields(&f));
    for i in 0..6 { o = o.fs(&format!("link{}", i + 1), &pose_fields(&links[i])); }
    o.d("worst_d", worst.0).d("worst_a", worst.1).s("direct", direct).s("class", &class).done()
}

pub fn main(tier: &str, seed: u64, n_override: Option<u64>) {
    let n = n_override.unwrap_or(if tier == "thorough" { 200_000 } else { 4_000 });
    let mut rng = Rng::new(seed ^ 0xC03);
    for idx in 0..n {
        let mut p = if idx % 8 == 0 { known_params(idx / 8) } else { random_params(&mut rng) };
        // forward kinematics does not depend on how many joints the inverse solves for
        if idx % 6 == 1 { p.dof = 5; }
        let span = match idx % 5 { 0 => 100.0, 1 => 7.0, _ => 3.2 };
        let j = random_joints(&mut rng, span);
        println!("{}", run_case(&p, &j, idx, &mut rng));
    }
}
