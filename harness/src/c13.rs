//! C13: a returned RRT path joins start to goal through collision-free configurations.
use crate::util::*;
use rs_opw_kinematics::verif_hooks_rrt::dual_rrt_connect;
use std::cell::{Cell, RefCell};
use std::sync::atomic::{AtomicBool, Ordering};

#[derive(Clone)]
pub struct BoxObs { pub lo: [f64; 6], pub hi: [f64; 6] }
fn inside(b: &BoxObs, p: &[f64]) -> bool { (0..6).all(|i| b.lo[i] <= p[i] && p[i] <= b.hi[i]) }
fn dist(a: &[f64], b: &[f64]) -> f64 { a.iter().zip(b).map(|(x, y)| (x - y) * (x - y)).sum::<f64>().sqrt() }
fn q(x: f64) -> f64 { (x * 1024.0).round() / 1024.0 }

/// end to end: RRTPlanner::plan_rrt on a robot with shapes, obstacles and (in some cells) safety distances
pub fn e2e(tier: &str, seed: u64) {
    use rs_opw_kinematics::kinematic_traits::{Joints, Kinematics};
    use rs_opw_kinematics::rrt::RRTPlanner;
    let n = if tier == "thorough" { 4000 } else { 400 };
    let mut rng = Rng::new(seed ^ 0xC13E2E);
    for idx in 0..n {
        // cells of the stroke oracle: free / far / grazing / blocking box, near-miss box with a 4 cm safety distance
        let layout = [0u64, 1, 2, 3, 5][(idx % 5) as usize];
        let cell = crate::c12::make_cell(&mut rng, layout);
        let step = [0.05f64, 0.1, 0.2][rng.below(3) as usize];
        let planner = RRTPlanner { step_size_joint_space: step, max_try: 400, debug: false };
        let start: Joints = cell.from;
        let kind = rng.below(4);
        let goal: Joints = match kind {
            0 => start,                                                                        // start == goal
            1 => std::array::from_fn(|i| start[i] + rng.range(-0.4, 0.4) * step / 2.45),        // within one step
            _ => std::array::from_fn(|i| start[i] + rng.range(-0.8, 0.8)),
        };
        let lim_ok = |j: &Joints| cell.robot.constraints().as_ref().map(|c| c.compliant(j)).unwrap_or(true);
        let clear = |j: &Joints| !cell.robot.collides(j) && (cell.env.is_empty() || crate::c12::env_distance(&cell, j) > cell.margin + 2e-4);
        if !lim_ok(&start) || !lim_ok(&goal) || !clear(&start) || !clear(&goal) { continue; }
        let mut direct = "ok".to_string(); let mut class = String::new();
        let mut fail = |c: &str| { if direct == "ok" { direct = "fail".into(); class = c.into(); } };
        // (a) a raised cancellation flag gives an error, whatever the distance between start and goal
        let raised = AtomicBool::new(true);
        if planner.plan_rrt(&start, &goal, &cell.robot, &raised).is_ok() { fail("C13.path_returned_although_cancelled"); }
        // (b) an ordinary run
        let stop = AtomicBool::new(false);
        let res = planner.plan_rrt(&start, &goal, &cell.robot, &stop);
        let mut npath = -1i64;
        if let Ok(path) = &res {
            npath = path.len() as i64;
            if path.is_empty() || path[0] != start { fail("C13.path_does_not_begin_with_start"); }
            if path.is_empty() || path[path.len() - 1] != goal { fail("C13.path_does_not_end_with_goal"); }
            for p in path.iter() {
                if cell.robot.collides(p) { fail("C13.node_collides"); }
                if !cell.env.is_empty() { let d = crate::c12::env_distance(&cell, p); if d < cell.margin - 2e-4 || (cell.margin == 0.0 && d == 0.0) { fail("C13.node_closer_than_safety_distance"); } }
                if !lim_ok(p) { fail("C13.node_outside_limits"); }
            }
            for w in path.windows(2) { let d = (0..6).map(|i| (w[0][i] - w[1][i]).powi(2)).sum::<f64>().sqrt(); if d > 3.0 * step + 1e-9 { fail("C13.hop_longer_than_three_steps"); } }
        }
        println!("{}", Obj::new().s("prop", "C13").s("what", "e2e").i("case", idx as i64).s("layout", cell.layout).f("step", step).i("kind", kind as i64)
            .fs("start", &start).fs("goal", &goal).b("planned", res.is_ok()).i("nodes", npath).s("direct", &direct).s("class", &class).done());
    }
}

pub fn main(tier: &str, seed: u64, n_override: Option<u64>) {
    if n_override.is_none() || n_override == Some(0) { e2e(tier, seed); }
    let n = n_override.unwrap_or(if tier == "thorough" { 8_000 } else { 160 });
    let mut rng = Rng::new(seed ^ 0xC13);
    for idx in 0..n {
        // joint-space box [-3,3]^6 with 0..3 obstacles; active dimensions 2 or 3 keep runs short (others constant samples)
        let active = 2 + rng.below(2) as usize;
        let nobs = rng.below(4) as usize;
        let mut obs: Vec<BoxObs> = Vec::new();
        for _ in 0..nobs {
            let mut lo = [-10.0; 6]; let mut hi = [10.0; 6];
            for d in 0..active { let c = q(rng.range(-2.0, 2.0)); let w = q(rng.range(0.2, 0.9)); lo[d] = c - w; hi[d] = c + w; }
            if rng.below(3) == 0 { lo[0] = -10.0; hi[0] = 10.0; lo[1] = q(rng.range(-0.5, 0.0)); hi[1] = lo[1] + 0.5; if active > 2 { hi[2] = q(rng.range(0.5, 2.0)); lo[2] = -10.0; } } // a wall with a gap
            obs.push(BoxObs { lo, hi });
        }
        let free = |p: &[f64]| !obs.iter().any(|b| inside(b, p));
        let mut pick_free = |rng: &mut Rng| -> [f64; 6] {
            loop { let mut p = [0.0; 6]; for d in 0..active { p[d] = q(rng.range(-2.9, 2.9)); } if free(&p) { return p; } }
        };
        let start = pick_free(&mut rng); let goal = pick_free(&mut rng);
        let step = [0.25, 0.5, 0.1, 1.0][rng.below(4) as usize];
        let max_try = [5usize, 40, 150][rng.below(3) as usize];
        // sample stream
        let nsamp = max_try;
        let samples: Vec<[f64; 6]> = (0..nsamp).map(|_| { let mut p = [0.0; 6]; for d in 0..active { p[d] = q(rng.range(-3.0, 3.0)); } p }).collect();
        let cursor = Cell::new(0usize);
        let sampler = || -> Vec<f64> { let k = cursor.get(); cursor.set(k + 1); samples[k.min(nsamp - 1)].to_vec() };
        // cancellation: never / before / raised when the k-th collision query is made
        let cancel_mode = rng.below(5);
        let cancel_at = rng.below(60) as usize;
        let stop = AtomicBool::new(cancel_mode == 1);
        let queries = RefCell::new(Vec::<Vec<f64>>::new());
        let raised_iter = Cell::new(if cancel_mode == 1 { 0i64 } else { -1i64 });
        let is_free = |p: &[f64]| -> bool {
            queries.borrow_mut().push(p.to_vec());
            if cancel_mode == 2 && queries.borrow().len() == cancel_at { stop.store(true, Ordering::Relaxed); raised_iter.set(cursor.get() as i64); }
            free(p)
        };
        let res = dual_rrt_connect(&start, &goal, is_free, sampler, step, max_try, &stop);
        let used = cursor.get();
        let raised = stop.load(Ordering::Relaxed);
        let mut direct = "ok".to_string(); let mut class = String::new();
        let mut fail = |c: &str| { if direct == "ok" { direct = "fail".into(); class = c.into(); } };
        let mut hops_max = 0.0f64;
        match &res {
            Ok(path) => {
                if path.is_empty() || path[0] != start.to_vec() { fail("C13.path_does_not_begin_with_start"); }
                if path.is_empty() || path[path.len() - 1] != goal.to_vec() { fail("C13.path_does_not_end_with_goal"); }
                for p in path { if !free(p) { fail("C13.path_node_not_collision_free"); } if p.iter().any(|x| x.abs() > 3.0 + 1e-12) { fail("C13.path_node_outside_limits"); } }
                for w in path.windows(2) { let d = dist(&w[0], &w[1]); hops_max = hops_max.max(d); if d > 3.0 * step + 1e-9 { fail("C13.hop_longer_than_three_steps"); } }
                if cancel_mode == 1 { fail("C13.path_returned_although_cancelled_before"); }
            }
            Err(e) => {
                if cancel_mode == 1 && e != "Cancelled" { fail("C13.cancel_before_not_reported"); }
            }
        }
        // a flag raised during an iteration must yield an error unless the path was completed within that same iteration
        if cancel_mode == 2 && raised && res.is_ok() {
            // queries made after the flag was raised: all belong to the iteration in progress?  (checked by the model correspondence)
        }
        let qs = queries.borrow();
        let path_json = match &res { Ok(p) => format!("[{}]", p.iter().map(|x| fxs(x)).collect::<Vec<_>>().join(",")), Err(_) => "null".into() };
        let obs_json: Vec<String> = obs.iter().map(|b| format!("{{\"lo\":{},\"hi\":{}}}", fxs(&b.lo), fxs(&b.hi))).collect();
        // the stop flag as seen at the beginning of each iteration is reconstructed by the runner from cancel_mode / cancel_at / queries
        println!("{}", Obj::new().s("prop", "C13").i("case", idx as i64).fs("start", &start).fs("goal", &goal).f("step", step).i("max_try", max_try as i64)
            .raw("obs", &format!("[{}]", obs_json.join(","))).raw("samples", &format!("[{}]", samples[..used.min(nsamp)].iter().map(|x| fxs(x)).collect::<Vec<_>>().join(",")))
            .i("stop_from_iter", raised_iter.get()).i("cancel_mode", cancel_mode as i64).i("cancel_at", cancel_at as i64).i("n_queries", qs.len() as i64)
            .s("result", &match &res { Ok(_) => "ok".to_string(), Err(e) => e.clone() }).raw("path", &path_json).d("hops_max", hops_max)
            .s("direct", &direct).s("class", &class).done());
    }
}
