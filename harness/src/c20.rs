//! C20: URDF extraction. `C20files <dir>` parses every *.urdf in dir (first line may carry `<!-- names: a,b,c,d,e,f -->`).
use crate::ik::guarded;
use crate::util::*;
use rs_opw_kinematics::urdf::from_urdf;
use rs_opw_kinematics::verif_hooks_names::preprocess_joint_name;

pub fn files(dir: &str) {
    std::panic::set_hook(Box::new(|_| {}));
    let mut names: Vec<String> = std::fs::read_dir(dir).unwrap().filter_map(|e| e.ok()).map(|e| e.path().display().to_string()).filter(|p| p.ends_with(".urdf")).collect();
    names.sort();
    for p in names {
        let text = std::fs::read_to_string(&p).unwrap_or_default();
        let given: Option<Vec<String>> = text.lines().next().and_then(|l| l.strip_prefix("<!-- names: ")).and_then(|l| l.strip_suffix(" -->")).map(|l| l.split(',').map(|s| s.to_string()).collect());
        let r = guarded(std::panic::AssertUnwindSafe(|| {
            match &given {
                Some(v) if v.len() == 6 => { let arr: [&str; 6] = std::array::from_fn(|i| v[i].as_str()); from_urdf(text.clone(), &Some(arr)) }
                _ => from_urdf(text.clone(), &None),
            }.map_err(|e| format!("{:?}", e).chars().take(100).collect::<String>())
        }));
        let back = match &r {
            Err(m) => Obj::new().s("outcome", "panic").s("msg", m).done(),
            Ok(Err(e)) => Obj::new().s("outcome", "err").s("msg", e).done(),
            Ok(Ok(u)) => {
                // the extracted limits must make a usable solver: joints without limits are unconstrained
                let k = u.constraints(0.0);
                let free: Vec<bool> = (0..6).map(|i| { let mut a = k.centers; a[i] = k.centers[i] + 2.5; k.compliant(&a) }).collect();
                Obj::new().s("outcome", "ok").fs("geom", &[u.a1, u.a2, u.b, u.c1, u.c2, u.c3, u.c4]).raw("sg", &format!("{:?}", u.sign_corrections))
                    .fs("from", &u.from).fs("to", &u.to).i("dof", u.dof as i64).raw("accepts_shifted", &format!("{:?}", free)).done()
            }
        };
        println!("{}", Obj::new().s("prop", "C20").s("what", "file").s("file", &p).raw("back", &back).done());
    }
}
pub fn names(list: &str) {
    for n in list.split('\n').filter(|s| !s.is_empty()) {
        println!("{}", Obj::new().s("prop", "C20").s("what", "name").s("name", n).s("out", &preprocess_joint_name(n)).done());
    }
}
