//! Shared helpers: deterministic PRNG, exact f64 printing, tiny JSON writer.
use std::fmt::Write;

#[derive(Clone)]
pub struct Rng(pub u64);
impl Rng {
    pub fn new(seed: u64) -> Self { Rng(seed.wrapping_mul(0x9E3779B97F4A7C15) ^ 0xD1B54A32D192ED03) }
    pub fn next(&mut self) -> u64 {
        self.0 = self.0.wrapping_add(0x9E3779B97F4A7C15);
        let mut z = self.0;
        z = (z ^ (z >> 30)).wrapping_mul(0xBF58476D1CE4E5B9);
        z = (z ^ (z >> 27)).wrapping_mul(0x94D049BB133111EB);
        z ^ (z >> 31)
    }
    /// uniform in [0,1)
    pub fn unit(&mut self) -> f64 { (self.next() >> 11) as f64 / (1u64 << 53) as f64 }
    pub fn range(&mut self, lo: f64, hi: f64) -> f64 { lo + (hi - lo) * self.unit() }
    pub fn below(&mut self, n: u64) -> u64 { self.next() % n }
    pub fn int(&mut self, lo: i64, hi: i64) -> i64 { lo + (self.next() % ((hi - lo + 1) as u64)) as i64 }
    pub fn bool(&mut self) -> bool { self.next() & 1 == 1 }
    pub fn pick<T: Copy>(&mut self, xs: &[T]) -> T { xs[self.below(xs.len() as u64) as usize] }
}

/// exact f64 as a JSON string of its bit pattern
pub fn fx(x: f64) -> String { format!("\"{:016x}\"", x.to_bits()) }
pub fn fxs(xs: &[f64]) -> String {
    let mut s = String::from("[");
    for (i, x) in xs.iter().enumerate() { if i > 0 { s.push(','); } s.push_str(&fx(*x)); }
    s.push(']'); s
}
pub fn fxss(xs: &[[f64; 6]]) -> String {
    let mut s = String::from("[");
    for (i, x) in xs.iter().enumerate() { if i > 0 { s.push(','); } s.push_str(&fxs(x)); }
    s.push(']'); s
}
pub fn jstr(x: &str) -> String {
    let mut s = String::from("\"");
    for c in x.chars() {
        match c { '"' => s.push_str("\\\""), '\\' => s.push_str("\\\\"), '\n' => s.push_str("\\n"),
                  c if (c as u32) < 0x20 => { let _ = write!(s, "\\u{:04x}", c as u32); }, c => s.push(c) }
    }
    s.push('"'); s
}
/// JSON object builder
pub struct Obj(String);
impl Obj {
    pub fn new() -> Self { Obj(String::from("{")) }
    pub fn raw(mut self, k: &str, v: &str) -> Self {
        if self.0.len() > 1 { self.0.push(','); }
        let _ = write!(self.0, "\"{}\":{}", k, v); self
    }
    pub fn s(self, k: &str, v: &str) -> Self { let j = jstr(v); self.raw(k, &j) }
    pub fn i(self, k: &str, v: i64) -> Self { self.raw(k, &v.to_string()) }
    pub fn b(self, k: &str, v: bool) -> Self { self.raw(k, if v { "true" } else { "false" }) }
    pub fn f(self, k: &str, v: f64) -> Self { let j = fx(v); self.raw(k, &j) }
    pub fn fs(self, k: &str, v: &[f64]) -> Self { let j = fxs(v); self.raw(k, &j) }
    /// approximate decimal, for human-readable residuals only
    pub fn d(self, k: &str, v: f64) -> Self {
        let j = if v.is_finite() { format!("{:e}", v) } else { format!("\"{}\"", v) }; self.raw(k, &j) }
    pub fn done(mut self) -> String { self.0.push('}'); self.0 }
}
pub fn parse_fx(s: &str) -> f64 { f64::from_bits(u64::from_str_radix(s.trim_matches('"'), 16).expect("hex f64")) }
