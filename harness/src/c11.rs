//! C11: KinematicsWithShape = the underlying Tool(Base(OPW+limits)) stack filtered by the collision verdict.
use crate::c09::random_iso;
use crate::ik::*;
use crate::robots::*;
use crate::scene::box_mesh;
use crate::util::*;
use nalgebra::{Isometry3, Translation3};
use parry3d::shape::TriMesh;
use rs_opw_kinematics::collisions::{CheckMode, CollisionBody, SafetyDistances};
use rs_opw_kinematics::constraints::Constraints;
use rs_opw_kinematics::kinematic_traits::{Joints, Kinematics, Pose};
use rs_opw_kinematics::kinematics_impl::OPWKinematics;
use rs_opw_kinematics::kinematics_with_shape::KinematicsWithShape;
use rs_opw_kinematics::tool::{Base, Tool};
use std::f64::consts::PI;
use std::sync::Arc;

fn pdiff(a: &Pose, b: &Pose) -> f64 { (a.translation.vector - b.translation.vector).norm() + a.rotation.angle_to(&b.rotation) }

pub fn main(tier: &str, seed: u64, n_override: Option<u64>) {
    let n = n_override.unwrap_or(if tier == "thorough" { 20_000 } else { 1_200 });
    let mut rng = Rng::new(seed ^ 0xC11);
    for idx in 0..n {
        let p = known_params(idx);
        let j = { let r = Robot { p, cons: None }; let j0 = origin_joints(&mut rng, &r, PoseKind::Reachable);
            // some poses have the elbow a fraction of a milliradian from stretched / folded: two distinct answers that nearly coincide
            if idx % 8 == 5 { let mut qm = r.to_model(&j0); let e = 10f64.powf(rng.range(-5.0, -3.0)) * if rng.bool() { 1.0 } else { -1.0 };
                qm[2] = -f64::atan2(p.a2, p.c3) + if rng.below(4) == 0 { PI + e } else { e }; r.from_model(&qm) } else { j0 } };
        let (f, t, w) = if idx % 3 == 0 { random_constraints(&mut rng, Some(&j)) } else { ([-3.1; 6], [3.1; 6], 0.0) };
        let cons = Constraints::new(f, t, w);
        let mut base_t = random_iso(&mut rng, false);
        let mut tool_t = random_iso(&mut rng, idx % 2 == 1);
        // transforms without an offset are transforms too: robot mounted upside down / tilted at the origin, angled tool at the flange centre
        if idx % 5 == 3 { base_t.translation.vector = nalgebra::Vector3::zeros(); }
        if idx % 7 == 4 { tool_t.translation.vector = nalgebra::Vector3::zeros(); }
        if idx % 35 == 6 { base_t = Isometry3::identity(); }
        if idx % 35 == 9 { tool_t = Isometry3::identity(); }
        let sz = |rng: &mut Rng| (rng.range(0.03, 0.12) * 256.0).round() as f32 / 256.0;
        let meshes: [TriMesh; 6] = std::array::from_fn(|_| box_mesh(sz(&mut rng), sz(&mut rng), sz(&mut rng), 1));
        let base_mesh = box_mesh(0.2, 0.2, 0.05, 1);
        let tool_mesh = box_mesh(0.03, 0.03, 0.1, 1);
        let mk_env = |rng: &mut Rng| -> Vec<CollisionBody> {
            (0..rng.below(4)).map(|_| CollisionBody { mesh: box_mesh(sz(rng) * 4.0, sz(rng) * 4.0, sz(rng) * 4.0, 2),
                pose: Isometry3::from_parts(Translation3::new(rng.range(-1.2, 1.2) as f32, rng.range(-1.2, 1.2) as f32, rng.range(0.0, 1.5) as f32), nalgebra::UnitQuaternion::identity()) }).collect()
        };
        let env = mk_env(&mut rng);
        let ctor = idx % 2;
        let kws = if ctor == 0 {
            KinematicsWithShape::new(p, cons, meshes.clone(), base_mesh.clone(), base_t, tool_mesh.clone(), tool_t, env, rng.bool())
        } else {
            let mut s = SafetyDistances::standard(if rng.bool() { CheckMode::AllCollsions } else { CheckMode::FirstCollisionOnly });
            s.to_environment = [0.0f32, 0.05][rng.below(2) as usize]; s.to_robot_default = [0.0f32, 0.02][rng.below(2) as usize];
            KinematicsWithShape::with_safety(p, cons, meshes.clone(), base_mesh.clone(), base_t, tool_mesh.clone(), tool_t, env, s)
        };
        // independently assembled stack
        let inner: Arc<dyn Kinematics> = Arc::new(Tool { robot: Arc::new(Base { robot: Arc::new(OPWKinematics::new_with_constraints(p, cons)), base: base_t }), tool: tool_t });
        let mut direct = "ok".to_string(); let mut class = String::new();
        let mut fail = |c: String| { if direct == "ok" { direct = "fail".into(); class = c; } };
        let pose = inner.forward(&j);
        if pdiff(&kws.forward(&j), &pose) > 1e-12 { fail("C11.forward_not_that_of_stack".into()); }
        let (la, lb) = (kws.forward_with_joint_poses(&j), inner.forward_with_joint_poses(&j));
        for i in 0..6 { if pdiff(&la[i], &lb[i]) > 1e-12 { fail("C11.link_poses_not_those_of_stack".into()); } }
        match (kws.constraints(), inner.constraints()) { (Some(a), Some(b)) => if a.from != b.from || a.to != b.to { fail("C11.limits_not_those_of_stack".into()); }, _ => fail("C11.limits_missing".into()) }
        if kws.kinematic_singularity(&j).is_some() != inner.kinematic_singularity(&j).is_some() { fail("C11.singularity_not_that_of_stack".into()); }
        // meshes placed at the link poses
        let pr = kws.positioned_robot(&j);
        for i in 0..6 { let want: Isometry3<f32> = lb[i].cast::<f32>(); if (pr.joints[i].transform.translation.vector - want.translation.vector).norm() > 1e-6 || pr.joints[i].transform.rotation.angle_to(&want.rotation) > 1e-5 { fail("C11.mesh_not_at_link_pose".into()); } }
        if let Some(tl) = &pr.tool { let want: Isometry3<f32> = lb[5].cast::<f32>(); if (tl.transform.translation.vector - want.translation.vector).norm() > 1e-6 { fail("C11.tool_mesh_not_at_flange_pose".into()); } }
        // inverse entry points: exactly the non-colliding stack answers, in order
        let entry = rng.below(4) as u8;
        let prev: Joints = match rng.below(3) { 0 => j, 1 => std::array::from_fn(|i| j[i] + rng.range(-0.3, 0.3)), _ => std::array::from_fn(|_| rng.range(-2.0 * PI, 2.0 * PI)) };
        let j6 = j[5];
        let got = call_entry(&kws, entry, &pose, &prev, j6);
        let all = call_entry(inner.as_ref(), entry, &pose, &prev, j6);
        let want: Vec<Joints> = all.iter().filter(|s| !kws.collides(s)).cloned().collect();
        if got != want {
            if got.iter().any(|g| kws.collides(g)) { fail(format!("C11.colliding_solution_returned_entry{}", entry)); }
            else if got.len() == want.len() { fail(format!("C11.order_changed_entry{}", entry)); }
            else { fail(format!("C11.non_colliding_solution_dropped_or_foreign_entry{}", entry)); }
        }
        println!("{}", Obj::new().s("prop", "C11").i("case", idx as i64).i("ctor", ctor as i64).i("entry", entry as i64).fs("j", &j)
            .i("n_stack", all.len() as i64).i("n_free", want.len() as i64).i("nsol", got.len() as i64).s("direct", &direct).s("class", &class).done());
    }
}
