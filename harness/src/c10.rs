//! C10: collision verdicts equal a brute-force pairwise check at the safety distances.
use crate::scene::*;
use crate::util::*;
use rs_opw_kinematics::collisions::{CheckMode, SafetyDistances, NEVER_COLLIDES};
use rs_opw_kinematics::kinematic_traits::Joints;
use std::collections::BTreeSet;

/// independent reading of the safety table: a special entry in either key order, else the environment / robot default
pub fn ref_min_distance(s: &SafetyDistances, a: u16, b: u16) -> f32 {
    for ((x, y), v) in s.special_distances.iter() {
        if (*x == a && *y == b) || (*x == b && *y == a) { return *v; }
    }
    if a as usize >= rs_opw_kinematics::kinematic_traits::ENV_START_IDX || b as usize >= rs_opw_kinematics::kinematic_traits::ENV_START_IDX { s.to_environment } else { s.to_robot_default }
}

pub fn brute(s: &Scene, safety: &SafetyDistances, q: &Joints, margin: f32) -> (BTreeSet<(usize, usize)>, BTreeSet<(usize, usize)>, Vec<String>) {
    // returns (definitely colliding, undecided, table rows)
    let links = links_f32(s, q);
    let mut hit = BTreeSet::new(); let mut und = BTreeSet::new(); let mut rows = Vec::new();
    for (a, b) in relevant_pairs(s) {
        let r = ref_min_distance(safety, a as u16, b as u16);
        let (it, d) = pair_geometry(s, a, b, &links);
        rows.push(format!("[{},{},{},{},{}]", a, b, it, fx(d as f64), fx(r as f64)));
        if r <= NEVER_COLLIDES { continue; }
        let key = (a.min(b), a.max(b));
        if r == 0.0 {
            if it && d == 0.0 { hit.insert(key); }
            if !it && d < margin { und.insert(key); }
            // intersecting but only grazing cannot be told apart from touching: treat tiny penetration as decided (parry is exact on it)
        } else {
            if (d - r).abs() < margin { und.insert(key); } else if d <= r { hit.insert(key); }
        }
    }
    (hit, und, rows)
}

fn mode_name(m: CheckMode) -> &'static str { match m { CheckMode::FirstCollisionOnly => "first", CheckMode::AllCollsions => "all", CheckMode::NoCheck => "nocheck" } }

pub fn safety_json(s: &SafetyDistances) -> String {
    let sp: Vec<String> = s.special_distances.iter().map(|((a, b), v)| format!("[{},{},{}]", a, b, fx(*v as f64))).collect();
    Obj::new().f("env", s.to_environment as f64).f("robot", s.to_robot_default as f64).raw("special", &format!("[{}]", sp.join(","))).s("mode", mode_name(s.mode)).done()
}

pub fn main(tier: &str, seed: u64, n_override: Option<u64>) {
    let n = n_override.unwrap_or(if tier == "thorough" { 6_000 } else { 400 });
    let pools: Vec<usize> = if tier == "thorough" { (1..=16).collect() } else { vec![1, 3, 16] };
    let mut rng = Rng::new(seed ^ 0xC10);
    for idx in 0..n {
        let mut s = random_scene(&mut rng, idx);
        let ids = body_ids(&s);
        let mode = [CheckMode::AllCollsions, CheckMode::FirstCollisionOnly, CheckMode::AllCollsions, CheckMode::NoCheck][(idx % 4) as usize];
        s.body.safety = random_safety(&mut rng, &ids, mode);
        let near_safety = random_safety(&mut rng, &ids, CheckMode::AllCollsions);
        let q: Joints = std::array::from_fn(|_| if rng.below(3) == 0 { 0.0 } else { (rng.range(-0.15, 0.15) * 512.0).round() / 512.0 });
        let (hit, und, rows) = brute(&s, &s.body.safety, &q, 2e-4);
        let (hit_n, und_n, rows_n) = brute(&s, &near_safety, &q, 2e-4);
        let mut direct = "ok".to_string(); let mut class = String::new();
        let mut fail = |c: String| { if direct == "ok" { direct = "fail".into(); class = c; } };
        let mut results: Vec<String> = Vec::new();
        let mut reference: Option<(bool, BTreeSet<(usize, usize)>, BTreeSet<(usize, usize)>)> = None;
        for &np in &pools {
            let pool = rayon::ThreadPoolBuilder::new().num_threads(np).build().unwrap();
            let (coll, det, near): (bool, Vec<(usize, usize)>, Vec<(usize, usize)>) = pool.install(|| {
                (s.body.collides(&q, &s.kin), s.body.collision_details(&q, &s.kin), s.body.near(&q, &s.kin, &near_safety))
            });
            let dset: BTreeSet<(usize, usize)> = det.iter().map(|p| (p.0.min(p.1), p.0.max(p.1))).collect();
            let nset: BTreeSet<(usize, usize)> = near.iter().map(|p| (p.0.min(p.1), p.0.max(p.1))).collect();
            // against brute force
            if mode == CheckMode::NoCheck {
                if coll { fail("C10.nocheck_reports_collision".into()); }
                if !det.is_empty() { fail("C10.nocheck_lists_pairs".into()); }
            } else {
                if und.is_empty() && coll != !hit.is_empty() { fail(if coll { "C10.collides_true_without_pair".into() } else { "C10.collides_misses_pair".into() }); }
                if !coll && !hit.is_empty() { fail("C10.collides_misses_pair".into()); }
                for p in &dset { if !hit.contains(p) && !und.contains(p) { fail(format!("C10.reported_pair_not_colliding_{}_{}", class_of(p.0), class_of(p.1))); } }
                if mode == CheckMode::AllCollsions { for p in &hit { if !dset.contains(p) { fail(format!("C10.colliding_pair_missed_{}_{}", class_of(p.0), class_of(p.1))); } } }
                if mode == CheckMode::FirstCollisionOnly { if !hit.is_empty() && dset.is_empty() { fail("C10.first_mode_empty_though_colliding".into()); } if dset.len() > 1 { fail("C10.first_mode_more_than_one".into()); } }
            }
            // near() with its own table (mode AllCollisions there)
            for p in &nset { if !hit_n.contains(p) && !und_n.contains(p) { fail(format!("C10.near_reported_pair_not_close_{}_{}", class_of(p.0), class_of(p.1))); } }
            for p in &hit_n { if !nset.contains(p) { fail(format!("C10.near_missed_pair_{}_{}", class_of(p.0), class_of(p.1))); } }
            // scheduling independence
            match &reference {
                None => reference = Some((coll, dset.clone(), nset.clone())),
                Some((c0, d0, n0)) => {
                    if *c0 != coll { fail("C10.verdict_depends_on_thread_count".into()); }
                    if mode == CheckMode::AllCollsions && *d0 != dset { fail("C10.details_depend_on_thread_count".into()); }
                    if *n0 != nset { fail("C10.near_depends_on_thread_count".into()); }
                    if d0.is_empty() != dset.is_empty() { fail("C10.details_emptiness_depends_on_thread_count".into()); }
                }
            }
            if results.is_empty() {
                results.push(format!("{{\"collides\":{},\"details\":{:?},\"near\":{:?}}}", coll, dset.iter().map(|p| vec![p.0, p.1]).collect::<Vec<_>>(), nset.iter().map(|p| vec![p.0, p.1]).collect::<Vec<_>>()));
            }
        }
        println!("{}", Obj::new().s("prop", "C10").i("case", idx as i64).b("tool", s.body.tool.is_some()).b("base", s.body.base.is_some())
            .i("n_env", s.body.collision_environment.len() as i64).raw("safety", &safety_json(&s.body.safety)).raw("near_safety", &safety_json(&near_safety))
            .fs("q", &q).raw("table", &format!("[{}]", rows.join(","))).raw("near_table", &format!("[{}]", rows_n.join(",")))
            .raw("undecided", &format!("{:?}", und.iter().map(|p| vec![p.0, p.1]).collect::<Vec<_>>()))
            .raw("near_undecided", &format!("{:?}", und_n.iter().map(|p| vec![p.0, p.1]).collect::<Vec<_>>()))
            .raw("impl", &results[0]).i("pools", pools.len() as i64).s("direct", &direct).s("class", &class).done());
    }
}
pub fn class_of(id: usize) -> &'static str { if id < 6 { "link" } else if id == 100 { "tool" } else if id == 101 { "base" } else { "env" } }
