//! C18: random joint vectors drawn from constraints always satisfy them; no panic for positive-width arcs.
use crate::c07::on_arc;
use crate::ik::guarded;
use crate::util::*;
use rs_opw_kinematics::constraints::{Constraints, BY_PREV};
use std::f64::consts::PI;

pub fn main(tier: &str, seed: u64, n_override: Option<u64>) {
    std::panic::set_hook(Box::new(|_| {}));
    let n = n_override.unwrap_or(if tier == "thorough" { 20_000 } else { 600 });
    let draws = 1500;
    let mut rng = Rng::new(seed ^ 0xC18);
    for idx in 0..n {
        let mut from = [0.0; 6]; let mut to = [0.0; 6];
        for i in 0..6 {
            let tp = 2.0 * PI;
            let (f, t) = match rng.below(10) {
                // limits written in whole degrees a full turn apart (93 and -267): after unwrapping the arc is a point or one or two ulp wide
                9 => { let d = rng.int(0, 360) as f64; (d.to_radians(), (d - 360.0).to_radians()) }
                0 => { let f = rng.range(-tp, tp); (f, f) }                                            // unconstrained
                1 => { let f = rng.range(0.5, tp); (f, rng.range(0.0, f - 0.1)) }                      // wrap, both positive
                2 => { let t = rng.range(-tp, -0.5); (rng.range(t + 0.1, 0.0), t) }                    // wrap, both negative
                3 => (rng.range(0.1, tp), rng.range(-tp, -0.1)),                                       // wrap, straddling zero
                4 => { let f = rng.range(-tp, tp - 0.2); (f, rng.range(f + 0.1, tp)) }                 // ordinary
                5 => (3.0, 1.0),
                6 => { let f = rng.range(0.0, tp); (f, f - rng.range(0.001, 0.05)) }                   // almost a full turn
                7 => { let f = rng.range(-tp, 0.0); (f, (f + if rng.bool() { rng.range(0.001, 0.05) } else { rng.range(1e-5, 1e-3) }).min(tp)) }        // narrow, down to 10 microradians
                _ => (rng.range(-tp, tp), rng.range(-tp, tp)),
            };
            from[i] = f; to[i] = t;
        }
        // all three ways of setting the limits (the sampler and compliant() read different fields of the same object)
        let ctor = idx % 3;
        let k = match ctor {
            0 => Constraints::new(from, to, BY_PREV),
            1 => { // degrees: use limits that are exact in degrees and convert back, so that the arc test sees the stored radians
                let fd: [f64; 6] = std::array::from_fn(|i| (from[i].to_degrees() * 8.0).round() / 8.0); let td: [f64; 6] = std::array::from_fn(|i| (to[i].to_degrees() * 8.0).round() / 8.0);
                let kk = Constraints::from_degrees(std::array::from_fn(|i| fd[i]..=td[i]), BY_PREV);
                from = kk.from; to = kk.to; kk }
            _ => { let mut kk = Constraints::new([-1.0, 0.5, -0.2, 0.3, 1.0, 2.0], [1.0, 1.5, 0.5, -0.5, 1.0, 7.0], BY_PREV); kk.update_range(from, to); kk }
        };
        let mut lo = [f64::INFINITY; 6]; let mut hi = [f64::NEG_INFINITY; 6];
        let mut bad = 0u64; let mut first_bad = [0.0; 6]; let mut panicked = String::new();
        let mut own_rej = 0u64;
        let mut self_bad = 0u64; let mut draw0: Option<([f64; 6], bool)> = None;
        for _ in 0..draws {
            match guarded(std::panic::AssertUnwindSafe(|| k.random_angles())) {
                Err(m) => { panicked = m; break; }
                Ok(a) => {
                    for i in 0..6 { lo[i] = lo[i].min(a[i]); hi[i] = hi[i].max(a[i]); }
                    if draw0.is_none() { draw0 = Some((a, k.compliant(&a))); }
                    let ok = (0..6).all(|i| on_arc(from[i], to[i], a[i], 1e-9) != Some(false));
                    if !ok { if bad == 0 { first_bad = a; } bad += 1; }
                    // a draw strictly inside every arc (by the independent arc test) must also be accepted by the constraints themselves
                    if !k.compliant(&a) && (0..6).all(|i| on_arc(from[i], to[i], a[i], 1e-9) == Some(true)) { if self_bad == 0 && bad == 0 { first_bad = a; } self_bad += 1; }
                    // ... and no margin is involved in the property's own wording: whatever the sampler returns, the same constraints accept
                    if !k.compliant(&a) { if own_rej == 0 && bad == 0 && self_bad == 0 { first_bad = a; } own_rej += 1; }
                }
            }
        }
        let mut direct = "ok"; let mut class = "";
        if !panicked.is_empty() { direct = "fail"; class = "C18.sampler_panics"; }
        else if bad > 0 { direct = "fail"; class = "C18.sample_outside_arc"; }
        else if self_bad > 0 { direct = "fail"; class = "C18.sample_rejected_by_compliant"; }
        else if own_rej > 0 { direct = "fail"; class = "C18.sample_rejected_by_its_own_constraints"; }
        println!("{}", Obj::new().s("prop", "C18").i("case", idx as i64).i("ctor", ctor as i64).fs("from", &from).fs("to", &to).i("draws", draws)
            .fs("lo", &lo).fs("hi", &hi).i("bad", bad as i64).i("self_bad", self_bad as i64).i("own_rej", own_rej as i64).fs("first_bad", &first_bad).fs("draw", &draw0.map(|d| d.0).unwrap_or([0.0; 6])).b("draw_ok", draw0.map(|d| d.1).unwrap_or(true)).s("panic", &panicked)
            .s("direct", direct).s("class", class).done());
    }
}
