(** 3-vectors, 3x3 matrices and rigid motions over R; OPW parameters; joint vectors. *)
From Coq Require Import ZArith Reals Lra List Nsatz Psatz.
Import ListNotations.
Open Scope R_scope.

Record V3 := mkV3 { vx : R; vy : R; vz : R }.
Record M3 := mkM3 { m00 : R; m01 : R; m02 : R; m10 : R; m11 : R; m12 : R; m20 : R; m21 : R; m22 : R }.
(** a pose: rotation matrix and translation (nalgebra keeps a unit quaternion; we model its matrix) *)
Record Iso := mkIso { rot : M3; tr : V3 }.

Definition vadd (a b : V3) := mkV3 (vx a + vx b) (vy a + vy b) (vz a + vz b).
Definition vsub (a b : V3) := mkV3 (vx a - vx b) (vy a - vy b) (vz a - vz b).
Definition vscale (k : R) (a : V3) := mkV3 (k * vx a) (k * vy a) (k * vz a).
Definition vdot (a b : V3) := vx a * vx b + vy a * vy b + vz a * vz b.
Definition vcross (a b : V3) :=
  mkV3 (vy a * vz b - vz a * vy b) (vz a * vx b - vx a * vz b) (vx a * vy b - vy a * vx b).
Definition vnorm2 (a : V3) := vdot a a.
Definition vnorm (a : V3) := sqrt (vnorm2 a).

Definition mmul (a b : M3) : M3 :=
  mkM3 (m00 a * m00 b + m01 a * m10 b + m02 a * m20 b) (m00 a * m01 b + m01 a * m11 b + m02 a * m21 b) (m00 a * m02 b + m01 a * m12 b + m02 a * m22 b)
       (m10 a * m00 b + m11 a * m10 b + m12 a * m20 b) (m10 a * m01 b + m11 a * m11 b + m12 a * m21 b) (m10 a * m02 b + m11 a * m12 b + m12 a * m22 b)
       (m20 a * m00 b + m21 a * m10 b + m22 a * m20 b) (m20 a * m01 b + m21 a * m11 b + m22 a * m21 b) (m20 a * m02 b + m21 a * m12 b + m22 a * m22 b).
Definition mapp (a : M3) (v : V3) : V3 :=
  mkV3 (m00 a * vx v + m01 a * vy v + m02 a * vz v)
       (m10 a * vx v + m11 a * vy v + m12 a * vz v)
       (m20 a * vx v + m21 a * vy v + m22 a * vz v).
Definition mtr (a : M3) : M3 := mkM3 (m00 a) (m10 a) (m20 a) (m01 a) (m11 a) (m21 a) (m02 a) (m12 a) (m22 a).
Definition I3 : M3 := mkM3 1 0 0 0 1 0 0 0 1.
Definition mdet (a : M3) : R :=
  m00 a * (m11 a * m22 a - m12 a * m21 a) - m01 a * (m10 a * m22 a - m12 a * m20 a)
  + m02 a * (m10 a * m21 a - m11 a * m20 a).
Definition mtrace (a : M3) : R := m00 a + m11 a + m22 a.
(** proper rotation *)
Definition proper (m : M3) : Prop := mmul (mtr m) m = I3 /\ mdet m = 1.

Definition Rotx (q : R) := mkM3 1 0 0 0 (cos q) (- sin q) 0 (sin q) (cos q).
Definition Roty (q : R) := mkM3 (cos q) 0 (sin q) 0 1 0 (- sin q) 0 (cos q).
Definition Rotz (q : R) := mkM3 (cos q) (- sin q) 0 (sin q) (cos q) 0 0 0 1.

Definition icomp (a b : Iso) : Iso := mkIso (mmul (rot a) (rot b)) (vadd (tr a) (mapp (rot a) (tr b))).
Definition iid : Iso := mkIso I3 (mkV3 0 0 0).
(** inverse of a rigid motion (for proper rotations the transpose is the inverse) *)
Definition iinv (a : Iso) : Iso := mkIso (mtr (rot a)) (vscale (-1) (mapp (mtr (rot a)) (tr a))).
Definition iapp (a : Iso) (v : V3) : V3 := vadd (mapp (rot a) v) (tr a).

(** OPW parameters (src/parameters.rs) *)
Record Params := mkParams {
  p_a1 : R; p_a2 : R; p_b : R; p_c1 : R; p_c2 : R; p_c3 : R; p_c4 : R;
  p_off1 : R; p_off2 : R; p_off3 : R; p_off4 : R; p_off5 : R; p_off6 : R;
  p_sg1 : Z; p_sg2 : Z; p_sg3 : Z; p_sg4 : Z; p_sg5 : Z; p_sg6 : Z;
  p_dof : Z }.
Record J6 := mkJ6 { j1 : R; j2 : R; j3 : R; j4 : R; j5 : R; j6 : R }.

Lemma V3_eq a b : vx a = vx b -> vy a = vy b -> vz a = vz b -> a = b.
Proof. destruct a, b; simpl; intros; subst; reflexivity. Qed.
Lemma M3_eq a b :
  m00 a = m00 b -> m01 a = m01 b -> m02 a = m02 b -> m10 a = m10 b -> m11 a = m11 b -> m12 a = m12 b ->
  m20 a = m20 b -> m21 a = m21 b -> m22 a = m22 b -> a = b.
Proof. destruct a, b; simpl; intros; subst; reflexivity. Qed.
Lemma Iso_eq a b : rot a = rot b -> tr a = tr b -> a = b.
Proof. destruct a, b; simpl; intros; subst; reflexivity. Qed.

Ltac lin_unfold := cbv [icomp iinv iapp iid mmul mapp mtr vadd vsub vscale vdot vcross vnorm2 mdet mtrace I3
                         Rotx Roty Rotz rot tr vx vy vz m00 m01 m02 m10 m11 m12 m20 m21 m22].

Lemma mmul_assoc a b c : mmul (mmul a b) c = mmul a (mmul b c).
Proof. apply M3_eq; lin_unfold; ring. Qed.
Lemma icomp_assoc a b c : icomp (icomp a b) c = icomp a (icomp b c).
Proof. apply Iso_eq; [apply M3_eq | apply V3_eq]; lin_unfold; ring. Qed.
Lemma icomp_id_l a : icomp iid a = a.
Proof. destruct a as [[] []]. apply Iso_eq; [apply M3_eq | apply V3_eq]; lin_unfold; ring. Qed.
Lemma icomp_id_r a : icomp a iid = a.
Proof. destruct a as [[] []]. apply Iso_eq; [apply M3_eq | apply V3_eq]; lin_unfold; ring. Qed.

Lemma mmul_tr_eq (m : M3) :
  mmul (mtr m) m = I3 <->
  (m00 m * m00 m + m10 m * m10 m + m20 m * m20 m = 1 /\ m01 m * m01 m + m11 m * m11 m + m21 m * m21 m = 1 /\
   m02 m * m02 m + m12 m * m12 m + m22 m * m22 m = 1 /\ m00 m * m01 m + m10 m * m11 m + m20 m * m21 m = 0 /\
   m00 m * m02 m + m10 m * m12 m + m20 m * m22 m = 0 /\ m01 m * m02 m + m11 m * m12 m + m21 m * m22 m = 0).
Proof.
  destruct m; cbv [mmul mtr I3 m00 m01 m02 m10 m11 m12 m20 m21 m22]. split.
  - intros H; injection H; intros. repeat split; lra.
  - intros (H1 & H2 & H3 & H4 & H5 & H6). f_equal; lra.
Qed.

Lemma proper_mmul a b : proper a -> proper b -> proper (mmul a b).
Proof.
  intros [Ha Da] [Hb Db]. split.
  - assert (E : mmul (mtr (mmul a b)) (mmul a b) = mmul (mtr b) (mmul (mmul (mtr a) a) b)).
    { apply M3_eq; lin_unfold; ring. }
    rewrite E, Ha. assert (E2 : mmul I3 b = b) by (destruct b; apply M3_eq; lin_unfold; ring).
    rewrite E2. exact Hb.
  - assert (E : mdet (mmul a b) = mdet a * mdet b) by (lin_unfold; ring).
    rewrite E, Da, Db; ring.
Qed.

Lemma sc2 q : sin q * sin q + cos q * cos q = 1.
Proof. pose proof (sin2_cos2 q) as H. unfold Rsqr in H. exact H. Qed.

Lemma proper_Rotz q : proper (Rotz q).
Proof. pose proof (sc2 q). split; [apply M3_eq|]; lin_unfold; nra. Qed.
Lemma proper_Roty q : proper (Roty q).
Proof. pose proof (sc2 q). split; [apply M3_eq|]; lin_unfold; nra. Qed.
Lemma proper_Rotx q : proper (Rotx q).
Proof. pose proof (sc2 q). split; [apply M3_eq|]; lin_unfold; nra. Qed.
Lemma proper_I3 : proper I3.
Proof. split; [apply M3_eq|]; lin_unfold; ring. Qed.

(** for a proper rotation the transpose is a two-sided inverse *)
Lemma proper_tr_r m : proper m -> mmul m (mtr m) = I3.
Proof.
  intros [H D]. apply mmul_tr_eq in H. destruct m.
  cbv [mdet m00 m01 m02 m10 m11 m12 m20 m21 m22] in *.
  destruct H as (H1 & H2 & H3 & H4 & H5 & H6).
  apply M3_eq; lin_unfold; nsatz.
Qed.
