(** Numeric class: glue models are written once over [Num T], proved at
    [T := R] and executed (vm_compute) at [T := Q]. *)
From Coq Require Import ZArith QArith Qround Qabs Reals Lra Lia List Bool.
Import ListNotations.

Class Num (T : Type) := {
  nadd : T -> T -> T;
  nsub : T -> T -> T;
  nmul : T -> T -> T;
  ndiv : T -> T -> T;
  nopp : T -> T;
  nleb : T -> T -> bool;   (* x <= y *)
  nltb : T -> T -> bool;   (* x <  y *)
  neqb : T -> T -> bool;   (* x =  y *)
  nfloor : T -> Z;
  nofZ : Z -> T;
  nsqrt : T -> T           (* R: sqrt; Q: rational approximation to 2^-80 (used only in margin-guarded places) *)
}.

Declare Scope num_scope.
Delimit Scope num_scope with num.
Infix "+" := nadd : num_scope.
Infix "-" := nsub : num_scope.
Infix "*" := nmul : num_scope.
Infix "/" := ndiv : num_scope.
Notation "- x" := (nopp x) : num_scope.
Infix "<=?" := nleb : num_scope.
Infix "<?" := nltb : num_scope.
Infix "=?" := neqb : num_scope.

Section Derived.
  Context {T : Type} `{Num T}.
  Open Scope num_scope.
  Definition n0 : T := nofZ 0.
  Definition n1 : T := nofZ 1.
  Definition n2 : T := nofZ 2.
  Definition nabs (x : T) : T := if x <? n0 then - x else x.
  Definition nmin (x y : T) : T := if x <=? y then x else y.
  Definition nmax (x y : T) : T := if x <=? y then y else x.
  Definition ngtb (x y : T) : bool := y <? x.
  Definition ngeb (x y : T) : bool := y <=? x.
  (** truncation toward zero, as in C fmod *)
  Definition ntrunc (x : T) : Z := if x <? n0 then Z.opp (nfloor (- x)) else nfloor x.
  (** Rust [x % y] on floats = C fmod: sign of the dividend *)
  Definition nfmod (x y : T) : T := x - nofZ (ntrunc (x / y)) * y.
  (** Rust [f64::rem_euclid] *)
  Definition nrem_euclid (x y : T) : T :=
    let r := nfmod x y in if r <? n0 then r + nabs y else r.
  (** Rust [f64::signum] for finite non-NaN: +1 for +0.0 (we cannot see -0.0) *)
  Definition nsignum (x : T) : T := if x <? n0 then - n1 else n1.
End Derived.

(** * Instance at Q (executable) *)
Definition Qfl (x : Q) : Z := Qfloor x.
(** sqrt of a non-negative rational to about 2^-80: Z.sqrt (x * 2^160) / 2^80 *)
Definition Qsqrt_approx (x : Q) : Q :=
  if Qle_bool x 0 then 0
  else Qred (Z.sqrt (Qfloor (x * inject_Z (2 ^ 160))) # (2 ^ 80)).
#[global] Instance NumQ : Num Q := {
  nadd x y := Qred (Qplus x y);
  nsub x y := Qred (Qminus x y);
  nmul x y := Qred (Qmult x y);
  ndiv x y := Qred (Qdiv x y);
  nopp x := Qred (Qopp x);
  nleb x y := Qle_bool x y;
  nltb x y := negb (Qle_bool y x);
  neqb x y := Qeq_bool x y;
  nfloor := Qfl;
  nofZ z := inject_Z z;
  nsqrt := Qsqrt_approx
}.

(** * Instance at R (object of the theorems) *)
Definition Rleb (x y : R) : bool := if Rle_dec x y then true else false.
Definition Rltb (x y : R) : bool := if Rlt_dec x y then true else false.
Definition Reqb (x y : R) : bool := if Req_EM_T x y then true else false.
Definition Rfloor (x : R) : Z := (up x - 1)%Z.
#[global] Instance NumR : Num R := {
  nadd := Rplus; nsub := Rminus; nmul := Rmult; ndiv := Rdiv; nopp := Ropp;
  nleb := Rleb; nltb := Rltb; neqb := Reqb; nfloor := Rfloor; nofZ := IZR; nsqrt := sqrt
}.

Lemma Rleb_true x y : Rleb x y = true <-> (x <= y)%R.
Proof. unfold Rleb; destruct (Rle_dec x y); split; intros; try easy. Qed.
Lemma Rleb_false x y : Rleb x y = false <-> (y < x)%R.
Proof. unfold Rleb; destruct (Rle_dec x y); split; intros; try easy; lra. Qed.
Lemma Rltb_true x y : Rltb x y = true <-> (x < y)%R.
Proof. unfold Rltb; destruct (Rlt_dec x y); split; intros; try easy. Qed.
Lemma Rltb_false x y : Rltb x y = false <-> (y <= x)%R.
Proof. unfold Rltb; destruct (Rlt_dec x y); split; intros; try easy; lra. Qed.
Lemma Reqb_true x y : Reqb x y = true <-> x = y.
Proof. unfold Reqb; destruct (Req_EM_T x y); split; intros; try easy. Qed.
Lemma Reqb_false x y : Reqb x y = false <-> x <> y.
Proof. unfold Reqb; destruct (Req_EM_T x y); split; intros; try easy. Qed.

Lemma Rfloor_spec x : (IZR (Rfloor x) <= x < IZR (Rfloor x) + 1)%R.
Proof.
  unfold Rfloor. destruct (archimed x) as [H1 H2]. rewrite minus_IZR. lra.
Qed.

Lemma Rfloor_unique x z : (IZR z <= x < IZR z + 1)%R -> Rfloor x = z.
Proof.
  intros [H1 H2]. destruct (Rfloor_spec x) as [H3 H4].
  assert (Ha : (IZR (Rfloor x) < IZR z + 1)%R) by lra.
  assert (Hb : (IZR z < IZR (Rfloor x) + 1)%R) by lra.
  rewrite <- plus_IZR in Ha, Hb. apply lt_IZR in Ha, Hb. lia.
Qed.

(** case-analysis tactic for the R instance *)
Ltac rcase :=
  repeat match goal with
  | |- context [Rleb ?a ?b] => let E := fresh "E" in destruct (Rleb a b) eqn:E;
        [apply Rleb_true in E | apply Rleb_false in E]
  | |- context [Rltb ?a ?b] => let E := fresh "E" in destruct (Rltb a b) eqn:E;
        [apply Rltb_true in E | apply Rltb_false in E]
  | |- context [Reqb ?a ?b] => let E := fresh "E" in destruct (Reqb a b) eqn:E;
        [apply Reqb_true in E | apply Reqb_false in E]
  end.

Ltac rsimp := cbn [nadd nsub nmul ndiv nopp nleb nltb neqb nfloor nofZ nsqrt NumR] in *.

(** Output helpers for the correspondence evaluation: a Q as [num; den]. *)
Definition Qout (q : Q) : list Z := let r := Qred q in [Qnum r; Zpos (Qden r)].
Definition bout (b : bool) : Z := if b then 1%Z else 0%Z.
