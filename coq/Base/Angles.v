(** atan2 over R (absent from the standard library) and the facts the kernels need. *)
From Coq Require Import Reals Lra Psatz.
Open Scope R_scope.

(** IEEE/Rust atan2(y, x) for finite arguments (atan2(0,0) = 0, atan2(0,x<0) = PI) *)
Definition atan2 (y x : R) : R :=
  if Rlt_dec 0 x then atan (y / x)
  else if Rlt_dec x 0 then (if Rle_dec 0 y then atan (y / x) + PI else atan (y / x) - PI)
  else if Rlt_dec 0 y then PI / 2
  else if Rlt_dec y 0 then - (PI / 2)
  else 0.

Lemma sqrt_sq_pos t : 0 < sqrt (1 + t * t).
Proof. apply sqrt_lt_R0. nra. Qed.

Lemma cos_atan_sq t : cos (atan t) = 1 / sqrt (1 + t * t).
Proof. rewrite cos_atan. unfold Rsqr. reflexivity. Qed.
Lemma sin_atan_sq t : sin (atan t) = t / sqrt (1 + t * t).
Proof. rewrite sin_atan. unfold Rsqr. reflexivity. Qed.

Lemma sqrt_ratio_pos x y : 0 < x -> sqrt (x * x + y * y) = x * sqrt (1 + (y / x) * (y / x)).
Proof.
  intros Hx. assert (E : x * x + y * y = (x * x) * (1 + (y / x) * (y / x))) by (field; lra).
  rewrite E, sqrt_mult by nra. rewrite sqrt_square by lra. reflexivity.
Qed.
Lemma sqrt_ratio_neg x y : x < 0 -> sqrt (x * x + y * y) = - x * sqrt (1 + (y / x) * (y / x)).
Proof.
  intros Hx. assert (E : x * x + y * y = ((- x) * (- x)) * (1 + (y / x) * (y / x))) by (field; lra).
  rewrite E, sqrt_mult by nra. rewrite sqrt_square by lra. reflexivity.
Qed.

(** polar decomposition: r = |(x,y)|  ->  r cos(atan2 y x) = x and r sin(atan2 y x) = y *)
Lemma atan2_polar y x :
  sqrt (x * x + y * y) * cos (atan2 y x) = x /\ sqrt (x * x + y * y) * sin (atan2 y x) = y.
Proof.
  unfold atan2. destruct (Rlt_dec 0 x) as [Hx|Hx].
  - rewrite cos_atan_sq, sin_atan_sq, sqrt_ratio_pos by exact Hx.
    pose proof (sqrt_sq_pos (y / x)). split; field; lra.
  - destruct (Rlt_dec x 0) as [Hx'|Hx'].
    + pose proof (sqrt_sq_pos (y / x)) as Hs.
      destruct (Rle_dec 0 y).
      * rewrite cos_plus, sin_plus, cos_PI, sin_PI, cos_atan_sq, sin_atan_sq, sqrt_ratio_neg by exact Hx'.
        split; field; lra.
      * rewrite cos_minus, sin_minus, cos_PI, sin_PI, cos_atan_sq, sin_atan_sq, sqrt_ratio_neg by exact Hx'.
        split; field; lra.
    + assert (x = 0) by lra. subst x. replace (0 * 0 + y * y) with (y * y) by ring.
      destruct (Rlt_dec 0 y).
      * rewrite sqrt_square, cos_PI2, sin_PI2 by lra. split; ring.
      * destruct (Rlt_dec y 0).
        -- replace (y * y) with ((- y) * (- y)) by ring.
           rewrite sqrt_square, cos_neg, sin_neg, cos_PI2, sin_PI2 by lra. split; ring.
        -- assert (y = 0) by lra. subst y. rewrite Rmult_0_l, sqrt_0, cos_0, sin_0. split; ring.
Qed.

Lemma atan2_range y x : - PI <= atan2 y x <= PI.
Proof.
  unfold atan2. pose proof PI_RGT_0.
  destruct (Rlt_dec 0 x).
  - pose proof (atan_bound (y / x)). lra.
  - destruct (Rlt_dec x 0).
    + destruct (Rle_dec 0 y).
      * assert (y / x <= 0). { unfold Rdiv. assert (/ x < 0) by (apply Rinv_lt_0_compat; lra). nra. }
        pose proof (atan_bound (y / x)).
        assert (atan (y / x) <= 0).
        { destruct (Req_dec (y / x) 0) as [E|E]; [rewrite E, atan_0; lra|].
          rewrite <- atan_0. left. apply atan_increasing. lra. }
        lra.
      * assert (0 < y / x). { unfold Rdiv. assert (/ x < 0) by (apply Rinv_lt_0_compat; lra). nra. }
        pose proof (atan_bound (y / x)).
        assert (0 < atan (y / x)) by (rewrite <- atan_0; apply atan_increasing; lra).
        lra.
    + destruct (Rlt_dec 0 y); [lra|]. destruct (Rlt_dec y 0); lra.
Qed.

(** case lemmas used by the certified spot checks (Interval has no atan2 primitive) *)
Lemma atan2_pos y x : 0 < x -> atan2 y x = atan (y / x).
Proof. intros; unfold atan2; destruct (Rlt_dec 0 x); [reflexivity|lra]. Qed.
Lemma atan2_neg_nonneg y x : x < 0 -> 0 <= y -> atan2 y x = atan (y / x) + PI.
Proof. intros; unfold atan2; destruct (Rlt_dec 0 x); [lra|]. destruct (Rlt_dec x 0); [|lra].
  destruct (Rle_dec 0 y); [reflexivity|lra]. Qed.
Lemma atan2_neg_neg y x : x < 0 -> y < 0 -> atan2 y x = atan (y / x) - PI.
Proof. intros; unfold atan2; destruct (Rlt_dec 0 x); [lra|]. destruct (Rlt_dec x 0); [|lra].
  destruct (Rle_dec 0 y); [lra|reflexivity]. Qed.
Lemma atan2_zero_pos y x : x = 0 -> 0 < y -> atan2 y x = PI / 2.
Proof. intros; unfold atan2; destruct (Rlt_dec 0 x); [lra|]. destruct (Rlt_dec x 0); [lra|].
  destruct (Rlt_dec 0 y); [reflexivity|lra]. Qed.
Lemma atan2_zero_neg y x : x = 0 -> y < 0 -> atan2 y x = - (PI / 2).
Proof. intros; unfold atan2; destruct (Rlt_dec 0 x); [lra|]. destruct (Rlt_dec x 0); [lra|].
  destruct (Rlt_dec 0 y); [lra|]. destruct (Rlt_dec y 0); [reflexivity|lra]. Qed.
Lemma atan2_zero_zero y x : x = 0 -> y = 0 -> atan2 y x = 0.
Proof. intros; unfold atan2; destruct (Rlt_dec 0 x); [lra|]. destruct (Rlt_dec x 0); [lra|].
  destruct (Rlt_dec 0 y); [lra|]. destruct (Rlt_dec y 0); [lra|reflexivity]. Qed.

(** acos in terms of atan (Interval has no acos primitive) *)
Lemma acos_atan x : -1 < x < 1 -> acos x = PI / 2 - atan (x / sqrt (1 - x * x)).
Proof.
  intros [H1 H2]. unfold acos, asin.
  destruct (Rle_dec x (-1)) as [L|L]; [lra|]. destruct (Rle_dec 1 x) as [L'|L']; [lra|].
  unfold Rsqr. reflexivity.
Qed.
