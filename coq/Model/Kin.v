(** Hand-written glue model of src/kinematics_impl.rs: everything around the closed-form
    kernel (entry points, normalisation, singular recovery, sorting, filtering).
    Polymorphic over [Num T]; the kernel and the FK verdicts are oracle parameters. *)
From Coq Require Import ZArith List Bool.
From VF Require Import Base.Num Model.Constraints.
Import ListNotations.
Open Scope num_scope.

Section Kin.
  Context {T : Type} `{Num T}.
  Variable hp : T.            (* PI *)
  Variable thr : T.           (* SINGULARITY_ANGLE_THR *)
  Let tp : T := n2 * hp.

  Definition jn (j : list T) (i : nat) : T := nth i j n0.
  Definition jset (j : list T) (i : nat) (v : T) : list T :=
    firstn i j ++ v :: skipn (S i) j.

  (** the two [while] loops bringing an angle into [-PI, PI] (lines 126-131, 504-509) *)
  Definition nceil (x : T) : Z := Z.opp (nfloor (- x)).
  Definition wrap_pi (x : T) : T :=
    if hp <? x then x - tp * nofZ (nceil ((x - hp) / tp))
    else if x <? - hp then x + tp * nofZ (nceil ((- hp - x) / tp))
    else x.

  (** [is_close_to_multiple_of_pi] (two-sided band around 0, pi, 2pi) *)
  Definition is_close_to_multiple_of_pi (x t : T) : bool :=
    let a := nrem_euclid x tp in
    (a <? t) || ((tp - a) <? t) || (nabs (hp - a) <? t).

  (** [are_angles_close] (lines 790-797) *)
  Definition are_angles_close (a b : T) : bool :=
    let d := nfmod (nabs (a - b)) tp in
    let d := if hp <? d then tp - d else d in
    d <? thr.

  (** [normalize_near] (lines 805-824) *)
  Definition adjust (now prev : T) : T :=
    let now1 := if nabs ((now - tp) - prev) <? nabs (now - prev) then now - tp else now in
    let now2 := if nabs ((now1 + tp) - prev) <? nabs (now1 - prev) then now1 + tp else now1 in
    if (nabs now2 =? hp) && negb (nsignum prev =? nsignum now2) then - now2 else now2.
  Definition normalize_near (now prev : T) : T := adjust (adjust now prev) prev.

  Fixpoint map2 {A B C} (f : A -> B -> C) (l : list A) (m : list B) : list C :=
    match l, m with a :: l', b :: m' => f a b :: map2 f l' m' | _, _ => [] end.

  (** [calculate_distance] *)
  Definition calculate_distance (a b : list T) : T :=
    fold_left nadd (map2 (fun x y => nabs (x - y)) a b) n0.

  (** ** robot description and oracles *)
  Variable sg : list T.       (* sign corrections as +-1 *)
  Variable off : list T.      (* offsets *)
  Variable dof : Z.
  Variable cons : option (@Constraints T).
  Variable Pose : Type.
  Variable kernel : Pose -> list (list T).          (* inverse_intern *)
  Variable kernel5 : Pose -> T -> list (list T).    (* inverse_intern_5_dof pose j6 *)
  Variable shift : Pose -> nat -> Pose.             (* SINGULARITY_SHIFTS[i] applied to the translation *)
  Variable fk_ok : Pose -> list T -> bool.          (* compare_poses(pose, forward(now), tolerances) *)

  Definition to_model (j : list T) (i : nat) : T := jn j i * jn sg i - jn off i.
  Definition from_model (q : T) (i : nat) : T := (q + jn off i) * jn sg i.

  Definition compliant_opt (j : list T) : bool :=
    match cons with Some k => compliant hp k j | None => true end.
  Definition filter_compliant (l : list (list T)) : list (list T) :=
    match cons with Some k => cfilter hp k l | None => l end.
  Definition centers : list T :=
    match cons with Some k => c_centers k | None => [n0; n0; n0; n0; n0; n0] end.

  (** [kinematic_singularity]: the wrist is singular when the model angle of J5 is near a multiple of pi *)
  Definition singular (j : list T) : bool := is_close_to_multiple_of_pi (to_model j 4) thr.

  (** [sort_by_closeness] (lines 739-771): cost of one solution *)
  Definition weight : T := match cons with Some k => c_weight k | None => n0 end.
  Definition cost (previous a : list T) : T :=
    if weight =? n0 then calculate_distance a previous
    else
      let prev_d := if weight =? n1 then n0 else calculate_distance a previous in
      prev_d * (n1 - weight) + calculate_distance a centers * weight.
  Fixpoint insert_by (key : list T -> T) (x : list T) (l : list (list T)) : list (list T) :=
    match l with
    | [] => [x]
    | y :: l' => if key x <=? key y then x :: y :: l' else y :: insert_by key x l'
    end.
  (** stable sort (slice::sort_by is stable) *)
  Fixpoint sort_by (key : list T -> T) (l : list (list T)) : list (list T) :=
    match l with [] => [] | x :: l' => insert_by key x (sort_by key l') end.

  Definition normalize_all (previous : list T) (l : list (list T)) : list (list T) :=
    map (fun s => map2 normalize_near s previous) l.

  (** candidate built from the first singular kernel answer (lines 108-135) *)
  Definition sing_candidate (previous now : list T) : list T :=
    let p4 := to_model previous 3 in let p6 := to_model previous 5 in
    let n4 := to_model now 3 in let n6 := to_model now 5 in
    let zero5 := are_angles_close (to_model now 4) n0 in
    let s := if zero5 then p4 + p6 else p4 - p6 in
    let s_n := if zero5 then n4 + n6 else n4 - n6 in
    let now5 := if zero5 then jn now 4 else normalize_near (jn now 4) (jn previous 4) in
    let j_d := wrap_pi (s_n - s) / n2 in
    [jn now 0; jn now 1; jn now 2; from_model (p4 + j_d) 3; now5; from_model (p6 + j_d) 5].

  Fixpoint first_singular (ik : list (list T)) : option (list T) :=
    match ik with
    | [] => None
    | s :: ik' => if singular s then Some s else first_singular ik'
    end.

  (** the ['shifts] loop (lines 92-151) *)
  Fixpoint shifts_loop (pose : Pose) (previous : list T) (ds : list nat) (solutions : list (list T))
    : list (list T) :=
    match ds with
    | [] => solutions
    | d :: ds' =>
        let ik := kernel (shift pose d) in
        let solutions1 := match solutions with [] => ik | _ => solutions end in
        match first_singular ik with
        | Some s =>
            let now := sing_candidate previous s in
            if fk_ok pose now && compliant_opt now then solutions1 ++ [now]
            else shifts_loop pose previous ds' solutions1
        | None => shifts_loop pose previous ds' solutions1
        end
    end.

  Definition finish_continuing (previous : list T) (l : list (list T)) : list (list T) :=
    filter_compliant (sort_by (cost previous) (normalize_all previous l)).

  (** [inverse_5dof] *)
  Definition inverse_5dof (pose : Pose) (j6 : T) : list (list T) :=
    filter_compliant (kernel5 pose j6).

  (** [inverse_continuing_5dof]; [sentinel] = prev is CONSTRAINT_CENTERED (prev[0] is NaN) *)
  Definition inverse_continuing_5dof (pose : Pose) (sentinel : bool) (prev : list T) : list (list T) :=
    let previous := if sentinel then centers else prev in
    finish_continuing previous (kernel5 pose (jn prev 5)).

  (** [inverse] *)
  Definition inverse (pose : Pose) : list (list T) :=
    if (dof =? 5)%Z then inverse_5dof pose n0
    else filter_compliant (kernel pose).

  (** [inverse_continuing] *)
  Definition inverse_continuing (pose : Pose) (sentinel : bool) (prev : list T) : list (list T) :=
    if (dof =? 5)%Z then inverse_continuing_5dof pose sentinel prev
    else
      let previous := if sentinel then centers else prev in
      finish_continuing previous (shifts_loop pose previous [0; 1; 2; 3]%nat []).
End Kin.
