(** Hand-written model of src/path_plan/rrt_to.rs (dual_rrt_connect).  Oracles: the collision
    predicate [is_free], the random sample stream, the cancellation flag as seen at each iteration. *)
From Coq Require Import ZArith List Bool.
From VF Require Import Base.Num.
Import ListNotations.
Open Scope num_scope.

Section Rrt.
  Context {T : Type} `{Num T}.
  Definition Pt := list T.
  Record Node := mkNode { parent : option nat; data : Pt }.
  (** vertices in insertion order; index = position *)
  Definition Tree := list Node.

  Fixpoint sqdist (a b : Pt) : T :=
    match a, b with x :: a', y :: b' => (x - y) * (x - y) + sqdist a' b' | _, _ => n0 end.
  Definition edist (a b : Pt) : T := nsqrt (sqdist a b).

  (** [get_nearest_index]: first minimiser of the squared distance (kd-tree ties are outside the model) *)
  Fixpoint nearest_from (t : Tree) (q : Pt) (i : nat) (best : nat) (bd : T) : nat :=
    match t with
    | [] => best
    | n :: t' => let d := sqdist q (data n) in
                 if d <? bd then nearest_from t' q (S i) i d else nearest_from t' q (S i) best bd
    end.
  Definition nearest_index (t : Tree) (q : Pt) : nat :=
    match t with [] => O | n :: t' => nearest_from t' q 1 0 (sqdist q (data n)) end.
  Definition node_data (t : Tree) (i : nat) : Pt := data (nth i t (mkNode None [])).

  Inductive Ext := Reached (i : nat) | Advanced (i : nat) | Trapped.

  Variable is_free : Pt -> bool.
  Variable L : T.                      (* extend_length *)
  (** rounding applied to every interpolated coordinate: the identity in the theorems; the executable instance
      rounds to 2^-64 (f64 rounds too) so that exact rationals do not double in size at every extension *)
  Variable rnd : T -> T.

  Fixpoint map2p (f : T -> T -> T) (a b : Pt) : Pt :=
    match a, b with x :: a', y :: b' => f x y :: map2p f a' b' | _, _ => [] end.

  (** [Tree::extend] *)
  Definition extend (t : Tree) (q_target : Pt) : Tree * Ext :=
    let ni := nearest_index t q_target in
    let nq := node_data t ni in
    let dd := edist q_target nq in
    let q_new := if dd <? L then q_target
                 else map2p (fun near target => rnd (near + (target - near) * L / dd)) nq q_target in
    if is_free q_new then
      let t' := t ++ [mkNode (Some ni) q_new] in
      let idx := length t in
      if edist q_new q_target <? L then (t', Reached idx) else (t', Advanced idx)
    else (t, Trapped).

  (** [Tree::connect]: extend until trapped or reached ([None] = out of fuel) *)
  Fixpoint connect (fuel : nat) (t : Tree) (q_target : Pt) : option (Tree * Ext) :=
    match fuel with
    | O => None
    | S f => match extend t q_target with
             | (t', Advanced _) => connect f t' q_target
             | r => Some r
             end
    end.

  (** [get_until_root]: the data of the proper ancestors of [idx], nearest first *)
  Fixpoint ancestors (fuel : nat) (t : Tree) (idx : nat) : list Pt :=
    match fuel with
    | O => []
    | S f => match parent (nth idx t (mkNode None [])) with
             | Some p => node_data t p :: ancestors f t p
             | None => []
             end
    end.

  Inductive Outcome := Path (p : list Pt) | Cancelled | Failed | OutOfFuel.

  Variable samples : nat -> Pt.        (* random_sample() at iteration k *)
  Variable stops : nat -> bool.        (* stop.load() at iteration k *)
  Variable cfuel : nat.                (* fuel for connect *)

  (** main loop; [a_is_start]: tree_a.name == "start" *)
  Fixpoint rrt_loop (n k : nat) (ta tb : Tree) (a_is_start : bool) : Outcome :=
    match n with
    | O => Failed
    | S n' =>
        if stops k then Cancelled
        else
          match extend ta (samples k) with
          | (ta', Trapped) => rrt_loop n' (S k) tb ta' (negb a_is_start)
          | (ta', Advanced ni) | (ta', Reached ni) =>
              let q_new := node_data ta' ni in
              match connect cfuel tb q_new with
              | None => OutOfFuel
              | Some (tb', Reached ri) =>
                  let a_all := rev (ancestors (length ta') ta' ni) in
                  let b_all := ancestors (length tb') tb' ri in
                  let p := a_all ++ b_all in
                  (* here tree_b is tb': its name is "start" iff a is not *)
                  Path (if a_is_start then p else rev p)
              | Some (tb', _) => rrt_loop n' (S k) tb' ta' (negb a_is_start)
              end
          end
    end.

  Definition dual_rrt_connect (start goal : Pt) (num_max_try : nat) : Outcome :=
    rrt_loop num_max_try 0 [mkNode None start] [mkNode None goal] true.
End Rrt.
