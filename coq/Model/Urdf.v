(** Hand-written model of src/urdf.rs at the level of the parsed XML tree: joint collection (pre-order),
    duplicate check, the per-joint mapping of origins to OPW parameters, 5-DOF detection; and of
    utils/simplify_joint_name.rs on strings.  XML parsing (sxd-document), number parsing and the xacro angle
    regex are outside the model (attributes are given already parsed). *)
From Coq Require Import ZArith QArith List String Ascii Bool.
Import ListNotations.
Open Scope string_scope.
Open Scope list_scope.

(** parsed attribute values *)
Inductive Vec := VOk (x y z : Q) | VBad.                 (* xyz="..." : three numbers, or not *)
Inductive Ang := ARad (q : Q) | ABadAngle | AMissingAttr. (* lower/upper after parse_angle (radians) *)
Inductive X :=
| XJoint (name : string) (origin : option Vec) (axis : option Vec) (limit : option (Ang * Ang)) (children : list X)
| XOther (children : list X).

Record JointData := { jd_name : string; jd_vec : Q * Q * Q; jd_sign : Z; jd_from : Q; jd_to : Q }.
Inductive UErr := EXml | EDuplicate (n : string) | EMissingJoint (n : string) | EMultiNonZero | EBothNonZero | EC3Twice.

Definition qz (q : Q) : bool := Qeq_bool q 0.

(** [get_axis_sign]: exactly one non-zero component gives its sign, anything else is a fixed joint (0) *)
Definition axis_sign (x y z : Q) : Z :=
  let nz := filter (fun v => negb (qz v)) [x; y; z] in
  match nz with [v] => if Qle_bool 0 v then 1%Z else (-1)%Z | _ => 0%Z end.

Section Collect.
  Variable simplify : string -> string.          (* preprocess_joint_name, or the identity when names are given *)

  Definition joint_of (name : string) (origin : option Vec) (axis : option Vec) (limit : option (Ang * Ang)) : JointData + UErr :=
    match (match origin with None => Some (0, 0, 0) | Some (VOk x y z) => Some (x, y, z) | Some VBad => None end) with
    | None => inr EXml
    | Some v =>
        match (match axis with None => Some 1%Z | Some (VOk x y z) => Some (axis_sign x y z) | Some VBad => None end) with
        | None => inr EXml
        | Some s =>
            let '(f, t) := match limit with
                           | Some (ARad a, ARad b) => (a, b)
                           | _ => (0, 0)               (* absent or unreadable limits: 0..0 = unconstrained *)
                           end in
            inl {| jd_name := simplify name; jd_vec := v; jd_sign := s; jd_from := f; jd_to := t |}
        end
    end.

  (** [collect_joints]: pre-order over the whole tree; the first error aborts *)
  Fixpoint collect (fuel : nat) (t : X) : list JointData + UErr :=
    match fuel with
    | O => inr EXml
    | S f =>
        let go := fix go (l : list X) : list JointData + UErr :=
          match l with
          | [] => inl []
          | c :: r => match collect f c with inr e => inr e | inl a => match go r with inr e => inr e | inl b => inl (a ++ b) end end
          end in
        match t with
        | XOther ch => go ch
        | XJoint n o a l ch =>
            match joint_of n o a l with
            | inr e => inr e
            | inl j => match go ch with inr e => inr e | inl r => inl (j :: r) end
            end
        end
    end.
End Collect.

Definition q3_eqb (a b : Q * Q * Q) : bool :=
  let '(x, y, z) := a in let '(u, v, w) := b in Qeq_bool x u && Qeq_bool y v && Qeq_bool z w.
Definition jd_eqb (a b : JointData) : bool :=
  String.eqb (jd_name a) (jd_name b) && q3_eqb (jd_vec a) (jd_vec b) && Z.eqb (jd_sign a) (jd_sign b)
  && Qeq_bool (jd_from a) (jd_from b) && Qeq_bool (jd_to a) (jd_to b).

Fixpoint lookup (m : list JointData) (n : string) : option JointData :=
  match m with [] => None | j :: r => if String.eqb (jd_name j) n then Some j else lookup r n end.

(** [convert_to_map]: identical duplicates are merged, conflicting ones are an error *)
Fixpoint convert_to_map (l : list JointData) (m : list JointData) : list JointData + UErr :=
  match l with
  | [] => inl m
  | j :: r => match lookup m (jd_name j) with
              | Some e => if jd_eqb e j then convert_to_map r m else inr (EDuplicate (jd_name j))
              | None => convert_to_map r (m ++ [j])
              end
  end.

(** [Vector3::non_zero] *)
Definition non_zero3 (v : Q * Q * Q) : Q + UErr :=
  let '(x, y, z) := v in
  match filter (fun c => negb (qz c)) [x; y; z] with [] => inl 0 | [c] => inl c | _ => inr EMultiNonZero end.
Definition non_zero2 (a b : Q) : Q + UErr :=
  if qz a then inl b else if qz b then inl a else inr EBothNonZero.     (* (0,0)->0, (0,b)->b, (a,0)->a *)

Record UParams := { u_a1 : Q; u_a2 : Q; u_b : Q; u_c1 : Q; u_c2 : Q; u_c3 : Q; u_c4 : Q;
                    u_sg : list Z; u_from : list Q; u_to : list Q; u_dof : Z }.

Definition bindE {A B} (x : A + UErr) (f : A -> B + UErr) : B + UErr := match x with inl a => f a | inr e => inr e end.

(** [populate_opw_parameters] *)
Definition populate (m : list JointData) (names : list string) : UParams + UErr :=
  let six := match lookup m (nth 5 names "") with Some _ => true | None => false end in
  let get := fun k => match lookup m (nth k names "") with Some j => inl j | None => inr (EMissingJoint (nth k names "")) end in
  bindE (get 0%nat) (fun j1 => bindE (non_zero3 (jd_vec j1)) (fun c1 =>
  bindE (get 1%nat) (fun j2 => bindE (non_zero3 (jd_vec j2)) (fun a1 =>
  bindE (get 2%nat) (fun j3 =>
    bindE (match non_zero3 (jd_vec j3) with
           | inl v => inl (v, 0)
           | inr _ => let '(x, y, z) := jd_vec j3 in bindE (non_zero2 x z) (fun c2 => inl (c2, y))
           end) (fun c2b =>
  bindE (get 3%nat) (fun j4 =>
    bindE (match non_zero3 (jd_vec j4) with
           | inl v => inl (Qopp v, 0)
           | inr _ => let '(x, y, z) := jd_vec j4 in bindE (non_zero2 x y) (fun c3 => inl (Qopp z, c3))
           end) (fun a2c3 =>
  bindE (get 4%nat) (fun j5 => bindE (non_zero3 (jd_vec j5)) (fun cand =>
    bindE (if qz cand then inl (snd a2c3) else if qz (snd a2c3) then inl cand else inr EC3Twice) (fun c3 =>
  bindE (get 5%nat) (fun j6 => bindE (non_zero3 (jd_vec j6)) (fun c4 =>
    let js := [j1; j2; j3; j4; j5; j6] in
    inl {| u_a1 := a1; u_a2 := fst a2c3; u_b := snd c2b; u_c1 := c1; u_c2 := fst c2b; u_c3 := c3; u_c4 := c4;
           u_sg := if six then map jd_sign js else firstn 5 (map jd_sign js) ++ [0%Z];
           u_from := if six then map jd_from js else firstn 5 (map jd_from js) ++ [0];
           u_to := if six then map jd_to js else firstn 5 (map jd_to js) ++ [0];
           u_dof := if six then 6%Z else 5%Z |}))))))))))))).

Definition default_names : list string := ["joint1"; "joint2"; "joint3"; "joint4"; "joint5"; "joint6"].

(** [from_urdf] on the parsed tree *)
Definition from_tree (simplify : string -> string) (names : list string) (root : X) : UParams + UErr :=
  bindE (collect simplify 1000 root) (fun js => bindE (convert_to_map js []) (fun m => populate m names)).
