(** Hand-written model of the pair logic of src/collisions.rs (definitions only).
    Geometry (parry3d intersection test, exact distance, the enlarged-box pre-filter) enters as oracle
    parameters; rayon's find_map_any as an arbitrary choice function. *)
From Coq Require Import ZArith List Bool.
From VF Require Import Base.Num.
Import ListNotations.
Open Scope num_scope.

Section Collide.
  Context {T : Type} `{Num T}.

  Definition J_TOOL : Z := 100.
  Definition J_BASE : Z := 101.
  Definition ENV_START : Z := 1000.
  Definition NEVER : T := - n1.      (* NEVER_COLLIDES *)
  Definition TOUCH : T := n0.        (* TOUCH_ONLY *)

  Inductive Mode := FirstOnly | AllColl | NoCheck.
  Record Safety := { to_env : T; to_robot : T; special : list (Z * Z * T); s_mode : Mode }.
  Record Cfg := { has_tool : bool; has_base : bool; n_env : nat }.

  Fixpoint lookup (l : list (Z * Z * T)) (a b : Z) : option T :=
    match l with
    | [] => None
    | (x, y, v) :: l' => if (x =? a)%Z && (y =? b)%Z then Some v else lookup l' a b
    end.

  (** [SafetyDistances::min_distance]: the order of the two objects is not important *)
  Definition min_distance (s : Safety) (a b : Z) : T :=
    match lookup (special s) a b with
    | Some r => r
    | None => match lookup (special s) b a with
              | Some r => r
              | None => if (ENV_START <=? a)%Z || (ENV_START <=? b)%Z then to_env s else to_robot s
              end
    end.

  Variable intersects : Z -> Z -> bool.         (* parry3d::query::intersection_test at the link poses *)
  Variable dist : Z -> Z -> T.                  (* parry3d::query::distance *)
  Variable prefilter : Z -> Z -> T -> bool.     (* enlarged-box test of lines 73-97: true = may be near *)

  (** [CollisionTask::collides] *)
  Definition pair_collides (s : Safety) (i j : Z) : bool :=
    let r := min_distance s i j in
    if r <=? NEVER then false
    else if r =? TOUCH then intersects i j
    else if negb (prefilter i j r) then false
    else dist i j <=? r.
  Definition norm_pair (i j : Z) : Z * Z := (Z.min i j, Z.max i j).
  Definition task_result (s : Safety) (t : Z * Z) : option (Z * Z) :=
    if pair_collides s (fst t) (snd t) then Some (norm_pair (fst t) (snd t)) else None.

  (** [check_required] *)
  Definition unmoved (skip : list Z) (k : Z) : bool :=
    existsb (Z.eqb k) skip || (ENV_START <=? k)%Z || (k =? J_BASE)%Z.
  Definition check_required (s : Safety) (skip : list Z) (i j : Z) : bool :=
    negb (unmoved skip i && unmoved skip j) && (NEVER <? min_distance s i j).

  Definition envs (c : Cfg) : list Z := map (fun e => (ENV_START + Z.of_nat e)%Z) (seq 0 (n_env c)).

  (** the task list of [detect_collisions_with_skips], in the order the loops push *)
  Definition link_tasks (c : Cfg) (s : Safety) (skip : list Z) (check_tool : bool) (i : Z) : list (Z * Z) :=
    (* for j in ((i + 1)..6).rev() *)
    map (fun j => (i, j)) (filter (fun j => (1 <? j - i)%Z && check_required s skip i j) (filter (fun j => (i <? j)%Z) [5; 4; 3; 2; 1; 0]%Z))
    ++ map (fun e => (i, e)) (filter (fun e => check_required s skip i e) (envs c))
    ++ (if check_tool && negb (i =? 5)%Z && negb (i =? 4)%Z && check_required s skip i J_TOOL && has_tool c then [(i, J_TOOL)] else [])
    ++ (if negb (i =? 0)%Z && check_required s skip i J_BASE && has_base c then [(i, J_BASE)] else []).

  Definition tasks (c : Cfg) (s : Safety) (skip : list Z) : list (Z * Z) :=
    let check_tool := negb (existsb (Z.eqb J_TOOL) skip) in
    (if check_tool && has_tool c then map (fun e => (J_TOOL, e)) (filter (fun e => check_required s skip J_TOOL e) (envs c)) else [])
    ++ flat_map (link_tasks c s skip check_tool) [0; 1; 2; 3; 4; 5]%Z
    ++ (if (check_tool || check_required s skip J_TOOL J_BASE) && has_tool c && has_base c then [(J_TOOL, J_BASE)] else []).

  Fixpoint filter_map {A B} (f : A -> option B) (l : list A) : list B :=
    match l with [] => [] | x :: l' => match f x with Some y => y :: filter_map f l' | None => filter_map f l' end end.

  (** rayon's [find_map_any]: some element of the hits, unspecified which *)
  Variable choose : list (Z * Z) -> option (Z * Z).

  (** [process_collision_tasks] *)
  Definition process (s : Safety) (mode : Mode) (ts : list (Z * Z)) : list (Z * Z) :=
    match mode with
    | NoCheck => []
    | FirstOnly => match choose (filter_map (task_result s) ts) with Some p => [p] | None => [] end
    | AllColl => filter_map (task_result s) ts
    end.

  Definition detect (c : Cfg) (s : Safety) (override : option Mode) (skip : list Z) : list (Z * Z) :=
    process s (match override with Some m => m | None => s_mode s end) (tasks c s skip).

  (** [RobotBody::collision_details] / [near] (the table passed in is used) *)
  Definition collision_details (c : Cfg) (s : Safety) : list (Z * Z) := detect c s None [].
  (** [RobotBody::collides] *)
  Definition collides (c : Cfg) (s : Safety) : bool :=
    match s_mode s with
    | NoCheck => false
    | _ => match detect c s (Some FirstOnly) [] with [] => false | _ => true end
    end.

  (** ** specification side: the relevant pairs of the property text and the brute-force verdict *)
  Definition relevant (c : Cfg) : list (Z * Z) :=
    flat_map (fun i => map (fun j => (i, j)) (filter (fun j => (i + 1 <? j)%Z) [0; 1; 2; 3; 4; 5]%Z)) [0; 1; 2; 3; 4; 5]%Z
    ++ flat_map (fun i => map (fun e => (i, e)) (envs c)) [0; 1; 2; 3; 4; 5]%Z
    ++ (if has_tool c then map (fun e => (J_TOOL, e)) (envs c) ++ map (fun i => (i, J_TOOL)) [0; 1; 2; 3]%Z else [])
    ++ (if has_base c then map (fun i => (i, J_BASE)) [1; 2; 3; 4; 5]%Z else [])
    ++ (if has_tool c && has_base c then [(J_TOOL, J_BASE)] else []).
  Definition brute (s : Safety) (p : Z * Z) : bool :=
    let r := min_distance s (fst p) (snd p) in
    if r <=? NEVER then false else if r =? TOUCH then intersects (fst p) (snd p) else dist (fst p) (snd p) <=? r.
End Collide.

(** [RobotBody::non_colliding_offsets]: the twelve single-joint candidates (index 2*joint + (0: from | 1: to)).
    The geometry oracles depend on the candidate (its link poses). *)
Section Offsets.
  Context {T : Type} `{Num T}.
  Variable intersects : nat -> Z -> Z -> bool.
  Variable dist : nat -> Z -> Z -> T.
  Variable prefilter : nat -> Z -> Z -> T -> bool.
  Variable choose : list (Z * Z) -> option (Z * Z).
  Variable legal : nat -> bool.          (* kinematics.constraints() absent or compliant(new_joints) *)

  (** joints before the moved one did not move *)
  Definition skip_of (cand : nat) : list Z := map Z.of_nat (seq 0 (Nat.div cand 2)).
  Definition offered (c : Cfg) (s : @Safety T) (cand : nat) : bool :=
    legal cand &&
    match detect (intersects cand) (dist cand) (prefilter cand) choose c s (Some FirstOnly) (skip_of cand) with
    | [] => true | _ => false end.
  (** rayon's collect keeps the order of the twelve tasks *)
  Definition offsets (c : Cfg) (s : @Safety T) : list nat := filter (offered c s) (seq 0 12).
End Offsets.
