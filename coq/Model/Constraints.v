(** Hand-written model of src/constraints.rs (definitions only).
    Polymorphic over [Num T]; [hp] is the half period (PI in the code). *)
From Coq Require Import ZArith List Bool.
From VF Require Import Base.Num.
Import ListNotations.
Open Scope num_scope.

Section Constraints.
  Context {T : Type} `{Num T}.
  Variable hp : T.
  Definition two_pi : T := n2 * hp.

  (** [while b < a { b = b + TWO_PI }]  (constraints.rs:128-130), fuelled. *)
  Fixpoint advance (fuel : nat) (a b : T) : option T :=
    if b <? a then
      match fuel with O => None | S f => advance f a (b + two_pi) end
    else Some b.
  Definition adv_fuel (a b : T) : nat := S (S (Z.to_nat (nfloor ((a - b) / two_pi)))).

  (** tolerance: [Inf] is f64::INFINITY *)
  Inductive Tol := Inf | Fin (t : T).

  (** the mathematical reading: centre and half width of the arc *)
  Definition center_tol_spec (a b : T) : option (T * Tol) :=
    if a =? b then Some (n0, Inf)
    else if a <? b then Some ((a + b) / n2, Fin ((b - a) / n2))
    else match advance (adv_fuel a b) a b with
         | None => None
         | Some b' => Some ((a + b') / n2, Fin ((b' - a) / n2))
         end.

  (** one joint of [compute_centers] (constraints.rs); [None] = out of fuel.  The half width is taken as the larger of the
      distances from the (rounded) centre to the two limits, so that both limits are inside the range whatever the rounding *)
  Definition half_width (a b c : T) : T := let l := c - a in let r := b - c in if l <? r then r else l.
  Definition center_tol (a b : T) : option (T * Tol) :=
    if a =? b then Some (n0, Inf)
    else if a <? b then let c := (a + b) / n2 in Some (c, Fin (half_width a b c))
    else match advance (adv_fuel a b) a b with
         | None => None
         | Some b' => let c := (a + b') / n2 in Some (c, Fin (half_width a b' c))
         end.

  (** [inside_bounds] (constraints.rs:148-158).  An infinite tolerance means
      "no constraint, not checked" (line 121): the joint is accepted. *)
  Definition inside_bounds (x c : T) (tol : Tol) : bool :=
    match tol with
    | Inf => true
    | Fin t =>
        let d := nabs (x - c) in
        let d := nfmod d two_pi in
        let d := if hp <? d then two_pi - d else d in
        d <=? t
    end.

  Record Constraints := {
    c_from : list T; c_to : list T;
    c_centers : list T; c_tols : list Tol;
    c_weight : T }.

  Fixpoint centers_tols (from to : list T) : option (list T * list Tol) :=
    match from, to with
    | a :: from', b :: to' =>
        match center_tol a b, centers_tols from' to' with
        | Some (c, t), Some (cs, ts) => Some (c :: cs, t :: ts)
        | _, _ => None
        end
    | _, _ => Some ([], [])
    end.

  (** [Constraints::new] *)
  Definition mk_constraints (from to : list T) (w : T) : option Constraints :=
    match centers_tols from to with
    | Some (cs, ts) => Some {| c_from := from; c_to := to; c_centers := cs; c_tols := ts; c_weight := w |}
    | None => None
    end.

  (** [f64::to_radians] is [x * (PI / 180)] *)
  Definition to_radians (x : T) : T := x * (hp / nofZ 180).
  (** [Constraints::from_degrees] *)
  Definition from_degrees (from to : list T) (w : T) : option Constraints :=
    mk_constraints (map to_radians from) (map to_radians to) w.
  (** [Constraints::update_range]: weight kept *)
  Definition update_range (cs : Constraints) (from to : list T) : option Constraints :=
    mk_constraints from to (c_weight cs).

  Fixpoint compliant_aux (xs cs : list T) (ts : list Tol) : bool :=
    match xs, cs, ts with
    | x :: xs', c :: cs', t :: ts' => inside_bounds x c t && compliant_aux xs' cs' ts'
    | _, _, _ => true
    end.
  (** [Constraints::compliant] *)
  Definition compliant (k : Constraints) (xs : list T) : bool :=
    compliant_aux xs (c_centers k) (c_tols k).
  (** [Constraints::filter] *)
  Definition cfilter (k : Constraints) (l : list (list T)) : list (list T) :=
    filter (compliant k) l.

  (** [random_angle] (constraints.rs, nested in random_angles) with the uniform variate made explicit:
      [gen_range(0.0..w)] is [u * w] for some u in [0,1); it panics when the range is empty (w <= 0).
      Returns the width handed to gen_range ([None]: gen_range not called) and the angle. *)
  Definition sample_width (from to : T) : option (option T) :=
    if from <? to then Some (Some (to - from))
    else if from =? to then Some (Some two_pi)
    else match advance (adv_fuel from to) from to with
         | None => None
         | Some e => if from <? e then Some (Some (e - from)) else Some None
         end.
  Definition random_angle (from to u : T) : option T :=
    match sample_width from to with
    | None => None
    | Some (Some w) => Some (from + u * w)
    | Some None => Some from
    end.
  Fixpoint random_angles (from to us : list T) : option (list T) :=
    match from, to, us with
    | f :: from', t :: to', u :: us' =>
        match random_angle f t u, random_angles from' to' us' with
        | Some x, Some xs => Some (x :: xs) | _, _ => None end
    | _, _, _ => Some []
    end.
End Constraints.
Arguments Inf {T}.
Arguments Fin {T} t.
