(** Hand-written model of utils/simplify_joint_name.rs on ASCII strings (lists of characters). *)
From Coq Require Import List String Ascii Bool Arith.
Import ListNotations.
Open Scope char_scope.

Definition chars := list ascii.
Definition is_digit (c : ascii) : bool := let n := nat_of_ascii c in ((48 <=? n) && (n <=? 57))%nat.
Definition is_upper (c : ascii) : bool := let n := nat_of_ascii c in ((65 <=? n) && (n <=? 90))%nat.
Definition is_lower (c : ascii) : bool := let n := nat_of_ascii c in ((97 <=? n) && (n <=? 122))%nat.
Definition is_alnum (c : ascii) : bool := is_digit c || is_upper c || is_lower c.
Definition lower (c : ascii) : ascii := if is_upper c then ascii_of_nat (nat_of_ascii c + 32)%nat else c.

(** the macro prefix regex (dollar, brace, one or more non-brace characters, brace) replaced by "" *)
Fixpoint until_brace (l : chars) : option chars :=           (* rest after the first "}" *)
  match l with [] => None | "}" :: r => Some r | _ :: r => until_brace r end.
Fixpoint strip_macros (fuel : nat) (l : chars) : chars :=
  match fuel with
  | O => l
  | S f =>
      match l with
      | "$" :: "{" :: c :: r =>
          if Ascii.eqb c "}" then "$" :: strip_macros f ("{" :: c :: r)          (* "${}" : [^}]+ needs one char *)
          else match until_brace r with Some rest => strip_macros f rest | None => "$" :: strip_macros f ("{" :: c :: r) end
      | c :: r => c :: strip_macros f r
      | [] => []
      end
  end.

(** every non-alphanumeric character (and the underscore) removed, ASCII input *)
Definition clean (l : chars) : chars := filter is_alnum l.

Fixpoint starts_with (p l : chars) : bool :=
  match p, l with [] , _ => true | a :: p', b :: l' => Ascii.eqb a b && starts_with p' l' | _, [] => false end.
Definition JOINT : chars := ["j"; "o"; "i"; "n"; "t"].

(** capture group of the regex ".*joint(NONDIGITS)DIGIT.*": for the LAST "joint" followed by a digit somewhere, the non-digits up to it. *)
Fixpoint nondigits_then_digit (l : chars) : option chars :=
  match l with
  | [] => None
  | c :: r => if is_digit c then Some [] else match nondigits_then_digit r with Some s => Some (c :: s) | None => None end
  end.
Fixpoint last_capture (l : chars) : option chars :=
  match l with
  | [] => None
  | c :: r =>
      match last_capture r with
      | Some s => Some s
      | None => if starts_with JOINT l then nondigits_then_digit (skipn 5%nat l) else None
      end
  end.
(** str::replace(pat, "") for a non-empty pattern *)
Fixpoint remove_all (fuel : nat) (pat l : chars) : chars :=
  match fuel with
  | O => l
  | S f => match l with
           | [] => []
           | c :: r => if starts_with pat l then remove_all f pat (skipn (List.length pat) l) else c :: remove_all f pat r
           end
  end.
Definition discard_non_digit_joint_chars (l : chars) : chars :=
  match last_capture l with
  | Some (c :: s) => remove_all (S (List.length l)) (c :: s) l
  | _ => l
  end.

Fixpoint from_first_joint (l : chars) : option chars :=
  match l with [] => None | c :: r => if starts_with JOINT l then Some l else from_first_joint r end.
Definition remove_before_joint (l : chars) : chars := match from_first_joint l with Some s => s | None => l end.

(** [preprocess_joint_name] *)
Definition preprocess (l : chars) : chars :=
  remove_before_joint (map lower (discard_non_digit_joint_chars (clean (strip_macros (S (List.length l)) l)))).

Definition chars_of (s : string) : chars := list_ascii_of_string s.
Definition string_of (l : chars) : string := string_of_list_ascii l.
Definition preprocess_joint_name (s : string) : string := string_of (preprocess (chars_of s)).
