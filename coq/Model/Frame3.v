(** Hand-written model of Frame::frame / Frame::translation (src/frame.rs:30-90, 251-272) over R. *)
From Coq Require Import ZArith Reals List Bool.
From VF Require Import Base.Lin Base.Num.
Open Scope R_scope.

Definition vnormalize (v : V3) : V3 := vscale (/ vnorm v) v.
(** [Matrix3::from_columns] *)
Definition mcols (a b c : V3) : M3 := mkM3 (vx a) (vx b) (vx c) (vy a) (vy b) (vy c) (vz a) (vz b) (vz c).
Definition vdist (a b : V3) : R := vnorm (vsub a b).

(** [distances_match] *)
Definition distances_match (tol : R) (a1 a2 a3 b1 b2 b3 : V3) : bool :=
  Rltb (Rabs (vdist a1 a2 - vdist b1 b2)) tol &&
  Rltb (Rabs (vdist a1 a3 - vdist b1 b3)) tol &&
  Rltb (Rabs (vdist a2 a3 - vdist b2 b3)) tol.

(** the straight-line part of [Frame::frame] after the three guards *)
Definition frame_core (p1 p2 p3 q1 q2 q3 : V3) : Iso :=
  let v1 := vsub p2 p1 in let v2 := vsub p3 p1 in
  let w1 := vsub q2 q1 in let w2 := vsub q3 q1 in
  let b1 := vnormalize v1 in let b2 := vnormalize (vcross v1 v2) in let b3 := vcross b1 b2 in
  let d1 := vnormalize w1 in let d2 := vnormalize (vcross w1 w2) in let d3 := vcross d1 d2 in
  let rotm := mmul (mcols d1 d2 d3) (mtr (mcols b1 b2 b3)) in
  mkIso rotm (vsub q1 (mapp rotm p1)).

Inductive FrameRes := FOk (i : Iso) | FNotIsometry | FCollinear (source : bool).

(** [Frame::frame]; [tol] = NON_ISOMETRY_TOLERANCE *)
Definition frame3 (tol : R) (p1 p2 p3 q1 q2 q3 : V3) : FrameRes :=
  if negb (distances_match tol p1 p2 p3 q1 q2 q3) then FNotIsometry
  else if Reqb (vnorm (vcross (vsub p2 p1) (vsub p3 p1))) 0 then FCollinear true
  else if Reqb (vnorm (vcross (vsub q2 q1) (vsub q3 q1))) 0 then FCollinear false
  else FOk (frame_core p1 p2 p3 q1 q2 q3).

(** [Frame::translation] *)
Definition frame_translation (p q : V3) : Iso := mkIso I3 (vsub q p).
