(** Hand-written model of Parameters::to_yaml (src/parameters.rs) and Parameters::from_yaml_file
    (src/parameters_from_file.rs) at the level of the YAML document tree (yaml-rust2's [Yaml] enum).
    Numbers are exact rationals; the text <-> tree step and f64 decimal parsing/printing are outside the model. *)
From Coq Require Import ZArith QArith Qround Qabs List String Bool.
Import ListNotations.
Open Scope string_scope.
Open Scope list_scope.

(** what a YAML string scalar means to the reader *)
Inductive SVal := SDeg (q : Q)      (* "deg(<number>)" *)
                | SNum (q : Q)      (* a string that parses as a number *)
                | SOther.           (* anything else *)
Inductive Y :=
| YInt (z : Z) | YReal (q : Q) | YRealBad | YStr (s : SVal)
| YArr (l : list Y) | YMap (kv : list (string * Y)) | YNull | YBad.

Record YParams := { y_geom : list Q; y_off : list Q; y_sg : list Z; y_dof : Z }.
Inductive YErr := EParse | EMissing (f : string) | ELength (found : nat).
Inductive YRes := YOk (p : YParams) | YErrR (e : YErr).

Section Yaml.
  Variable hp : Q.                    (* PI *)
  Definition to_radians (x : Q) : Q := x * (hp / 180).
  Definition to_degrees (x : Q) : Q := x * (180 / hp).
  (** "{:.4}" formatting *)
  Definition round4 (x : Q) : Q := Qfloor (x * 10000 + (1 # 2)) # 10000.
  Definition is_int (x : Q) : bool := Qeq_bool x (inject_Z (Qfloor x)).

  (** ** to_yaml *)
  Definition print_len (x : Q) : Y := if is_int x then YInt (Qfloor x) else YReal x.
  (** utils::deg *)
  Definition print_off (x : Q) : Y := if Qeq_bool x 0 then YInt 0 else YStr (SDeg (round4 (to_degrees x))).
  Definition geom_keys : list string := ["a1"; "a2"; "b"; "c1"; "c2"; "c3"; "c4"].
  Definition to_yaml_tree (p : YParams) : Y :=
    YMap [("opw_kinematics_geometric_parameters", YMap (combine geom_keys (map print_len (y_geom p))));
          ("opw_kinematics_joint_offsets", YArr (map print_off (y_off p)));
          ("opw_kinematics_joint_sign_corrections", YArr (map YInt (y_sg p)));
          ("dof", YInt (y_dof p))].

  (** ** from_yaml_file *)
  Fixpoint assoc (k : string) (kv : list (string * Y)) : Y :=
    match kv with [] => YBad | (k', v) :: r => if String.eqb k k' then v else assoc k r end.
  (** [doc["key"]]: BadValue on anything that is not a hash or lacks the key *)
  Definition yget (y : Y) (k : string) : Y := match y with YMap kv => assoc k kv | _ => YBad end.
  Definition as_i64 (y : Y) : option Z := match y with YInt z => Some z | _ => None end.
  Definition as_f64 (y : Y) : option Q := match y with YReal q => Some q | _ => None end.
  Definition as_vec (y : Y) : option (list Y) := match y with YArr l => Some l | _ => None end.

  Definition read_length (params : Y) (name : string) : option Q :=
    match as_f64 (yget params name) with
    | Some q => Some q
    | None => match as_i64 (yget params name) with Some z => Some (inject_Z z) | None => None end
    end.

  Definition pad6 {A} (l : list A) (d : A) : list A := if Nat.eqb (List.length l) 5 then (l ++ [d])%list else l.

  Definition read_signs (y : Y) : list Z + YErr :=
    let items := match as_vec y with Some l => l | None => repeat (YInt 1) 6 end in
    let sg := pad6 (map (fun i => match as_i64 i with Some z => z | None => 0%Z end) items) 0%Z in
    if Nat.eqb (List.length sg) 6 then inl sg else inr (ELength (List.length sg)).

  Definition read_offset (i : Y) : option Q :=
    match i with
    | YStr (SDeg d) => Some (to_radians d)
    | YStr (SNum q) => Some q
    | YStr SOther => None
    | YReal q => Some q
    | YRealBad => None
    | YInt z => Some (inject_Z z)
    | _ => Some 0
    end.
  Fixpoint all_some {A} (l : list (option A)) : option (list A) :=
    match l with [] => Some [] | Some x :: r => match all_some r with Some xs => Some (x :: xs) | None => None end | None :: _ => None end.
  Definition read_offsets (y : Y) : list Q + YErr :=
    let items := match as_vec y with Some l => l | None => repeat (YInt 0) 6 end in
    match all_some (map read_offset items) with
    | None => inr EParse
    | Some offs => let o := pad6 offs 0 in if Nat.eqb (List.length o) 6 then inl o else inr (ELength (List.length o))
    end.

  Fixpoint read_geom (params : Y) (keys : list string) : list Q + YErr :=
    match keys with
    | [] => inl []
    | k :: ks => match read_length params k with
                 | None => inr (EMissing k)
                 | Some q => match read_geom params ks with inl l => inl (q :: l) | inr e => inr e end
                 end
    end.

  Definition set_nth6 (l : list Z) (v : Z) : list Z := (firstn 5 l ++ [v])%list.

  (** [docs]: the documents the YAML loader returned *)
  Definition from_docs (docs : list Y) : YRes :=
    match docs with
    | [] => YErrR EParse
    | doc :: _ =>
        let params := yget doc "opw_kinematics_geometric_parameters" in
        let dof := match as_i64 (yget params "dof") with
                   | Some d => d
                   | None => match as_i64 (yget doc "dof") with Some d => d | None => 6%Z end
                   end in
        match read_signs (yget doc "opw_kinematics_joint_sign_corrections") with
        | inr e => YErrR e
        | inl sg =>
            let sg := if (dof =? 5)%Z then set_nth6 sg 0%Z else sg in
            match read_geom params geom_keys with
            | inr e => YErrR e
            | inl g =>
                match read_offsets (yget doc "opw_kinematics_joint_offsets") with
                | inr e => YErrR e
                | inl o => YOk {| y_geom := g; y_off := o; y_sg := sg; y_dof := dof |}
                end
            end
        end
    end.
End Yaml.
