(** Hand-written model of the uses of the Jacobian matrix in src/jacobian.rs: velocities (inverse with pseudo-inverse fallback),
    torques (transpose), and the isometry / fixed entry points.  Polymorphic over [Num T]; nalgebra's try_inverse, SVD
    pseudo-inverse and the isometry-to-vector conversion are oracle parameters. *)
From Coq Require Import ZArith List Bool.
From VF Require Import Base.Num.
Import ListNotations.
Open Scope num_scope.

Section JacUse.
  Context {T : Type} `{Num T}.

  Definition dot (a b : list T) : T := fold_right (fun p acc => fst p * snd p + acc) n0 (combine a b).
  (** matrix (list of rows) times vector *)
  Definition mulv (M : list (list T)) (v : list T) : list T := map (fun row => dot row v) M.
  Definition col (M : list (list T)) (c : nat) : list T := map (fun row => nth c row n0) M.
  Definition transpose (n : nat) (M : list (list T)) : list (list T) := map (col M) (seq 0 n).

  (** [torques_from_vector]: self.matrix.transpose() * F *)
  Definition torques (J : list (list T)) (F : list T) : list T := mulv (transpose 6 J) F.

  Variable try_inverse : list (list T) -> option (list (list T)).        (* Matrix6::try_inverse *)
  Variable pseudo_inverse : list (list T) -> option (list (list T)).     (* SVD::pseudo_inverse(epsilon) *)

  (** [velocities_from_vector] *)
  Definition velocities (J : list (list T)) (X : list T) : option (list T) :=
    match try_inverse J with
    | Some Ji => Some (mulv Ji X)
    | None => match pseudo_inverse J with Some Jp => Some (mulv Jp X) | None => None end
    end.

  Variable Iso : Type.
  Variable vec_of : Iso -> list T.   (* translation.vector ++ rotation.scaled_axis() *)
  (** [velocities], [torques] (isometry arguments), [velocities_fixed] *)
  Definition velocities_iso (J : list (list T)) (d : Iso) : option (list T) := velocities J (vec_of d).
  Definition torques_iso (J : list (list T)) (d : Iso) : list T := torques J (vec_of d).
  Definition velocities_fixed (J : list (list T)) (vx vy vz : T) : option (list T) := velocities J [vx; vy; vz; n0; n0; n0].
End JacUse.
