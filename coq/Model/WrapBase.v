(** Types the generated delegation code (Gen/Delegation.v) is written against:
    the [Kinematics] trait as a record of functions, joint vectors as lists. *)
From Coq Require Import ZArith Reals List Bool.
From VF Require Import Base.Lin Base.Num Model.Constraints.
Import ListNotations.
Open Scope R_scope.

Definition JL := list R.
Definition jl_get (j : JL) (i : nat) : R := nth i j 0.
Fixpoint jl_set (j : JL) (i : nat) (v : R) : JL :=
  match j, i with
  | [], _ => []
  | _ :: t, O => v :: t
  | x :: t, S i' => x :: jl_set t i' v
  end.
Fixpoint set_nth {A} (l : list A) (i : nat) (v : A) : list A :=
  match l, i with
  | [], _ => []
  | _ :: t, O => v :: t
  | x :: t, S i' => x :: set_nth t i' v
  end.

(** the [Kinematics] trait *)
Record Kin := mkKin {
  k_inverse : Iso -> list JL;
  k_inverse_continuing : Iso -> JL -> list JL;
  k_forward : JL -> Iso;
  k_inverse_5dof : Iso -> R -> list JL;
  k_inverse_continuing_5dof : Iso -> JL -> list JL;
  k_constraints : option (@Constraints R);
  k_kinematic_singularity : JL -> bool;
  k_forward_with_joint_poses : JL -> list Iso
}.

(** [Translation3] as an isometry *)
Definition itrans (x y z : R) : Iso := mkIso I3 (mkV3 x y z).
(** LinearAxis: the cart translation selected by [axis] (0,1,2); other values panic in the code *)
Definition axis_translation (axis : Z) (d : R) : option Iso :=
  if (axis =? 0)%Z then Some (itrans d 0 0)
  else if (axis =? 1)%Z then Some (itrans 0 d 0)
  else if (axis =? 2)%Z then Some (itrans 0 0 d)
  else None.
