(** Hand-written model of the tail of inverse_intern / inverse_intern_5_dof (src/kinematics_impl.rs:487-528, 674-716):
    offsets and signs, finiteness, normalisation to [-PI, PI], forward-kinematics cross-check. *)
From Coq Require Import ZArith List Bool.
From VF Require Import Base.Num Model.Kin.
Import ListNotations.
Open Scope num_scope.

Section Finish.
  Context {T : Type} `{Num T}.
  Variable hp : T.
  Variables sg off : list T.
  Variable fk_ok : list T -> bool.     (* compare_poses(pose, forward(sols[si]), DISTANCE_TOLERANCE, ANGULAR_TOLERANCE) *)

  (** one branch: [(theta, finite?)] per joint *)
  Definition ext_row (row : list (T * bool)) : option (list T) :=
    if forallb snd row then
      Some (map (wrap_pi hp) (map2 (fun x so => (x + fst so) * snd so) (map fst row) (combine off sg)))
    else None.

  Fixpoint finish (table : list (list (T * bool))) : list (list T) :=
    match table with
    | [] => []
    | row :: rest =>
        match ext_row row with
        | Some s => if fk_ok s then s :: finish rest else finish rest
        | None => finish rest
        end
    end.

  (** 5-DOF variant: five computed joints, J6 passed through untouched; the check is on the position only *)
  Variable fk_ok_xyz : list T -> bool.
  Definition ext_row5 (j6 : T) (row : list (T * bool)) : option (list T) :=
    if forallb snd row then
      Some (map (wrap_pi hp) (map2 (fun x so => (x + fst so) * snd so) (map fst row) (combine (firstn 5 off) (firstn 5 sg))) ++ [j6])
    else None.
  Fixpoint finish5 (j6 : T) (table : list (list (T * bool))) : list (list T) :=
    match table with
    | [] => []
    | row :: rest =>
        match ext_row5 j6 row with
        | Some s => if fk_ok_xyz s then s :: finish5 j6 rest else finish5 j6 rest
        | None => finish5 j6 rest
        end
    end.
End Finish.
