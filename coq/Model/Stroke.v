(** Hand-written model of src/path_plan/cartesian.rs (Cartesian::plan and its stages).
    Oracles: the collision-aware continuation IK, pose interpolation, pose densification counts,
    the RRT planner, the collision verdict of the start, rayon's find_map_any, the stop flag. *)
From Coq Require Import ZArith List Bool.
From VF Require Import Base.Num.
Import ListNotations.
Open Scope num_scope.

Section Stroke.
  Context {T : Type} `{Num T}.
  Definition JV := list T.

  (** PathFlags bits *)
  Definition F_TRACE : Z := 4.  Definition F_INTERP : Z := 8.  Definition F_LAND : Z := 16.  Definition F_PARK : Z := 64.

  Variable Pose : Type.
  Variable ik : Pose -> JV -> list JV.        (* self.robot.inverse_continuing(pose, previous): collision-aware, sorted *)
  Variable mid : Pose -> Pose -> Pose.        (* from.interpolate(to, DIV_RATIO = 0.5) *)
  Variable coef : JV.                         (* transition_coefficients *)
  Variable max_cost : T.                      (* max_transition_cost *)

  Fixpoint wsum (a b c : JV) : T :=
    match a, b, c with x :: a', y :: b', k :: c' => nabs (x - y) * k + wsum a' b' c' | _, _, _ => n0 end.
  (** utils::transition_costs *)
  Definition tcost (a b : JV) : T := wsum a b coef.
  Definition first_ok (starting : JV) (sols : list JV) : option JV :=
    find (fun next => tcost starting next <=? max_cost) sols.

  (** [step_adaptive_linear_transition]; [budget] = linear_recursion_depth - depth *)
  Fixpoint adaptive (budget : nat) (starting : JV) (from to : Pose) : option (list JV) :=
    match first_ok starting (ik to starting) with
    | Some next => Some [next]
    | None =>
        match budget with
        | O => None
        | S b =>
            let m := mid from to in
            match adaptive b starting from m with
            | None => None
            | Some t1 =>
                let mid_step := last t1 starting in
                match adaptive b mid_step m to with
                | None => None
                | Some t2 => Some (t1 ++ t2)
                end
            end
        end
    end.

  (** annotated poses *)
  Definition APose := (Pose * Z)%type.
  Variable densify : Pose -> Pose -> list Pose.       (* add_intermediate_poses: the poses strictly between *)

  (** [add_intermediate_poses]: number of sub-steps of a segment of length [d] and rotation angle [th] *)
  Definition nceilN (x : T) : nat := Z.to_nat (Z.opp (nfloor (- x))).
  Definition nsteps (d th step_m step_rad : T) : nat :=
    Nat.max (Nat.max (nceilN (d / step_m)) (nceilN (th / step_rad))) 1.
  (** the i-th intermediate coordinate: start + (diff / steps) * i, for i = 1 .. steps-1 *)
  Definition inter_coord (x0 dx : T) (steps i : nat) : T := x0 + dx / nofZ (Z.of_nat steps) * nofZ (Z.of_nat i).

  (** [with_intermediate_poses] *)
  Definition interp_of (a b : Pose) : list APose := map (fun p => (p, F_INTERP)) (densify a b).
  Fixpoint stroke_poses (cur : Pose) (steps : list Pose) (park : Pose) : list APose :=
    match steps with
    | [] => interp_of cur park ++ [(park, F_PARK)]
    | s :: rest => interp_of cur s ++ (s, F_TRACE) :: stroke_poses s rest park
    end.
  Definition with_intermediate_poses (land : Pose) (steps : list Pose) (park : Pose) : list APose :=
    (land, F_LAND) :: stroke_poses land steps park.

  Variable rrt : JV -> JV -> option (list JV).        (* self.rrt.plan_rrt(prev, next, robot, stop) *)
  Variable budget0 : nat.                             (* linear_recursion_depth *)

  Fixpoint first_rrt (prev : JV) (sols : list JV) : option (list JV) :=
    match sols with [] => None | next :: r => match rrt prev next with Some p => Some p | None => first_rrt prev r end end.

  Definition AJ := (JV * Z)%type.
  (** flags of the way-points of one linear extension *)
  Fixpoint flag_ext (ext : list JV) (toflags : Z) : list AJ :=
    match ext with
    | [] => []
    | [s] => [(s, toflags)]
    | s :: r => (s, Z.ldiff (Z.lor toflags F_INTERP) (Z.lor F_TRACE F_PARK)) :: flag_ext r toflags
    end.

  (** the window loop of [probe_strategy] *)
  Fixpoint probe_loop (from : APose) (rest : list APose) (trace : list AJ) (prev : JV) : option (list AJ) :=
    match rest with
    | [] => Some trace
    | to :: rest' =>
        match adaptive budget0 prev (fst from) (fst to) with
        | Some ext => probe_loop to rest' (trace ++ flag_ext ext (snd to)) (last ext prev)
        | None =>
            match first_rrt prev (ik (fst to) prev) with
            | Some path => probe_loop to rest' (trace ++ map (fun s => (s, Z.ldiff (snd to) F_INTERP)) path) (last path prev)
            | None => None
            end
        end
    end.

  Variable include_interp : bool.
  (** the on-boarding leg (RRT from the caller's start joints to the landing solution, its last node replaced by the LAND point)
      followed by the Cartesian part *)
  Definition F_ONBOARDING : Z := 2.
  Definition onboard (onb : list JV) (strategy : JV) : list AJ :=
    map (fun s => (s, F_ONBOARDING)) (removelast onb) ++ [(strategy, F_LAND)].
  Definition probe_strategy (start strategy : JV) (poses : list APose) (stopped : bool) : option (list AJ) :=
    match rrt start strategy with
    | None => None
    | Some onb =>
        match poses with
        | [] => Some (onboard onb strategy)
        | p0 :: rest =>
            match probe_loop p0 rest (onboard onb strategy) strategy with
            | None => None
            | Some tr =>
                if stopped then None
                else Some (if include_interp then tr else filter (fun a => negb (Z.testbit (snd a) 3)) tr)
            end
        end
    end.

  Variable start_collides : bool.
  Variable choose : list (list AJ) -> option (list AJ).   (* find_map_any over the strategies that worked *)
  Variable stop_seen : JV -> bool.                        (* the stop flag as seen at the end of a probe *)

  Fixpoint filter_map_o {A B} (f : A -> option B) (l : list A) : list B :=
    match l with [] => [] | x :: r => match f x with Some y => y :: filter_map_o f r | None => filter_map_o f r end end.

  (** [Cartesian::plan] *)
  Definition plan (from : JV) (land : Pose) (steps : list Pose) (park : Pose) : option (list AJ) :=
    if start_collides then None
    else
      let strategies := ik land from in
      match strategies with
      | [] => None
      | _ =>
          let poses := with_intermediate_poses land steps park in
          choose (filter_map_o (fun s => probe_strategy from s poses (stop_seen s)) strategies)
      end.
End Stroke.
