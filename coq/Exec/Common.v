(** Executable (T := Q) side shared by the correspondence evaluations. *)
From Coq Require Import ZArith QArith List.
From VF Require Import Base.Num.
Import ListNotations.
(** the rational denoted by std::f64::consts::PI = 0x400921FB54442D18 *)
Definition hpQ : Q := 884279719003555 # 281474976710656.
Definition deltaQ : Q := 1 # 1000000000.
Definition Qouts (l : list Q) : list Z := flat_map Qout l.
