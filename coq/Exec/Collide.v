(** Q instance of the collision pair logic with oracle tables recorded from parry3d by the harness. *)
From Coq Require Import ZArith QArith List Bool.
From VF Require Import Base.Num Model.Collide Exec.Common.
Import ListNotations.

(** table row: (a, b, intersects, distance) *)
Definition Row := (Z * Z * bool * Q)%type.
Definition find_row (t : list Row) (a b : Z) : option Row :=
  find (fun r => match r with (x, y, _, _) => ((x =? a)%Z && (y =? b)%Z) || ((x =? b)%Z && (y =? a)%Z) end) t.
Definition t_intersects (t : list Row) (a b : Z) : bool :=
  match find_row t a b with Some (_, _, i, _) => i | None => false end.
Definition t_dist (t : list Row) (a b : Z) : Q :=
  match find_row t a b with Some (_, _, _, d) => d | None => 1000000 end.
Definition exact_prefilter (_ _ : Z) (_ : Q) : bool := true.
Definition first_choice (l : list (Z * Z)) : option (Z * Z) := hd_error l.

Definition mode_of (z : Z) : Mode := if (z =? 0)%Z then FirstOnly else if (z =? 1)%Z then AllColl else NoCheck.
Definition mk_safety (env robot : Q) (sp : list (Z * Z * Q)) (m : Z) : @Safety Q :=
  {| to_env := env; to_robot := robot; special := sp; s_mode := mode_of m |}.
Definition pairs_out (l : list (Z * Z)) : list Z := flat_map (fun p => [fst p; snd p]) l.

(** returns [collides; n_details; details...; n_near; near...] *)
Definition run_c10 (tool base : bool) (nenv : nat) (s near_s : @Safety Q) (t near_t : list Row) : list Z :=
  let c := {| has_tool := tool; has_base := base; n_env := nenv |} in
  let det := collision_details (t_intersects t) (t_dist t) exact_prefilter first_choice c s in
  let nr := collision_details (t_intersects near_t) (t_dist near_t) exact_prefilter first_choice c near_s in
  bout (collides (t_intersects t) (t_dist t) exact_prefilter first_choice c s)
  :: Z.of_nat (length det) :: pairs_out det ++ Z.of_nat (length nr) :: pairs_out nr.

(** C14: per candidate tables; returns the offered candidate indices *)
Definition run_c14 (tool base : bool) (nenv : nat) (s : @Safety Q) (legal : list bool) (ts : list (list Row)) : list Z :=
  let c := {| has_tool := tool; has_base := base; n_env := nenv |} in
  map Z.of_nat
    (offsets (fun k => t_intersects (nth k ts [])) (fun k => t_dist (nth k ts [])) (fun _ => exact_prefilter) first_choice
             (fun k => nth k legal false) c s).
