(** Q instance of the RRT model: box obstacles in joint space, recorded sample stream and stop flag. *)
From Coq Require Import ZArith QArith Qround List Bool.
From VF Require Import Base.Num Model.Rrt Exec.Common.
Import ListNotations.

Definition rnd64 (x : Q) : Q := Qred (Qfloor (x * inject_Z (2 ^ 64)) # (2 ^ 64)).
Definition inside_box (lo hi p : list Q) : bool :=
  forallb (fun t => match t with (l, h, x) => Qle_bool l x && Qle_bool x h end) (combine (combine lo hi) p).
Definition free_of (obs : list (list Q * list Q)) (p : list Q) : bool :=
  negb (existsb (fun b => inside_box (fst b) (snd b) p) obs).

(** outcome: [0] failed, [1] cancelled, [2] out of fuel, [3; npts; dim; coords as num/den ...] path *)
Definition run_c13 (start goal : list Q) (L : Q) (max_try : nat) (obs : list (list Q * list Q))
  (samples : list (list Q)) (stop_from : Z) : list Z :=
  let smp := fun k => nth k samples (last samples []) in
  let stops := fun k => if (stop_from <? 0)%Z then false else (stop_from <=? Z.of_nat k)%Z in
  match dual_rrt_connect (free_of obs) L rnd64 smp stops 2000 start goal max_try with
  | Failed => [0%Z]
  | Cancelled => [1%Z]
  | OutOfFuel => [2%Z]
  | Path p => 3%Z :: Z.of_nat (length p) :: flat_map Qouts p
  end.
