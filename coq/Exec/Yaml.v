From Coq Require Import ZArith QArith List String Bool.
From VF Require Import Base.Num Model.Yaml Exec.Common.
Import ListNotations.
Open Scope list_scope.

Definition sval_eqb (a b : SVal) : bool :=
  match a, b with SDeg p, SDeg q | SNum p, SNum q => Qeq_bool p q | SOther, SOther => true | _, _ => false end.
Fixpoint y_eqb (a b : Y) : bool :=
  match a, b with
  | YInt x, YInt y => Z.eqb x y
  | YReal p, YReal q => Qeq_bool p q
  | YRealBad, YRealBad | YNull, YNull | YBad, YBad => true
  | YStr s, YStr t => sval_eqb s t
  | YArr l, YArr m =>
      (fix go (l m : list Y) : bool := match l, m with [], [] => true | x :: l', y :: m' => y_eqb x y && go l' m' | _, _ => false end) l m
  | YMap l, YMap m =>
      (fix go (l m : list (string * Y)) : bool :=
         match l, m with [], [] => true | (k, x) :: l', (k', y) :: m' => String.eqb k k' && y_eqb x y && go l' m' | _, _ => false end) l m
  | _, _ => false
  end.

Definition err_code (e : YErr) : Z := match e with EParse => 1 | EMissing _ => 2 | ELength _ => 3 end%Z.
Definition res_out (r : YRes) : list Z :=
  match r with
  | YErrR e => [0; err_code e]%Z
  | YOk p => 1%Z :: Qouts (y_geom p) ++ Qouts (y_off p) ++ y_sg p ++ [y_dof p]
  end.
(** parse the documents the implementation's YAML loader produced *)
Definition run_from (docs : list Y) : list Z := res_out (from_docs hpQ docs).
(** does the tree printed by the implementation equal the model's tree?  followed by the model's own parse of its tree *)
Definition run_to (g off : list Q) (sg : list Z) (dof : Z) (impl_tree : Y) : list Z :=
  let t := to_yaml_tree hpQ {| y_geom := g; y_off := off; y_sg := sg; y_dof := dof |} in
  bout (y_eqb t impl_tree) :: res_out (from_docs hpQ [t]).
