From Coq Require Import ZArith QArith List Bool.
From VF Require Import Base.Num Model.Stroke Exec.Common.
Import ListNotations.

Definition jv_eqb (a b : list Q) : bool := (Nat.eqb (length a) (length b)) && forallb (fun p => Qeq_bool (fst p) (snd p)) (combine a b).
(** recorded IK answers keyed by (position on the segment as a dyadic parameter, previous joints) *)
Definition tab_ik (table : list (Q * list Q * list (list Q))) (p : Q) (prev : list Q) : list (list Q) :=
  match find (fun e => Qeq_bool (fst (fst e)) p && jv_eqb (snd (fst e)) prev) table with Some e => snd e | None => [[(-99)%Q]] end.
Definition qmid (a b : Q) : Q := Qred ((a + b) / 2).

Definition run_adaptive (budget : nat) (starting coef : list Q) (max_cost : Q) (table : list (Q * list Q * list (list Q))) : list Z :=
  match adaptive Q (tab_ik table) qmid coef max_cost budget starting 0 1 with
  | None => [0%Z]
  | Some l => 1%Z :: Z.of_nat (length l) :: flat_map Qouts l
  end.

(** pose schedule: key poses are numbered, the densification count of segment k comes from (d_k, theta_k) *)
Definition run_poses (segments : list (Q * Q)) (step_m step_rad : Q) : list Z :=
  let n := length segments in
  let count := fun a : nat => match nth_error segments a with Some (d, th) => (nsteps d th step_m step_rad - 1)%nat | None => O end in
  let densify := fun (a _ : nat) => repeat a (count a) in
  map snd (with_intermediate_poses nat densify 0%nat (seq 1 (n - 1)) n).
