(** Q instance of the kinematics glue model with recorded oracle answers. *)
From Coq Require Import ZArith QArith Qabs List Bool.
From VF Require Import Base.Num Model.Constraints Model.Kin Exec.Common.
Import ListNotations.


Definition widen (d : Q) (k : @Constraints Q) : @Constraints Q :=
  {| c_from := c_from k; c_to := c_to k; c_centers := c_centers k;
     c_tols := map (fun t => match t with Inf => Inf | Fin x => Fin (x + d)%Q end) (c_tols k);
     c_weight := c_weight k |}.

Definition mk_cons (d : Q) (c : option (list Q * list Q * Q)) : option (@Constraints Q) :=
  match c with
  | None => None
  | Some (f, t, w) => match mk_constraints hpQ f t w with Some k => Some (widen d k) | None => None end
  end.

Definition near6 (a b : list Q) : bool :=
  forallb (fun p => Qle_bool (Qabs (fst p - snd p)) (1 # 1000000)) (combine a b).

Definition dist6 (a b : list Q) : Q :=
  fold_left (fun m p => let d := Qabs (fst p - snd p) in if Qle_bool m d then d else m) (combine a b) 0.

(** verdict recorded for the candidate closest to [now] (candidates of different shifts differ by ~1e-7) *)
Definition lookup_cand (cands : list (list Q * bool)) (now : list Q) : bool :=
  let best := fold_left (fun acc c =>
                 let d := dist6 (fst c) now in
                 match acc with
                 | None => Some (d, snd c)
                 | Some (d0, v0) => if Qle_bool d0 d then acc else Some (d, snd c)
                 end) cands None in
  match best with Some (d, v) => if Qle_bool d (1 # 1000000) then v else false | None => false end.

Definition sols_out (l : list (list Q)) : list Z :=
  Z.of_nat (length l) :: flat_map Qouts l.

(** entry: 0 inverse, 1 inverse_continuing, 2 inverse_5dof, 3 inverse_continuing_5dof *)
Definition run_entry (thrQ dthr dlim : Q) (sg off : list Q) (dof : Z) (c : option (list Q * list Q * Q))
  (entry : Z) (sentinel : bool) (prev : list Q) (j6 j6used : Q)
  (kern : list (list (list Q))) (kern5 : list (list Q)) (cands : list (list Q * bool)) : list Z :=
  let cons := mk_cons dlim c in
  let thr := (thrQ + dthr)%Q in
  let kernel := fun d : nat => nth d kern [] in
  let kernel5 := fun (_ : nat) (x : Q) => if Qeq_bool x j6used then kern5 else [[(-99)%Q]] in
  let shift := fun (_ d : nat) => d in
  let fk := fun (_ : nat) now => lookup_cand cands now in
  sols_out
    (if (entry =? 0)%Z then inverse hpQ dof cons nat kernel kernel5 0%nat
     else if (entry =? 1)%Z then inverse_continuing hpQ thr sg off dof cons nat kernel kernel5 shift fk 0%nat sentinel prev
     else if (entry =? 2)%Z then inverse_5dof hpQ cons nat kernel5 0%nat j6
     else inverse_continuing_5dof hpQ cons nat kernel5 0%nat sentinel prev).

Definition run_normalize_near (now prev : Q) : list Z := Qout (normalize_near hpQ now prev).
Definition run_close_pi (x t : Q) : list Z := [bout (is_close_to_multiple_of_pi hpQ x t)].
Definition run_angles_close (thrQ a b : Q) : list Z := [bout (are_angles_close hpQ thrQ a b)].
Definition run_distance (a b : list Q) : list Z := Qout (calculate_distance a b).
Definition run_singular (thrQ dthr : Q) (sg off j : list Q) : list Z := [bout (singular hpQ (thrQ + dthr)%Q sg off j)].

(** [sort_by_closeness] alone: the stable sort of the solutions by the documented cost *)
Definition run_sort (c : option (list Q * list Q * Q)) (sentinel : bool) (prev : list Q) (sols : list (list Q)) : list Z :=
  let cons := mk_cons 0 c in
  let previous := if sentinel then centers cons else prev in
  sols_out (sort_by (cost cons previous) sols).
