From Coq Require Import ZArith QArith List Bool.
From VF Require Import Base.Num Model.JacUse Exec.Common.
Import ListNotations.
(** J: the matrix the implementation built (rows); Ji: the answer of try_inverse as recorded (rows; [] = None); X: twist = wrench.
    Output: torques (6), velocities flag, velocities (6), residual J*v - X (6) *)
Definition run_jacuse (J Ji : list (list Q)) (X : list Q) : list Z :=
  let inv := fun _ : list (list Q) => match Ji with [] => None | _ => Some Ji end in
  let tq := torques J X in
  match velocities inv (fun _ => None) J X with
  | Some v => Qouts tq ++ [1%Z] ++ Qouts v ++ Qouts (map (fun p => nsub (fst p) (snd p)) (combine (mulv J v) X))
  | None => Qouts tq ++ [0%Z]
  end.
