From Coq Require Import ZArith QArith List.
From VF Require Import Base.Num Model.Constraints Exec.Common.
Import ListNotations.
(** image of the sampler for one joint: [lo; hi) as the draws at u = 0 and u = 1, and the width flag *)
Definition run_c18 (from to : Q) : list Z :=
  match random_angle hpQ from to 0, random_angle hpQ from to 1 with
  | Some lo, Some hi => 1%Z :: Qout lo ++ Qout hi
  | _, _ => [0%Z]
  end.
