From Coq Require Import ZArith QArith List Bool.
From VF Require Import Base.Num Model.Kin Model.Finish Exec.Common Exec.Kin.
Import ListNotations.
(** rows: theta with its finiteness as traced from the implementation; verdicts: FK cross-check recorded per candidate *)
Definition run_finish (sg off : list Q) (rows : list (list (Q * bool))) (verdicts : list (list Q * bool)) : list Z :=
  sols_out (finish hpQ sg off (lookup_cand verdicts) rows).
(** 5-DOF variant: 8x5 table, the caller's J6, position verdict per candidate *)
Definition run_finish5 (sg off : list Q) (j6 : Q) (rows : list (list (Q * bool))) (verdicts : list (list Q * bool)) : list Z :=
  sols_out (finish5 hpQ sg off (lookup_cand verdicts) j6 rows).
