From Coq Require Import ZArith QArith List String Bool.
From VF Require Import Base.Num Model.Urdf Model.JointName Exec.Common.
Import ListNotations.
Open Scope string_scope.
Open Scope list_scope.

Definition uerr_code (e : UErr) : Z := match e with EXml | EDuplicate _ => 1 | _ => 2 end%Z.
(** given names: None = default names with name simplification *)
Definition run_urdf (names : option (list string)) (root : X) : list Z :=
  let r := match names with
           | None => from_tree preprocess_joint_name default_names root
           | Some ns => from_tree (fun s => s) ns root
           end in
  match r with
  | inr e => [0; uerr_code e]%Z
  | inl u => 1%Z :: Qouts [u_a1 u; u_a2 u; u_b u; u_c1 u; u_c2 u; u_c3 u; u_c4 u] ++ u_sg u ++ Qouts (u_from u) ++ Qouts (u_to u) ++ [u_dof u]
  end.
Definition run_name (s : string) : string := preprocess_joint_name s.
