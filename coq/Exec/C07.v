From Coq Require Import ZArith QArith List.
From VF Require Import Base.Num Model.Constraints Exec.Common.
Import ListNotations.

Definition tol_out (t : @Tol Q) : list Z :=
  match t with Inf => [0; 0; 1]%Z | Fin q => 1%Z :: Qout q end.

Fixpoint joints_out (xs cs : list Q) (ts : list (@Tol Q)) : list Z :=
  match xs, cs, ts with
  | x :: xs', c :: cs', t :: ts' =>
      Qout c ++ tol_out t ++
      [bout (inside_bounds hpQ (x - deltaQ)%Q c t); bout (inside_bounds hpQ x c t);
       bout (inside_bounds hpQ (x + deltaQ)%Q c t)] ++ joints_out xs' cs' ts'
  | _, _, _ => []
  end.

(** ctor: 0 = new, 1 = from_degrees, 2 = new + update_range *)
Definition run_c07 (ctor : Z) (from to xs : list Q) : list Z :=
  let k := if (ctor =? 1)%Z then from_degrees hpQ from to 0
           else if (ctor =? 2)%Z then
             match mk_constraints hpQ [0;0;0;0;0;0] [1;1;1;1;1;1] 0 with
             | Some k0 => update_range hpQ k0 from to | None => None end
           else mk_constraints hpQ from to 0 in
  match k with
  | None => [0%Z]
  | Some k => 1%Z :: bout (compliant hpQ k xs) :: joints_out xs (c_centers k) (c_tols k)
  end.
