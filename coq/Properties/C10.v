(** C10 — collision verdicts equal a brute-force pairwise check at the safety distances. *)
From Coq Require Import ZArith Reals List Bool.
From VF Require Import Base.Num Model.Collide Proofs.CollideP Gen.Consts.
Import ListNotations.
Open Scope R_scope.

Section C10.
  Variables (intersects : Z -> Z -> bool) (dist : Z -> Z -> R) (prefilter : Z -> Z -> R -> bool)
            (choose : list (Z * Z) -> option (Z * Z)).

  Theorem C10_all_mode_eq_brute : forall c s q, prefilter_sound dist prefilter ->
    In q (detect intersects dist prefilter choose c s (Some AllColl) []) <->
    exists p, In p (relevant c) /\ brute intersects dist s p = true /\ q = norm_pair (fst p) (snd p).
  Proof. exact (all_mode_eq_brute intersects dist prefilter choose). Qed.

  (** holds for EVERY behaviour of find_map_any ([choose]): thread count and scheduling cannot matter *)
  Theorem C10_first_mode_sub_nonempty : forall c s, prefilter_sound dist prefilter -> choose_ok choose ->
    let d := detect intersects dist prefilter choose c s (Some FirstOnly) [] in
    (forall q, In q d -> In q (detect intersects dist prefilter choose c s (Some AllColl) [])) /\
    (d = [] <-> detect intersects dist prefilter choose c s (Some AllColl) [] = []).
  Proof. exact (first_mode_sub_nonempty intersects dist prefilter choose). Qed.

  Theorem C10_nocheck_empty : forall c s skip, detect intersects dist prefilter choose c s (Some NoCheck) skip = [].
  Proof. exact (nocheck_empty intersects dist prefilter choose). Qed.

  Theorem C10_collides_iff_exists : forall c s, prefilter_sound dist prefilter -> choose_ok choose -> s_mode s <> NoCheck ->
    (collides intersects dist prefilter choose c s = true <->
     exists p, In p (relevant c) /\ brute intersects dist s p = true).
  Proof. exact (collides_iff_exists intersects dist prefilter choose). Qed.

  Theorem C10_min_distance_sym : forall (s : @Safety R) a b,
    (lookup (special s) a b = None \/ lookup (special s) b a = None \/ lookup (special s) a b = lookup (special s) b a) ->
    min_distance s a b = min_distance s b a.
  Proof. exact min_distance_sym. Qed.
End C10.

(** the relevant pairs are those of the property text, and the exemption constant is the source's *)
Check (eq_refl : relevant = fun c =>
    flat_map (fun i => map (fun j => (i, j)) (filter (fun j => (i + 1 <? j)%Z) [0; 1; 2; 3; 4; 5]%Z)) [0; 1; 2; 3; 4; 5]%Z
    ++ flat_map (fun i => map (fun e => (i, e)) (envs c)) [0; 1; 2; 3; 4; 5]%Z
    ++ (if has_tool c then map (fun e => (J_TOOL, e)) (envs c) ++ map (fun i => (i, J_TOOL)) [0; 1; 2; 3]%Z else [])
    ++ (if has_base c then map (fun i => (i, J_BASE)) [1; 2; 3; 4; 5]%Z else [])
    ++ (if has_tool c && has_base c then [(J_TOOL, J_BASE)] else [])).
Check (eq_refl : (NEVER_COLLIDES, TOUCH_ONLY, IDX_J_TOOL, IDX_J_BASE, IDX_ENV_START_IDX) = (- 1, 0, J_TOOL, J_BASE, ENV_START)).

(** ** why the enlarged-box pre-filter is sound (design-level theorem, geometry over R in the frame of the smaller shape):
    if a point of the smaller shape (inside its bounding box) and a point of a triangle of the larger shape are within r of
    each other, then a vertex of that triangle lies in the box loosened by r, or the triangle shares a point with the surface
    of the loosened box - the two tests of CollisionTask::collides.  parry3d contracts assumed: a shape lies inside its
    local_aabb; intersection_test of two meshes is true when their surfaces share a point; contains_local_point is the
    closed box.  On every run the pre-filter is also TESTED (the executable model uses the exact distance). *)
From Coq Require Import Reals.
From VF Require Import Base.Lin Proofs.PrefilterP.
Open Scope R_scope.
Theorem C10_prefilter_design : forall lo hi (r : R) (a b v1 v2 v3 : V3),
  in_box lo hi a -> in_triangle v1 v2 v3 b -> vnorm (vsub a b) <= r ->
  let L := loosen lo hi r in
  (in_box (fst L) (snd L) v1 \/ in_box (fst L) (snd L) v2 \/ in_box (fst L) (snd L) v3) \/
  (exists x, in_triangle v1 v2 v3 x /\ on_box_surface (fst L) (snd L) x).
Proof. exact prefilter_design. Qed.
