(** C10 — collision verdicts equal a brute-force pairwise check at the safety distances. *)
From Coq Require Import ZArith Reals List Bool.
From VF Require Import Base.Num Model.Collide Proofs.CollideP Gen.Consts.
Import ListNotations.
Open Scope R_scope.

Section C10.
  Variables (intersects : Z -> Z -> bool) (dist : Z -> Z -> R) (prefilter : Z -> Z -> R -> bool)
            (choose : list (Z * Z) -> option (Z * Z)).

  Theorem C10_all_mode_eq_brute : forall c s q, prefilter_sound dist prefilter ->
    In q (detect intersects dist prefilter choose c s (Some AllColl) []) <->
    exists p, In p (relevant c) /\ brute intersects dist s p = true /\ q = norm_pair (fst p) (snd p).
  Proof. exact (all_mode_eq_brute intersects dist prefilter choose). Qed.

  (** holds for EVERY behaviour of find_map_any ([choose]): thread count and scheduling cannot matter *)
  Theorem C10_first_mode_sub_nonempty : forall c s, prefilter_sound dist prefilter -> choose_ok choose ->
    let d := detect intersects dist prefilter choose c s (Some FirstOnly) [] in
    (forall q, In q d -> In q (detect intersects dist prefilter choose c s (Some AllColl) [])) /\
    (d = [] <-> detect intersects dist prefilter choose c s (Some AllColl) [] = []).
  Proof. exact (first_mode_sub_nonempty intersects dist prefilter choose). Qed.

  Theorem C10_nocheck_empty : forall c s skip, detect intersects dist prefilter choose c s (Some NoCheck) skip = [].
  Proof. exact (nocheck_empty intersects dist prefilter choose). Qed.

  Theorem C10_collides_iff_exists : forall c s, prefilter_sound dist prefilter -> choose_ok choose -> s_mode s <> NoCheck ->
    (collides intersects dist prefilter choose c s = true <->
     exists p, In p (relevant c) /\ brute intersects dist s p = true).
  Proof. exact (collides_iff_exists intersects dist prefilter choose). Qed.

  Theorem C10_min_distance_sym : forall (s : @Safety R) a b,
    (lookup (special s) a b = None \/ lookup (special s) b a = None \/ lookup (special s) a b = lookup (special s) b a) ->
    min_distance s a b = min_distance s b a.
  Proof. exact min_distance_sym. Qed.
End C10.

(** the relevant pairs are those of the property text, and the exemption constant is the source's *)
Check (eq_refl : relevant = fun c =>
    flat_map (fun i => map (fun j => (i, j)) (filter (fun j => (i + 1 <? j)%Z) [0; 1; 2; 3; 4; 5]%Z)) [0; 1; 2; 3; 4; 5]%Z
    ++ flat_map (fun i => map (fun e => (i, e)) (envs c)) [0; 1; 2; 3; 4; 5]%Z
    ++ (if has_tool c then map (fun e => (J_TOOL, e)) (envs c) ++ map (fun i => (i, J_TOOL)) [0; 1; 2; 3]%Z else [])
    ++ (if has_base c then map (fun i => (i, J_BASE)) [1; 2; 3; 4; 5]%Z else [])
    ++ (if has_tool c && has_base c then [(J_TOOL, J_BASE)] else [])).
Check (eq_refl : (NEVER_COLLIDES, TOUCH_ONLY, IDX_J_TOOL, IDX_J_BASE, IDX_ENV_START_IDX) = (- 1, 0, J_TOOL, J_BASE, ENV_START)).
