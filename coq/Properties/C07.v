(** C07 — Joint limits mean arc membership modulo 2*pi.
    Only statements, [exact] proofs and assumption printing live here. *)
From Coq Require Import ZArith Reals List Lra.
From VF Require Import Base.Num Model.Constraints Proofs.ConstraintsP.
Import ListNotations.
Open Scope R_scope.

(** acceptance of a joint vector = every joint on its arc (boundaries included) *)
Theorem C07_compliant_iff_on_arc :
  forall hp from to w k xs, 0 < hp ->
    length from = length to -> length xs = length from ->
    mk_constraints hp from to w = Some k ->
    (compliant hp k xs = true <-> Forall3 (on_arc hp) from to xs).
Proof. intros hp from to w k xs H. exact (compliant_iff_on_arc hp H from to w k xs). Qed.

(** the constructor never fails (the unwrap loop terminates for every pair of limits) *)
Theorem C07_constructor_total :
  forall hp from to w, 0 < hp -> mk_constraints hp from to w <> None.
Proof. intros hp from to w H. exact (mk_constraints_total hp H from to w). Qed.

(** invariance under whole turns of the angle *)
Theorem C07_angle_periodic :
  forall hp a b x (m : Z), on_arc hp a b (x + IZR m * (2 * hp)) <-> on_arc hp a b x.
Proof. exact on_arc_shift_x. Qed.

(** invariance under whole turns of both limits *)
Theorem C07_limits_periodic :
  forall hp a b x (m : Z),
    on_arc hp (a + IZR m * (2 * hp)) (b + IZR m * (2 * hp)) x <-> on_arc hp a b x.
Proof. exact on_arc_shift_limits. Qed.

(** a span of a full turn or more accepts everything *)
Theorem C07_full_turn :
  forall hp a b x, 0 < hp -> 2 * hp <= b - a -> on_arc hp a b x.
Proof. intros hp a b x H. exact (on_arc_full_turn hp H a b x). Qed.

(** from == to: unconstrained *)
Theorem C07_equal_limits_unconstrained : forall hp a x, on_arc hp a a x.
Proof. exact on_arc_equal. Qed.

(** the reported centre of every range is accepted *)
Theorem C07_centres_accepted :
  forall hp from to w k, 0 < hp ->
    mk_constraints hp from to w = Some k -> compliant hp k (c_centers k) = true.
Proof. intros hp from to w k H. exact (centres_accepted hp H from to w k). Qed.

(** filter = exactly the compliant members *)
Theorem C07_filter_spec :
  forall hp k l x, In x (cfilter hp k l) <-> In x l /\ compliant hp k x = true.
Proof. exact cfilter_spec. Qed.

(** the degree constructor and update_range go through the same computation *)
Theorem C07_from_degrees_same :
  forall hp from to w,
    from_degrees hp from to w = mk_constraints hp (map (to_radians hp) from) (map (to_radians hp) to) w.
Proof. reflexivity. Qed.
Theorem C07_update_range_same :
  forall hp k from to, update_range hp k from to = mk_constraints hp from to (c_weight k).
Proof. reflexivity. Qed.

(** non-vacuity: a wrapping six-joint set exists and decides as expected at hp = 2 *)
Example C07_nonvacuous :
  exists k, mk_constraints 2 [3;0;0;0;0;0] [1;1;1;1;1;1] 0 = Some k /\
            length [3;0;0;0;0;0] = length [1;1;1;1;1;1].
Proof.
  destruct (mk_constraints 2 [3;0;0;0;0;0] [1;1;1;1;1;1] 0) as [k|] eqn:E.
  - exists k; split; reflexivity.
  - exfalso. apply (mk_constraints_total 2 ltac:(lra) _ _ _ E).
Qed.

Check C07_compliant_iff_on_arc :
  forall hp from to w k xs, 0 < hp ->
    length from = length to -> length xs = length from ->
    mk_constraints hp from to w = Some k ->
    (compliant hp k xs = true <-> Forall3 (on_arc hp) from to xs).
