(** C04 — continuation IK: nearest representatives, ordered by the documented cost, superset of plain inverse. *)
From Coq Require Import ZArith Reals List Bool Sorting.Sorted.
From VF Require Import Base.Num Model.Constraints Model.Kin Proofs.ConstraintsP Proofs.KinP.
Import ListNotations.
Open Scope R_scope.

(** every angle is moved to the 2*hp-representative nearest to the previous angle
    (previous inside the documented +-2pi range, kernel angles inside [-pi,pi]) *)
Theorem C04_normalize_near_nearest : forall hp now prev, 0 < hp ->
  Rabs prev <= 2 * hp -> Rabs now <= hp ->
  let r := normalize_near hp now prev in
  is_rep hp r now /\ Rabs (r - prev) <= hp /\
  forall k : Z, Rabs (r - prev) <= Rabs (now + IZR k * (2 * hp) - prev).
Proof. intros hp now prev H. exact (normalize_near_nearest hp H now prev). Qed.

Section C04.
  Variables (hp thr : R) (sg off : list R) (dof : Z) (cons : option (@Constraints R)) (Pose : Type)
            (kernel : Pose -> list (list R)) (kernel5 : Pose -> R -> list (list R))
            (shift : Pose -> nat -> Pose) (fk_ok : Pose -> list R -> bool).

  (** the list is in non-decreasing order of the documented cost (all three weight modes; sentinel -> centres) *)
  Theorem C04_continuing_sorted : forall pose (sentinel : bool) prev,
    let previous := if sentinel then centers cons else prev in
    StronglySorted (kle (cost cons previous))
      (inverse_continuing hp thr sg off dof cons Pose kernel kernel5 shift fk_ok pose sentinel prev).
  Proof. exact (continuing_sorted hp thr sg off dof cons Pose kernel kernel5 shift fk_ok). Qed.

  Theorem C04_continuing_5dof_sorted : forall pose (sentinel : bool) prev,
    let previous := if sentinel then centers cons else prev in
    StronglySorted (kle (cost cons previous)) (inverse_continuing_5dof hp cons Pose kernel5 pose sentinel prev).
  Proof. exact (continuing_5dof_sorted hp cons Pose kernel5). Qed.

  (** it contains every solution that plain inverse finds (same class modulo whole turns) *)
  Theorem C04_continuing_superset :
    0 < hp -> (forall pose, shift pose 0%nat = pose) -> (forall pose s, In s (kernel pose) -> length s = 6%nat) ->
    forall pose (sentinel : bool) prev s0, dof <> 5%Z ->
    length (if sentinel then centers cons else prev) = 6%nat ->
    In s0 (inverse hp dof cons Pose kernel kernel5 pose) ->
    exists s, In s (inverse_continuing hp thr sg off dof cons Pose kernel kernel5 shift fk_ok pose sentinel prev)
              /\ Forall2 (is_rep hp) s s0.
  Proof. intros H0 Hs Hk. exact (continuing_superset hp H0 thr sg off dof cons Pose kernel kernel5 shift fk_ok Hs Hk). Qed.
End C04.

(** the cost is the documented one *)
Check (eq_refl : @cost R _ = fun cons previous a =>
  if Reqb (weight cons) 0 then calculate_distance a previous
  else (if Reqb (weight cons) 1 then 0 else calculate_distance a previous) * (1 - weight cons)
       + calculate_distance a (centers cons) * weight cons).

(** ** previous first.  If the previous joints (within +-2 pi, within the limits) realise the pose and the configuration is
    not singular (shoulder, elbow/reach, wrist), they are the FIRST answer of [inverse_continuing] when sorting is by
    distance to previous (BY_PREV / no constraints: weight 0).  Concrete kernel: finishing glue over the generated table;
    rests on the completeness theorem of C02.  So a trajectory followed step by step never switches branch. *)
From VF Require Import Base.Lin Gen.Forward Gen.Inverse Proofs.ForwardP Proofs.SoundP Proofs.CompleteP Proofs.CompleteK Proofs.FirstP Proofs.FirstK.

Theorem C04_previous_first : forall (p : Params) (j : J6) (thr : R) (compare : Iso -> Iso -> bool),
  (forall a, compare a a = true) ->
  (p_sg1 p = 1 \/ p_sg1 p = -1)%Z /\ (p_sg2 p = 1 \/ p_sg2 p = -1)%Z /\ (p_sg3 p = 1 \/ p_sg3 p = -1)%Z /\
  (p_sg4 p = 1 \/ p_sg4 p = -1)%Z /\ (p_sg5 p = 1 \/ p_sg5 p = -1)%Z /\ (p_sg6 p = 1 \/ p_sg6 p = -1)%Z ->
  let q := qint p j in
  0 < p_a2 p * p_a2 p + p_c3 p * p_c3 p -> p_c2 p <> 0 ->
  0 < aX (p_a2 p) (p_c2 p) (p_c3 p) (j2 q) (j3 q) * aX (p_a2 p) (p_c2 p) (p_c3 p) (j2 q) (j3 q) +
      aZ (p_a2 p) (p_c2 p) (p_c3 p) (j2 q) (j3 q) * aZ (p_a2 p) (p_c2 p) (p_c3 p) (j2 q) (j3 q) ->
  aX (p_a2 p) (p_c2 p) (p_c3 p) (j2 q) (j3 q) + p_a1 p <> 0 ->
  sin (j5 q) <> 0 ->
  forall (dof : Z) (cons : option (@Constraints R)) (kernel5 : Iso -> R -> list (list R))
         (shift : Iso -> nat -> Iso), (forall pose, shift pose 0%nat = pose) ->
  forall (fk_ok : Iso -> list R -> bool) (sgl offl : list R),
  let jl := [j1 j; j2 j; j3 j; j4 j; j5 j; j6 j] in
  dof <> 5%Z -> weight cons = 0 -> compliant_opt PI cons jl = true -> Forall (fun x => Rabs x <= 2 * PI) jl ->
  hd_error (inverse_continuing PI thr sgl offl dof cons Iso (the_kernel p compare (ik_theta_def p)) kernel5 shift fk_ok (fwd p j) false jl) = Some jl.
Proof.
  intros p j thr compare Hr Hsg q Hk Hc HS Hx H5 dof cons k5 shift Hs0 fk sgl offl jl Hd Hw Hcomp Hrange.
  exact (previous_first_concrete p j thr compare Hr Hsg Hk Hc HS Hx H5 dof cons k5 shift Hs0 fk sgl offl Hd Hw Hcomp Hrange).
Qed.
