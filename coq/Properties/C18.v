(** C18 — random joint vectors drawn from constraints always satisfy them.
    The uniform variates of the thread-local generator are universally quantified ([us], each in [0,1)). *)
From Coq Require Import ZArith Reals List Lra.
From VF Require Import Base.Num Model.Constraints Proofs.ConstraintsP.
Import ListNotations.
Open Scope R_scope.

Theorem C18_sample_compliant : forall hp from to w k us xs, 0 < hp ->
  length from = length to -> length us = length from -> Forall (fun u => 0 <= u < 1) us ->
  mk_constraints hp from to w = Some k ->
  random_angles hp from to us = Some xs -> compliant hp k xs = true.
Proof. intros hp from to w k us xs H. exact (sample_compliant hp H from to w k us xs). Qed.

(** no panic: the range handed to the generator is never empty, and the model never runs out of fuel *)
Theorem C18_range_nonempty : forall hp a b w, 0 < hp -> sample_width hp a b = Some (Some w) -> 0 < w.
Proof. intros hp a b w H. exact (sample_width_positive hp H a b w). Qed.
Theorem C18_sampler_total : forall hp a b u, 0 < hp -> random_angle hp a b u <> None.
Proof. intros hp a b u H. exact (random_angle_total hp H a b u). Qed.

(** non-vacuity: from = 3, to = 1 (the historical failure) at hp = 2 (period 4): the arc is [3, 5] *)
Example C18_nonvacuous : random_angle 2 3 1 (1/2) = Some 4.
Proof.
  unfold random_angle, sample_width, adv_fuel. rsimp.
  destruct (Rltb 3 1) eqn:E1; [apply Rltb_true in E1; lra|].
  destruct (Reqb 3 1) eqn:E2; [apply Reqb_true in E2; lra|].
  assert (A : advance 2 (S (S (Z.to_nat (Rfloor ((3 - 1) / two_pi 2))))) 3 1 = Some 5).
  { cbn [advance]. rsimp. unfold two_pi, n2. rsimp.
    destruct (Rltb 1 3) eqn:E3; [|apply Rltb_false in E3; lra].
    replace (1 + 2 * 2) with 5 by ring.
    destruct (Z.to_nat _); cbn [advance]; rsimp;
      (destruct (Rltb 5 3) eqn:E4; [apply Rltb_true in E4; lra | reflexivity]). }
  rewrite A. destruct (Rltb 3 5) eqn:E5; [|apply Rltb_false in E5; lra]. f_equal. lra.
Qed.
