(** C11 — collision-aware IK returns exactly the non-colliding solutions, in order.
    [shape_kin] and [shape_stack] are GENERATED from src/kinematics_with_shape.rs. *)
From Coq Require Import ZArith Reals List Bool.
From VF Require Import Base.Lin Model.WrapBase Gen.Delegation Proofs.WrapP.
Import ListNotations.

Section C11.
  Variable collides : Kin -> JL -> bool.
  Notation rc := (remove_collisions collides).

  Theorem C11_shape_entries : forall r,
    (forall p, k_inverse (shape_kin rc r) p = filter (fun s => negb (collides r s)) (k_inverse r p)) /\
    (forall p prev, k_inverse_continuing (shape_kin rc r) p prev = filter (fun s => negb (collides r s)) (k_inverse_continuing r p prev)) /\
    (forall p j6, k_inverse_5dof (shape_kin rc r) p j6 = filter (fun s => negb (collides r s)) (k_inverse_5dof r p j6)) /\
    (forall p prev, k_inverse_continuing_5dof (shape_kin rc r) p prev = filter (fun s => negb (collides r s)) (k_inverse_continuing_5dof r p prev)).
  Proof. exact (shape_entries collides). Qed.

  Theorem C11_shape_delegates : forall r,
    (forall q, k_forward (shape_kin rc r) q = k_forward r q) /\
    (forall q, k_forward_with_joint_poses (shape_kin rc r) q = k_forward_with_joint_poses r q) /\
    k_constraints (shape_kin rc r) = k_constraints r /\
    (forall q, k_kinematic_singularity (shape_kin rc r) q = k_kinematic_singularity r q).
  Proof. exact (shape_delegates collides). Qed.

  Theorem C11_remove_collisions_spec : forall r l s, In s (rc r l) <-> In s l /\ collides r s = false.
  Proof. exact (remove_collisions_spec collides). Qed.
End C11.

(** the underlying stack is Tool(Base(OPW with limits)) for both constructors *)
Theorem C11_shape_stack : forall b t r, shape_stack b t r = tool_kin t (base_kin b r).
Proof. exact shape_stack_is_tool_base. Qed.
