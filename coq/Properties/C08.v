(** C08 — a constrained solver returns exactly the compliant solutions.
    Glue model: Model/Kin.v (kernel = inverse_intern as an oracle). *)
From Coq Require Import ZArith Reals List Bool.
From VF Require Import Base.Num Model.Constraints Model.Kin Proofs.ConstraintsP Proofs.KinP.
Import ListNotations.
Open Scope R_scope.

Section C08.
  Variables (hp thr : R) (sg off : list R) (dof : Z) (cons : option (@Constraints R)) (Pose : Type)
            (kernel : Pose -> list (list R)) (kernel5 : Pose -> R -> list (list R))
            (shift : Pose -> nat -> Pose) (fk_ok : Pose -> list R -> bool).

  (** plain inverse (6-DOF and 5-DOF robots): the constrained list is the unconstrained one filtered, order kept *)
  Theorem C08_inverse_is_filter : forall pose,
    inverse hp dof cons Pose kernel kernel5 pose =
    filter (compliant_opt hp cons) (inverse hp dof None Pose kernel kernel5 pose).
  Proof. exact (inverse_constrained_is_filter hp dof cons Pose kernel kernel5). Qed.

  Theorem C08_inverse_5dof_is_filter : forall pose j6,
    inverse_5dof hp cons Pose kernel5 pose j6 =
    filter (compliant_opt hp cons) (inverse_5dof hp None Pose kernel5 pose j6).
  Proof. exact (inverse_5dof_constrained_is_filter hp cons Pose kernel5). Qed.

  (** every continuation answer satisfies the limits (both robots kinds, sentinel or not) *)
  Theorem C08_continuing_all_compliant : forall pose sentinel prev s,
    In s (inverse_continuing hp thr sg off dof cons Pose kernel kernel5 shift fk_ok pose sentinel prev) ->
    compliant_opt hp cons s = true.
  Proof. exact (continuing_all_compliant hp thr sg off dof cons Pose kernel kernel5 shift fk_ok). Qed.

  Theorem C08_continuing_5dof_all_compliant : forall pose sentinel prev s,
    In s (inverse_continuing_5dof hp cons Pose kernel5 pose sentinel prev) -> compliant_opt hp cons s = true.
  Proof. exact (continuing_5dof_all_compliant hp cons Pose kernel5). Qed.

  (** a continuation answer of the same query without limits that satisfies them is still returned *)
  Theorem C08_continuing_keeps_compliant :
    0 < hp -> (forall pose s, In s (kernel pose) -> length s = 6%nat) ->
    forall pose prev s, dof <> 5%Z -> length prev = 6%nat ->
    In s (inverse_continuing hp thr sg off dof None Pose kernel kernel5 shift fk_ok pose false prev) ->
    compliant_opt hp cons s = true ->
    In s (inverse_continuing hp thr sg off dof cons Pose kernel kernel5 shift fk_ok pose false prev).
  Proof. intros H0 Hk. exact (continuing_keeps_compliant hp H0 thr sg off dof cons Pose kernel kernel5 shift fk_ok Hk). Qed.

  (** a robot declared 5-DOF goes through the (filtering, sorting) 5-DOF entry points *)
  Theorem C08_dof5_dispatch : forall pose sentinel prev, dof = 5%Z ->
    inverse hp dof cons Pose kernel kernel5 pose = inverse_5dof hp cons Pose kernel5 pose 0 /\
    inverse_continuing hp thr sg off dof cons Pose kernel kernel5 shift fk_ok pose sentinel prev =
    inverse_continuing_5dof hp cons Pose kernel5 pose sentinel prev.
  Proof. exact (dof5_dispatch hp thr sg off dof cons Pose kernel kernel5 shift fk_ok). Qed.
End C08.

(** ** "The limits a wrapper reports are those of the robot it wraps" - about the delegation code RE-TRANSLATED from
    src/tool.rs, src/frame.rs, src/parallelogram.rs, src/kinematics_with_shape.rs on every run: any stack of tool / base /
    frame wrappers, a parallelogram and the shape wrapper report the wrapped robot's limits unchanged *)
From VF Require Import Base.Lin Model.WrapBase Gen.Delegation Proofs.WrapP.
Theorem C08_stack_reports_inner_limits : forall ws r, k_constraints (stack ws r) = k_constraints r.
Proof. exact stack_constraints. Qed.
Theorem C08_parallelogram_reports_inner_limits : forall scaling driven coupled r,
  k_constraints (para_kin scaling driven coupled r) = k_constraints r.
Proof. reflexivity. Qed.
