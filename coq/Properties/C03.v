(** C03 — Forward kinematics equals the OPW link chain, for the tool point and every link.
    [fwd] and [chain] are GENERATED from src/kinematics_impl.rs on every run. *)
From Coq Require Import ZArith Reals List.
From VF Require Import Base.Lin Base.Angles Gen.Forward Proofs.ForwardP.
Import ListNotations.
Open Scope R_scope.

(** the closed-form tool pose is the product of the six elementary OPW transforms *)
Theorem C03_fwd_eq_spec : forall p j, fwd p j = fk_spec p j.
Proof. exact fwd_eq_spec. Qed.

(** the per-link poses are the partial products of the same transforms *)
Theorem C03_chain_eq_spec : forall p j, chain p j = spec_chain p j.
Proof. exact chain_eq_spec. Qed.

(** the last per-link pose is the tool pose *)
Theorem C03_chain_last_is_fwd : forall p j, List.nth 5%nat (chain p j) iid = fwd p j.
Proof. exact chain_last_is_fwd. Qed.

(** link pose i depends only on joints 1..i *)
Theorem C03_chain_prefix : forall p j j' (i : nat),
  (i < 6)%nat -> (forall k, (k <= i)%nat -> jget j k = jget j' k) ->
  List.nth i (chain p j) iid = List.nth i (chain p j') iid.
Proof. exact chain_prefix. Qed.

(** consecutive link origins are separated by exactly the parameter-defined offsets *)
Theorem C03_origin_offsets : forall p j,
  let o i := tr (List.nth i (chain p j) iid) in
  vnorm2 (vsub (o 1%nat) (o 0%nat)) = p_a1 p * p_a1 p + p_b p * p_b p /\
  vnorm2 (vsub (o 2%nat) (o 1%nat)) = p_c2 p * p_c2 p /\
  vnorm2 (vsub (o 3%nat) (o 2%nat)) = p_a2 p * p_a2 p /\
  vnorm2 (vsub (o 4%nat) (o 3%nat)) = p_c3 p * p_c3 p /\
  vnorm2 (vsub (o 5%nat) (o 4%nat)) = p_c4 p * p_c4 p /\
  o 0%nat = mkV3 0 0 (p_c1 p).
Proof. exact origin_offsets. Qed.

(** all rotations are proper unit rotations *)
Theorem C03_chain_proper : forall p j, Forall (fun l => proper (rot l)) (chain p j).
Proof. exact chain_proper. Qed.
Theorem C03_fwd_proper : forall p j, proper (rot (fwd p j)).
Proof. exact fwd_proper. Qed.

(** the reference itself, spelled out (so that it cannot be quietly changed) *)
Check (eq_refl : fk_spec = fun p j =>
  let q := qint p j in
  icomp (icomp (icomp (icomp (icomp
    (mkIso (Rotz (j1 q)) (mkV3 0 0 (p_c1 p)))
    (mkIso (Roty (j2 q)) (mkV3 (p_a1 p) (p_b p) 0)))
    (mkIso (Roty (j3 q)) (mkV3 0 0 (p_c2 p))))
    (mkIso (Rotz (j4 q)) (mkV3 (p_a2 p) 0 0)))
    (mkIso (Roty (j5 q)) (mkV3 0 0 (p_c3 p))))
    (mkIso (Rotz (j6 q)) (mkV3 0 0 (p_c4 p)))).

(** joint vectors that differ by whole turns (|q| >> 2 pi) give the same tool pose: the sign corrections are integers *)
From Coq Require Import List.
From VF Require Import Proofs.KinP Proofs.SoundP.
Theorem C03_fwd_periodic : forall p (s' s : list R), Forall2 (is_rep PI) s' s -> fwd p (j6_of s') = fwd p (j6_of s).
Proof. exact fwd_periodic. Qed.
