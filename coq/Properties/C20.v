(** C20 — URDF extraction recovers parameters, signs and limits of any OPW-layout robot (parsed-tree level). *)
From Coq Require Import ZArith QArith List String Bool Permutation.
From VF Require Import Model.Urdf Model.JointName Proofs.UrdfP Proofs.JointNameP.
Import ListNotations.
Open Scope string_scope.
Open Scope list_scope.

(** every generated description in a supported layout yields its parameters, axis signs, limits, dof 6 *)
Theorem C20_populate_gen : forall lay a1 a2 b c1 c2 c3 c4 sg fr to,
  List.length sg = 6%nat -> List.length fr = 6%nat -> List.length to = 6%nat -> supported lay a2 b c2 c3 ->
  exists u, populate (gen_recs lay a1 a2 b c1 c2 c3 c4 sg fr to) default_names = inl u /\
    u_a1 u == a1 /\ u_a2 u == a2 /\ u_b u == b /\ u_c1 u == c1 /\ u_c2 u == c2 /\ u_c3 u == c3 /\ u_c4 u == c4 /\
    u_sg u = sg /\ u_from u = fr /\ u_to u = to /\ u_dof u = 6%Z.
Proof. exact populate_gen. Qed.

(** independent of joint declaration order and of XML nesting (both only permute the pre-order list of joints) *)
Theorem C20_order_independent : forall simplify names t t' l l',
  collect simplify 1000 t = inl l -> collect simplify 1000 t' = inl l' ->
  NoDup (map jd_name l) -> Permutation l l' ->
  from_tree simplify names t = from_tree simplify names t'.
Proof. exact extraction_order_independent. Qed.

(** an identical second copy of the robot changes nothing; a conflicting duplicate is an error *)
Theorem C20_duplicate_identical_ok : forall l, NoDup (map jd_name l) -> convert_to_map (l ++ l) [] = convert_to_map l [].
Proof. exact duplicate_identical_ok. Qed.
Theorem C20_duplicate_conflict_err : forall l1 j j' l2 m,
  convert_to_map l1 [] = inl m -> lookup m (jd_name j) = Some j -> jd_name j' = jd_name j -> jd_eqb j j' = false ->
  forall r, convert_to_map (j' :: l2) m <> inl r.
Proof. exact duplicate_conflict_err. Qed.

Theorem C20_missing_joint_err : forall m names k, (k < 6)%nat -> lookup m (nth k names "") = None -> exists e, populate m names = inr e.
Proof. exact missing_joint_err. Qed.

(** a joint without limits: from = to = 0, which the constraint model treats as unconstrained (C07_equal_limits_unconstrained) *)
Theorem C20_no_limit_unconstrained : forall simplify n o a j,
  joint_of simplify n o a None = inl j -> jd_from j == 0 /\ jd_to j == 0.
Proof. exact no_limit_unconstrained. Qed.

(** name prefixes / decoration: 1728 decorated names map to joint1..joint6 *)
Theorem C20_simplify_decorated : forallb (fun nd => String.eqb (preprocess_joint_name (fst nd)) (snd nd)) decorated = true.
Proof. exact simplify_decorated. Qed.

(** non-vacuity: a layout with b on joint 3 and c3 on joint 4 is supported *)
Example C20_nonvacuous : supported {| lay_c2_x := true; lay_b_j3 := true; lay_c3_j4 := true; lay_c3_y := false |} (1#5) (1#10) (3#5) (7#10).
Proof. unfold supported; cbn. repeat split; intros H; discriminate H. Qed.
