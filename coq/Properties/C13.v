(** C13 — a returned RRT path joins start to goal through collision-free configurations.
    Quantified over EVERY collision predicate, sample stream and cancellation pattern. *)
From Coq Require Import ZArith Reals List Bool.
From VF Require Import Base.Num Model.Rrt Proofs.RrtP.
Import ListNotations.
Open Scope R_scope.

(** a path returned by the planner begins with the start vector, ends with the goal vector, every node is
    the start, the goal or passed the collision check, consecutive nodes are at most three planner steps
    apart, and every node satisfies any invariant closed under the interpolation step ([Good]) *)
Theorem C13_path_ok : forall is_free L dim (Good : list R -> Prop) samples stops cfuel start goal num_max_try p,
  0 < L ->
  (forall near target d, Good near -> Good target -> L <= d -> length near = length target ->
     Good (map2p (T:=R) (fun n t => n + (t - n) * L / d)%num near target)) ->
  (forall k, length (samples k) = dim /\ Good (samples k)) ->
  length start = dim -> length goal = dim -> Good start -> Good goal ->
  dual_rrt_connect is_free L (fun x => x) samples stops cfuel start goal num_max_try = Path p ->
  hd [] p = start /\ last p [] = goal /\ linked (3 * L) p /\
  Forall (fun x => x = start \/ x = goal \/ is_free x = true) p /\ Forall Good p /\ Forall (fun x => length x = dim) p.
Proof.
  intros is_free L dim Good samples stops cfuel start goal n p HL Hg Hs H1 H2 H3 H4 Hp.
  exact (dual_rrt_path_ok is_free L HL dim Good Hg samples stops cfuel start goal Hs n p H1 H2 H3 H4 Hp).
Qed.

(** non-wrapping limits: the box is closed under the interpolation step, so every node is within limits *)
Theorem C13_box_closed : forall lo hi L (near target : list R) d, 0 < L ->
  in_box lo hi near -> in_box lo hi target -> L <= d -> length near = length target ->
  in_box lo hi (map2p (T:=R) (fun n t => n + (t - n) * L / d)%num near target).
Proof. exact box_interp. Qed.

(** a raised cancellation flag: error instead of a path *)
Theorem C13_cancel_before : forall is_free L samples stops cfuel start goal num_max_try,
  (0 < num_max_try)%nat -> stops 0%nat = true ->
  dual_rrt_connect is_free L (fun x => x) samples stops cfuel start goal num_max_try = Cancelled.
Proof. exact cancel_before. Qed.
Theorem C13_cancel_at_iteration : forall is_free L samples stops cfuel n k ta tb a, stops k = true ->
  forall p, rrt_loop is_free L (fun x => x) samples stops cfuel n k ta tb a <> Path p.
Proof. exact cancel_at_iteration. Qed.

(** the metric used is a metric (hop bound relies on it) *)
Theorem C13_triangle : forall a b c : list R, length a = length b -> length b = length c ->
  edist a c <= edist a b + edist b c.
Proof. exact ed_triangle. Qed.
