(** C01 — every IK answer of every entry point reproduces the requested pose.
    Glue level: [ok pose s] is any relation "s reproduces pose within the solver's accuracy" that is
    invariant under whole turns of the joints, implied by the solver's FK verdict and satisfied by the
    kernel's (FK-cross-checked) answers.  The kernel contract is discharged for the generated kernel
    in Proofs/InverseP.v. *)
From Coq Require Import ZArith Reals List Bool.
From VF Require Import Base.Num Model.Constraints Model.Kin Proofs.ConstraintsP Proofs.KinP.
Import ListNotations.
Open Scope R_scope.

Section C01.
  Variables (hp thr : R) (sg off : list R) (dof : Z) (cons : option (@Constraints R)) (Pose : Type)
            (kernel : Pose -> list (list R)) (kernel5 : Pose -> R -> list (list R))
            (shift : Pose -> nat -> Pose) (fk_ok : Pose -> list R -> bool).
  Hypothesis Hhp : 0 < hp.
  Hypothesis shift0 : forall pose, shift pose 0%nat = pose.
  Hypothesis kernel_len : forall pose s, In s (kernel pose) -> length s = 6%nat.
  Variable ok : Pose -> list R -> Prop.
  Hypothesis ok_rep : forall pose s' s, Forall2 (is_rep hp) s' s -> ok pose s -> ok pose s'.
  Hypothesis ok_fk : forall pose s, fk_ok pose s = true -> ok pose s.
  Hypothesis ok_kernel : forall pose s, In s (kernel pose) -> ok pose s.

  Theorem C01_inverse_sound : forall pose s,
    dof <> 5%Z -> In s (inverse hp dof cons Pose kernel kernel5 pose) -> ok pose s.
  Proof. intros pose s. eapply inverse_sound; eauto. Qed.

  (** continuation: within tolerance of the requested pose; only when the unshifted pose has no kernel
      answer at all may answers be adopted from a pose shifted by 0.125 um, and then they are within
      tolerance of that shifted pose *)
  Theorem C01_continuing_sound : forall pose (sentinel : bool) prev s,
    dof <> 5%Z -> length (if sentinel then centers cons else prev) = 6%nat ->
    In s (inverse_continuing hp thr sg off dof cons Pose kernel kernel5 shift fk_ok pose sentinel prev) ->
    ok pose s \/ (kernel pose = [] /\ exists d, In d [1; 2; 3]%nat /\ ok (shift pose d) s).
  Proof. intros pose sentinel prev s. eapply continuing_sound; eauto. Qed.

  Hypothesis kernel5_len : forall pose j6 s, In s (kernel5 pose j6) -> length s = 6%nat.
  Variable ok5 : Pose -> list R -> Prop.
  Hypothesis ok5_rep : forall pose s' s, Forall2 (is_rep hp) s' s -> ok5 pose s -> ok5 pose s'.
  Hypothesis ok5_kernel : forall pose j6 s, In s (kernel5 pose j6) -> ok5 pose s.

  Theorem C01_inverse_5dof_sound : forall pose j6 s, In s (inverse_5dof hp cons Pose kernel5 pose j6) -> ok5 pose s.
  Proof. intros pose j6 s. eapply inverse_5dof_sound; eauto. Qed.

  Theorem C01_continuing_5dof_sound : forall pose (sentinel : bool) prev s,
    length (if sentinel then centers cons else prev) = 6%nat ->
    In s (inverse_continuing_5dof hp cons Pose kernel5 pose sentinel prev) -> ok5 pose s.
  Proof. intros pose sentinel prev s. eapply continuing_5dof_sound; eauto. Qed.
End C01.

(** ** the same statements end to end, for the concrete kernel: entry-point glue (Model/Kin.v) over the finishing glue
    (Model/Finish.v) over the branch tables GENERATED from inverse_intern / inverse_intern_5_dof, against the GENERATED
    forward kinematics [fwd] (which C03 proves equal to the reference link chain).  No kernel hypothesis is left: the
    only assumption is the meaning of nalgebra's pose comparison, as an implication from its boolean verdict. *)
From VF Require Import Base.Lin Gen.Forward Gen.Inverse Model.Finish Proofs.ForwardP Proofs.FinishP Proofs.SoundP.

Section C01_concrete.
  Variables (p : Params) (cons : option (@Constraints R)) (thr : R).
  Variables (compare compare_xyz : Iso -> Iso -> bool) (near near_xyz : Iso -> Iso -> Prop).
  Hypothesis compare_spec : forall a b, compare a b = true -> near a b.
  Hypothesis compare_xyz_spec : forall a b, compare_xyz a b = true -> near_xyz a b.
  Variable shift : Iso -> nat -> Iso.
  Hypothesis shift0 : forall pose, shift pose 0%nat = pose.
  Let K := the_kernel p compare (ik_theta_def p).
  Let K5 := the_kernel5 p compare_xyz (ik_theta5_def p).
  Let sgl : list R := map IZR [p_sg1 p; p_sg2 p; p_sg3 p; p_sg4 p; p_sg5 p; p_sg6 p].
  Let offl : list R := [p_off1 p; p_off2 p; p_off3 p; p_off4 p; p_off5 p; p_off6 p].

  (** plain inverse: every answer is FK-close to the pose and every angle lies in [-PI, PI] *)
  Theorem C01_concrete_inverse : forall dof pose s, dof <> 5%Z ->
    In s (inverse PI dof cons Iso K K5 pose) -> near pose (fwd p (j6_of s)) /\ Forall (fun x => - PI <= x <= PI) s.
  Proof. intros dof pose s Hd Hs. eapply inverse_reaches; eauto using ik_theta_def_len. Qed.

  Theorem C01_concrete_continuing : forall dof pose (sentinel : bool) prev s,
    dof <> 5%Z -> length (if sentinel then centers cons else prev) = 6%nat ->
    In s (inverse_continuing PI thr sgl offl dof cons Iso K K5 shift (fun pose s => compare pose (fwd p (j6_of s))) pose sentinel prev) ->
    near pose (fwd p (j6_of s)) \/ (K pose = [] /\ exists d, In d [1; 2; 3]%nat /\ near (shift pose d) (fwd p (j6_of s))).
  Proof. intros dof pose sentinel prev s Hd Hl Hs. eapply continuing_reaches; eauto using ik_theta_def_len. Qed.

  Theorem C01_concrete_inverse_5dof : forall pose j6 s,
    In s (inverse_5dof PI cons Iso K5 pose j6) -> near_xyz pose (fwd p (j6_of s)).
  Proof. intros pose j6 s Hs. eapply inverse_5dof_reaches; eauto using ik_theta5_def_len. Qed.

  Theorem C01_concrete_continuing_5dof : forall pose (sentinel : bool) prev s,
    length (if sentinel then centers cons else prev) = 6%nat ->
    In s (inverse_continuing_5dof PI cons Iso K5 pose sentinel prev) -> near_xyz pose (fwd p (j6_of s)).
  Proof. intros pose sentinel prev s Hl Hs. eapply continuing_5dof_reaches; eauto using ik_theta5_def_len. Qed.

  (** an unreachable pose (no joint vector is accepted by the pose comparison) yields the empty list *)
  Theorem C01_unreachable_empty : forall dof pose, dof <> 5%Z ->
    (forall s, ~ near pose (fwd p (j6_of s))) -> inverse PI dof cons Iso K K5 pose = [].
  Proof.
    intros dof pose Hd Hun. destruct (inverse PI dof cons Iso K K5 pose) as [|s l] eqn:E; [reflexivity|]. exfalso.
    apply (Hun s). eapply C01_concrete_inverse; [exact Hd|]. rewrite E. left. reflexivity.
  Qed.
End C01_concrete.
