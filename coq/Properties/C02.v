(** C02 — the closed-form branch table of inverse_intern (GENERATED from src/kinematics_impl.rs) and its finishing glue:
    twin closure, FK invariance under the twin, twins are distinct, the kernel contract used by C01. *)
From Coq Require Import ZArith Reals List Bool.
From VF Require Import Base.Num Base.Lin Model.Kin Model.Finish Gen.Forward Gen.Inverse Proofs.ForwardP Proofs.KinP Proofs.InverseP Proofs.FinishP.
Import ListNotations.
Open Scope R_scope.

(** branches 4..7 are the wrist-flipped twins (J4+pi, -J5, J6-pi) of branches 0..3, entry by entry, with the same finiteness *)
Theorem C02_twin_in_table : forall p pose (i : nat), (i < 4)%nat ->
  nth (i + 4) (ik_theta p pose) [] = twin_row (nth i (ik_theta p pose) []).
Proof. exact twin_in_table. Qed.
Theorem C02_twin_in_table_def : forall p pose (i : nat), (i < 4)%nat ->
  nth (i + 4) (ik_theta_def p pose) [] = twin_row_def (nth i (ik_theta_def p pose) []).
Proof. exact twin_in_table_def. Qed.

(** the twin reaches the same pose (reference link chain on model angles), so it passes the same FK cross-check *)
Theorem C02_fk_twin : forall p q, L6 p (jtwin q) = L6 p q.
Proof. exact fk_twin. Qed.

(** a branch and its twin are different configurations (modulo whole turns) unless the wrist is singular *)
Theorem C02_twin_distinct : forall (t5 : R) (k : Z), sin t5 <> 0 -> - t5 <> t5 + 2 * IZR k * PI.
Proof. exact twin_distinct. Qed.

(** kernel contract (discharges the hypothesis of C01): every returned row passed the FK cross-check and lies in [-pi, pi] *)
Theorem C02_kernel_sound : forall hp sg off fk_ok table s, 0 < hp ->
  In s (finish hp sg off fk_ok table) -> fk_ok s = true /\ Forall (fun x => - hp <= x <= hp) s.
Proof. intros hp sg off fk_ok table s H. exact (kernel_sound hp H sg off fk_ok table s). Qed.

Check (eq_refl : twin_row [1; 2; 3; 4; 5; 6] = [1; 2; 3; 4 + PI; - 5; 6 - PI]).

(** ** COMPLETENESS.  The originating configuration is one of the eight rows of the generated branch table, every
    intermediate value on that row is finite, the finishing glue lets it through, and plain [inverse] returns it.
    Hypotheses = "away from singularities" spelled out on the model angles q = j * sign - offset:
      - a real forearm (a2, c3 not both zero) and upper arm (c2 <> 0),
      - elbow/reach: the wrist centre is not on the J2 axis            (X^2 + Z^2 > 0),
      - shoulder: the wrist centre is not in the plane where front and back arm configurations meet (X + a1 <> 0),
      - wrist: sin q5 <> 0,
    sign corrections are +-1, and the pose comparison accepts identical poses. *)
From Coq Require Import Lra Psatz.
From VF Require Import Model.Constraints Proofs.SoundP Proofs.CompleteP Proofs.CompleteK.

(** the generated table is literally the hand-written closed-form expressions (conversion) *)
Theorem C02_rows_eq : forall p pose, ik_theta p pose =
  [row p pose false false false; row p pose false true false; row p pose true false false; row p pose true true false;
   row p pose false false true; row p pose false true true; row p pose true false true; row p pose true true true].
Proof. exact rows_eq. Qed.

(** table level: some row equals the configuration (same sine and cosine entry by entry) with all definedness flags set *)
Theorem C02_table_complete : forall (p : Params) (q : J6),
  0 < p_a2 p * p_a2 p + p_c3 p * p_c3 p -> p_c2 p <> 0 ->
  0 < aX (p_a2 p) (p_c2 p) (p_c3 p) (j2 q) (j3 q) * aX (p_a2 p) (p_c2 p) (p_c3 p) (j2 q) (j3 q) +
      aZ (p_a2 p) (p_c2 p) (p_c3 p) (j2 q) (j3 q) * aZ (p_a2 p) (p_c2 p) (p_c3 p) (j2 q) (j3 q) ->
  aX (p_a2 p) (p_c2 p) (p_c3 p) (j2 q) (j3 q) + p_a1 p <> 0 ->
  sin (j5 q) <> 0 ->
  exists back down flip,
    Forall2 sc (row p (L6 p q) back down flip) [j1 q; j2 q; j3 q; j4 q; j5 q; j6 q] /\
    forallb snd (nth (row_index back down flip) (ik_theta_def p (L6 p q)) []) = true.
Proof. exact table_complete. Qed.

(** entry point: [inverse] on the pose of a joint vector returns that vector, up to whole turns, when it is within the limits *)
Theorem C02_inverse_complete : forall (p : Params) (j : J6) (compare : Iso -> Iso -> bool),
  (forall a, compare a a = true) ->
  (p_sg1 p = 1 \/ p_sg1 p = -1)%Z /\ (p_sg2 p = 1 \/ p_sg2 p = -1)%Z /\ (p_sg3 p = 1 \/ p_sg3 p = -1)%Z /\
  (p_sg4 p = 1 \/ p_sg4 p = -1)%Z /\ (p_sg5 p = 1 \/ p_sg5 p = -1)%Z /\ (p_sg6 p = 1 \/ p_sg6 p = -1)%Z ->
  let q := qint p j in
  0 < p_a2 p * p_a2 p + p_c3 p * p_c3 p -> p_c2 p <> 0 ->
  0 < aX (p_a2 p) (p_c2 p) (p_c3 p) (j2 q) (j3 q) * aX (p_a2 p) (p_c2 p) (p_c3 p) (j2 q) (j3 q) +
      aZ (p_a2 p) (p_c2 p) (p_c3 p) (j2 q) (j3 q) * aZ (p_a2 p) (p_c2 p) (p_c3 p) (j2 q) (j3 q) ->
  aX (p_a2 p) (p_c2 p) (p_c3 p) (j2 q) (j3 q) + p_a1 p <> 0 ->
  sin (j5 q) <> 0 ->
  forall (dof : Z) (cons : option (@Constraints R)) (kernel5 : Iso -> R -> list (list R)),
  dof <> 5%Z -> compliant_opt PI cons [j1 j; j2 j; j3 j; j4 j; j5 j; j6 j] = true ->
  exists s, In s (inverse PI dof cons Iso (the_kernel p compare (ik_theta_def p)) kernel5 (fwd p j)) /\
            Forall2 (is_rep PI) s [j1 j; j2 j; j3 j; j4 j; j5 j; j6 j].
Proof. intros p j compare Hr Hsg q. exact (inverse_complete p j compare Hr Hsg). Qed.

(** non-vacuity: an ABB IRB2400-like geometry at a generic configuration meets every hypothesis *)
Example C02_complete_nonvacuous :
  let p := mkParams (1/10) (-27/200) 0 (123/200) (141/200) (151/200) (17/200) 0 0 0 0 0 0 1 1 1 1 1 1 6 in
  let q := mkJ6 0 0 0 0 (PI / 2) 0 in
  0 < p_a2 p * p_a2 p + p_c3 p * p_c3 p /\ p_c2 p <> 0 /\
  0 < aX (p_a2 p) (p_c2 p) (p_c3 p) (j2 q) (j3 q) * aX (p_a2 p) (p_c2 p) (p_c3 p) (j2 q) (j3 q) +
      aZ (p_a2 p) (p_c2 p) (p_c3 p) (j2 q) (j3 q) * aZ (p_a2 p) (p_c2 p) (p_c3 p) (j2 q) (j3 q) /\
  aX (p_a2 p) (p_c2 p) (p_c3 p) (j2 q) (j3 q) + p_a1 p <> 0 /\ sin (j5 q) <> 0.
Proof.
  cbv zeta. unfold aX, aZ. cbn [p_a1 p_a2 p_c2 p_c3 j2 j3 j5].
  rewrite Rplus_0_l, sin_0, cos_0, sin_PI2.
  repeat split; try lra; nra.
Qed.

(** ** closure under the wrist flip, at the level of the kernel's answers: with every answer (built from table angles t1..t6) the
    answer built from the flipped angles (t4 +- PI, -t5, t6 -+ PI) is returned as well; both reach the same pose exactly *)
From VF Require Import Proofs.TwinK.
Theorem C02_kernel_twin_closed : forall (p : Params), sg_ok6 p -> forall (compare : Iso -> Iso -> bool) pose s,
  In s (the_kernel p compare (ik_theta_def p) pose) ->
  exists t1 t2 t3 t4 t5 t6, s = cand p t1 t2 t3 t4 t5 t6 /\
    (In (cand p t1 t2 t3 (t4 + PI) (- t5) (t6 - PI)) (the_kernel p compare (ik_theta_def p) pose) \/
     In (cand p t1 t2 t3 (t4 - PI) (- t5) (t6 + PI)) (the_kernel p compare (ik_theta_def p) pose)).
Proof. exact kernel_twin_closed. Qed.
Theorem C02_candidate_fk : forall (p : Params), sg_ok6 p -> forall t1 t2 t3 t4 t5 t6,
  fwd p (j6_of (cand p t1 t2 t3 t4 t5 t6)) = L6 p (mkJ6 t1 t2 t3 t4 t5 t6).
Proof. exact fwd_cand. Qed.

(** ** no duplicates: two different rows of the (generated) table never describe the same configuration modulo whole turns,
    as long as the wrist centre is off the J1 axis line and the computed elbow and wrist angles of the two rows are not 0 or PI *)
From VF Require Import Proofs.DistinctP.
Theorem C02_rows_distinct : forall (p : Params) (pose : Iso),
  0 < f_NX (vx (tr pose) - p_c4 p * m02 (rot pose)) (vy (tr pose) - p_c4 p * m12 (rot pose)) (p_a1 p) (p_b p) + p_a1 p ->
  forall b d f b' d' f', row_regular p pose b d -> row_regular p pose b' d' ->
  (b, d, f) <> (b', d', f') -> ~ Forall2 rep2 (row p pose b d f) (row p pose b' d' f').
Proof. exact rows_distinct. Qed.
