(** C02 — the closed-form branch table of inverse_intern (GENERATED from src/kinematics_impl.rs) and its finishing glue:
    twin closure, FK invariance under the twin, twins are distinct, the kernel contract used by C01. *)
From Coq Require Import ZArith Reals List Bool.
From VF Require Import Base.Num Base.Lin Model.Kin Model.Finish Gen.Forward Gen.Inverse Proofs.ForwardP Proofs.KinP Proofs.InverseP Proofs.FinishP.
Import ListNotations.
Open Scope R_scope.

(** branches 4..7 are the wrist-flipped twins (J4+pi, -J5, J6-pi) of branches 0..3, entry by entry, with the same finiteness *)
Theorem C02_twin_in_table : forall p pose (i : nat), (i < 4)%nat ->
  nth (i + 4) (ik_theta p pose) [] = twin_row (nth i (ik_theta p pose) []).
Proof. exact twin_in_table. Qed.
Theorem C02_twin_in_table_def : forall p pose (i : nat), (i < 4)%nat ->
  nth (i + 4) (ik_theta_def p pose) [] = twin_row_def (nth i (ik_theta_def p pose) []).
Proof. exact twin_in_table_def. Qed.

(** the twin reaches the same pose (reference link chain on model angles), so it passes the same FK cross-check *)
Theorem C02_fk_twin : forall p q, L6 p (jtwin q) = L6 p q.
Proof. exact fk_twin. Qed.

(** a branch and its twin are different configurations (modulo whole turns) unless the wrist is singular *)
Theorem C02_twin_distinct : forall (t5 : R) (k : Z), sin t5 <> 0 -> - t5 <> t5 + 2 * IZR k * PI.
Proof. exact twin_distinct. Qed.

(** kernel contract (discharges the hypothesis of C01): every returned row passed the FK cross-check and lies in [-pi, pi] *)
Theorem C02_kernel_sound : forall hp sg off fk_ok table s, 0 < hp ->
  In s (finish hp sg off fk_ok table) -> fk_ok s = true /\ Forall (fun x => - hp <= x <= hp) s.
Proof. intros hp sg off fk_ok table s H. exact (kernel_sound hp H sg off fk_ok table s). Qed.

Check (eq_refl : twin_row [1; 2; 3; 4; 5; 6] = [1; 2; 3; 4 + PI; - 5; 6 - PI]).
