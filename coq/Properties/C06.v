(** C06 — 5-DOF inverse: J6 is the caller's value; 5-DOF robots answer all four entry points. *)
From Coq Require Import ZArith Reals List Bool.
From VF Require Import Base.Num Model.Constraints Model.Kin Proofs.ConstraintsP Proofs.KinP.
Import ListNotations.
Open Scope R_scope.

Section C06.
  Variables (hp thr : R) (sg off : list R) (dof : Z) (cons : option (@Constraints R)) (Pose : Type)
            (kernel : Pose -> list (list R)) (kernel5 : Pose -> R -> list (list R))
            (shift : Pose -> nat -> Pose) (fk_ok : Pose -> list R -> bool).
  (** kernel contract (inverse_intern_5_dof copies J6 verbatim; checked by the correspondence on every run) *)
  Hypothesis kernel5_j6 : forall pose j6 s, In s (kernel5 pose j6) -> length s = 6%nat /\ nth 5 s 0 = j6.

  Theorem C06_inverse_5dof_j6 : forall pose j6 s,
    In s (inverse_5dof hp cons Pose kernel5 pose j6) -> nth 5 s 0 = j6.
  Proof. intros pose j6 s. eapply inverse_5dof_j6; eauto. Qed.

  Theorem C06_continuing_5dof_j6 : 0 < hp -> forall pose prev s, length prev = 6%nat ->
    In s (inverse_continuing_5dof hp cons Pose kernel5 pose false prev) -> nth 5 s 0 = nth 5 prev 0.
  Proof. intros H pose prev s. eapply inverse_continuing_5dof_j6; eauto. Qed.

  Theorem C06_dof5_dispatch : forall pose sentinel prev, dof = 5%Z ->
    inverse hp dof cons Pose kernel kernel5 pose = inverse_5dof hp cons Pose kernel5 pose 0 /\
    inverse_continuing hp thr sg off dof cons Pose kernel kernel5 shift fk_ok pose sentinel prev =
    inverse_continuing_5dof hp cons Pose kernel5 pose sentinel prev.
  Proof. exact (dof5_dispatch hp thr sg off dof cons Pose kernel kernel5 shift fk_ok). Qed.

  Theorem C06_dof5_inverse_j6_zero : forall pose s, dof = 5%Z ->
    In s (inverse hp dof cons Pose kernel kernel5 pose) -> nth 5 s 0 = 0.
  Proof. intros pose s. eapply dof5_inverse_j6_zero; eauto. Qed.
End C06.

(** ** the same statements for the concrete 5-DOF kernel: finishing glue (Model/Finish.v finish5) over the branch table
    GENERATED from inverse_intern_5_dof, checked against the generated forward kinematics.  The only assumption left is
    the meaning of the position comparison (nalgebra norm) as an implication from its verdict. *)
From VF Require Import Base.Lin Gen.Forward Gen.Inverse Model.Finish Proofs.ForwardP Proofs.InverseP Proofs.FinishP Proofs.SoundP.

Theorem C06_concrete_inverse_5dof :
  forall (p : Params) (cons : option (@Constraints R)) (compare_xyz : Iso -> Iso -> bool) (near_xyz : Iso -> Iso -> Prop),
  (forall a b, compare_xyz a b = true -> near_xyz a b) ->
  forall pose j6 s,
  In s (inverse_5dof PI cons Iso (the_kernel5 p compare_xyz (ik_theta5_def p)) pose j6) ->
  near_xyz pose (fwd p (j6_of s)) /\ nth 5 s 0 = j6.
Proof.
  intros p cons cmp near Hspec pose j6 s Hs.
  eapply inverse_5dof_reaches; eauto using ik_theta5_def_len.
Qed.

Theorem C06_concrete_continuing_5dof :
  forall (p : Params) (cons : option (@Constraints R)) (compare_xyz : Iso -> Iso -> bool) (near_xyz : Iso -> Iso -> Prop),
  (forall a b, compare_xyz a b = true -> near_xyz a b) ->
  forall pose (sentinel : bool) prev s, length (if sentinel then centers cons else prev) = 6%nat ->
  In s (inverse_continuing_5dof PI cons Iso (the_kernel5 p compare_xyz (ik_theta5_def p)) pose sentinel prev) ->
  near_xyz pose (fwd p (j6_of s)).
Proof.
  intros p cons cmp near Hspec pose sentinel prev s Hl Hs.
  eapply continuing_5dof_reaches; eauto using ik_theta5_def_len.
Qed.

(** the branch table is closed under the wrist flip, which keeps tool point and tool axis *)
Theorem C06_twin5_in_table : forall p pose (i : nat), (i < 4)%nat ->
  nth (i + 4) (ik_theta5_def p pose) [] = twin5_row_def (nth i (ik_theta5_def p pose) []).
Proof. exact twin5_in_table_def. Qed.
Theorem C06_fk_twin5 : forall p q,
  tr (L6 p (jtwin5 q)) = tr (L6 p q) /\
  m02 (rot (L6 p (jtwin5 q))) = m02 (rot (L6 p q)) /\ m12 (rot (L6 p (jtwin5 q))) = m12 (rot (L6 p q)) /\
  m22 (rot (L6 p (jtwin5 q))) = m22 (rot (L6 p q)).
Proof. exact fk_twin5. Qed.

(** ** completeness of the 5-DOF solver: the 5-DOF branch table is, by conversion, the 6-DOF table without its J6 column;
    away from the singularities the originating J1..J5 (up to whole turns) comes back with the caller's J6 *)
From VF Require Import Proofs.CompleteP Proofs.CompleteK Proofs.Complete5.
Theorem C06_table5_is_table6 : forall p pose, ik_theta5_def p pose = map (firstn 5) (ik_theta_def p pose).
Proof. exact table5_is_table6. Qed.

Theorem C06_inverse_5dof_complete : forall (p : Params) (j : J6) (j6c : R) (compare_xyz : Iso -> Iso -> bool),
  (forall a b, tr a = tr b -> compare_xyz a b = true) ->
  (p_sg1 p = 1 \/ p_sg1 p = -1)%Z /\ (p_sg2 p = 1 \/ p_sg2 p = -1)%Z /\ (p_sg3 p = 1 \/ p_sg3 p = -1)%Z /\
  (p_sg4 p = 1 \/ p_sg4 p = -1)%Z /\ (p_sg5 p = 1 \/ p_sg5 p = -1)%Z ->
  let q := qint p j in
  0 < p_a2 p * p_a2 p + p_c3 p * p_c3 p -> p_c2 p <> 0 ->
  0 < aX (p_a2 p) (p_c2 p) (p_c3 p) (j2 q) (j3 q) * aX (p_a2 p) (p_c2 p) (p_c3 p) (j2 q) (j3 q) +
      aZ (p_a2 p) (p_c2 p) (p_c3 p) (j2 q) (j3 q) * aZ (p_a2 p) (p_c2 p) (p_c3 p) (j2 q) (j3 q) ->
  aX (p_a2 p) (p_c2 p) (p_c3 p) (j2 q) (j3 q) + p_a1 p <> 0 ->
  sin (j5 q) <> 0 ->
  forall cons : option (@Constraints R),
  compliant_opt PI cons ([j1 j; j2 j; j3 j; j4 j; j5 j] ++ [j6c]) = true ->
  exists s5, In (s5 ++ [j6c]) (inverse_5dof PI cons Iso (the_kernel5 p compare_xyz (ik_theta5_def p)) (fwd p j) j6c) /\
             Forall2 (is_rep PI) s5 [j1 j; j2 j; j3 j; j4 j; j5 j].
Proof.
  intros p j j6c cmp Hr Hsg q Hk Hc HS Hx H5 cons Hcomp.
  exact (inverse_5dof_complete p j j6c cmp Hr Hsg Hk Hc HS Hx H5 cons Hcomp).
Qed.

(** ** the tool axis.  The code re-checks only the tool POINT of a 5-DOF candidate; that the tool AXIS is right is a property
    of the branch table itself: every answer of the 5-DOF kernel, hence of every 5-DOF entry point, has EXACTLY the requested
    tool axis (over R), whatever the arm angles of its row are - for every unit axis, every geometry (also c4 = 0, where the
    position check cannot see the wrist), signs +-1 on J1..J5 *)
From VF Require Import Proofs.Axis5.
Theorem C06_kernel5_axis : forall (p : Params),
  (p_sg1 p = 1 \/ p_sg1 p = -1)%Z /\ (p_sg2 p = 1 \/ p_sg2 p = -1)%Z /\ (p_sg3 p = 1 \/ p_sg3 p = -1)%Z /\
  (p_sg4 p = 1 \/ p_sg4 p = -1)%Z /\ (p_sg5 p = 1 \/ p_sg5 p = -1)%Z ->
  forall (compare_xyz : Iso -> Iso -> bool) (pose : Iso), unit_axis pose ->
  forall c6 s, In s (the_kernel5 p compare_xyz (ik_theta5_def p) pose c6) -> axis_of (fwd p (j6_of s)) = axis_of pose.
Proof. intros p Hsg cmp pose Hu c6 s Hs. exact (kernel5_axis p Hsg cmp pose Hu c6 s Hs). Qed.

Theorem C06_inverse_5dof_axis : forall (p : Params),
  (p_sg1 p = 1 \/ p_sg1 p = -1)%Z /\ (p_sg2 p = 1 \/ p_sg2 p = -1)%Z /\ (p_sg3 p = 1 \/ p_sg3 p = -1)%Z /\
  (p_sg4 p = 1 \/ p_sg4 p = -1)%Z /\ (p_sg5 p = 1 \/ p_sg5 p = -1)%Z ->
  forall (compare_xyz : Iso -> Iso -> bool) (cons : option (@Constraints R)) (pose : Iso) c6 s, unit_axis pose ->
  In s (inverse_5dof PI cons Iso (the_kernel5 p compare_xyz (ik_theta5_def p)) pose c6) -> axis_of (fwd p (j6_of s)) = axis_of pose.
Proof. intros p Hsg cmp cons pose c6 s Hu Hs. exact (inverse_5dof_axis p Hsg cmp cons pose c6 s Hu Hs). Qed.

Theorem C06_continuing_5dof_axis : forall (p : Params),
  (p_sg1 p = 1 \/ p_sg1 p = -1)%Z /\ (p_sg2 p = 1 \/ p_sg2 p = -1)%Z /\ (p_sg3 p = 1 \/ p_sg3 p = -1)%Z /\
  (p_sg4 p = 1 \/ p_sg4 p = -1)%Z /\ (p_sg5 p = 1 \/ p_sg5 p = -1)%Z ->
  forall (compare_xyz : Iso -> Iso -> bool) (cons : option (@Constraints R)) (pose : Iso) (sentinel : bool) prev s, unit_axis pose ->
  length (if sentinel then centers cons else prev) = 6%nat ->
  In s (inverse_continuing_5dof PI cons Iso (the_kernel5 p compare_xyz (ik_theta5_def p)) pose sentinel prev) ->
  axis_of (fwd p (j6_of s)) = axis_of pose.
Proof. intros p Hsg cmp cons pose sentinel prev s Hu Hl Hs. exact (continuing_5dof_axis p Hsg cmp cons pose sentinel prev s Hu Hl Hs). Qed.
