(** C09 — tool, base and frame wrappers compose transforms consistently in both directions.
    [tool_kin], [base_kin], [frame_kin], [gantry_forward], [linear_axis_forward] are GENERATED from
    src/tool.rs and src/frame.rs on every run. *)
From Coq Require Import ZArith Reals List.
From VF Require Import Base.Lin Model.WrapBase Gen.Delegation Proofs.WrapP.
Import ListNotations.
Open Scope R_scope.

Theorem C09_stack_forward : forall ws r q, no_para ws ->
  k_forward (stack ws r) q = icomp (icomp (bases ws) (k_forward r q)) (tools ws).
Proof. exact stack_forward. Qed.

(** exhaustive delegation matrix: each inverse entry point of each wrapper calls the same entry point inside *)
Theorem C09_stack_entries : forall ws r, no_para ws ->
  (forall tcp, k_inverse (stack ws r) tcp = k_inverse r (inner_pose ws tcp)) /\
  (forall tcp prev, k_inverse_continuing (stack ws r) tcp prev = k_inverse_continuing r (inner_pose ws tcp) prev) /\
  (forall tcp j6, k_inverse_5dof (stack ws r) tcp j6 = k_inverse_5dof r (inner_pose ws tcp) j6) /\
  (forall tcp prev, k_inverse_continuing_5dof (stack ws r) tcp prev = k_inverse_continuing_5dof r (inner_pose ws tcp) prev).
Proof. exact stack_entries. Qed.

Theorem C09_stack_roundtrip : forall ws r tcp s, Forall rigid ws ->
  k_forward r s = inner_pose ws tcp -> k_forward (stack ws r) s = tcp.
Proof. exact stack_roundtrip. Qed.

Theorem C09_stack_roundtrip_5dof : forall ws r tcp s, Forall rigid5 ws ->
  same_point_axis (k_forward r s) (inner_pose ws tcp) -> same_point_axis (k_forward (stack ws r) s) tcp.
Proof. exact stack_roundtrip_5dof. Qed.

Theorem C09_links_tool : forall t r q, k_forward_with_joint_poses (tool_kin t r) q = k_forward_with_joint_poses r q.
Proof. exact links_tool. Qed.
Theorem C09_links_base : forall b r q,
  k_forward_with_joint_poses (base_kin b r) q = map (icomp b) (k_forward_with_joint_poses r q).
Proof. exact links_base. Qed.
Theorem C09_links_last_base : forall b r q,
  length (k_forward_with_joint_poses r q) = 6%nat -> nth 5 (k_forward_with_joint_poses r q) iid = k_forward r q ->
  nth 5 (k_forward_with_joint_poses (base_kin b r) q) iid = k_forward (base_kin b r) q.
Proof. exact links_last_base. Qed.
Theorem C09_links_last_frame : forall f r q,
  length (k_forward_with_joint_poses r q) = 6%nat -> nth 5 (k_forward_with_joint_poses r q) iid = k_forward r q ->
  nth 5 (k_forward_with_joint_poses (frame_kin f r) q) iid = k_forward (frame_kin f r) q.
Proof. exact links_last_frame. Qed.

(** the limits a wrapper reports are those of the robot it wraps (also C08), any stack incl. parallelograms *)
Theorem C09_stack_constraints : forall ws r, k_constraints (stack ws r) = k_constraints r.
Proof. exact stack_constraints. Qed.

Theorem C09_gantry_forward : forall base r t q, gantry_forward base r t q = icomp (icomp base t) (k_forward r q).
Proof. exact gantry_forward_spec. Qed.
Theorem C09_linear_axis_forward : forall base axis r d q,
  linear_axis_forward base axis r d q =
  match axis with
  | 0%Z => Some (icomp (icomp base (itrans d 0 0)) (k_forward r q))
  | 1%Z => Some (icomp (icomp base (itrans 0 d 0)) (k_forward r q))
  | 2%Z => Some (icomp (icomp base (itrans 0 0 d)) (k_forward r q))
  | _ => None
  end.
Proof. exact linear_axis_forward_spec. Qed.

(** non-vacuity: a depth-3 stack in mixed order satisfies the hypotheses *)
Example C09_nonvacuous : no_para [WBase iid; WTool iid; WFrame iid] /\ Forall rigid [WBase iid; WTool iid; WFrame iid].
Proof. split; repeat constructor; apply proper_I3. Qed.
