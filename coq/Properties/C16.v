(** C16 — parallelogram coupling applied consistently in forward and inverse kinematics.
    [para_kin] is GENERATED from src/parallelogram.rs on every run. *)
From Coq Require Import ZArith Reals List.
From VF Require Import Base.Lin Model.WrapBase Gen.Delegation Proofs.WrapP.
Import ListNotations.
Open Scope R_scope.

Theorem C16_para_forward : forall sc dr co r q,
  k_forward (para_kin sc dr co r) q = k_forward r (jl_set q co (jl_get q co - sc * jl_get q dr)).
Proof. exact para_forward. Qed.
Theorem C16_para_links : forall sc dr co r q,
  k_forward_with_joint_poses (para_kin sc dr co r) q =
  k_forward_with_joint_poses r (jl_set q co (jl_get q co - sc * jl_get q dr)).
Proof. exact para_links. Qed.
Theorem C16_para_entries : forall sc dr co r,
  (forall tcp, k_inverse (para_kin sc dr co r) tcp = map (couple_add sc dr co) (k_inverse r tcp)) /\
  (forall tcp prev, k_inverse_continuing (para_kin sc dr co r) tcp prev = map (couple_add sc dr co) (k_inverse_continuing r tcp prev)) /\
  (forall tcp j6, k_inverse_5dof (para_kin sc dr co r) tcp j6 = map (couple_add sc dr co) (k_inverse_5dof r tcp j6)) /\
  (forall tcp prev, k_inverse_continuing_5dof (para_kin sc dr co r) tcp prev = map (couple_add sc dr co) (k_inverse_continuing_5dof r tcp prev)).
Proof. exact para_entries. Qed.
Theorem C16_para_roundtrip : forall sc dr co r s0, dr <> co -> (co < length s0)%nat ->
  k_forward (para_kin sc dr co r) (couple_add sc dr co s0) = k_forward r s0.
Proof. exact para_roundtrip. Qed.
Theorem C16_para_compose : forall sc1 dr1 co1 sc2 dr2 co2 r q,
  k_forward (para_kin sc1 dr1 co1 (para_kin sc2 dr2 co2 r)) q =
  k_forward r (couple_sub sc2 dr2 co2 (couple_sub sc1 dr1 co1 q)).
Proof. exact para_compose. Qed.
Theorem C16_para_under_tool_base : forall sc dr co t b r q,
  k_forward (tool_kin t (base_kin b (para_kin sc dr co r))) q =
  icomp (icomp b (k_forward r (couple_sub sc dr co q))) t.
Proof. exact para_under_tool_base. Qed.
Check (eq_refl : couple_add = fun sc dr co q => jl_set q co (jl_get q co + sc * jl_get q dr)).
