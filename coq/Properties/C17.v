(** C17 — a frame from three point pairs is the rigid motion mapping them. *)
From Coq Require Import ZArith Reals List Bool.
From VF Require Import Base.Lin Base.Num Model.Frame3 Proofs.Frame3P Model.WrapBase Gen.Delegation Gen.Consts.
Open Scope R_scope.

(** non-collinear points and their images under ANY rigid motion M: the constructed frame IS M
    (hence proper, maps each point to its image, and is unique) *)
Theorem C17_frame3_rigid : forall (M : Iso) tol p1 p2 p3, proper (rot M) -> 0 < tol ->
  vnorm (vcross (vsub p2 p1) (vsub p3 p1)) <> 0 ->
  frame3 tol p1 p2 p3 (iapp M p1) (iapp M p2) (iapp M p3) = FOk M.
Proof. exact frame3_rigid. Qed.

(** rejections with the corresponding error *)
Theorem C17_collinear_source : forall tol p1 p2 p3 q1 q2 q3,
  distances_match tol p1 p2 p3 q1 q2 q3 = true -> vnorm (vcross (vsub p2 p1) (vsub p3 p1)) = 0 ->
  frame3 tol p1 p2 p3 q1 q2 q3 = FCollinear true.
Proof. exact frame3_collinear_source. Qed.
Theorem C17_collinear_target : forall tol p1 p2 p3 q1 q2 q3,
  distances_match tol p1 p2 p3 q1 q2 q3 = true -> vnorm (vcross (vsub p2 p1) (vsub p3 p1)) <> 0 ->
  vnorm (vcross (vsub q2 q1) (vsub q3 q1)) = 0 -> frame3 tol p1 p2 p3 q1 q2 q3 = FCollinear false.
Proof. exact frame3_collinear_target. Qed.
Theorem C17_incongruent : forall tol p1 p2 p3 q1 q2 q3,
  (tol <= Rabs (vdist p1 p2 - vdist q1 q2) \/ tol <= Rabs (vdist p1 p3 - vdist q1 q3) \/ tol <= Rabs (vdist p2 p3 - vdist q2 q3)) ->
  frame3 tol p1 p2 p3 q1 q2 q3 = FNotIsometry.
Proof. exact frame3_incongruent. Qed.

(** whatever is accepted (also triples congruent only within the tolerance) is a proper rotation *)
Theorem C17_frame_core_orthogonal : forall p1 p2 p3 q1 q2 q3,
  vnorm (vsub p2 p1) <> 0 -> vnorm (vcross (vsub p2 p1) (vsub p3 p1)) <> 0 ->
  vnorm (vsub q2 q1) <> 0 -> vnorm (vcross (vsub q2 q1) (vsub q3 q1)) <> 0 ->
  mmul (mtr (rot (frame_core p1 p2 p3 q1 q2 q3))) (rot (frame_core p1 p2 p3 q1 q2 q3)) = I3.
Proof. exact frame_core_proper. Qed.
Theorem C17_frame_core_det : forall p1 p2 p3 q1 q2 q3,
  vnorm (vsub p2 p1) <> 0 -> vnorm (vcross (vsub p2 p1) (vsub p3 p1)) <> 0 ->
  vnorm (vsub q2 q1) <> 0 -> vnorm (vcross (vsub q2 q1) (vsub q3 q1)) <> 0 ->
  mdet (rot (frame_core p1 p2 p3 q1 q2 q3)) = 1.
Proof. exact frame_core_det. Qed.

(** forward_transformed (GENERATED from src/frame.rs): the frame-moved tool pose and the continuation IK of exactly that pose *)
Theorem C17_forward_transformed : forall frame robot qs previous,
  frame_forward_transformed frame robot qs previous =
  (k_inverse_continuing robot (icomp frame (k_forward robot qs)) previous, icomp frame (k_forward robot qs)).
Proof. reflexivity. Qed.

(** documented congruence tolerance: 5 mm *)
Check (eq_refl : NON_ISOMETRY_TOLERANCE = 1 / 200).
