(** C05 — wrist singularity detected in a two-sided band on the model angle of J5; J4/J6 move equally. *)
From Coq Require Import ZArith Reals List Bool.
From VF Require Import Base.Num Model.Constraints Model.Kin Proofs.ConstraintsP Proofs.KinP Gen.Consts.
Import ListNotations.
Open Scope R_scope.

(** reported singular <-> the model angle of J5 (sign and offset applied) is within the band of a multiple of hp *)
Theorem C05_singular_iff_band : forall hp thr sg off j, 0 < hp -> 0 < thr -> thr <= hp / 2 ->
  (singular hp thr sg off j = true <-> exists n : Z, Rabs (to_model sg off j 4 - IZR n * hp) < thr).
Proof. intros hp thr sg off j H. unfold singular. exact (close_to_multiple_iff hp H (to_model sg off j 4) thr). Qed.

(** the recovered answer moves J4 and J6 by the same amount (model angles; signs are +-1) *)
Theorem C05_recovered_moves_equally : forall hp thr sg off previous now,
  nth 3 sg 0 * nth 3 sg 0 = 1 -> nth 5 sg 0 * nth 5 sg 0 = 1 ->
  let c := sing_candidate hp thr sg off previous now in
  to_model sg off c 3 - to_model sg off previous 3 = to_model sg off c 5 - to_model sg off previous 5.
Proof. exact recovered_moves_equally. Qed.

(** documented band: 0.01 degree (generated from the source constant) *)
Check (eq_refl : SINGULARITY_ANGLE_THR = 1 / 100 * PI / 180).
