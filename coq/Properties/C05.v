(** C05 — wrist singularity detected in a two-sided band on the model angle of J5; J4/J6 move equally. *)
From Coq Require Import ZArith Reals List Bool.
From VF Require Import Base.Num Base.Lin Model.Constraints Model.Kin Proofs.ConstraintsP Proofs.KinP Gen.Consts Gen.Forward Proofs.SingGeom Proofs.SingRestore.
Import ListNotations.
Open Scope R_scope.

(** reported singular <-> the model angle of J5 (sign and offset applied) is within the band of a multiple of hp *)
Theorem C05_singular_iff_band : forall hp thr sg off j, 0 < hp -> 0 < thr -> thr <= hp / 2 ->
  (singular hp thr sg off j = true <-> exists n : Z, Rabs (to_model sg off j 4 - IZR n * hp) < thr).
Proof. intros hp thr sg off j H. unfold singular. exact (close_to_multiple_iff hp H (to_model sg off j 4) thr). Qed.

(** the recovered answer moves J4 and J6 by the same amount (model angles; signs are +-1) *)
Theorem C05_recovered_moves_equally : forall hp thr sg off previous now,
  nth 3 sg 0 * nth 3 sg 0 = 1 -> nth 5 sg 0 * nth 5 sg 0 = 1 ->
  let c := sing_candidate hp thr sg off previous now in
  to_model sg off c 3 - to_model sg off previous 3 = to_model sg off c 5 - to_model sg off previous 5.
Proof. exact recovered_moves_equally. Qed.

(** documented band: 0.01 degree (generated from the source constant) *)
Check (eq_refl : SINGULARITY_ANGLE_THR = 1 / 100 * PI / 180).

(** geometric meaning of the flag, on the link frames generated from forward_with_joint_poses: the flag is raised exactly when the
    sine of the angle between the rotation axes of joints 4 and 6 (z axes of link frames 4 and 6) is below sin(threshold), for
    every parameter set, sign convention and offset *)
Theorem C05_flag_iff_axes : forall (p : Lin.Params) thr (j : J6), 0 < thr -> thr <= PI / 2 ->
  (singular PI thr (map IZR [p_sg1 p; p_sg2 p; p_sg3 p; p_sg4 p; p_sg5 p; p_sg6 p])
            [p_off1 p; p_off2 p; p_off3 p; p_off4 p; p_off5 p; p_off6 p] (jl j) = true
   <-> axes_sine p j < sin thr).
Proof. intros p thr j H1 H2. exact (singular_iff_axes p thr H1 H2 j). Qed.

Theorem C05_collinear_is_singular : forall (p : Lin.Params) thr (j : J6), 0 < thr -> thr <= PI / 2 ->
  vcross (zaxis (List.nth 3 (chain p j) iid)) (zaxis (List.nth 5 (chain p j) iid)) = mkV3 0 0 0 ->
  singular PI thr (map IZR [p_sg1 p; p_sg2 p; p_sg3 p; p_sg4 p; p_sg5 p; p_sg6 p])
           [p_off1 p; p_off2 p; p_off3 p; p_off4 p; p_off5 p; p_off6 p] (jl j) = true.
Proof. intros p thr j H1 H2. exact (collinear_is_singular p thr H1 H2 j). Qed.

(** the recovered candidate IS the previous vector when the singular kernel row has the previous arm angles and J5 and a congruent
    wrist sum (J4+J6 at J5=0, J4-J6 at J5=pi) *)
Theorem C05_candidate_restores_previous : forall hp thr sg off previous now, 0 < hp ->
  length previous = 6%nat -> nth 3 sg 0 * nth 3 sg 0 = 1 -> nth 5 sg 0 * nth 5 sg 0 = 1 ->
  jn now 0 = jn previous 0 -> jn now 1 = jn previous 1 -> jn now 2 = jn previous 2 -> jn now 4 = jn previous 4 ->
  (if are_angles_close hp thr (to_model sg off now 4) 0
   then is_rep hp (to_model sg off now 3 + to_model sg off now 5) (to_model sg off previous 3 + to_model sg off previous 5)
   else is_rep hp (to_model sg off now 3 - to_model sg off now 5) (to_model sg off previous 3 - to_model sg off previous 5)) ->
  sing_candidate hp thr sg off previous now = previous.
Proof. intros hp thr sg off previous now H. exact (candidate_restores_previous hp H thr sg off previous now). Qed.

(** non-vacuity: the previous vector itself meets every hypothesis (any 6-vector, any +-1 signs) *)
Example C05_candidate_fixpoint : forall hp thr sg off previous, 0 < hp -> length previous = 6%nat ->
  nth 3 sg 0 * nth 3 sg 0 = 1 -> nth 5 sg 0 * nth 5 sg 0 = 1 -> sing_candidate hp thr sg off previous previous = previous.
Proof.
  intros hp thr sg off previous H Hl H3 H5. apply C05_candidate_restores_previous; try assumption; try reflexivity.
  destruct (are_angles_close _ _ _ _); apply is_rep_refl.
Qed.

(** ... and once the previous vector is among the raw answers (kernel rows and the recovered candidate) it is the FIRST answer of
    inverse_continuing, for every kernel, FK verdict and shift behaviour (unweighted sorting, previous within the limits) *)
Theorem C05_first_is_previous : forall hp thr sg off dof cons (Pose : Type) kernel kernel5 shift fk_ok, 0 < hp ->
  (forall (pose : Pose) s, In s (kernel pose) -> length s = 6%nat) ->
  forall pose prev, dof <> 5%Z -> length prev = 6%nat -> weight cons = 0 -> compliant_opt hp cons prev = true ->
  In prev (shifts_loop hp thr sg off cons Pose kernel shift fk_ok pose prev [0; 1; 2; 3]%nat []) ->
  exists rest, inverse_continuing hp thr sg off dof cons Pose kernel kernel5 shift fk_ok pose false prev = prev :: rest.
Proof. intros hp thr sg off dof cons Pose kernel kernel5 shift fk_ok H Hk. exact (first_is_previous hp H thr sg off dof cons Pose kernel kernel5 shift fk_ok Hk). Qed.
