(** C15 — the Jacobian equals the geometric one.  [fwd] and [chain] are GENERATED from src/kinematics_impl.rs. *)
From Coq Require Import ZArith Reals List.
From Coquelicot Require Import Coquelicot.
From VF Require Import Base.Lin Base.Angles Gen.Forward Proofs.ForwardP Proofs.JacobianP.
Open Scope R_scope.

(** position rows: for every joint i, coordinate k and point t fixed in the flange frame (a tool offset),
    d/dq_i of the point is  sign_i * (axis_i x (point - origin_i)),  axis_i/origin_i from the per-link poses *)
Theorem C15_position_column : forall p t j (i k : nat), (i < 6)%nat ->
  is_derive (fun x => vcoord k (tip p t (jset6 j i x))) (jget j i) (vcoord k (geo_col p t j i)).
Proof. exact jacobian_position_column. Qed.

(** behind any base transform the column is rotated by the base *)
Theorem C15_position_column_base : forall (B : Iso) p t j (i k : nat), (i < 6)%nat ->
  is_derive (fun x => vcoord k (iapp B (tip p t (jset6 j i x)))) (jget j i) (vcoord k (mapp (rot B) (geo_col p t j i))).
Proof. exact jacobian_position_column_base. Qed.

(** rotation rows: perturbing joint i by e rotates the flange about the world axis of joint i by sign_i*e EXACTLY
    (so the log/e column the code forms is sign_i * axis_i with no truncation error) *)
Theorem C15_rotation_column : forall p j (i : nat) (e : R), (i < 6)%nat ->
  rot (fwd p (jset6 j i (jget j i + e))) =
  mmul (conj_rot (rot (List.nth i (chain p j) iid)) (local_rot i (sgn p i * e))) (rot (fwd p j)).
Proof. exact jacobian_rotation_column. Qed.

Check (eq_refl : geo_col = fun p t j i =>
  let li := List.nth i (chain p j) iid in
  vscale (sgn p i) (vcross (mapp (rot li) (local_axis i)) (vsub (tip p t j) (tr li)))).

(** finite differences: for a step |e| <= 1 (the code uses 1e-7..1e-5) the forward-difference quotient of any coordinate
    of the tool point differs from the geometric column by at most |e| times the lever arm *)
From VF Require Import Proofs.JacobianFD.
Theorem C15_fd_bound : forall p t j (i k : nat) (e : R), (i < 6)%nat -> sg_ok p -> e <> 0 -> Rabs e <= 1 ->
  Rabs ((vcoord k (tip p t (jset6 j i (jget j i + e))) - vcoord k (tip p t (jset6 j i (jget j i)))) / e - vcoord k (geo_col p t j i))
  <= Rabs e * vnorm (vsub (tip p t j) (tr (List.nth i (chain p j) iid))).
Proof. exact jacobian_fd_bound. Qed.

(** * uses of the matrix: torques = J^T F, velocities = J^-1 X (pseudo-inverse fallback) *)
From VF Require Import Base.Num Model.JacUse Proofs.JacUseP.
Import ListNotations.
(** virtual work: the joint torques do the same work on every joint velocity as the wrench does on the twist it produces *)
Theorem C15_torques_virtual_work : forall J F qd, shape6 J -> length F = 6%nat -> length qd = 6%nat ->
  dot (torques J F) qd = dot F (mulv J qd).
Proof. exact torques_virtual_work. Qed.
Theorem C15_torques_unit_row : forall J (k : nat), shape6 J -> (k < 6)%nat -> torques J (unit6 k) = List.nth k J [].
Proof. exact torques_unit_row. Qed.
Theorem C15_torques_linear : forall J (a : R) F G, shape6 J -> length F = 6%nat -> length G = 6%nat ->
  torques J (map (fun p => a * fst p + snd p) (combine F G)) = map (fun p => a * fst p + snd p) (combine (torques J F) (torques J G)).
Proof. exact torques_linear. Qed.
(** for every behaviour of try_inverse / pseudo_inverse that meets the contract "a returned matrix is a right inverse" *)
Theorem C15_velocities_reproduce : forall try_inverse pseudo_inverse : list (list R) -> option (list (list R)),
  (forall J Ji, try_inverse J = Some Ji -> forall X, length X = 6%nat -> mulv J (mulv Ji X) = X) ->
  forall J X v, length X = 6%nat -> try_inverse J <> None -> velocities try_inverse pseudo_inverse J X = Some v -> mulv J v = X.
Proof. exact velocities_reproduce. Qed.
Theorem C15_velocities_error_iff : forall (try_inverse pseudo_inverse : list (list R) -> option (list (list R))) J X,
  velocities try_inverse pseudo_inverse J X = None <-> try_inverse J = None /\ pseudo_inverse J = None.
Proof. exact velocities_error_iff. Qed.
Theorem C15_entry_points_agree : forall (try_inverse pseudo_inverse : list (list R) -> option (list (list R))) (Iso : Type) (vec_of : Iso -> list R) J d vx vy vz,
  velocities_iso try_inverse pseudo_inverse Iso vec_of J d = velocities try_inverse pseudo_inverse J (vec_of d) /\
  torques_iso Iso vec_of J d = torques J (vec_of d) /\
  velocities_fixed try_inverse pseudo_inverse J vx vy vz = velocities try_inverse pseudo_inverse J [vx; vy; vz; 0; 0; 0].
Proof. exact entry_points_agree. Qed.
