(** C15 — the Jacobian equals the geometric one.  [fwd] and [chain] are GENERATED from src/kinematics_impl.rs. *)
From Coq Require Import ZArith Reals List.
From Coquelicot Require Import Coquelicot.
From VF Require Import Base.Lin Base.Angles Gen.Forward Proofs.ForwardP Proofs.JacobianP.
Open Scope R_scope.

(** position rows: for every joint i, coordinate k and point t fixed in the flange frame (a tool offset),
    d/dq_i of the point is  sign_i * (axis_i x (point - origin_i)),  axis_i/origin_i from the per-link poses *)
Theorem C15_position_column : forall p t j (i k : nat), (i < 6)%nat ->
  is_derive (fun x => vcoord k (tip p t (jset6 j i x))) (jget j i) (vcoord k (geo_col p t j i)).
Proof. exact jacobian_position_column. Qed.

(** behind any base transform the column is rotated by the base *)
Theorem C15_position_column_base : forall (B : Iso) p t j (i k : nat), (i < 6)%nat ->
  is_derive (fun x => vcoord k (iapp B (tip p t (jset6 j i x)))) (jget j i) (vcoord k (mapp (rot B) (geo_col p t j i))).
Proof. exact jacobian_position_column_base. Qed.

(** rotation rows: perturbing joint i by e rotates the flange about the world axis of joint i by sign_i*e EXACTLY
    (so the log/e column the code forms is sign_i * axis_i with no truncation error) *)
Theorem C15_rotation_column : forall p j (i : nat) (e : R), (i < 6)%nat ->
  rot (fwd p (jset6 j i (jget j i + e))) =
  mmul (conj_rot (rot (List.nth i (chain p j) iid)) (local_rot i (sgn p i * e))) (rot (fwd p j)).
Proof. exact jacobian_rotation_column. Qed.

Check (eq_refl : geo_col = fun p t j i =>
  let li := List.nth i (chain p j) iid in
  vscale (sgn p i) (vcross (mapp (rot li) (local_axis i)) (vsub (tip p t j) (tr li)))).

(** finite differences: for a step |e| <= 1 (the code uses 1e-7..1e-5) the forward-difference quotient of any coordinate
    of the tool point differs from the geometric column by at most |e| times the lever arm *)
From VF Require Import Proofs.JacobianFD.
Theorem C15_fd_bound : forall p t j (i k : nat) (e : R), (i < 6)%nat -> sg_ok p -> e <> 0 -> Rabs e <= 1 ->
  Rabs ((vcoord k (tip p t (jset6 j i (jget j i + e))) - vcoord k (tip p t (jset6 j i (jget j i)))) / e - vcoord k (geo_col p t j i))
  <= Rabs e * vnorm (vsub (tip p t j) (tr (List.nth i (chain p j) iid))).
Proof. exact jacobian_fd_bound. Qed.
