(** C12 — a planned Cartesian stroke (model of src/path_plan/cartesian.rs; oracles: collision-aware IK, RRT,
    pose interpolation, rayon's choice, stop flag). *)
From Coq Require Import ZArith Reals List Bool.
From VF Require Import Base.Num Model.Stroke Proofs.StrokeP.
Import ListNotations.
Open Scope R_scope.

Section C12.
  Variables (Pose : Type) (ik : Pose -> list R -> list (list R)) (mid : Pose -> Pose -> Pose) (coef : list R) (max_cost : R)
            (densify : Pose -> Pose -> list Pose) (rrt : list R -> list R -> option (list (list R))) (budget0 : nat).

  (** adaptive bisection: non-empty, every consecutive transition (from the starting joints on) costs at most
      max_transition_cost, every way-point is an answer of the collision-aware IK for a pose obtained by repeated halving
      of the segment, the last one for the target pose *)
  Theorem C12_adaptive_spec : forall budget s from to l, adaptive Pose ik mid coef max_cost budget s from to = Some l ->
    l <> [] /\ chain_ok coef max_cost s l /\
    Forall (fun x => exists p prev, OnSeg Pose mid from to p /\ In x (ik p prev)) l /\
    (exists prev, In (last l s) (ik to prev)).
  Proof. exact (adaptive_spec Pose ik mid coef max_cost). Qed.

  (** LAND, the stroke poses (TRACE) and PARK appear in this order; everything else is flagged LIN_INTERP *)
  Theorem C12_poses_key_order : forall land steps park,
    filter (fun a => negb (Z.eqb (snd a) F_INTERP)) (with_intermediate_poses Pose densify land steps park) =
    (land, F_LAND) :: map (fun s => (s, F_TRACE)) steps ++ [(park, F_PARK)].
  Proof. exact (poses_key_order Pose densify). Qed.

  (** every way-point of a successful probe is the landing solution, an answer of the collision-aware IK or a node of an RRT path *)
  Theorem C12_probe_waypoints : forall strategy rest from trace prev tr,
    Forall (fun a => wp_ok Pose ik rrt strategy (fst a)) trace ->
    probe_loop Pose ik mid coef max_cost rrt budget0 from rest trace prev = Some tr ->
    Forall (fun a => wp_ok Pose ik rrt strategy (fst a)) tr.
  Proof. exact (probe_loop_waypoints Pose ik mid coef max_cost rrt budget0). Qed.

  Theorem C12_no_interp_unless_requested : forall start strategy poses stopped tr,
    probe_strategy Pose ik mid coef max_cost rrt budget0 false start strategy poses stopped = Some tr ->
    Forall (fun a => Z.testbit (snd a) 3 = false) tr.
  Proof. exact (probe_no_interp_unless_requested Pose ik mid coef max_cost rrt budget0). Qed.

  (** success is independent of the scheduling choice (for EVERY behaviour of find_map_any) *)
  Theorem C12_plan_success_iff : forall include start_collides choose stop_seen,
    (forall l, (choose l = None <-> l = []) /\ (forall p, choose l = Some p -> In p l)) ->
    forall from land steps park,
    (exists tr, plan Pose ik mid coef max_cost densify rrt budget0 include start_collides choose stop_seen from land steps park = Some tr) <->
    start_collides = false /\
    exists s tr, In s (ik land from) /\
      probe_strategy Pose ik mid coef max_cost rrt budget0 include from s (with_intermediate_poses Pose densify land steps park) (stop_seen s) = Some tr.
  Proof. intros i sc ch ss H. exact (plan_success_iff Pose ik mid coef max_cost densify rrt budget0 i sc ch ss H). Qed.

  Theorem C12_plan_is_a_probe : forall include start_collides choose stop_seen,
    (forall l, (choose l = None <-> l = []) /\ (forall p, choose l = Some p -> In p l)) ->
    forall from land steps park tr,
    plan Pose ik mid coef max_cost densify rrt budget0 include start_collides choose stop_seen from land steps park = Some tr ->
    exists s, In s (ik land from) /\
      probe_strategy Pose ik mid coef max_cost rrt budget0 include from s (with_intermediate_poses Pose densify land steps park) (stop_seen s) = Some tr.
  Proof. intros i sc ch ss H. exact (plan_is_a_probe Pose ik mid coef max_cost densify rrt budget0 i sc ch ss H). Qed.
End C12.

(** densification: interpolated poses strictly inside the segment, evenly spaced, fine enough *)
Theorem C12_inter_on_segment : forall (x0 dx : R) (steps i : nat), (1 <= i)%nat -> (i < steps)%nat ->
  exists lam, 0 < lam < 1 /\ inter_coord x0 dx steps i = x0 + lam * dx /\ lam = INR i / INR steps.
Proof. exact inter_coord_on_segment. Qed.
Theorem C12_nsteps_fine : forall d th sm sr : R, 0 < sm -> 0 < sr -> d / INR (nsteps d th sm sr) <= sm \/ d <= 0.
Proof. exact nsteps_fine. Qed.

(** the plan starts at the caller's start configuration: every successful probe begins with the on-boarding leg, and the
    RRT contract (C13: a returned path begins with its start vector) puts [start] first.
    (Until fix 'stroke plan starts at the given start joints' this was the _refuted form: the first way-point was the strategy.) *)
Theorem C12_starts_at_from : forall (Pose : Type) ik mid coef max_cost (rrt : list R -> list R -> option (list (list R))) budget0 include start strategy p0 rest tr,
  (forall a b path, rrt a b = Some path -> hd_error path = Some a /\ last path a = b) ->
  probe_strategy (T:=R) Pose ik mid coef max_cost rrt budget0 include start strategy (p0 :: rest) false = Some tr ->
  include = true -> hd_error (map fst tr) = Some start.
Proof.
  intros Pose ik mid coef max_cost rrt budget0 include start strategy p0 rest tr Hrrt H ->. unfold probe_strategy in H.
  destruct (rrt start strategy) as [onb|] eqn:Eo; [|discriminate].
  destruct (probe_loop Pose ik mid coef max_cost rrt budget0 p0 rest (onboard onb strategy) strategy) as [t|] eqn:E; [|discriminate].
  injection H as <-.
  assert (G : forall rest from trace prev t, probe_loop Pose ik mid coef max_cost rrt budget0 from rest trace prev = Some t -> exists tl, t = trace ++ tl).
  { clear. induction rest as [|to rest IH]; intros from trace prev t; cbn [probe_loop].
    - intros [= <-]. exists []. rewrite app_nil_r. reflexivity.
    - destruct (adaptive _ _ _ _ _ _ _ _ _) as [ext|].
      + intros Hp. apply IH in Hp. destruct Hp as [tl ->]. rewrite <- app_assoc. eexists. reflexivity.
      + destruct (first_rrt _ _ _) as [path|]; [|discriminate].
        intros Hp. apply IH in Hp. destruct Hp as [tl ->]. rewrite <- app_assoc. eexists. reflexivity. }
  apply G in E. destruct E as [tl ->].
  destruct (Hrrt _ _ _ Eo) as [Hhd Hlast]. unfold onboard.
  destruct onb as [|o1 otl]; [discriminate|]. cbn [hd_error] in Hhd. injection Hhd as ->.
  destruct otl as [|o2 otl'].
  - cbn [last] in Hlast. subst strategy. reflexivity.
  - reflexivity.
Qed.
