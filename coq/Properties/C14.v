(** C14 — single-joint offsets offered to search planners are legal and collision-free. *)
From Coq Require Import ZArith Reals List Bool.
From VF Require Import Base.Num Model.Collide Proofs.CollideP.
Import ListNotations.
Open Scope R_scope.

Section C14.
  Variables (intersects : nat -> Z -> Z -> bool) (dist : nat -> Z -> Z -> R) (prefilter : nat -> Z -> Z -> R -> bool)
            (choose : list (Z * Z) -> option (Z * Z)) (legal : nat -> bool).

  (** a candidate is offered exactly when it is within limits and the FULL pairwise check of that candidate is clean;
      the only skipping allowed is of pairs whose two bodies did not move (clean in the collision-free start) *)
  Theorem C14_offered_iff_spec : forall c s cand, (cand < 12)%nat ->
    prefilter_sound (dist cand) (prefilter cand) -> choose_ok choose ->
    (forall p, In p (relevant c) -> unmoved (skip_of cand) (fst p) && unmoved (skip_of cand) (snd p) = true ->
               brute (intersects cand) (dist cand) s p = false) ->
    (offered intersects dist prefilter choose legal c s cand = true <->
     legal cand = true /\ forall p, In p (relevant c) -> brute (intersects cand) (dist cand) s p = false).
  Proof. exact (offered_iff_spec intersects dist prefilter choose legal). Qed.

  Theorem C14_offsets_spec : forall c s cand,
    In cand (offsets intersects dist prefilter choose legal c s) <->
    (cand < 12)%nat /\ offered intersects dist prefilter choose legal c s cand = true.
  Proof. exact (offsets_spec intersects dist prefilter choose legal). Qed.
End C14.
