(** C14 — single-joint offsets offered to search planners are legal and collision-free. *)
From Coq Require Import ZArith Reals List Bool.
From VF Require Import Base.Num Model.Collide Proofs.CollideP.
Import ListNotations.
Open Scope R_scope.

Section C14.
  Variables (intersects : nat -> Z -> Z -> bool) (dist : nat -> Z -> Z -> R) (prefilter : nat -> Z -> Z -> R -> bool)
            (choose : list (Z * Z) -> option (Z * Z)) (legal : nat -> bool).

  (** a candidate is offered exactly when it is within limits and the FULL pairwise check of that candidate is clean;
      the only skipping allowed is of pairs whose two bodies did not move (clean in the collision-free start) *)
  Theorem C14_offered_iff_spec : forall c s cand, (cand < 12)%nat ->
    prefilter_sound (dist cand) (prefilter cand) -> choose_ok choose ->
    (forall p, In p (relevant c) -> unmoved (skip_of cand) (fst p) && unmoved (skip_of cand) (snd p) = true ->
               brute (intersects cand) (dist cand) s p = false) ->
    (offered intersects dist prefilter choose legal c s cand = true <->
     legal cand = true /\ forall p, In p (relevant c) -> brute (intersects cand) (dist cand) s p = false).
  Proof. exact (offered_iff_spec intersects dist prefilter choose legal). Qed.

  Theorem C14_offsets_spec : forall c s cand,
    In cand (offsets intersects dist prefilter choose legal c s) <->
    (cand < 12)%nat /\ offered intersects dist prefilter choose legal c s cand = true.
  Proof. exact (offsets_spec intersects dist prefilter choose legal). Qed.
End C14.

(** * the candidate vectors and the justification of the skip list (generated forward_with_joint_poses) *)
From Coq Require Import Lia.
From VF Require Import Base.Lin Gen.Forward Proofs.ForwardP Proofs.JacobianP Proofs.OffsetsP.
(** candidate number cand (0..11) replaces joint cand/2 by the caller's 'from' (even) or 'to' (odd) value and nothing else *)
Theorem C14_candidate_changes_one_joint : forall initial from to cand, (cand < 12)%nat ->
  jget (cand_vec initial from to cand) (cand_joint cand) = jget (if Nat.even cand then from else to) (cand_joint cand) /\
  forall k, (k < 6)%nat -> k <> cand_joint cand -> jget (cand_vec initial from to cand) k = jget initial k.
Proof. intros initial from to cand Hc. split; [apply cand_vec_changed; exact Hc | intros k; apply cand_vec_others; exact Hc]. Qed.

(** every body on the skip list of candidate cand is at the pose it has in the (collision-free) initial configuration *)
Theorem C14_skipped_links_unmoved : forall p initial from to cand (i : nat), (cand < 12)%nat ->
  In (Z.of_nat i) (skip_of cand) ->
  List.nth i (chain p (cand_vec initial from to cand)) iid = List.nth i (chain p initial) iid.
Proof.
  intros p initial from to cand i Hc Hin. apply skipped_links_unmoved; [exact Hc|].
  unfold skip_of in Hin. apply in_map_iff in Hin. destruct Hin as [x [Hx Hs]]. apply Nat2Z.inj in Hx. subst x.
  apply in_seq in Hs. unfold cand_joint. lia.
Qed.
