(** C19 — parameter YAML round-trips and every documented syntax variant parses (document-tree level). *)
From Coq Require Import ZArith QArith Qabs List String Bool.
From VF Require Import Model.Yaml Proofs.YamlP.
Import ListNotations.
Open Scope string_scope.
Open Scope list_scope.
Open Scope Q_scope.

Theorem C19_yaml_roundtrip : forall hp g off sg dof, 0 < hp ->
  List.length g = 7%nat -> List.length off = 6%nat -> List.length sg = 6%nat ->
  (dof = 5 \/ dof = 6)%Z -> (dof = 5%Z -> nth 5 sg 0%Z = 0%Z) ->
  exists p', from_docs hp [to_yaml_tree hp {| y_geom := g; y_off := off; y_sg := sg; y_dof := dof |}] = YOk p' /\
    Forall2 Qeq (y_geom p') g /\ y_sg p' = sg /\ y_dof p' = dof /\
    Forall2 (fun a b => Qabs (a - b) <= to_radians hp (1 # 20000)) (y_off p') off.
Proof. intros hp g off sg dof H. exact (yaml_roundtrip hp H g off sg dof). Qed.

Theorem C19_empty_is_error : forall hp, from_docs hp [] = YErrR EParse.
Proof. exact empty_is_error. Qed.
Theorem C19_int_or_real : forall z, read_length (YMap [("a1", YInt z)]) "a1" = Some (inject_Z z) /\
                                    read_length (YMap [("a1", YReal (inject_Z z))]) "a1" = Some (inject_Z z).
Proof. exact int_or_real. Qed.
Theorem C19_deg_or_radians : forall hp d, read_offset hp (YStr (SDeg d)) = Some (to_radians hp d) /\
                                          read_offset hp (YReal (to_radians hp d)) = Some (to_radians hp d).
Proof. exact deg_or_radians. Qed.
Theorem C19_five_entries_padded : forall l : list Z, List.length l = 5%nat -> read_signs (YArr (map YInt l)) = inl (l ++ [0%Z]).
Proof. exact five_entries_padded. Qed.
Theorem C19_dof_either_place : forall (rest : list (string * Y)) d,
  let nested := YMap [("opw_kinematics_geometric_parameters", YMap (("dof", YInt d) :: rest))] in
  let top := YMap [("opw_kinematics_geometric_parameters", YMap []); ("dof", YInt d)] in
  as_i64 (yget (yget nested "opw_kinematics_geometric_parameters") "dof") = Some d /\
  as_i64 (yget (yget top "opw_kinematics_geometric_parameters") "dof") = None /\ as_i64 (yget top "dof") = Some d.
Proof. exact dof_either_place. Qed.
(** the reader is a total function into Ok/Err: there is no panic outcome in the model at all *)
Check (from_docs : Q -> list Y -> YRes).
