(** C02 / C01: the generated branch table of inverse_intern and the finishing glue. *)
From Coq Require Import ZArith Reals Lra Lia List Bool.
From VF Require Import Base.Num Base.Lin Base.Angles Model.Kin Model.Finish Gen.Forward Gen.Inverse Proofs.ForwardP Proofs.KinP.
Import ListNotations.
Open Scope R_scope.

(** * the wrist-flipped twin *)
Definition twin_row (r : list R) : list R :=
  match r with [t1; t2; t3; t4; t5; t6] => [t1; t2; t3; t4 + PI; - t5; t6 - PI] | _ => r end.
Definition twin_row_def (r : list (R * bool)) : list (R * bool) :=
  match r with [a; b; c; (t4, d4); (t5, d5); (t6, d6)] => [a; b; c; (t4 + PI, d4); (- t5, d5); (t6 - PI, d6)] | _ => r end.

(** branches 4..7 of the table are the twins of branches 0..3, with the same definedness *)
Theorem twin_in_table p pose (i : nat) : (i < 4)%nat ->
  nth (i + 4) (ik_theta p pose) [] = twin_row (nth i (ik_theta p pose) []).
Proof.
  intros Hi. unfold ik_theta. cbv zeta. destruct i as [|[|[|[|i]]]]; try lia; reflexivity.
Qed.
Theorem twin_in_table_def p pose (i : nat) : (i < 4)%nat ->
  nth (i + 4) (ik_theta_def p pose) [] = twin_row_def (nth i (ik_theta_def p pose) []).
Proof.
  intros Hi. unfold ik_theta_def. cbv zeta. destruct i as [|[|[|[|i]]]]; try lia; reflexivity.
Qed.

(** forward kinematics is invariant under the twin (model angles) *)
Definition jtwin (q : J6) : J6 := mkJ6 (j1 q) (j2 q) (j3 q) (j4 q + PI) (- j5 q) (j6 q - PI).

Lemma sin_shift_PI x : sin (x + PI) = - sin x. Proof. rewrite sin_plus, sin_PI, cos_PI. ring. Qed.
Lemma cos_shift_PI x : cos (x + PI) = - cos x. Proof. rewrite cos_plus, sin_PI, cos_PI. ring. Qed.
Lemma sin_shift_mPI x : sin (x - PI) = - sin x. Proof. rewrite sin_minus, sin_PI, cos_PI. ring. Qed.
Lemma cos_shift_mPI x : cos (x - PI) = - cos x. Proof. rewrite cos_minus, sin_PI, cos_PI. ring. Qed.

Theorem fk_twin p q : L6 p (jtwin q) = L6 p q.
Proof.
  destruct q as [a1 a2 a3 a4 a5 a6].
  cbv [L1 L2 L3 L4 L5 L6 E1 E2 E3 E4 E5 E6 jtwin j1 j2 j3 j4 j5 j6].
  apply Iso_eq; [apply M3_eq | apply V3_eq]; lin_unfold;
    rewrite ?sin_shift_PI, ?cos_shift_PI, ?sin_shift_mPI, ?cos_shift_mPI, ?sin_neg, ?cos_neg; ring.
Qed.

(** twins are different solutions unless the wrist is singular *)
Theorem twin_distinct (t5 : R) (k : Z) : sin t5 <> 0 -> - t5 <> t5 + 2 * IZR k * PI.
Proof.
  intros Hs E. apply Hs.
  assert (Ht : t5 = - IZR k * PI) by lra.
  apply sin_eq_0_1. exists (- k)%Z. rewrite opp_IZR. exact Ht.
Qed.


(** * the 5-DOF table (inverse_intern_5_dof): rows 4..7 are the wrist-flipped twins (J4 + PI, -J5) of rows 0..3 *)
Definition twin5_row (r : list R) : list R :=
  match r with [t1; t2; t3; t4; t5] => [t1; t2; t3; t4 + PI; - t5] | _ => r end.
Definition twin5_row_def (r : list (R * bool)) : list (R * bool) :=
  match r with [a; b; c; (t4, d4); (t5, d5)] => [a; b; c; (t4 + PI, d4); (- t5, d5)] | _ => r end.
Theorem twin5_in_table p pose (i : nat) : (i < 4)%nat ->
  nth (i + 4) (ik_theta5 p pose) [] = twin5_row (nth i (ik_theta5 p pose) []).
Proof.
  intros Hi. unfold ik_theta5. cbv zeta. destruct i as [|[|[|[|i]]]]; try lia; reflexivity.
Qed.
Theorem twin5_in_table_def p pose (i : nat) : (i < 4)%nat ->
  nth (i + 4) (ik_theta5_def p pose) [] = twin5_row_def (nth i (ik_theta5_def p pose) []).
Proof.
  intros Hi. unfold ik_theta5_def. cbv zeta. destruct i as [|[|[|[|i]]]]; try lia; reflexivity.
Qed.
(** the 5-DOF twin keeps the tool point and the tool axis, whatever J6 is *)
Definition jtwin5 (q : J6) : J6 := mkJ6 (j1 q) (j2 q) (j3 q) (j4 q + PI) (- j5 q) (j6 q).
Theorem fk_twin5 p q :
  tr (L6 p (jtwin5 q)) = tr (L6 p q) /\
  m02 (rot (L6 p (jtwin5 q))) = m02 (rot (L6 p q)) /\ m12 (rot (L6 p (jtwin5 q))) = m12 (rot (L6 p q)) /\
  m22 (rot (L6 p (jtwin5 q))) = m22 (rot (L6 p q)).
Proof.
  destruct q as [a1 a2 a3 a4 a5 a6].
  cbv [L1 L2 L3 L4 L5 L6 E1 E2 E3 E4 E5 E6 jtwin5 j1 j2 j3 j4 j5 j6].
  repeat split; [apply V3_eq|..]; lin_unfold;
    rewrite ?sin_shift_PI, ?cos_shift_PI, ?sin_neg, ?cos_neg; ring.
Qed.
