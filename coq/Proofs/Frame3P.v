(** C17: the frame built from three point pairs is the rigid motion mapping them. *)
From Coq Require Import ZArith Reals Lra List Bool Psatz Nsatz.
From VF Require Import Base.Lin Base.Num Model.Frame3.
Open Scope R_scope.

Lemma orth_cofactors (m : M3) : proper m ->
  m00 m = m11 m * m22 m - m12 m * m21 m /\ m01 m = m12 m * m20 m - m10 m * m22 m /\ m02 m = m10 m * m21 m - m11 m * m20 m /\
  m10 m = m02 m * m21 m - m01 m * m22 m /\ m11 m = m00 m * m22 m - m02 m * m20 m /\ m12 m = m01 m * m20 m - m00 m * m21 m /\
  m20 m = m01 m * m12 m - m02 m * m11 m /\ m21 m = m02 m * m10 m - m00 m * m12 m /\ m22 m = m00 m * m11 m - m01 m * m10 m.
Proof.
  intros [H D]. apply mmul_tr_eq in H. destruct m as [a b c d e f g h i].
  cbv [mdet m00 m01 m02 m10 m11 m12 m20 m21 m22] in *. destruct H as (H1 & H2 & H3 & H4 & H5 & H6).
  repeat split; nsatz.
Qed.

Lemma cross_rot m a b : proper m -> vcross (mapp m a) (mapp m b) = mapp m (vcross a b).
Proof.
  intros Hp. destruct (orth_cofactors m Hp) as (C0 & C1 & C2 & C3 & C4 & C5 & C6 & C7 & C8).
  destruct m as [m0 m1 m2 m3 m4 m5 m6 m7 m8], a as [ax ay az], b as [bx by_ bz].
  cbv [m00 m01 m02 m10 m11 m12 m20 m21 m22] in *.
  apply V3_eq; lin_unfold; nsatz.
Qed.

Lemma norm2_rot m v : proper m -> vnorm2 (mapp m v) = vnorm2 v.
Proof.
  intros [H _]. apply mmul_tr_eq in H. destruct m as [a b c d e f g h i], v as [x y z].
  cbv [m00 m01 m02 m10 m11 m12 m20 m21 m22] in H. destruct H as (H1 & H2 & H3 & H4 & H5 & H6).
  lin_unfold. nsatz.
Qed.
Lemma norm_rot m v : proper m -> vnorm (mapp m v) = vnorm v.
Proof. intros H. unfold vnorm. rewrite norm2_rot by exact H. reflexivity. Qed.

Lemma mapp_scale m k v : mapp m (vscale k v) = vscale k (mapp m v).
Proof. destruct m as [a b c d e f g h i], v as [x y z]. apply V3_eq; lin_unfold; ring. Qed.
Lemma normalize_rot m v : proper m -> vnormalize (mapp m v) = mapp m (vnormalize v).
Proof. intros H. unfold vnormalize. rewrite norm_rot by exact H. rewrite mapp_scale. reflexivity. Qed.

Lemma mcols_rot m a b c : mcols (mapp m a) (mapp m b) (mapp m c) = mmul m (mcols a b c).
Proof.
  destruct m as [r0 r1 r2 r3 r4 r5 r6 r7 r8], a as [ax ay az], b as [bx by_ bz], c as [cx cy cz].
  apply M3_eq; cbv [mcols mmul mapp m00 m01 m02 m10 m11 m12 m20 m21 m22 vx vy vz]; ring.
Qed.

Lemma mapp_sub m a b : mapp m (vsub a b) = vsub (mapp m a) (mapp m b).
Proof. destruct m as [r0 r1 r2 r3 r4 r5 r6 r7 r8], a as [ax ay az], b as [bx by_ bz]. apply V3_eq; lin_unfold; ring. Qed.

Lemma vnorm_pos_sq v : vnorm v <> 0 -> 0 < vnorm v /\ vnorm v * vnorm v = vnorm2 v.
Proof.
  intros Hn. unfold vnorm in *.
  assert (H0 : 0 <= vnorm2 v).
  { destruct v as [x y z]. lin_unfold. pose proof (Rle_0_sqr x). pose proof (Rle_0_sqr y). pose proof (Rle_0_sqr z). unfold Rsqr in *. lra. }
  split; [pose proof (sqrt_pos (vnorm2 v)); lra | apply sqrt_sqrt; exact H0].
Qed.

(** two orthogonal unit vectors and their cross product form an orthonormal basis *)
Lemma unit_basis u w : vdot u u = 1 -> vdot w w = 1 -> vdot u w = 0 ->
  mmul (mtr (mcols u w (vcross u w))) (mcols u w (vcross u w)) = I3.
Proof.
  destruct u as [a b c], w as [d e f]. cbv [vdot vx vy vz]. intros H1 H2 H3.
  apply mmul_tr_eq. cbv [mcols vcross m00 m01 m02 m10 m11 m12 m20 m21 m22 vx vy vz].
  repeat split; nsatz.
Qed.

Lemma normalize_unit v : vnorm v <> 0 -> vdot (vnormalize v) (vnormalize v) = 1.
Proof.
  intros Hn. destruct (vnorm_pos_sq v Hn) as [P S]. unfold vnormalize. revert P S. generalize (vnorm v). intros n P S.
  destruct v as [x y z]. cbv [vnorm2 vdot vscale vx vy vz] in *.
  replace (/ n * x * (/ n * x) + / n * y * (/ n * y) + / n * z * (/ n * z)) with ((x * x + y * y + z * z) * (/ n * / n)) by ring.
  rewrite <- S. field. lra.
Qed.

Lemma normalize_orth v1 v2 : vdot (vnormalize v1) (vnormalize (vcross v1 v2)) = 0.
Proof.
  unfold vnormalize. generalize (/ vnorm v1) (/ vnorm (vcross v1 v2)). intros i1 ic.
  destruct v1 as [x1 y1 z1], v2 as [x2 y2 z2]. cbv [vdot vscale vcross vx vy vz]. ring.
Qed.

(** the orthonormal basis built from two non-parallel vectors *)
Lemma basis_orth v1 v2 : vnorm v1 <> 0 -> vnorm (vcross v1 v2) <> 0 ->
  let b1 := vnormalize v1 in let b2 := vnormalize (vcross v1 v2) in let b3 := vcross b1 b2 in
  mmul (mtr (mcols b1 b2 b3)) (mcols b1 b2 b3) = I3.
Proof.
  intros H1 Hc. cbv zeta. apply unit_basis; [apply normalize_unit; exact H1 | apply normalize_unit; exact Hc | apply normalize_orth].
Qed.

Lemma orth_tr_r m : mmul (mtr m) m = I3 -> mmul m (mtr m) = I3.
Proof.
  intros H. apply mmul_tr_eq in H. destruct m as [a b c d e f g h i].
  cbv [m00 m01 m02 m10 m11 m12 m20 m21 m22] in H. destruct H as (H1 & H2 & H3 & H4 & H5 & H6).
  assert (Hd : (a * (e * i - f * h) - b * (d * i - f * g) + c * (d * h - e * g)) * (a * (e * i - f * h) - b * (d * i - f * g) + c * (d * h - e * g)) = 1) by nsatz.
  apply M3_eq; lin_unfold; nsatz.
Qed.

(** * Main theorem: three non-collinear points and their images under a rigid motion determine it *)
Theorem frame_core_is_motion (M : Iso) p1 p2 p3 : proper (rot M) ->
  vnorm (vcross (vsub p2 p1) (vsub p3 p1)) <> 0 ->
  frame_core p1 p2 p3 (iapp M p1) (iapp M p2) (iapp M p3) = M.
Proof.
  intros Hp Hc. destruct M as [Rm t]. cbn [rot] in Hp. unfold frame_core. cbv zeta.
  set (v1 := vsub p2 p1). set (v2 := vsub p3 p1). fold v1 v2 in Hc.
  assert (W1 : vsub (iapp (mkIso Rm t) p2) (iapp (mkIso Rm t) p1) = mapp Rm v1).
  { unfold v1, iapp. cbn [rot tr]. rewrite mapp_sub. destruct (mapp Rm p2), (mapp Rm p1), t. apply V3_eq; lin_unfold; ring. }
  assert (W2 : vsub (iapp (mkIso Rm t) p3) (iapp (mkIso Rm t) p1) = mapp Rm v2).
  { unfold v2, iapp. cbn [rot tr]. rewrite mapp_sub. destruct (mapp Rm p3), (mapp Rm p1), t. apply V3_eq; lin_unfold; ring. }
  rewrite W1, W2.
  (* v1 is not zero either *)
  assert (Hv1 : vnorm v1 <> 0).
  { intros H0. apply Hc. unfold vnorm in *.
    assert (Z : vnorm2 v1 = 0).
    { assert (0 <= vnorm2 v1) by (destruct v1 as [x y z]; lin_unfold; pose proof (Rle_0_sqr x); pose proof (Rle_0_sqr y); pose proof (Rle_0_sqr z); unfold Rsqr in *; lra).
      apply sqrt_eq_0 in H0; assumption. }
    destruct v1 as [x y z]. cbv [vnorm2 vdot vx vy vz] in Z.
    assert (x = 0 /\ y = 0 /\ z = 0) by (pose proof (Rle_0_sqr x); pose proof (Rle_0_sqr y); pose proof (Rle_0_sqr z); unfold Rsqr in *; repeat split; nra).
    destruct H as (-> & -> & ->). destruct v2 as [a b c]. cbv [vcross vnorm2 vdot vx vy vz].
    replace ((0 * c - 0 * b) * (0 * c - 0 * b) + (0 * a - 0 * c) * (0 * a - 0 * c) + (0 * b - 0 * a) * (0 * b - 0 * a)) with 0 by ring.
    apply sqrt_0. }
  rewrite cross_rot by exact Hp. rewrite !normalize_rot by exact Hp. rewrite cross_rot by exact Hp.
  rewrite mcols_rot.
  pose proof (basis_orth v1 v2 Hv1 Hc) as HB. cbv zeta in HB. apply orth_tr_r in HB.
  set (B := mcols (vnormalize v1) (vnormalize (vcross v1 v2)) (vcross (vnormalize v1) (vnormalize (vcross v1 v2)))) in *.
  rewrite mmul_assoc, HB.
  assert (E : mmul Rm I3 = Rm) by (destruct Rm; apply M3_eq; lin_unfold; ring).
  rewrite E. apply Iso_eq; cbn [rot tr]; [reflexivity|].
  unfold iapp. cbn [rot tr]. destruct (mapp Rm p1), t. apply V3_eq; lin_unfold; ring.
Qed.

(** the images of congruent triples pass the congruence guard, for any positive tolerance *)
Lemma vdist_rigid (M : Iso) a b : proper (rot M) -> vdist (iapp M a) (iapp M b) = vdist a b.
Proof.
  intros Hp. unfold vdist.
  assert (E : vsub (iapp M a) (iapp M b) = mapp (rot M) (vsub a b)).
  { unfold iapp. rewrite mapp_sub. destruct (mapp (rot M) a), (mapp (rot M) b), (tr M). apply V3_eq; lin_unfold; ring. }
  rewrite E. apply norm_rot. exact Hp.
Qed.

Lemma distances_match_rigid (M : Iso) tol p1 p2 p3 : proper (rot M) -> 0 < tol ->
  distances_match tol p1 p2 p3 (iapp M p1) (iapp M p2) (iapp M p3) = true.
Proof.
  intros Hp Ht. unfold distances_match. rewrite !(vdist_rigid M) by exact Hp.
  replace (vdist p1 p2 - vdist p1 p2) with 0 by ring. replace (vdist p1 p3 - vdist p1 p3) with 0 by ring.
  replace (vdist p2 p3 - vdist p2 p3) with 0 by ring. rewrite Rabs_R0.
  assert (E : Rltb 0 tol = true) by (apply Rltb_true; exact Ht). rewrite E. reflexivity.
Qed.

(** C17: for non-collinear points and their images under a rigid motion, [frame3] returns that motion *)
Theorem frame3_rigid (M : Iso) tol p1 p2 p3 : proper (rot M) -> 0 < tol ->
  vnorm (vcross (vsub p2 p1) (vsub p3 p1)) <> 0 ->
  frame3 tol p1 p2 p3 (iapp M p1) (iapp M p2) (iapp M p3) = FOk M.
Proof.
  intros Hp Ht Hc. unfold frame3. rewrite distances_match_rigid by assumption. cbn [negb].
  destruct (Reqb (vnorm (vcross (vsub p2 p1) (vsub p3 p1))) 0) eqn:E1; [apply Reqb_true in E1; contradiction|].
  assert (Hc' : vnorm (vcross (vsub (iapp M p2) (iapp M p1)) (vsub (iapp M p3) (iapp M p1))) <> 0).
  { assert (W : forall a b, vsub (iapp M a) (iapp M b) = mapp (rot M) (vsub a b)).
    { intros a b. unfold iapp. rewrite mapp_sub. destruct (mapp (rot M) a), (mapp (rot M) b), (tr M). apply V3_eq; lin_unfold; ring. }
    rewrite !W, cross_rot, norm_rot by exact Hp. exact Hc. }
  rewrite (proj2 (Reqb_false _ _) Hc').
  rewrite frame_core_is_motion by assumption. reflexivity.
Qed.

(** the guards *)
Theorem frame3_collinear_source tol p1 p2 p3 q1 q2 q3 :
  distances_match tol p1 p2 p3 q1 q2 q3 = true -> vnorm (vcross (vsub p2 p1) (vsub p3 p1)) = 0 ->
  frame3 tol p1 p2 p3 q1 q2 q3 = FCollinear true.
Proof. intros Hd Hc. unfold frame3. rewrite Hd. cbn [negb]. rewrite (proj2 (Reqb_true _ _) Hc). reflexivity. Qed.

Theorem frame3_collinear_target tol p1 p2 p3 q1 q2 q3 :
  distances_match tol p1 p2 p3 q1 q2 q3 = true -> vnorm (vcross (vsub p2 p1) (vsub p3 p1)) <> 0 ->
  vnorm (vcross (vsub q2 q1) (vsub q3 q1)) = 0 -> frame3 tol p1 p2 p3 q1 q2 q3 = FCollinear false.
Proof.
  intros Hd Hs Hc. unfold frame3. rewrite Hd. cbn [negb]. rewrite (proj2 (Reqb_false _ _) Hs), (proj2 (Reqb_true _ _) Hc). reflexivity.
Qed.

Theorem frame3_incongruent tol p1 p2 p3 q1 q2 q3 :
  (tol <= Rabs (vdist p1 p2 - vdist q1 q2) \/ tol <= Rabs (vdist p1 p3 - vdist q1 q3) \/ tol <= Rabs (vdist p2 p3 - vdist q2 q3)) ->
  frame3 tol p1 p2 p3 q1 q2 q3 = FNotIsometry.
Proof.
  intros H. unfold frame3, distances_match.
  destruct H as [H|[H|H]]; apply Rltb_false in H; rewrite H; rewrite ?andb_false_r; reflexivity.
Qed.

(** whatever is returned is a proper rigid transform *)
Theorem frame_core_proper p1 p2 p3 q1 q2 q3 :
  vnorm (vsub p2 p1) <> 0 -> vnorm (vcross (vsub p2 p1) (vsub p3 p1)) <> 0 ->
  vnorm (vsub q2 q1) <> 0 -> vnorm (vcross (vsub q2 q1) (vsub q3 q1)) <> 0 ->
  mmul (mtr (rot (frame_core p1 p2 p3 q1 q2 q3))) (rot (frame_core p1 p2 p3 q1 q2 q3)) = I3.
Proof.
  intros H1 H2 H3 H4. unfold frame_core. cbv zeta. cbn [rot].
  pose proof (basis_orth _ _ H1 H2) as HB. pose proof (basis_orth _ _ H3 H4) as HD. cbv zeta in HB, HD.
  set (B := mcols _ _ _) in HB |- *. set (D := mcols _ _ _) in HD |- *.
  pose proof (orth_tr_r B HB) as HB'.
  assert (E : mmul (mtr (mmul D (mtr B))) (mmul D (mtr B)) = mmul B (mmul (mmul (mtr D) D) (mtr B))).
  { destruct B, D. apply M3_eq; lin_unfold; ring. }
  rewrite E, HD. assert (E2 : mmul I3 (mtr B) = mtr B) by (destruct B; apply M3_eq; lin_unfold; ring).
  rewrite E2. exact HB'.
Qed.

Lemma unit_basis_det u w : vdot u u = 1 -> vdot w w = 1 -> vdot u w = 0 -> mdet (mcols u w (vcross u w)) = 1.
Proof.
  destruct u as [a b c], w as [d e f]. cbv [vdot vx vy vz]. intros H1 H2 H3.
  cbv [mdet mcols vcross m00 m01 m02 m10 m11 m12 m20 m21 m22 vx vy vz]. nsatz.
Qed.
Lemma mdet_mul a b : mdet (mmul a b) = mdet a * mdet b.
Proof. destruct a, b. lin_unfold. ring. Qed.
Lemma mdet_tr a : mdet (mtr a) = mdet a.
Proof. destruct a. lin_unfold. ring. Qed.

Theorem frame_core_det p1 p2 p3 q1 q2 q3 :
  vnorm (vsub p2 p1) <> 0 -> vnorm (vcross (vsub p2 p1) (vsub p3 p1)) <> 0 ->
  vnorm (vsub q2 q1) <> 0 -> vnorm (vcross (vsub q2 q1) (vsub q3 q1)) <> 0 ->
  mdet (rot (frame_core p1 p2 p3 q1 q2 q3)) = 1.
Proof.
  intros H1 H2 H3 H4. unfold frame_core. cbv zeta. cbn [rot]. rewrite mdet_mul, mdet_tr.
  rewrite !unit_basis_det; try ring; try (apply normalize_unit; assumption); apply normalize_orth.
Qed.
