(** C05: the recovered singular answer IS the previous joint vector whenever the kernel's singular row has the previous arm
    angles and J5, and a wrist sum (J4+J6 at J5=0, J4-J6 at J5=pi) congruent to the previous one modulo whole turns. *)
From Coq Require Import ZArith Reals Lra Lia List Bool.
From VF Require Import Base.Num Base.Lin Model.Constraints Model.Kin Proofs.ConstraintsP Proofs.KinP Proofs.FinishP.
Import ListNotations.
Open Scope R_scope.

Section Restore.
  Variable hp : R.
  Hypothesis Hhp : 0 < hp.
  Variable thr : R.
  Variables sg off : list R.

  Lemma wrap_pi_whole_turns x : is_rep hp x 0 -> wrap_pi hp x = 0.
  Proof.
    intros Hx. pose proof (wrap_pi_range hp Hhp x) as Hr.
    pose proof (is_rep_trans hp _ _ _ (wrap_pi_rep hp x) Hx) as [k Hk]. rewrite Hk in *.
    assert (k = 0%Z); [| subst k; simpl; ring].
    destruct (Z_lt_le_dec k 1) as [H1 | H1]; [destruct (Z_lt_le_dec (-1) k) as [H2 | H2]; [lia |] |].
    - apply IZR_le in H2. simpl in H2. nra.
    - apply IZR_le in H1. simpl in H1. nra.
  Qed.

  Theorem candidate_restores_previous previous now :
    length previous = 6%nat ->
    nth 3 sg 0 * nth 3 sg 0 = 1 -> nth 5 sg 0 * nth 5 sg 0 = 1 ->
    jn now 0 = jn previous 0 -> jn now 1 = jn previous 1 -> jn now 2 = jn previous 2 -> jn now 4 = jn previous 4 ->
    (if are_angles_close hp thr (to_model sg off now 4) 0
     then is_rep hp (to_model sg off now 3 + to_model sg off now 5) (to_model sg off previous 3 + to_model sg off previous 5)
     else is_rep hp (to_model sg off now 3 - to_model sg off now 5) (to_model sg off previous 3 - to_model sg off previous 5)) ->
    sing_candidate hp thr sg off previous now = previous.
  Proof.
    intros Hlen H3 H5 E0 E1 E2 E4 Hsum.
    destruct previous as [|a0 [|a1 [|a2 [|a3 [|a4 [|a5 [|? ?]]]]]]]; try discriminate Hlen.
    assert (F : forall X t o, t * t = 1 -> (X * t - o + 0 / 2 + o) * t = X).
    { intros X t o Ht. replace ((X * t - o + 0 / 2 + o) * t) with (X * (t * t)) by field. rewrite Ht; ring. }
    unfold sing_candidate. cbv zeta. unfold n0 in *. rsimp.
    destruct (are_angles_close hp thr (to_model sg off now 4) 0) eqn:Z.
    - match goal with |- context [wrap_pi hp ?a] => assert (Hw : wrap_pi hp a = 0) end.
      { apply wrap_pi_whole_turns. destruct Hsum as [k Hk]. exists k. rewrite Hk. ring. }
      rewrite Hw, E0, E1, E2, E4. unfold from_model, to_model, jn, n2, n0 in *. cbn [nth] in *. rsimp. rewrite !F by assumption. reflexivity.
    - match goal with |- context [wrap_pi hp ?a] => assert (Hw : wrap_pi hp a = 0) end.
      { apply wrap_pi_whole_turns. destruct Hsum as [k Hk]. exists k. rewrite Hk. ring. }
      rewrite Hw, E0, E1, E2, E4. unfold from_model, to_model, jn, n2, n0 in *. cbn [nth] in *. rsimp. rewrite !F by assumption.
      rewrite (normalize_near_fix hp Hhp). reflexivity.
  Qed.
End Restore.

(** * If the previous joints are among the raw answers, they come first *)
Section First.
  Variable hp : R.
  Hypothesis Hhp : 0 < hp.
  Variable thr : R.
  Variables sg off : list R.
  Variable dof : Z.
  Variable cons : option (@Constraints R).
  Variable Pose : Type.
  Variable kernel : Pose -> list (list R).
  Variable kernel5 : Pose -> R -> list (list R).
  Variable shift : Pose -> nat -> Pose.
  Variable fk_ok : Pose -> list R -> bool.
  Hypothesis kernel_len : forall pose s, In s (kernel pose) -> length s = 6%nat.

  Lemma normalize_row_fix : forall l, map2 (normalize_near hp) l l = l.
  Proof. induction l as [|x l IH]; cbn [map2]; [reflexivity | rewrite (normalize_near_fix hp Hhp), IH; reflexivity]. Qed.

  Lemma map2_length {A B C} (f : A -> B -> C) : forall l m, length l = length m -> length (map2 f l m) = length l.
  Proof. induction l as [|a l IH]; intros [|b m] Hl; simpl in *; try discriminate; [reflexivity | f_equal; apply IH; lia]. Qed.

  Lemma distance_zero a b : length a = 6%nat -> length b = 6%nat -> calculate_distance a b <= 0 -> a = b.
  Proof.
    intros Ha Hb.
    destruct a as [|a0 [|a1 [|a2 [|a3 [|a4 [|a5 [|? ?]]]]]]]; try discriminate Ha.
    destruct b as [|b0 [|b1 [|b2 [|b3 [|b4 [|b5 [|? ?]]]]]]]; try discriminate Hb.
    unfold calculate_distance. cbn [map2 fold_left]. rewrite !nabs_R. unfold n0. rsimp. intros H.
    pose proof (Rabs_pos (a0 - b0)). pose proof (Rabs_pos (a1 - b1)). pose proof (Rabs_pos (a2 - b2)).
    pose proof (Rabs_pos (a3 - b3)). pose proof (Rabs_pos (a4 - b4)). pose proof (Rabs_pos (a5 - b5)).
    assert (Z : forall x y, Rabs (x - y) <= 0 -> x = y).
    { intros x y Hxy. destruct (Req_dec x y) as [E | E]; [exact E |]. assert (x - y <> 0) by lra. pose proof (Rabs_pos_lt _ H6). lra. }
    rewrite (Z a0 b0), (Z a1 b1), (Z a2 b2), (Z a3 b3), (Z a4 b4), (Z a5 b5) by lra. reflexivity.
  Qed.

  Theorem first_is_previous pose prev :
    dof <> 5%Z -> length prev = 6%nat -> weight cons = 0 -> compliant_opt hp cons prev = true ->
    In prev (shifts_loop hp thr sg off cons Pose kernel shift fk_ok pose prev [0; 1; 2; 3]%nat []) ->
    exists rest, inverse_continuing hp thr sg off dof cons Pose kernel kernel5 shift fk_ok pose false prev = prev :: rest.
  Proof.
    intros Hd Hl Hw Hc Hin. unfold inverse_continuing. destruct (dof =? 5)%Z eqn:E; [apply Z.eqb_eq in E; contradiction|].
    cbv zeta. set (raw := shifts_loop _ _ _ _ _ _ _ _ _ _ _ _ _) in *.
    assert (Hp : In prev (finish_continuing hp cons prev raw)).
    { apply In_finish_continuing. split; [exists prev; split; [exact Hin | symmetry; apply normalize_row_fix] | exact Hc]. }
    pose proof (finish_continuing_sorted hp cons prev raw) as Hs.
    assert (Hlen : forall h, In h (finish_continuing hp cons prev raw) -> length h = 6%nat).
    { intros h Hh. apply In_finish_continuing in Hh. destruct Hh as [[s0 [Hs0 ->]] _].
      pose proof (raw_len hp thr sg off cons Pose kernel shift fk_ok kernel_len pose prev s0 Hs0) as L.
      rewrite map2_length; [exact L | rewrite L, Hl; reflexivity]. }
    destruct (finish_continuing hp cons prev raw) as [|h rest]; [destruct Hp|].
    exists rest. f_equal.
    assert (Hcost : forall a, cost cons prev a = calculate_distance a prev).
    { intros a. unfold cost. rewrite Hw. unfold n0; rsimp. rewrite (proj2 (Reqb_true 0 0) eq_refl). reflexivity. }
    assert (Hself : calculate_distance prev prev = 0).
    { destruct prev as [|b0 [|b1 [|b2 [|b3 [|b4 [|b5 [|? ?]]]]]]]; try discriminate Hl.
      unfold calculate_distance. cbn [map2 fold_left]. rewrite !nabs_R. unfold n0. rsimp.
      replace (b0 - b0) with 0 by ring. replace (b1 - b1) with 0 by ring. replace (b2 - b2) with 0 by ring.
      replace (b3 - b3) with 0 by ring. replace (b4 - b4) with 0 by ring. replace (b5 - b5) with 0 by ring. rewrite Rabs_R0. ring. }
    destruct Hp as [-> | Hp]; [reflexivity|].
    inversion Hs as [|? ? _ Hall]; subst. rewrite Forall_forall in Hall. specialize (Hall prev Hp). unfold kle in Hall.
    rewrite !Hcost, Hself in Hall. apply distance_zero; [apply Hlen; left; reflexivity | exact Hl | exact Hall].
  Qed.
End First.
