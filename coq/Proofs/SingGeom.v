(** C05: the wrist-singularity flag is a statement about the geometry of the generated link chain: the rotation axes of
    joints 4 and 6 (z axes of the 4th and 6th link frames of [forward_with_joint_poses]) make the angle q5 (model angle of J5),
    and the flag is raised exactly when the sine of the angle between the two axis lines is below sin(threshold). *)
From Coq Require Import ZArith Reals Lra Lia List Bool Psatz Nsatz.
From VF Require Import Base.Num Base.Lin Base.Angles Gen.Forward Proofs.ForwardP Proofs.CompleteP Model.Constraints Model.Kin Proofs.ConstraintsP Proofs.KinP Proofs.SoundP.
Import ListNotations.
Open Scope R_scope.

Definition zaxis (l : Iso) : V3 := mkV3 (m02 (rot l)) (m12 (rot l)) (m22 (rot l)).

Lemma lagrange a b : vnorm2 (vcross a b) = vnorm2 a * vnorm2 b - vdot a b * vdot a b.
Proof. destruct a, b. unfold vnorm2, vdot, vcross; simpl. ring. Qed.

Lemma zaxis_mapp l : zaxis l = mapp (rot l) (mkV3 0 0 1).
Proof. unfold zaxis, mapp; simpl. apply V3_eq; simpl; ring. Qed.

Lemma zaxis_unit l : proper (rot l) -> vnorm2 (zaxis l) = 1.
Proof. intros H. rewrite zaxis_mapp, proper_norm by exact H. unfold vnorm2, vdot; simpl. ring. Qed.

Lemma proper_dot m u v : proper m -> vdot (mapp m u) (mapp m v) = vdot u v.
Proof.
  intros H. pose proof (proper_norm m (vadd u v) H) as Ha. pose proof (proper_norm m u H) as Hu. pose proof (proper_norm m v H) as Hv.
  destruct m, u, v. unfold vnorm2, vdot, mapp, vadd in *; simpl in *. nra.
Qed.

(** the axis of joint 6 seen from the axis of joint 4: angle q5 *)
Lemma axes_dot p q : vdot (zaxis (L4 p q)) (zaxis (L6 p q)) = cos (j5 q).
Proof.
  assert (E : zaxis (L6 p q) = mapp (rot (L4 p q)) (mkV3 (sin (j5 q)) 0 (cos (j5 q)))).
  { unfold zaxis, L6, L5, E5, E6. apply V3_eq; lin_unfold; ring. }
  rewrite E, zaxis_mapp, proper_dot by apply proper_L4. unfold vdot; simpl. ring.
Qed.

Lemma axes_cross p q : vnorm2 (vcross (zaxis (L4 p q)) (zaxis (L6 p q))) = sin (j5 q) * sin (j5 q).
Proof.
  rewrite lagrange, axes_dot, !zaxis_unit by (apply proper_L4 || apply proper_L6).
  pose proof (pyth (j5 q)). lra.
Qed.

(** * |sin x| < sin t  <->  x within t of a multiple of pi  (0 < t <= pi/2) *)
Lemma sin_shift_sq x (n : Z) : sin (x - IZR n * PI) * sin (x - IZR n * PI) = sin x * sin x.
Proof.
  assert (H : forall k : Z, sin (x - IZR k * PI) = sin x \/ sin (x - IZR k * PI) = - sin x).
  { intros k. destruct (Z.Even_or_Odd k) as [[m ->] | [m ->]].
    - left. rewrite mult_IZR. replace (x - 2 * IZR m * PI) with (x + IZR (- m) * (2 * PI)) by (rewrite opp_IZR; ring).
      apply sin_periodZ.
    - right. rewrite plus_IZR, mult_IZR. replace (x - (2 * IZR m + 1) * PI) with ((x - PI) + IZR (- m) * (2 * PI)) by (rewrite opp_IZR; ring).
      rewrite sin_periodZ. replace (x - PI) with (- (PI - x)) by ring. rewrite sin_neg, sin_PI_x. reflexivity. }
  destruct (H n) as [-> | ->]; ring.
Qed.

Lemma abs_sin_small y t : Rabs y <= PI / 2 -> 0 < t -> t <= PI / 2 -> (Rabs y < t <-> Rabs (sin y) < sin t).
Proof.
  intros Hy Ht Ht2.
  assert (Hy' : - (PI / 2) <= y <= PI / 2) by (revert Hy; unfold Rabs; destruct (Rcase_abs y); lra).
  pose proof PI_RGT_0 as Hpi.
  assert (Hs : Rabs (sin y) = sin (Rabs y)).
  { unfold Rabs at 2. destruct (Rcase_abs y) as [Hn | Hp].
    - rewrite sin_neg. apply Rabs_left1. assert (0 <= sin (- y)); [| rewrite sin_neg in *; lra].
      apply sin_ge_0; lra.
    - apply Rabs_right, Rle_ge, sin_ge_0; lra. }
  rewrite Hs. pose proof (Rabs_pos y). split; intros H1.
  - apply sin_increasing_1; lra.
  - apply sin_increasing_0; lra.
Qed.

Section Band.
  Variable thr : R.
  Hypothesis thr_pos : 0 < thr.
  Hypothesis thr_small : thr <= PI / 2.

  Lemma near_multiple_iff_sin x : (exists n : Z, Rabs (x - IZR n * PI) < thr) <-> Rabs (sin x) < sin thr.
  Proof.
    assert (Hsq : forall a b, 0 <= b -> (Rabs a < b <-> a * a < b * b)).
    { intros a b Hb. split; intros H.
      - rewrite <- (Rabs_right b) in H by lra. apply Rsqr_lt_abs_1 in H. exact H.
      - apply Rsqr_lt_abs_0 in H. rewrite (Rabs_right b) in H by lra. exact H. }
    assert (Hst : 0 <= sin thr) by (apply sin_ge_0; pose proof PI_RGT_0; lra).
    split.
    - intros [n Hn]. apply Hsq; [exact Hst |]. rewrite <- (sin_shift_sq x n). apply Hsq; [exact Hst |].
      apply (proj1 (abs_sin_small (x - IZR n * PI) thr ltac:(lra) thr_pos thr_small)). exact Hn.
    - intros H.
      (* nearest multiple *)
      pose proof PI_RGT_0 as Hpi.
      set (n := (up (x / PI - / 2) )%Z).
      destruct (archimed (x / PI - / 2)) as [A1 A2]. fold n in A1, A2.
      assert (Hy : Rabs (x - IZR n * PI) <= PI / 2).
      { apply Rabs_le. assert (E : x - IZR n * PI = (x / PI - IZR n) * PI) by (field; lra). rewrite E.
        assert (B1 : - / 2 <= x / PI - IZR n) by lra. assert (B2 : x / PI - IZR n <= / 2) by lra.
        generalize dependent (x / PI - IZR n). intros d _ B1 B2. split; nra. }
      exists n. apply (proj2 (abs_sin_small (x - IZR n * PI) thr Hy thr_pos thr_small)). apply Hsq; [exact Hst |]. rewrite sin_shift_sq. apply Hsq; [exact Hst | exact H].
  Qed.
End Band.

(** * The flag of [kinematic_singularity] in terms of the generated link chain *)
Section Flag.
  Variable p : Lin.Params.
  Variable thr : R.
  Hypothesis thr_pos : 0 < thr.
  Hypothesis thr_small : thr <= PI / 2.
  Let sgl : list R := map IZR [p_sg1 p; p_sg2 p; p_sg3 p; p_sg4 p; p_sg5 p; p_sg6 p].
  Let offl : list R := [p_off1 p; p_off2 p; p_off3 p; p_off4 p; p_off5 p; p_off6 p].
  Definition jl (j : J6) : list R := [j1 j; j2 j; j3 j; j4 j; j5 j; j6 j].

  (** sine of the angle between the rotation axes of joints 4 and 6, from the link frames the crate itself reports *)
  Definition axes_sine (j : J6) : R :=
    sqrt (vnorm2 (vcross (zaxis (List.nth 3 (chain p j) iid)) (zaxis (List.nth 5 (chain p j) iid)))).

  Lemma axes_sine_eq j : axes_sine j = Rabs (sin (j5 (qint p j))).
  Proof.
    unfold axes_sine. rewrite chain_eq_spec. unfold spec_chain. cbv zeta. cbn [List.nth].
    rewrite axes_cross. apply sqrt_Rsqr_abs.
  Qed.

  Theorem singular_iff_axes j :
    singular PI thr sgl offl (jl j) = true <-> axes_sine j < sin thr.
  Proof.
    rewrite axes_sine_eq. unfold singular.
    rewrite (close_to_multiple_iff PI PI_RGT_0 (to_model sgl offl (jl j) 4) thr thr_pos) by lra.
    replace (to_model sgl offl (jl j) 4) with (j5 (qint p j)) by (unfold to_model, qint, jl, sgl, offl; simpl; reflexivity).
    apply near_multiple_iff_sin; assumption.
  Qed.

  (** collinear axes (cross product zero) are always flagged; axes further apart than the band never are *)
  Corollary collinear_is_singular j :
    vcross (zaxis (List.nth 3 (chain p j) iid)) (zaxis (List.nth 5 (chain p j) iid)) = mkV3 0 0 0 -> singular PI thr sgl offl (jl j) = true.
  Proof.
    intros H. apply singular_iff_axes. unfold axes_sine. rewrite H. unfold vnorm2, vdot; simpl.
    replace (0 * 0 + 0 * 0 + 0 * 0) with 0 by ring. rewrite sqrt_0. apply sin_gt_0; pose proof PI_RGT_0; lra.
  Qed.
End Flag.
