(** C06: every row of the 5-DOF branch table reproduces the requested tool axis exactly, whatever the arm angles are. *)
From Coq Require Import ZArith Reals Lra Lia List Bool Psatz Nsatz.
From VF Require Import Base.Num Base.Lin Base.Angles Gen.Forward Gen.Inverse Proofs.ForwardP Proofs.CompleteP.
Import ListNotations.
Open Scope R_scope.

Section Axis.
  (** the requested tool axis (third column of the pose rotation): a unit vector *)
  Variables r02 r12 r22 : R.
  Hypothesis Hunit : r02 * r02 + r12 * r12 + r22 * r22 = 1.
  Variables t1 t2 t3 : R.
  Let t23 := t2 + t3.
  Let M := f_M r02 r12 r22 t1 t23.
  Let X := r02 * cos t23 * cos t1 + r12 * cos t23 * sin t1 - r22 * sin t23.
  Let Y := r12 * cos t1 - r02 * sin t1.
  Let t4 := f_TH4 r02 r12 r22 t1 t23.
  Let t5 := f_TH5 r02 r12 r22 t1 t23.

  Lemma XYM_unit : X * X + Y * Y + M * M = 1.
  Proof.
    unfold X, Y, M, f_M. pose proof (pyth t1) as H1. pose proof (pyth t23) as H2.
    generalize dependent (sin t1). generalize dependent (cos t1). generalize dependent (sin t23). generalize dependent (cos t23).
    intros. nsatz.
  Qed.
  Lemma M_le_1 : 0 <= 1 - M * M.
  Proof. pose proof XYM_unit. assert (0 <= X * X) by nra. assert (0 <= Y * Y) by nra. lra. Qed.

  Lemma t5_cos : cos t5 = M.
  Proof.
    unfold t5, f_TH5. cbv zeta. fold M.
    destruct (atan2_polar (sqrt (1 - M * M)) M) as [Hc _].
    rewrite sqrt_sqrt in Hc by apply M_le_1. replace (M * M + (1 - M * M)) with 1 in Hc by ring. rewrite sqrt_1 in Hc. lra.
  Qed.
  Lemma t5_sin : sin t5 = sqrt (1 - M * M).
  Proof.
    unfold t5, f_TH5. cbv zeta. fold M.
    destruct (atan2_polar (sqrt (1 - M * M)) M) as [_ Hs].
    rewrite sqrt_sqrt in Hs by apply M_le_1. replace (M * M + (1 - M * M)) with 1 in Hs by ring. rewrite sqrt_1 in Hs. lra.
  Qed.
  Lemma t4_cos : sin t5 * cos t4 = X.
  Proof.
    rewrite t5_sin. unfold t4, f_TH4. fold X Y.
    destruct (atan2_polar Y X) as [Hc _]. replace (1 - M * M) with (X * X + Y * Y) by (pose proof XYM_unit; lra). exact Hc.
  Qed.
  Lemma t4_sin : sin t5 * sin t4 = Y.
  Proof.
    rewrite t5_sin. unfold t4, f_TH4. fold X Y.
    destruct (atan2_polar Y X) as [_ Hs]. replace (1 - M * M) with (X * X + Y * Y) by (pose proof XYM_unit; lra). exact Hs.
  Qed.

  (** the tool axis of the chain at (t1, t2, t3, t4, t5, any J6) is the requested axis *)
  Theorem axis_exact p x :
    m02 (rot (L6 p (mkJ6 t1 t2 t3 t4 t5 x))) = r02 /\ m12 (rot (L6 p (mkJ6 t1 t2 t3 t4 t5 x))) = r12 /\ m22 (rot (L6 p (mkJ6 t1 t2 t3 t4 t5 x))) = r22.
  Proof.
    pose proof t5_cos as C5. pose proof t4_cos as C4. pose proof t4_sin as S4.
    unfold X, Y, M, f_M, t23 in *. clearbody t4 t5.
    cbv [L1 L2 L3 L4 L5 L6 E1 E2 E3 E4 E5 E6 j1 j2 j3 j4 j5 j6]. lin_unfold.
    rewrite sin_plus, cos_plus in *.
    pose proof (pyth t1) as H1. pose proof (pyth t2) as H2. pose proof (pyth t3) as H3.
    generalize dependent (sin t1). generalize dependent (cos t1). generalize dependent (sin t2). generalize dependent (cos t2).
    generalize dependent (sin t3). generalize dependent (cos t3). generalize dependent (sin t4). generalize dependent (cos t4).
    generalize dependent (sin t5). generalize dependent (cos t5).
    intros. repeat split; nsatz.
  Qed.
End Axis.

(** * through the finishing glue: every answer of the 5-DOF kernel has exactly the requested tool axis *)
From VF Require Import Model.Constraints Model.Kin Model.Finish Proofs.ConstraintsP Proofs.KinP Proofs.InverseP Proofs.FinishP Proofs.SoundP Proofs.CompleteK Proofs.Complete5 Proofs.TwinK.

Section KernelAxis.
  Variable p : Lin.Params.
  Hypothesis Hsg : (p_sg1 p = 1 \/ p_sg1 p = -1)%Z /\ (p_sg2 p = 1 \/ p_sg2 p = -1)%Z /\ (p_sg3 p = 1 \/ p_sg3 p = -1)%Z /\
                   (p_sg4 p = 1 \/ p_sg4 p = -1)%Z /\ (p_sg5 p = 1 \/ p_sg5 p = -1)%Z.
  Variable compare_xyz : Iso -> Iso -> bool.
  Variable pose : Iso.
  Hypothesis Hunit : m02 (rot pose) * m02 (rot pose) + m12 (rot pose) * m12 (rot pose) + m22 (rot pose) * m22 (rot pose) = 1.

  Definition cand5 (t1 t2 t3 t4 t5 c6 : R) : list R :=
    [wrap_pi PI ((t1 + p_off1 p) * IZR (p_sg1 p)); wrap_pi PI ((t2 + p_off2 p) * IZR (p_sg2 p)); wrap_pi PI ((t3 + p_off3 p) * IZR (p_sg3 p));
     wrap_pi PI ((t4 + p_off4 p) * IZR (p_sg4 p)); wrap_pi PI ((t5 + p_off5 p) * IZR (p_sg5 p)); c6].

  (** FK of a 5-DOF candidate: the chain at the table's model angles, J6 whatever it is *)
  Lemma fwd_cand5 t1 t2 t3 t4 t5 c6 : exists x, fwd p (j6_of (cand5 t1 t2 t3 t4 t5 c6)) = L6 p (mkJ6 t1 t2 t3 t4 t5 x).
  Proof.
    destruct Hsg as [G1 [G2 [G3 [G4 G5]]]].
    exists (c6 * IZR (p_sg6 p) - p_off6 p).
    rewrite fwd_eq_spec. unfold fk_spec. apply L6_periodic; unfold qint, j6_of, cand5; cbn [j1 j2 j3 j4 j5 j6 List.nth];
      try (apply wrap_model; assumption). apply rep2_refl.
  Qed.

  Definition axis_of (i : Iso) : V3 := mkV3 (m02 (rot i)) (m12 (rot i)) (m22 (rot i)).

  Theorem kernel5_axis c6 s : In s (the_kernel5 p compare_xyz (ik_theta5_def p) pose c6) ->
    axis_of (fwd p (j6_of s)) = axis_of pose.
  Proof.
    intros Hs. destruct (finish5_In p compare_xyz (ik_theta5_def p) pose c6 s Hs) as [row [Hin [Hext _]]].
    rewrite table5_is_table6 in Hin. apply in_map_iff in Hin. destruct Hin as [row6 [<- Hin6]].
    destruct (In_nth _ _ [] Hin6) as [i [Hi Hnth]].
    assert (H8 : length (ik_theta_def p pose) = 8%nat) by (unfold ik_theta_def; cbv zeta; reflexivity). rewrite H8 in Hi.
    assert (Hvals : map fst row6 = List.nth i (ik_theta p pose) []).
    { rewrite <- Hnth, <- def_values. rewrite <- (map_nth (map fst)). reflexivity. }
    rewrite rows_eq in Hvals.
    (* the eight rows *)
    assert (Hrow : exists back down flip, map fst row6 = row p pose back down flip).
    { destruct i as [|[|[|[|[|[|[|[|i]]]]]]]]; [| | | | | | | | exfalso; lia]; cbn [List.nth] in Hvals;
        [exists false, false, false | exists false, true, false | exists true, false, false | exists true, true, false
        | exists false, false, true | exists false, true, true | exists true, false, true | exists true, true, true]; exact Hvals. }
    destruct Hrow as [back [down [flip Hr]]].
    assert (Hf : map fst (firstn 5 row6) = firstn 5 (row p pose back down flip)) by (rewrite <- Hr; symmetry; apply firstn_map).
    remember (firstn 5 row6) as r5 eqn:E5. clear E5.
    unfold ext_row5 in Hext. destruct (forallb snd r5); [|discriminate]. injection Hext as <-.
    rewrite Hf. unfold row. cbv zeta.
    set (t1 := f_TH1 back _ _ _ _). set (t2 := f_TH2 back down _ _ _ _ _ _). set (t3 := f_TH3 down _ _ _ _ _ _).
    set (t4 := f_TH4 _ _ _ t1 (t2 + t3)). set (t5 := f_TH5 _ _ _ t1 (t2 + t3)).
    destruct flip; cbn [firstn map2 map combine app].
    - change (map (wrap_pi PI) _ ++ [c6]) with (cand5 t1 t2 t3 (t4 + PI) (- t5) c6) || idtac.
      destruct (fwd_cand5 t1 t2 t3 (t4 + PI) (- t5) c6) as [x Hx].
      match goal with |- axis_of (fwd p (j6_of ?l)) = _ => change l with (cand5 t1 t2 t3 (t4 + PI) (- t5) c6) end.
      rewrite Hx. destruct (fk_twin5 p (mkJ6 t1 t2 t3 t4 t5 x)) as [_ [A1 [A2 A3]]]. unfold jtwin5 in A1, A2, A3. cbn [j1 j2 j3 j4 j5 j6] in A1, A2, A3.
      unfold axis_of. rewrite A1, A2, A3.
      destruct (axis_exact _ _ _ Hunit t1 t2 t3 p x) as [B1 [B2 B3]]. fold t4 t5 in B1, B2, B3. rewrite B1, B2, B3. reflexivity.
    - destruct (fwd_cand5 t1 t2 t3 t4 t5 c6) as [x Hx].
      match goal with |- axis_of (fwd p (j6_of ?l)) = _ => change l with (cand5 t1 t2 t3 t4 t5 c6) end.
      rewrite Hx. unfold axis_of.
      destruct (axis_exact _ _ _ Hunit t1 t2 t3 p x) as [B1 [B2 B3]]. fold t4 t5 in B1, B2, B3. rewrite B1, B2, B3. reflexivity.
  Qed.
End KernelAxis.

(** * the four entry points: every 5-DOF answer has exactly the requested tool axis *)
Section EntryAxis.
  Variable p : Lin.Params.
  Hypothesis Hsg : (p_sg1 p = 1 \/ p_sg1 p = -1)%Z /\ (p_sg2 p = 1 \/ p_sg2 p = -1)%Z /\ (p_sg3 p = 1 \/ p_sg3 p = -1)%Z /\
                   (p_sg4 p = 1 \/ p_sg4 p = -1)%Z /\ (p_sg5 p = 1 \/ p_sg5 p = -1)%Z.
  Variable compare_xyz : Iso -> Iso -> bool.
  Variable cons : option (@Constraints R).
  Let K5 := the_kernel5 p compare_xyz (ik_theta5_def p).
  Definition unit_axis (pose : Iso) : Prop :=
    m02 (rot pose) * m02 (rot pose) + m12 (rot pose) * m12 (rot pose) + m22 (rot pose) * m22 (rot pose) = 1.
  Let ok5 (pose : Iso) (s : list R) : Prop := unit_axis pose -> axis_of (fwd p (j6_of s)) = axis_of pose.

  Lemma ok5_rep pose s' s : Forall2 (is_rep PI) s' s -> ok5 pose s -> ok5 pose s'.
  Proof. intros H Hs Hu. rewrite (fwd_periodic p s' s H). apply Hs. exact Hu. Qed.
  Lemma ok5_kernel pose c6 s : In s (K5 pose c6) -> ok5 pose s.
  Proof. intros Hs Hu. eapply kernel5_axis; eauto. Qed.

  Theorem inverse_5dof_axis pose c6 s : unit_axis pose -> In s (inverse_5dof PI cons Iso K5 pose c6) -> axis_of (fwd p (j6_of s)) = axis_of pose.
  Proof.
    intros Hu Hs. assert (H : ok5 pose s); [|exact (H Hu)].
    revert Hs. eapply inverse_5dof_sound with (ok5 := ok5); eauto using ok5_kernel.
  Qed.
  Theorem continuing_5dof_axis pose (sentinel : bool) prev s : unit_axis pose ->
    length (if sentinel then centers cons else prev) = 6%nat ->
    In s (inverse_continuing_5dof PI cons Iso K5 pose sentinel prev) -> axis_of (fwd p (j6_of s)) = axis_of pose.
  Proof.
    intros Hu Hl Hs. assert (H : ok5 pose s); [|exact (H Hu)].
    revert Hs. eapply continuing_5dof_sound with (ok5 := ok5); eauto using ok5_kernel, ok5_rep, PI_RGT_0.
    intros ps c6 s0 Hs0. eapply the_kernel5_len; [|exact Hs0]. intros q rw Hrw. eapply ik_theta5_def_len; exact Hrw.
  Qed.
End EntryAxis.
