(** C13: invariants of the dual-tree RRT model at T := R, for every is_free, sample stream and stop stream. *)
From Coq Require Import ZArith Reals Lra Lia List Bool Psatz.
From VF Require Import Base.Num Model.Rrt.
Import ListNotations.
Open Scope R_scope.

(** * Euclidean distance on lists: non-negativity, symmetry, triangle inequality *)
Notation sqd := (sqdist (T:=R)).
Notation ed := (edist (T:=R)).

Lemma sqd_nonneg : forall a b, 0 <= sqd a b.
Proof.
  induction a as [|x a IH]; intros [|y b]; cbn [sqdist]; unfold n0; rsimp; try lra. specialize (IH b).
  pose proof (Rle_0_sqr (x - y)) as Hs. unfold Rsqr in Hs. lra.
Qed.
Lemma sqd_sym : forall a b, sqd a b = sqd b a.
Proof. induction a as [|x a IH]; intros [|y b]; cbn [sqdist]; try reflexivity. rewrite (IH b). rsimp. ring. Qed.
Lemma ed_sym a b : ed a b = ed b a.
Proof. unfold edist. rewrite sqd_sym. reflexivity. Qed.
Lemma ed_nonneg a b : 0 <= ed a b.
Proof. unfold edist. rsimp. apply sqrt_pos. Qed.

(** Cauchy-Schwarz for the difference vectors, by induction on the lists *)
Fixpoint dotd (a b c : list R) : R :=  (* sum (a-b)(b-c) *)
  match a, b, c with x :: a', y :: b', z :: c' => (x - y) * (y - z) + dotd a' b' c' | _, _, _ => 0 end.

Lemma cs_step x y S A B : 0 <= A -> 0 <= B -> S * S <= A * B -> (x * y + S) * (x * y + S) <= (x * x + A) * (y * y + B).
Proof.
  intros HA HB HS.
  assert (Hx : 0 <= x * x) by (apply Rle_0_sqr).
  assert (Hy : 0 <= y * y) by (apply Rle_0_sqr).
  assert (Hxy : 0 <= (x * x) * (y * y)) by (apply Rmult_le_pos; assumption).
  assert (H0 : (x * x) * (y * y) * (S * S) <= (x * x) * (y * y) * (A * B)) by (apply Rmult_le_compat_l; assumption).
  (* (x^2 B - y^2 A)^2 >= 0 *)
  assert (Hsq : 0 <= (x * x * B - y * y * A) * (x * x * B - y * y * A)) by (apply Rle_0_sqr).
  assert (H1 : (2 * (x * y) * S) * (2 * (x * y) * S) <= (x * x * B + y * y * A) * (x * x * B + y * y * A)).
  { replace ((2 * (x * y) * S) * (2 * (x * y) * S)) with (4 * ((x * x) * (y * y) * (S * S))) by ring.
    replace ((x * x * B + y * y * A) * (x * x * B + y * y * A)) with ((x * x * B - y * y * A) * (x * x * B - y * y * A) + 4 * ((x * x) * (y * y) * (A * B))) by ring.
    lra. }
  assert (H2 : 0 <= x * x * B + y * y * A).
  { assert (0 <= x * x * B) by (apply Rmult_le_pos; assumption). assert (0 <= y * y * A) by (apply Rmult_le_pos; assumption). lra. }
  assert (H3 : 2 * (x * y) * S <= x * x * B + y * y * A).
  { destruct (Rle_dec (2 * (x * y) * S) (x * x * B + y * y * A)) as [L|L]; [exact L|]. exfalso.
    assert (Hlt : x * x * B + y * y * A < 2 * (x * y) * S) by lra.
    assert ((x * x * B + y * y * A) * (x * x * B + y * y * A) < (2 * (x * y) * S) * (2 * (x * y) * S)).
    { apply Rmult_le_0_lt_compat; assumption. } lra. }
  replace ((x * y + S) * (x * y + S)) with ((x * x) * (y * y) + 2 * (x * y) * S + S * S) by ring.
  replace ((x * x + A) * (y * y + B)) with ((x * x) * (y * y) + (x * x * B + y * y * A) + A * B) by ring.
  lra.
Qed.

Lemma same_len3 : forall (a b c : list R), length a = length b -> length b = length c ->
  dotd a b c * dotd a b c <= sqd a b * sqd b c /\ sqd a c = sqd a b + 2 * dotd a b c + sqd b c.
Proof.
  induction a as [|x a IH]; intros [|y b] [|z c] H1 H2; simpl in H1, H2; try discriminate; cbn [sqdist dotd]; unfold n0; rsimp.
  - split; lra.
  - destruct (IH b c) as [I1 I2]; [lia | lia |]. split.
    + apply cs_step; [apply sqd_nonneg | apply sqd_nonneg | exact I1].
    + rewrite I2. ring.
Qed.

Lemma ed_triangle a b c : length a = length b -> length b = length c -> ed a c <= ed a b + ed b c.
Proof.
  intros H1 H2. unfold edist. rsimp. destruct (same_len3 a b c H1 H2) as [Hcs Heq].
  pose proof (sqd_nonneg a b) as Ha. pose proof (sqd_nonneg b c) as Hb. pose proof (sqd_nonneg a c) as Hc.
  set (p := sqrt (sqd a b)) in *. set (q := sqrt (sqd b c)) in *.
  assert (Hp : p * p = sqd a b) by (apply sqrt_sqrt; exact Ha).
  assert (Hq : q * q = sqd b c) by (apply sqrt_sqrt; exact Hb).
  assert (Hp0 : 0 <= p) by apply sqrt_pos. assert (Hq0 : 0 <= q) by apply sqrt_pos.
  apply Rsqr_incr_0_var; [|lra]. unfold Rsqr. rewrite sqrt_sqrt by exact Hc. rewrite Heq.
  assert (Hpq : 0 <= p * q) by (apply Rmult_le_pos; assumption).
  assert (Hd : dotd a b c <= p * q).
  { destruct (Rle_dec (dotd a b c) (p * q)) as [Ld|Ld]; [exact Ld|]. exfalso.
    assert (Hlt : p * q < dotd a b c) by lra.
    assert ((p * q) * (p * q) < dotd a b c * dotd a b c) by (apply Rmult_le_0_lt_compat; assumption).
    assert ((p * q) * (p * q) = sqd a b * sqd b c) by (rewrite <- Hp, <- Hq; ring). lra. }
  replace ((p + q) * (p + q)) with (p * p + 2 * (p * q) + q * q) by ring. lra.
Qed.

(** consecutive elements at most [k] apart *)
Fixpoint linked (k : R) (l : list (list R)) : Prop :=
  match l with
  | a :: ((b :: _) as l') => ed a b <= k /\ linked k l'
  | _ => True
  end.

Lemma linked_mono k k' l : k <= k' -> linked k l -> linked k' l.
Proof.
  intros Hk. induction l as [|a [|b l] IH]; cbn [linked]; try tauto.
  intros [H1 H2]. split; [lra | apply IH; exact H2].
Qed.

Lemma linked_app k : forall l1 l2, linked k l1 -> linked k l2 ->
  (forall a b, last l1 [] = a -> l1 <> [] -> hd [] l2 = b -> l2 <> [] -> ed a b <= k) -> linked k (l1 ++ l2).
Proof.
  induction l1 as [|a [|b l1] IH]; intros l2 H1 H2 Hj.
  - exact H2.
  - destruct l2 as [|c l2]; [exact I|]. cbn [app linked]. split; [|exact H2].
    apply (Hj a c); try reflexivity; discriminate.
  - destruct H1 as [Hab H1]. change ((a :: b :: l1) ++ l2) with (a :: ((b :: l1) ++ l2)).
    cbn [linked app]. split; [exact Hab|]. apply IH; [exact H1 | exact H2|].
    intros x y Hx _ Hy Hne. apply Hj; [|discriminate | exact Hy | exact Hne]. exact Hx.
Qed.

Lemma last_rev_hd (l : list (list R)) : last (rev l) [] = hd [] l.
Proof. destruct l as [|a l]; [reflexivity|]. simpl. rewrite last_last. reflexivity. Qed.
Lemma hd_rev_last (l : list (list R)) : hd [] (rev l) = last l [].
Proof. rewrite <- (rev_involutive l) at 2. rewrite last_rev_hd. reflexivity. Qed.

Lemma linked_rev k : forall l, linked k l -> linked k (rev l).
Proof.
  induction l as [|a [|b l] IH]; intros H; [exact I | exact I|].
  destruct H as [Hab H]. change (rev (a :: b :: l)) with (rev (b :: l) ++ [a]).
  apply linked_app; [apply IH; exact H | exact I|].
  intros x y Hx _ Hy _. rewrite last_rev_hd in Hx. cbn [hd] in Hx, Hy. subst. rewrite ed_sym. exact Hab.
Qed.


(** * Tree invariants *)
Section RrtR.
  Variable is_free : list R -> bool.
  Variable L : R.
  Hypothesis HL : 0 < L.
  Variable dim : nat.
  (** any property of points closed under the interpolation step (e.g. lying in a box of limits) *)
  Variable Good : list R -> Prop.
  Hypothesis good_interp : forall near target d, Good near -> Good target -> L <= d ->
    length near = length target ->
    Good (map2p (T:=R) (fun n t => n + (t - n) * L / d)%num near target).

  Notation Tree := (@Tree R).
  Notation nd := (node_data (T:=R)).

  (** a well-formed tree over points of dimension [dim]: a root, every other vertex has an earlier parent
      at distance <= L and passed [is_free] *)
  Definition wf (t : Tree) : Prop :=
    t <> [] /\ parent (nth 0 t (mkNode None [])) = None /\
    (forall i, (i < length t)%nat -> length (nd t i) = dim /\ Good (nd t i)) /\
    (forall i, (0 < i < length t)%nat ->
       exists p, parent (nth i t (mkNode None [])) = Some p /\ (p < i)%nat /\ ed (nd t i) (nd t p) <= L /\ is_free (nd t i) = true).

  Lemma nearest_from_lt t q : forall i best bd, (best < i)%nat -> (nearest_from t q i best bd < i + length t)%nat.
  Proof.
    induction t as [|n t IH]; intros i best bd Hb; cbn [nearest_from length]; [lia|].
    destruct (_ <? _)%num; [specialize (IH (S i) i (sqd q (data n))) | specialize (IH (S i) best bd)]; lia.
  Qed.
  Lemma nearest_index_lt t q : t <> [] -> (nearest_index t q < length t)%nat.
  Proof.
    destruct t as [|n t]; [contradiction|]. intros _. unfold nearest_index. cbn [length].
    pose proof (nearest_from_lt t q 1 0 (sqd q (data n)) ltac:(lia)). lia.
  Qed.

  Lemma map2p_len f : forall a b, length a = length b -> length (map2p (T:=R) f a b) = length a.
  Proof. induction a as [|x a IH]; intros [|y b] Hl; simpl in *; try lia. f_equal. apply IH. lia. Qed.

  (** the interpolated point is exactly L away from the nearest vertex *)
  Lemma interp_sqd : forall near target d, length near = length target -> d <> 0 ->
    sqd (map2p (T:=R) (fun n t => n + (t - n) * L / d)%num near target) near = (L / d) * (L / d) * sqd target near.
  Proof.
    induction near as [|x near IH]; intros [|y target] d Hl Hd; simpl in Hl; try discriminate; cbn [map2p sqdist]; unfold n0; rsimp.
    - ring.
    - rewrite IH by (try lia; assumption). field. exact Hd.
  Qed.

  Lemma nth_app_new (t : Tree) (n : Node) : nth (length t) (t ++ [n]) (mkNode None []) = n.
  Proof. rewrite app_nth2 by lia. rewrite Nat.sub_diag. reflexivity. Qed.
  Lemma nd_app_new (t : Tree) (n : Node) : nd (t ++ [n]) (length t) = data n.
  Proof. unfold node_data. rewrite nth_app_new. reflexivity. Qed.
  Lemma nd_app_old (t : Tree) n i : (i < length t)%nat -> nd (t ++ [n]) i = nd t i.
  Proof. intros Hi. unfold node_data. rewrite app_nth1 by exact Hi. reflexivity. Qed.

  (** [extend] keeps the invariant; the returned index is the new last vertex *)
  Lemma extend_wf t q t' e : wf t -> length q = dim -> Good q -> extend is_free L (fun x => x) t q = (t', e) ->
    wf t' /\ (forall i, (i < length t)%nat -> nth i t' (mkNode None []) = nth i t (mkNode None [])) /\
    match e with
    | Trapped => t' = t
    | Advanced i => i = length t /\ length t' = S (length t)
    | Reached i => i = length t /\ length t' = S (length t) /\ ed (nd t' i) q < L
    end.
  Proof.
    intros Hwf Hq Hgq. unfold extend. cbv zeta beta.
    set (ni := nearest_index t q). set (nq := nd t ni). set (dd := ed q nq).
    match goal with |- context [is_free ?x] => set (q_new := x) end.
    destruct Hwf as (Hne & Hroot & Hdim & Hedges).
    assert (Hni : (ni < length t)%nat) by (apply nearest_index_lt; exact Hne).
    assert (Hnq : length nq = dim) by (apply Hdim; exact Hni).
    assert (Hgn : Good nq) by (apply Hdim; exact Hni).
    assert (Hqn : length q_new = dim).
    { unfold q_new. destruct (dd <? L)%num; [exact Hq|]. rewrite map2p_len; [exact Hnq | rewrite Hnq, Hq; reflexivity]. }
    assert (Hgnew : Good q_new).
    { unfold q_new. rsimp. destruct (Rltb dd L) eqn:E; [exact Hgq|]. apply Rltb_false in E.
      apply good_interp; [exact Hgn | exact Hgq | exact E | rewrite Hnq, Hq; reflexivity]. }
    assert (Hedge : ed q_new nq <= L).
    { unfold q_new. rsimp. destruct (Rltb dd L) eqn:E; [apply Rltb_true in E; unfold dd in E; lra|].
      apply Rltb_false in E. assert (Hdd : dd <> 0) by lra.
      unfold edist. rsimp. rewrite interp_sqd by (try exact Hdd; rewrite Hnq, Hq; reflexivity).
      assert (Hs : sqd q nq = dd * dd) by (unfold dd, edist; rsimp; rewrite sqrt_sqrt; [reflexivity | apply sqd_nonneg]).
      rewrite Hs. replace (L / dd * (L / dd) * (dd * dd)) with (L * L) by (field; exact Hdd).
      rewrite sqrt_square by lra. lra. }
    destruct (is_free q_new) eqn:Efree.
    - assert (Hwf' : wf (t ++ [mkNode (Some ni) q_new])).
      { split; [destruct t; discriminate|]. split.
        - rewrite app_nth1 by (destruct t; [contradiction | simpl; lia]). exact Hroot.
        - split.
          + intros i Hi. rewrite app_length in Hi. simpl in Hi.
            destruct (Nat.eq_dec i (length t)) as [->|Hne'].
            * rewrite nd_app_new. split; [exact Hqn | exact Hgnew].
            * rewrite nd_app_old by lia. apply Hdim. lia.
          + intros i Hi. rewrite app_length in Hi. simpl in Hi.
            destruct (Nat.eq_dec i (length t)) as [->|Hne'].
            * exists ni. rewrite nth_app_new. cbn [parent]. split; [reflexivity|]. split; [exact Hni|].
              rewrite !nd_app_new. cbn [data]. rewrite nd_app_old by exact Hni.
              split; [exact Hedge | exact Efree].
            * destruct (Hedges i ltac:(lia)) as [p [Hp [Hlt [Hd Hf]]]]. exists p.
              rewrite app_nth1 by lia. rewrite !nd_app_old by lia. repeat split; assumption. }
      assert (Hold : forall i, (i < length t)%nat -> nth i (t ++ [mkNode (Some ni) q_new]) (mkNode None []) = nth i t (mkNode None []))
        by (intros i Hi; apply app_nth1; exact Hi).
      assert (Hlen : length (t ++ [mkNode (Some ni) q_new]) = S (length t)) by (rewrite app_length; simpl; lia).
      destruct (ed q_new q <? L)%num eqn:Er; intros [= <- <-]; (split; [exact Hwf'|]); (split; [exact Hold|]).
      + split; [reflexivity|]. split; [exact Hlen|]. rewrite nd_app_new. cbn [data]. rsimp. apply Rltb_true. exact Er.
      + split; [reflexivity | exact Hlen].
    - intros [= <- <-]. split; [exact (conj Hne (conj Hroot (conj Hdim Hedges)))|]. split; [intros; reflexivity | reflexivity].
  Qed.

  (** [connect] keeps the invariant and only appends vertices *)
  Lemma connect_wf fuel : forall t q t' e, wf t -> length q = dim -> Good q -> connect is_free L (fun x => x) fuel t q = Some (t', e) ->
    wf t' /\ (length t <= length t')%nat /\
    (forall i, (i < length t)%nat -> nth i t' (mkNode None []) = nth i t (mkNode None [])) /\
    match e with
    | Reached i => (0 < i < length t')%nat /\ ed (nd t' i) q < L
    | Advanced _ => False
    | Trapped => True
    end.
  Proof.
    induction fuel as [|f IH]; intros t q t' e Hwf Hq Hg; cbn [connect]; [discriminate|].
    destruct (extend is_free L (fun x => x) t q) as [t1 e1] eqn:Eext.
    destruct (extend_wf t q t1 e1 Hwf Hq Hg Eext) as (Hwf1 & Hold1 & He1).
    assert (Hpos : (0 < length t)%nat) by (destruct Hwf as [Hne _]; destruct t; [contradiction | simpl; lia]).
    destruct e1 as [i|i|].
    - intros [= <- <-]. destruct He1 as (-> & Hl & Hd). split; [exact Hwf1|]. split; [lia|]. split; [exact Hold1|]. split; [lia | exact Hd].
    - destruct He1 as (-> & Hl). intros Hc. apply IH in Hc; [|exact Hwf1 | exact Hq | exact Hg].
      destruct Hc as (Hwf' & Hlen & Hold & He). split; [exact Hwf'|]. split; [lia|]. split; [|exact He].
      intros j Hj. rewrite Hold by lia. apply Hold1. exact Hj.
    - intros [= <- <-]. subst t1. split; [exact Hwf|]. split; [lia|]. split; [intros; reflexivity | exact I].
  Qed.

  (** * paths: chains of ancestors *)
  Inductive Chain (t : Tree) : nat -> list (list R) -> Prop :=
  | Chain_root i : parent (nth i t (mkNode None [])) = None -> Chain t i []
  | Chain_step i p l : parent (nth i t (mkNode None [])) = Some p -> Chain t p l -> Chain t i (nd t p :: l).

  Lemma ancestors_chain t : wf t -> forall fuel i, (i < fuel)%nat -> (i < length t)%nat -> Chain t i (ancestors fuel t i).
  Proof.
    intros Hwf. induction fuel as [|f IH]; intros i Hf Hi; [lia|]. cbn [ancestors].
    destruct (parent (nth i t (mkNode None []))) as [p|] eqn:Ep; [|apply Chain_root; exact Ep].
    apply Chain_step; [exact Ep|].
    destruct Hwf as (_ & Hroot & _ & Hedges).
    destruct (Nat.eq_dec i 0) as [->|Hnz]; [rewrite Hroot in Ep; discriminate|].
    destruct (Hedges i ltac:(lia)) as [p' [Hp' [Hlt _]]]. rewrite Ep in Hp'. injection Hp' as <-.
    apply IH; lia.
  Qed.

  (** what a chain looks like in a well-formed tree *)
  Lemma chain_facts t : wf t -> forall i l, Chain t i l -> (i < length t)%nat ->
    linked L (nd t i :: l) /\ last (nd t i :: l) [] = nd t 0 /\
    Forall (fun x => exists j, (j < length t)%nat /\ x = nd t j) l /\
    (0 < i -> l <> [])%nat.
  Proof.
    intros Hwf i l Hc. induction Hc as [i Hn | i p l Hp Hc IH]; intros Hi.
    - destruct Hwf as (_ & Hroot & _ & Hedges).
      assert (i = 0%nat).
      { destruct (Nat.eq_dec i 0) as [E|E]; [exact E|]. destruct (Hedges i ltac:(lia)) as [p [Hp _]]. congruence. }
      subst i. split; [exact I|]. split; [reflexivity|]. split; [constructor | lia].
    - pose proof Hwf as (_ & Hroot & _ & Hedges).
      assert (Hi0 : (0 < i)%nat) by (destruct (Nat.eq_dec i 0) as [->|E]; [congruence | lia]).
      destruct (Hedges i ltac:(lia)) as [p' [Hp' [Hlt [Hd _]]]]. rewrite Hp in Hp'. injection Hp' as <-.
      destruct (IH ltac:(lia)) as (Hl & Hlast & Hall & _).
      split; [cbn [linked]; split; [exact Hd | exact Hl]|].
      split; [exact Hlast|]. split; [constructor; [exists p; split; [lia | reflexivity] | exact Hall] | intros _; discriminate].
  Qed.
End RrtR.

Lemma last_app_ne {A} (l1 l2 : list A) d : l2 <> [] -> last (l1 ++ l2) d = last l2 d.
Proof.
  intros Hne. induction l1 as [|a l1 IH]; [reflexivity|]. cbn [app].
  destruct (l1 ++ l2) eqn:E; [apply app_eq_nil in E; destruct E; contradiction|]. rewrite <- E in *. cbn [last]. rewrite E. rewrite <- E. exact IH.
Qed.

(** * The planner loop *)
Section RrtMain.
  Variable is_free : list R -> bool.
  Variable L : R.
  Hypothesis HL : 0 < L.
  Variable dim : nat.
  Variable Good : list R -> Prop.
  Hypothesis good_interp : forall near target d, Good near -> Good target -> L <= d ->
    length near = length target ->
    Good (map2p (T:=R) (fun n t => n + (t - n) * L / d)%num near target).
  Variable samples : nat -> list R.
  Variable stops : nat -> bool.
  Variable cfuel : nat.
  Variables start goal : list R.
  Hypothesis samples_ok : forall k, length (samples k) = dim /\ Good (samples k).

  Notation wf := (wf is_free L dim Good).
  Notation nd := (node_data (T:=R)).

  Definition path_ok (p : list (list R)) : Prop :=
    hd [] p = start /\ last p [] = goal /\ linked (3 * L) p /\
    Forall (fun x => x = start \/ x = goal \/ is_free x = true) p /\
    Forall Good p /\ Forall (fun x => length x = dim) p.

  Definition Inv (ta tb : @Tree R) (a : bool) : Prop :=
    wf ta /\ wf tb /\ nd ta 0 = (if a then start else goal) /\ nd tb 0 = (if a then goal else start).

  Lemma wf_pos t : wf t -> (0 < length t)%nat.
  Proof. intros [Hne _]. destruct t; [contradiction | simpl; lia]. Qed.

  Lemma nodes_ok t root : wf t -> nd t 0 = root -> forall l,
    Forall (fun x => exists j, (j < length t)%nat /\ x = nd t j) l ->
    Forall (fun x => x = root \/ is_free x = true) l /\ Forall Good l /\ Forall (fun x => length x = dim) l.
  Proof.
    intros Hwf Hr l Hl. destruct Hwf as (_ & _ & Hdim & Hedges).
    induction Hl as [|x l [j [Hj ->]] _ IH]; [repeat split; constructor|].
    destruct IH as (I1 & I2 & I3). destruct (Hdim j Hj) as [D1 D2].
    repeat split; constructor; try assumption.
    destruct (Nat.eq_dec j 0) as [->|Hnz]; [left; exact Hr|].
    right. destruct (Hedges j ltac:(lia)) as [p [_ [_ [_ Hf]]]]. exact Hf.
  Qed.

  Lemma path_join ta tb ni ri (ra rb : list R) :
    wf ta -> wf tb -> (0 < ni < length ta)%nat -> (0 < ri < length tb)%nat ->
    nd ta 0 = ra -> nd tb 0 = rb -> ed (nd tb ri) (nd ta ni) < L ->
    let p := rev (ancestors (length ta) ta ni) ++ ancestors (length tb) tb ri in
    hd [] p = ra /\ last p [] = rb /\ linked (3 * L) p /\
    Forall (fun x => x = ra \/ x = rb \/ is_free x = true) p /\ Forall Good p /\ Forall (fun x => length x = dim) p.
  Proof.
    intros Hwa Hwb Hni Hri Hra Hrb Hreach p.
    pose proof (ancestors_chain is_free L dim Good ta Hwa (length ta) ni ltac:(lia) ltac:(lia)) as CA.
    pose proof (ancestors_chain is_free L dim Good tb Hwb (length tb) ri ltac:(lia) ltac:(lia)) as CB.
    set (A := ancestors (length ta) ta ni) in *. set (B := ancestors (length tb) tb ri) in *.
    destruct (chain_facts is_free L dim Good ta Hwa ni A CA ltac:(lia)) as (LA & lastA & allA & neA).
    destruct (chain_facts is_free L dim Good tb Hwb ri B CB ltac:(lia)) as (LB & lastB & allB & neB).
    specialize (neA ltac:(lia)). specialize (neB ltac:(lia)).
    destruct A as [|a1 A']; [contradiction|]. destruct B as [|b1 B']; [contradiction|].
    destruct (nodes_ok ta ra Hwa Hra _ allA) as (fA & gA & dA).
    destruct (nodes_ok tb rb Hwb Hrb _ allB) as (fB & gB & dB).
    destruct LA as [Hqa LA]. destruct LB as [Hrb1 LB].
    assert (lastA' : last (a1 :: A') [] = ra) by (rewrite <- Hra, <- lastA; reflexivity).
    assert (lastB' : last (b1 :: B') [] = rb) by (rewrite <- Hrb, <- lastB; reflexivity).
    assert (Hda : length (nd ta ni) = dim) by (destruct Hwa as (_ & _ & Hd & _); apply Hd; lia).
    assert (Hdb : length (nd tb ri) = dim) by (destruct Hwb as (_ & _ & Hd & _); apply Hd; lia).
    assert (Hda1 : length a1 = dim) by (inversion dA; assumption).
    assert (Hdb1 : length b1 = dim) by (inversion dB; assumption).
    unfold p. split; [|split; [|split; [|split; [|split]]]].
    - destruct (rev (a1 :: A')) as [|x r] eqn:Er.
      + apply (f_equal (@length _)) in Er. rewrite rev_length in Er. discriminate.
      + cbn [app hd]. assert (Hh : hd [] (rev (a1 :: A')) = x) by (rewrite Er; reflexivity).
        rewrite hd_rev_last in Hh. rewrite <- Hh. exact lastA'.
    - rewrite last_app_ne by discriminate. exact lastB'.
    - apply linked_app.
      + apply linked_rev. apply linked_mono with L; [lra | exact LA].
      + apply linked_mono with L; [lra | exact LB].
      + intros x y Hx _ Hy _. rewrite last_rev_hd in Hx. cbn [hd] in Hx, Hy. subst x y.
        (* a1 -- q_new -- reach -- b1 *)
        pose proof (ed_triangle a1 (nd ta ni) b1 (eq_trans Hda1 (eq_sym Hda)) (eq_trans Hda (eq_sym Hdb1))) as T1.
        pose proof (ed_triangle (nd ta ni) (nd tb ri) b1 (eq_trans Hda (eq_sym Hdb)) (eq_trans Hdb (eq_sym Hdb1))) as T2.
        rewrite (ed_sym a1 (nd ta ni)) in T1. rewrite (ed_sym (nd ta ni) (nd tb ri)) in T2. lra.
    - apply Forall_app. split.
      + apply Forall_rev. eapply Forall_impl; [|exact fA]. intros x [Hx|Hx]; [left; exact Hx | right; right; exact Hx].
      + eapply Forall_impl; [|exact fB]. intros x [Hx|Hx]; [right; left; exact Hx | right; right; exact Hx].
    - apply Forall_app. split; [apply Forall_rev; exact gA | exact gB].
    - apply Forall_app. split; [apply Forall_rev; exact dA | exact dB].
  Qed.

  Lemma path_ok_rev p : p <> [] ->
    (hd [] p = goal /\ last p [] = start /\ linked (3 * L) p /\
     Forall (fun x => x = goal \/ x = start \/ is_free x = true) p /\ Forall Good p /\ Forall (fun x => length x = dim) p) ->
    path_ok (rev p).
  Proof.
    intros Hne (H1 & H2 & H3 & H4 & H5 & H6). unfold path_ok.
    rewrite hd_rev_last, last_rev_hd. repeat split; try assumption.
    - apply linked_rev; exact H3.
    - apply Forall_rev. eapply Forall_impl; [|exact H4]. intros x [Hx|[Hx|Hx]]; tauto.
    - apply Forall_rev; exact H5.
    - apply Forall_rev; exact H6.
  Qed.

  (** C13: whatever the samples, the obstacles and the cancellation pattern, a returned path is well formed *)
  Theorem rrt_loop_path_ok : forall n k ta tb a p, Inv ta tb a ->
    rrt_loop is_free L (fun x => x) samples stops cfuel n k ta tb a = Path p -> path_ok p.
  Proof.
    induction n as [|n IH]; intros k ta tb a p HI; cbn [rrt_loop]; [discriminate|].
    destruct (stops k); [discriminate|].
    destruct HI as (Hwa & Hwb & Hra & Hrb).
    destruct (samples_ok k) as [Hsl Hsg].
    destruct (extend is_free L (fun x => x) ta (samples k)) as [ta' e] eqn:Eext.
    destruct (extend_wf is_free L HL dim Good good_interp ta (samples k) ta' e Hwa Hsl Hsg Eext) as (Hwa' & Holda & He).
    pose proof (wf_pos ta Hwa) as Hpa. pose proof (wf_pos tb Hwb) as Hpb.
    assert (Hra' : nd ta' 0 = nd ta 0) by (unfold node_data; rewrite Holda by lia; reflexivity).
    assert (Hswap : forall tb1, wf tb1 -> nd tb1 0 = nd tb 0 -> Inv tb1 ta' (negb a)).
    { intros tb1 Hw1 Hr1. unfold Inv. split; [exact Hw1|]. split; [exact Hwa'|].
      split; [rewrite Hr1, Hrb; destruct a; reflexivity | rewrite Hra', Hra; destruct a; reflexivity]. }
    assert (Hmain : forall ni, (e = Advanced ni \/ e = Reached ni) ->
       match connect is_free L (fun x => x) cfuel tb (nd ta' ni) with
       | None => OutOfFuel
       | Some (tb', Reached ri) =>
           Path (if a then rev (ancestors (length ta') ta' ni) ++ ancestors (length tb') tb' ri
                 else rev (rev (ancestors (length ta') ta' ni) ++ ancestors (length tb') tb' ri))
       | Some (tb', _) => rrt_loop is_free L (fun x => x) samples stops cfuel n (S k) tb' ta' (negb a)
       end = Path p -> path_ok p).
    { intros ni Hni.
      assert (Hnil : ni = length ta /\ length ta' = S (length ta)) by (destruct Hni as [->| ->]; tauto).
      destruct Hnil as [-> Hlen].
      assert (Hq : length (nd ta' (length ta)) = dim /\ Good (nd ta' (length ta))) by (destruct Hwa' as (_ & _ & Hd & _); apply Hd; lia).
      destruct (connect is_free L (fun x => x) cfuel tb (nd ta' (length ta))) as [[tb' eb]|] eqn:Ec; [|discriminate].
      destruct (connect_wf is_free L HL dim Good good_interp cfuel tb _ tb' eb Hwb (proj1 Hq) (proj2 Hq) Ec) as (Hwb' & Hlb & Holdb & Heb).
      assert (Hrb' : nd tb' 0 = nd tb 0) by (unfold node_data; rewrite Holdb by lia; reflexivity).
      destruct eb as [ri|ri|]; [| destruct Heb | intros Hp; eapply IH; [apply Hswap; eassumption | exact Hp]].
      destruct Heb as [Hri Hreach]. intros [= <-].
      pose proof (path_join ta' tb' (length ta) ri _ _ Hwa' Hwb' ltac:(lia) Hri eq_refl eq_refl Hreach) as HJ. cbv zeta in HJ.
      rewrite Hra', Hra, Hrb', Hrb in HJ.
      destruct a; [exact HJ|].
      apply path_ok_rev; [|exact HJ].
      intros Hn. apply app_eq_nil in Hn. destruct Hn as [_ Hn].
      destruct HJ as (_ & Hl & _). rewrite Hn in Hl. (* last [] = start: only possible if both empty; use non-emptiness from chain_facts instead *)
      pose proof (ancestors_chain is_free L dim Good tb' Hwb' (length tb') ri ltac:(lia) ltac:(lia)) as CB.
      destruct (chain_facts is_free L dim Good tb' Hwb' ri _ CB ltac:(lia)) as (_ & _ & _ & neB).
      apply neB; [lia | exact Hn]. }
    destruct e as [ni|ni|].
    - intros Hp. eapply Hmain; [right; reflexivity | exact Hp].
    - intros Hp. eapply Hmain; [left; reflexivity | exact Hp].
    - subst ta'. intros Hp. eapply IH; [|exact Hp]. apply Hswap; [exact Hwb | reflexivity].
  Qed.

  (** the planner proper: start and goal of dimension [dim] and [Good] *)
  Theorem dual_rrt_path_ok num_max_try p :
    length start = dim -> length goal = dim -> Good start -> Good goal ->
    dual_rrt_connect is_free L (fun x => x) samples stops cfuel start goal num_max_try = Path p -> path_ok p.
  Proof.
    intros Hs Hg Gs Gg. unfold dual_rrt_connect. apply rrt_loop_path_ok.
    assert (Hw : forall x, length x = dim -> Good x -> wf [mkNode None x]).
    { intros x Hx Gx. split; [discriminate|]. split; [reflexivity|]. split.
      - intros i Hi. simpl in Hi. assert (i = 0%nat) by lia. subst i. split; assumption.
      - intros i Hi. simpl in Hi. lia. }
    split; [apply Hw; assumption|]. split; [apply Hw; assumption|]. split; reflexivity.
  Qed.

  (** cancellation: a flag seen raised at the first check gives an error, and no path is produced at or after
      an iteration that sees the flag *)
  Theorem cancel_before num_max_try : (0 < num_max_try)%nat -> stops 0%nat = true ->
    dual_rrt_connect is_free L (fun x => x) samples stops cfuel start goal num_max_try = Cancelled.
  Proof. intros Hn Hs. unfold dual_rrt_connect. destruct num_max_try; [lia|]. cbn [rrt_loop]. rewrite Hs. reflexivity. Qed.

  Theorem cancel_at_iteration : forall n k ta tb a, stops k = true ->
    forall p, rrt_loop is_free L (fun x => x) samples stops cfuel n k ta tb a <> Path p.
  Proof. intros n k ta tb a Hs p. destruct n; cbn [rrt_loop]; [discriminate|]. rewrite Hs. discriminate. Qed.
End RrtMain.

(** the box of non-wrapping limits is closed under the interpolation step *)
Definition in_box (lo hi p : list R) : Prop := Forall2 (fun b x => fst b <= x <= snd b) (combine lo hi) p.

Lemma box_interp lo hi L (near target : list R) d : 0 < L -> in_box lo hi near -> in_box lo hi target -> L <= d ->
  length near = length target ->
  in_box lo hi (map2p (T:=R) (fun n t => n + (t - n) * L / d)%num near target).
Proof.
  intros HL Hn Ht Hd _. unfold in_box in *. revert target Ht.
  induction Hn as [|b x bs near Hb _ IH]; intros target Ht; inversion Ht as [|b' y bs' target' Hy Ht']; subst; cbn [map2p]; constructor.
  - rsimp. assert (Hc : 0 < L / d <= 1).
    { split; [apply Rdiv_lt_0_compat; lra|]. apply (Rmult_le_reg_r d); [lra|]. unfold Rdiv. rewrite Rmult_assoc, Rinv_l by lra. lra. }
    replace (x + (y - x) * L / d) with (x + (y - x) * (L / d)) by (unfold Rdiv; ring).
    destruct Hc as [Hc0 Hc1]. destruct (Rle_dec x y).
    + assert (0 <= (y - x) * (L / d) <= y - x).
      { split; [apply Rmult_le_pos; lra|]. rewrite <- (Rmult_1_r (y - x)) at 2. apply Rmult_le_compat_l; lra. } lra.
    + assert (y - x <= (y - x) * (L / d) <= 0).
      { split.
        - rewrite <- (Rmult_1_r (y - x)) at 1. apply Rmult_le_compat_neg_l; lra.
        - replace 0 with ((y - x) * 0) by ring. apply Rmult_le_compat_neg_l; lra. } lra.
  - apply IH. exact Ht'.
Qed.
