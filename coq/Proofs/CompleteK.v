(** C02 completeness, part 2: from the branch table to the kernel and the entry point. *)
From Coq Require Import ZArith Reals Lra Lia List Bool.
From VF Require Import Base.Num Base.Lin Base.Angles Gen.Forward Gen.Inverse Proofs.ForwardP Proofs.CompleteP.
Import ListNotations.
Open Scope R_scope.

(** * from the table to the kernel and to the entry point: the originating joint vector is among the answers *)
From VF Require Import Model.Constraints Model.Kin Model.Finish Proofs.ConstraintsP Proofs.KinP Proofs.FinishP Proofs.SoundP.

Lemma sc_is_rep a b : sc a b -> is_rep PI a b.
Proof. intros H. destruct (sc_rep _ _ H) as [k Hk]. exists k. exact Hk. Qed.

(** one joint through offsets and sign: the model angle [t] ~ [j * sg - off] gives back [j] up to whole turns *)
Lemma back_to_joint (t j off : R) (sg : Z) : (sg = 1 \/ sg = -1)%Z -> sc t (j * IZR sg - off) ->
  is_rep PI (wrap_pi PI ((t + off) * IZR sg)) j.
Proof.
  intros Hsg H. eapply is_rep_trans; [apply wrap_pi_rep|].
  destruct (sc_rep _ _ H) as [k Hk]. exists (k * sg)%Z. rewrite Hk, mult_IZR.
  destruct Hsg as [-> | ->]; simpl; ring.
Qed.

Section KernelComplete.
  Variables (p : Lin.Params) (j : J6).
  Variable compare : Iso -> Iso -> bool.
  Hypothesis compare_refl : forall a, compare a a = true.
  Hypothesis Hsg : (p_sg1 p = 1 \/ p_sg1 p = -1)%Z /\ (p_sg2 p = 1 \/ p_sg2 p = -1)%Z /\ (p_sg3 p = 1 \/ p_sg3 p = -1)%Z /\
                   (p_sg4 p = 1 \/ p_sg4 p = -1)%Z /\ (p_sg5 p = 1 \/ p_sg5 p = -1)%Z /\ (p_sg6 p = 1 \/ p_sg6 p = -1)%Z.
  Let q := qint p j.
  Let X := aX (p_a2 p) (p_c2 p) (p_c3 p) (j2 q) (j3 q).
  Let Z := aZ (p_a2 p) (p_c2 p) (p_c3 p) (j2 q) (j3 q).
  Hypothesis Hkap : 0 < p_a2 p * p_a2 p + p_c3 p * p_c3 p.
  Hypothesis Hc2 : p_c2 p <> 0.
  Hypothesis HS : 0 < X * X + Z * Z.
  Hypothesis Hcx1 : X + p_a1 p <> 0.
  Hypothesis H5 : sin (j5 q) <> 0.
  Let jl : list R := [j1 j; j2 j; j3 j; j4 j; j5 j; j6 j].

  Lemma j6_of_jl : j6_of jl = j. Proof. destruct j. reflexivity. Qed.

  Theorem kernel_complete :
    exists s, In s (the_kernel p compare (ik_theta_def p) (fwd p j)) /\ Forall2 (is_rep PI) s jl.
  Proof.
    destruct (table_complete p q Hkap Hc2 HS Hcx1 H5) as [back [down [flip [Hv Hd]]]].
    rewrite fwd_eq_spec. unfold fk_spec. fold q.
    set (pose := L6 p q) in *.
    set (k := row_index back down flip) in *.
    set (rw := List.nth k (ik_theta_def p pose) []) in *.
    assert (Hk : (k < 8)%nat) by (unfold k, row_index; destruct back, down, flip; simpl; lia).
    assert (Hin : In rw (ik_theta_def p pose)).
    { apply nth_In. replace (length (ik_theta_def p pose)) with 8%nat; [exact Hk|]. unfold ik_theta_def. cbv zeta. reflexivity. }
    assert (Hfst : map fst rw = row p pose back down flip).
    { unfold rw. rewrite <- nth_row, <- def_values. rewrite <- (map_nth (map fst)). reflexivity. }
    (* the six entries *)
    remember (row p pose back down flip) as r6 eqn:Er.
    assert (Hlen : exists t1 t2 t3 t4 t5 t6, r6 = [t1; t2; t3; t4; t5; t6]) by (rewrite Er; unfold row; cbv zeta; repeat eexists).
    destruct Hlen as [t1 [t2 [t3 [t4 [t5 [t6 E6]]]]]]. rewrite E6 in Hv, Hfst.
    inversion Hv as [|? ? ? ? S1 Hv1]; subst. inversion Hv1 as [|? ? ? ? S2 Hv2]; subst. inversion Hv2 as [|? ? ? ? S3 Hv3]; subst.
    inversion Hv3 as [|? ? ? ? S4 Hv4]; subst. inversion Hv4 as [|? ? ? ? S5 Hv5]; subst. inversion Hv5 as [|? ? ? ? S6 Hv6]; subst.
    destruct Hsg as [G1 [G2 [G3 [G4 [G5 G6]]]]].
    set (s := [wrap_pi PI ((t1 + p_off1 p) * IZR (p_sg1 p)); wrap_pi PI ((t2 + p_off2 p) * IZR (p_sg2 p));
               wrap_pi PI ((t3 + p_off3 p) * IZR (p_sg3 p)); wrap_pi PI ((t4 + p_off4 p) * IZR (p_sg4 p));
               wrap_pi PI ((t5 + p_off5 p) * IZR (p_sg5 p)); wrap_pi PI ((t6 + p_off6 p) * IZR (p_sg6 p))]).
    assert (Hrep : Forall2 (is_rep PI) s jl).
    { unfold s, jl. unfold q, qint in S1, S2, S3, S4, S5, S6. cbn [j1 j2 j3 j4 j5 j6] in S1, S2, S3, S4, S5, S6.
      repeat (apply Forall2_cons; [apply back_to_joint; assumption|]). apply Forall2_nil. }
    exists s. split; [|exact Hrep].
    unfold the_kernel. apply finish_In. exists rw. split; [exact Hin|]. split.
    - unfold ext_row. rewrite Hd. rewrite Hfst. reflexivity.
    - rewrite (fwd_periodic p s jl Hrep), j6_of_jl, fwd_eq_spec. unfold fk_spec. fold q. apply compare_refl.
  Qed.

  (** plain [inverse]: the originating joint vector (up to whole turns) is returned whenever it is within the limits *)
  Theorem inverse_complete (dof : BinNums.Z) (cons : option (@Constraints R)) (kernel5 : Iso -> R -> list (list R)) :
    dof <> 5%Z -> compliant_opt PI cons jl = true ->
    exists s, In s (inverse PI dof cons Iso (the_kernel p compare (ik_theta_def p)) kernel5 (fwd p j)) /\ Forall2 (is_rep PI) s jl.
  Proof.
    intros Hd Hc. destruct kernel_complete as [s [Hs Hr]]. exists s. split; [|exact Hr].
    unfold inverse. destruct (dof =? 5)%Z eqn:E; [apply Z.eqb_eq in E; contradiction|].
    apply filter_compliant_In. split; [exact Hs|]. rewrite (compliant_opt_rep PI PI_RGT_0 cons s jl Hr). exact Hc.
  Qed.
End KernelComplete.
