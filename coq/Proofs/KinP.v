(** Proofs about the kinematics glue model (Model/Kin.v) at T := R. *)
From Coq Require Import ZArith Reals Lra Lia List Bool Psatz Sorting.Sorted.
From VF Require Import Base.Num Model.Constraints Model.Kin Proofs.ConstraintsP.
Import ListNotations.
Open Scope R_scope.

Lemma nabs_R x : nabs (T:=R) x = Rabs x.
Proof.
  unfold nabs, n0. rsimp. destruct (Rltb x 0) eqn:E;
  [apply Rltb_true in E; rewrite Rabs_left; lra | apply Rltb_false in E; rewrite Rabs_right; lra].
Qed.

Section KinR.
  Variable hp : R.
  Hypothesis Hhp : 0 < hp.
  Variable thr : R.
  Let P := 2 * hp.

  (** * normalize_near picks a nearest representative *)
  Definition is_rep (r now : R) : Prop := exists k : Z, r = now + IZR k * P.

  Lemma is_rep_refl x : is_rep x x.
  Proof. exists 0%Z. simpl. ring. Qed.
  Lemma is_rep_trans a b c : is_rep a b -> is_rep b c -> is_rep a c.
  Proof. intros [k ->] [m ->]. exists (k + m)%Z. rewrite plus_IZR. ring. Qed.

  Lemma adjust_rep now prev : is_rep (adjust hp now prev) now.
  Proof.
    unfold adjust, n2, nsignum, n0, n1. rsimp. rewrite !nabs_R. fold P.
    set (b1 := Rltb (Rabs (now - P - prev)) (Rabs (now - prev))).
    set (now1 := if b1 then now - P else now).
    assert (R1 : is_rep now1 now).
    { unfold now1. destruct b1; [exists (-1)%Z; simpl; ring | apply is_rep_refl]. }
    set (b2 := Rltb (Rabs (now1 + P - prev)) (Rabs (now1 - prev))).
    set (now2 := if b2 then now1 + P else now1).
    assert (R2 : is_rep now2 now).
    { unfold now2. destruct b2; [|exact R1].
      eapply is_rep_trans; [|exact R1]. exists 1%Z. simpl. ring. }
    set (b3 := Reqb (Rabs now2) hp).
    destruct b3 eqn:E; cbn [andb]; [|exact R2].
    match goal with |- is_rep (if ?c then _ else _) _ => destruct c end; [|exact R2].
    apply Reqb_true in E.
    eapply is_rep_trans; [|exact R2].
    destruct (Rcase_abs now2) as [Hn|Hn].
    - rewrite Rabs_left in E by lra. exists 1%Z. simpl. unfold P. lra.
    - rewrite Rabs_right in E by lra. exists (-1)%Z. simpl. unfold P. lra.
  Qed.

  Lemma normalize_near_rep now prev : is_rep (normalize_near hp now prev) now.
  Proof. unfold normalize_near. eapply is_rep_trans; apply adjust_rep. Qed.

  (** one adjustment does not move away from [prev], and lands within a half turn when it starts within 3 half turns *)
  Lemma adjust_dist now prev :
    Rabs (now - prev) <= 3 * hp -> Rabs (adjust hp now prev - prev) <= hp.
  Proof.
    intros Hd. unfold adjust, n2, nsignum, n0, n1. rsimp. rewrite !nabs_R. fold P.
    set (now1 := if Rltb (Rabs (now - P - prev)) (Rabs (now - prev)) then now - P else now).
    set (now2 := if Rltb (Rabs (now1 + P - prev)) (Rabs (now1 - prev)) then now1 + P else now1).
    assert (H2 : Rabs (now2 - prev) <= hp).
    { unfold now2, now1.
      destruct (Rltb (Rabs (now - P - prev)) (Rabs (now - prev))) eqn:E1;
        [apply Rltb_true in E1 | apply Rltb_false in E1];
      match goal with |- context [Rltb ?a ?b] => destruct (Rltb a b) eqn:E2;
        [apply Rltb_true in E2 | apply Rltb_false in E2] end;
      revert Hd E1 E2; unfold P;
      repeat match goal with |- context [Rabs ?x] => unfold Rabs at 1; destruct (Rcase_abs x) end;
      intros; lra. }
    destruct (Reqb (Rabs now2) hp && _) eqn:E; [|exact H2].
    apply andb_true_iff in E. destruct E as [E Es]. apply Reqb_true in E.
    apply negb_true_iff in Es. apply Reqb_false in Es.
    (* now2 = +-hp with sign opposite to prev: flipping does not increase the distance *)
    revert Es H2 E.
    destruct (Rltb prev 0) eqn:Ep; [apply Rltb_true in Ep | apply Rltb_false in Ep];
    (destruct (Rltb now2 0) eqn:En; [apply Rltb_true in En | apply Rltb_false in En]);
    intros Es H2 E; try (exfalso; apply Es; reflexivity);
    revert H2 E;
    repeat match goal with |- context [Rabs ?x] => unfold Rabs at 1; destruct (Rcase_abs x) end;
    intros; lra.
  Qed.

  (** nearest representative: previous within the documented +-2pi range, the kernel angle within [-pi,pi] *)
  Theorem normalize_near_nearest now prev :
    Rabs prev <= 2 * hp -> Rabs now <= hp ->
    let r := normalize_near hp now prev in
    is_rep r now /\ Rabs (r - prev) <= hp /\
    forall k : Z, Rabs (r - prev) <= Rabs (now + IZR k * P - prev).
  Proof.
    intros Hp Hn r. split; [apply normalize_near_rep|].
    assert (H1 : Rabs (adjust hp now prev - prev) <= hp).
    { apply adjust_dist. revert Hp Hn.
      repeat match goal with |- context [Rabs ?x] => unfold Rabs at 1; destruct (Rcase_abs x) end;
      intros; lra. }
    assert (H2 : Rabs (r - prev) <= hp).
    { unfold r, normalize_near. apply adjust_dist. lra. }
    split; [exact H2|].
    intros k. destruct (normalize_near_rep now prev) as [m Hm]. fold r in Hm.
    (* any other representative differs from r by a whole number of periods *)
    replace (now + IZR k * P - prev) with ((r - prev) + IZR (k - m) * P)
      by (rewrite Hm, minus_IZR; ring).
    destruct (Z.eq_dec (k - m) 0) as [Ez|Ez].
    - rewrite Ez. simpl. rewrite Rmult_0_l, Rplus_0_r. lra.
    - assert (HP : 0 < P) by (unfold P; lra).
      destruct (Z_lt_le_dec (k - m) 0) as [Hl|Hl].
      + assert (IZR (k - m) <= -1) by (apply IZR_lem1; lia).
        assert (IZR (k - m) * P <= - P) by nra.
        revert H2. unfold P in *.
        repeat match goal with |- context [Rabs ?x] => unfold Rabs at 1; destruct (Rcase_abs x) end;
        intros; lra.
      + assert (1 <= IZR (k - m)) by (apply IZR_ge1; lia).
        assert (P <= IZR (k - m) * P) by nra.
        revert H2. unfold P in *.
        repeat match goal with |- context [Rabs ?x] => unfold Rabs at 1; destruct (Rcase_abs x) end;
        intros; lra.
  Qed.

  Lemma normalize_near_fix x : normalize_near hp x x = x.
  Proof.
    assert (A : adjust hp x x = x).
    { unfold adjust, n2. rsimp. rewrite !nabs_R. fold P.
      assert (HP : 0 < P) by (unfold P; lra).
      replace (x - x) with 0 by ring. rewrite Rabs_R0.
      destruct (Rltb (Rabs (x - P - x)) 0) eqn:E1;
        [apply Rltb_true in E1; pose proof (Rabs_pos (x - P - x)); lra|].
      replace (x - x) with 0 by ring. rewrite Rabs_R0.
      destruct (Rltb (Rabs (x + P - x)) 0) eqn:E2;
        [apply Rltb_true in E2; pose proof (Rabs_pos (x + P - x)); lra|].
      assert (E3 : Reqb (nsignum x) (nsignum x) = true) by (apply Reqb_true; reflexivity).
      rewrite E3. cbn [negb]. rewrite andb_false_r. reflexivity. }
    unfold normalize_near. rewrite A. exact A.
  Qed.

  (** * singularity band *)
  Lemma rem_euclid_spec x : exists m : Z,
    nrem_euclid (T:=R) x P = x - IZR m * P /\ 0 <= x - IZR m * P < P.
  Proof.
    assert (HP : 0 < P) by (unfold P; lra).
    unfold nrem_euclid. rewrite nabs_R, (Rabs_right P) by lra.
    destruct (Rle_dec 0 x) as [Hx|Hx].
    - destruct (fmod_nonneg x P Hx HP) as [m [_ [Hf Hr]]]. rewrite Hf.
      unfold n0; rsimp. destruct (Rltb (x - IZR m * P) 0) eqn:E; [apply Rltb_true in E; lra|].
      exists m. split; [reflexivity|exact Hr].
    - assert (Hx' : 0 <= - x) by lra.
      destruct (fmod_nonneg (- x) P Hx' HP) as [m [Hm [Hf Hr]]].
      (* fmod x P = - fmod (-x) P for x < 0 *)
      assert (Hfm : nfmod (T:=R) x P = - (- x - IZR m * P)).
      { unfold nfmod, ntrunc, n0 in *. rsimp.
        assert (Hq : x / P < 0).
        { unfold Rdiv. assert (0 < / P) by (apply Rinv_0_lt_compat; lra). nra. }
        destruct (Rltb (x / P) 0) eqn:E; [|apply Rltb_false in E; lra].
        assert (Hq' : 0 <= - x / P) by (unfold Rdiv in *; lra).
        destruct (Rltb (- x / P) 0) eqn:E'; [apply Rltb_true in E'; lra|].
        replace (- (x / P)) with (- x / P) by (unfold Rdiv; ring).
        assert (Rfloor (- x / P) = m).
        { apply Rfloor_unique. assert (- x = (- x / P) * P) by (field; lra).
          destruct Hr as [H1 H2]. split.
          - assert (IZR m * P <= (- x / P) * P) by lra. apply Rmult_le_reg_r with P; lra.
          - assert ((- x / P) * P < (IZR m + 1) * P) by lra. apply Rmult_lt_reg_r with P; lra. }
        rewrite H. rewrite opp_IZR. ring. }
      rewrite Hfm. unfold n0; rsimp.
      destruct (Rltb (- (- x - IZR m * P)) 0) eqn:E; [apply Rltb_true in E | apply Rltb_false in E].
      + exists (- m - 1)%Z. rewrite minus_IZR, opp_IZR. split; [ring | lra].
      + exists (- m)%Z. rewrite opp_IZR. split; [ring | lra].
  Qed.

  (** the wrist is reported singular exactly inside the band around a multiple of the half period *)
  Theorem close_to_multiple_iff x t : 0 < t -> t <= hp / 2 ->
    (is_close_to_multiple_of_pi hp x t = true <-> exists n : Z, Rabs (x - IZR n * hp) < t).
  Proof.
    intros Ht Ht2. unfold is_close_to_multiple_of_pi, n2. rsimp. fold P.
    destruct (rem_euclid_spec x) as [m [Hr Hb]]. rewrite Hr. set (a := x - IZR m * P) in *.
    rewrite nabs_R, !orb_true_iff, !Rltb_true. split.
    - intros [[H|H]|H].
      + exists (2 * m)%Z. rewrite mult_IZR. replace (x - 2 * IZR m * hp) with a by (unfold a, P; ring).
        rewrite Rabs_right; lra.
      + exists (2 * m + 2)%Z. rewrite plus_IZR, mult_IZR.
        replace (x - (2 * IZR m + 2) * hp) with (a - P) by (unfold a, P; ring).
        rewrite Rabs_left; lra.
      + exists (2 * m + 1)%Z. rewrite plus_IZR, mult_IZR.
        replace (x - (2 * IZR m + 1) * hp) with (- (hp - a)) by (unfold a, P; ring).
        rewrite Rabs_Ropp. exact H.
    - intros [n Hn].
      replace (x - IZR n * hp) with (a - IZR (n - 2 * m) * hp) in Hn
        by (unfold a, P; rewrite minus_IZR, mult_IZR; ring).
      set (j := (n - 2 * m)%Z) in *.
      assert (Hj : (j = 0 \/ j = 1 \/ j = 2)%Z).
      { destruct (Z_le_gt_dec j (-1)) as [L|L].
        - exfalso. assert (IZR j <= -1) by (apply IZR_lem1; lia).
          assert (hp <= a - IZR j * hp) by (unfold P in *; nra).
          rewrite Rabs_right in Hn; lra.
        - destruct (Z_le_gt_dec 3 j) as [L3|L3]; [|lia].
          exfalso. assert (3 <= IZR j) by (apply (IZR_le 3); exact L3).
          assert (a - IZR j * hp <= - hp) by (unfold P in *; nra).
          rewrite Rabs_left in Hn; lra. }
      clearbody j. destruct Hj as [ -> | [ -> | -> ] ].
      + left; left. simpl in Hn. rewrite Rmult_0_l, Rminus_0_r, Rabs_right in Hn; lra.
      + right. simpl in Hn. rewrite Rmult_1_l in Hn. rewrite <- Rabs_Ropp.
        replace (- (hp - a)) with (a - hp) by ring. exact Hn.
      + left; right. replace (a - 2 * hp) with (- (P - a)) in Hn by (unfold P; ring).
        rewrite Rabs_Ropp, Rabs_right in Hn; lra.
  Qed.
End KinR.

(** * Lists: stable insertion sort, filtering *)
Section SortR.
  Variable key : list R -> R.
  Definition kle (a b : list R) : Prop := key a <= key b.

  Lemma insert_by_In x y l : In y (insert_by key x l) <-> y = x \/ In y l.
  Proof.
    induction l as [|z l IH]; cbn [insert_by]; rsimp.
    - simpl. intuition.
    - destruct (Rleb (key x) (key z)); simpl; [intuition|]. rewrite IH. intuition.
  Qed.

  Lemma sort_by_In y l : In y (sort_by key l) <-> In y l.
  Proof.
    induction l as [|x l IH]; cbn [sort_by]; [tauto|].
    rewrite insert_by_In, IH. simpl. intuition.
  Qed.

  Lemma insert_by_sorted x l : StronglySorted kle l -> StronglySorted kle (insert_by key x l).
  Proof.
    induction l as [|z l IH]; intros Hs; cbn [insert_by]; rsimp.
    - constructor; constructor.
    - inversion Hs as [|? ? Hs' Hall]; subst.
      destruct (Rleb (key x) (key z)) eqn:E; [apply Rleb_true in E | apply Rleb_false in E].
      + constructor; [exact Hs|]. constructor; [exact E|].
        eapply Forall_impl; [|exact Hall]. unfold kle; intros; lra.
      + constructor; [apply IH; exact Hs'|].
        apply Forall_forall. intros y Hy. apply insert_by_In in Hy. destruct Hy as [->|Hy].
        * unfold kle; lra.
        * rewrite Forall_forall in Hall. apply Hall; exact Hy.
  Qed.

  Lemma sort_by_sorted l : StronglySorted kle (sort_by key l).
  Proof. induction l; cbn [sort_by]; [constructor | apply insert_by_sorted; assumption]. Qed.

  Lemma filter_sorted (f : list R -> bool) l : StronglySorted kle l -> StronglySorted kle (filter f l).
  Proof.
    induction l as [|x l IH]; intros Hs; [constructor|].
    inversion Hs as [|? ? Hs' Hall]; subst. simpl. destruct (f x).
    - constructor; [apply IH; exact Hs'|].
      apply Forall_forall. intros y Hy. apply filter_In in Hy. destruct Hy as [Hy _].
      rewrite Forall_forall in Hall. apply Hall; exact Hy.
    - apply IH; exact Hs'.
  Qed.
End SortR.

(** * Entry points *)
Section EntryR.
  Variable hp : R.
  Hypothesis Hhp : 0 < hp.
  Variable thr : R.
  Variables sg off : list R.
  Variable dof : Z.
  Variable cons : option (@Constraints R).
  Variable Pose : Type.
  Variable kernel : Pose -> list (list R).
  Variable kernel5 : Pose -> R -> list (list R).
  Variable shift : Pose -> nat -> Pose.
  Variable fk_ok : Pose -> list R -> bool.

  Lemma filter_compliant_eq l : filter_compliant hp cons l = filter (compliant_opt hp cons) l.
  Proof.
    unfold filter_compliant, compliant_opt, cfilter. destruct cons; [reflexivity|].
    induction l; simpl; [reflexivity | f_equal; assumption].
  Qed.

  Lemma filter_compliant_In s l :
    In s (filter_compliant hp cons l) <-> In s l /\ compliant_opt hp cons s = true.
  Proof. rewrite filter_compliant_eq. apply filter_In. Qed.

  (** C08 for the plain entry points: the constrained answer list is the unconstrained one, filtered *)
  Theorem inverse_constrained_is_filter pose :
    inverse hp dof cons Pose kernel kernel5 pose =
    filter (compliant_opt hp cons) (inverse hp dof None Pose kernel kernel5 pose).
  Proof.
    unfold inverse, inverse_5dof. destruct (dof =? 5)%Z; rewrite filter_compliant_eq; reflexivity.
  Qed.

  Theorem inverse_5dof_constrained_is_filter pose j6 :
    inverse_5dof hp cons Pose kernel5 pose j6 =
    filter (compliant_opt hp cons) (inverse_5dof hp None Pose kernel5 pose j6).
  Proof. unfold inverse_5dof. rewrite filter_compliant_eq. reflexivity. Qed.

  (** a robot declared 5-DOF answers through the 5-DOF solvers *)
  Theorem dof5_dispatch pose sentinel prev :
    dof = 5%Z ->
    inverse hp dof cons Pose kernel kernel5 pose = inverse_5dof hp cons Pose kernel5 pose 0 /\
    inverse_continuing hp thr sg off dof cons Pose kernel kernel5 shift fk_ok pose sentinel prev =
    inverse_continuing_5dof hp cons Pose kernel5 pose sentinel prev.
  Proof. intros ->. unfold inverse, inverse_continuing. simpl. split; reflexivity. Qed.

  Lemma finish_continuing_compliant previous l s :
    In s (finish_continuing hp cons previous l) -> compliant_opt hp cons s = true.
  Proof. unfold finish_continuing. intros Hs. apply filter_compliant_In in Hs. tauto. Qed.

  Lemma finish_continuing_sorted previous l :
    StronglySorted (kle (cost cons previous)) (finish_continuing hp cons previous l).
  Proof.
    unfold finish_continuing. rewrite filter_compliant_eq. apply filter_sorted. apply sort_by_sorted.
  Qed.

  (** C08: every continuation answer satisfies the limits *)
  Theorem continuing_all_compliant pose sentinel prev s :
    In s (inverse_continuing hp thr sg off dof cons Pose kernel kernel5 shift fk_ok pose sentinel prev) ->
    compliant_opt hp cons s = true.
  Proof.
    unfold inverse_continuing, inverse_continuing_5dof.
    destruct (dof =? 5)%Z; apply finish_continuing_compliant.
  Qed.
  Theorem continuing_5dof_all_compliant pose sentinel prev s :
    In s (inverse_continuing_5dof hp cons Pose kernel5 pose sentinel prev) -> compliant_opt hp cons s = true.
  Proof. apply finish_continuing_compliant. Qed.

  (** C04: the continuation list is in non-decreasing order of the documented cost *)
  Theorem continuing_sorted pose (sentinel : bool) prev :
    let previous := if sentinel then centers cons else prev in
    StronglySorted (kle (cost cons previous))
      (inverse_continuing hp thr sg off dof cons Pose kernel kernel5 shift fk_ok pose sentinel prev).
  Proof.
    unfold inverse_continuing, inverse_continuing_5dof.
    destruct (dof =? 5)%Z; apply finish_continuing_sorted.
  Qed.
  Theorem continuing_5dof_sorted pose (sentinel : bool) prev :
    let previous := if sentinel then centers cons else prev in
    StronglySorted (kle (cost cons previous)) (inverse_continuing_5dof hp cons Pose kernel5 pose sentinel prev).
  Proof. apply finish_continuing_sorted. Qed.
End EntryR.

(** * More on the entry points: J6 pass-through, recovery arithmetic, supersets *)
Section EntryR2.
  Variable hp : R.
  Hypothesis Hhp : 0 < hp.
  Variable thr : R.
  Variables sg off : list R.
  Variable dof : Z.
  Variable cons : option (@Constraints R).
  Variable Pose : Type.
  Variable kernel : Pose -> list (list R).
  Variable kernel5 : Pose -> R -> list (list R).
  Variable shift : Pose -> nat -> Pose.
  Variable fk_ok : Pose -> list R -> bool.
  Let P := 2 * hp.

  Lemma nth_map2 {A B C} (f : A -> B -> C) (l : list A) (m : list B) i da db dc :
    (i < length l)%nat -> (i < length m)%nat ->
    nth i (map2 f l m) dc = f (nth i l da) (nth i m db).
  Proof.
    revert m i. induction l as [|a l IH]; intros [|b m] i Hl Hm; simpl in *; try lia.
    destruct i; [reflexivity|]. apply IH; lia.
  Qed.

  Lemma In_normalize_all previous l s :
    In s (normalize_all hp previous l) <-> exists s0, In s0 l /\ s = map2 (normalize_near hp) s0 previous.
  Proof.
    unfold normalize_all. rewrite in_map_iff. split; intros [s0 H]; exists s0; intuition.
  Qed.

  Lemma In_finish_continuing previous l s :
    In s (finish_continuing hp cons previous l) <->
    (exists s0, In s0 l /\ s = map2 (normalize_near hp) s0 previous) /\ compliant_opt hp cons s = true.
  Proof.
    unfold finish_continuing. rewrite filter_compliant_In, sort_by_In, In_normalize_all. tauto.
  Qed.

  (** C06: the 5-DOF entry points return the caller's J6 (kernel contract: J6 copied verbatim) *)
  Hypothesis kernel5_j6 : forall pose j6 s, In s (kernel5 pose j6) -> length s = 6%nat /\ nth 5 s 0 = j6.

  Theorem inverse_5dof_j6 pose j6 s :
    In s (inverse_5dof hp cons Pose kernel5 pose j6) -> nth 5 s 0 = j6.
  Proof.
    unfold inverse_5dof. intros Hs. apply filter_compliant_In in Hs. destruct Hs as [Hs _].
    apply kernel5_j6 in Hs. tauto.
  Qed.

  Theorem inverse_continuing_5dof_j6 pose prev s :
    length prev = 6%nat ->
    In s (inverse_continuing_5dof hp cons Pose kernel5 pose false prev) -> nth 5 s 0 = nth 5 prev 0.
  Proof.
    intros Hp. unfold inverse_continuing_5dof. intros Hs.
    apply In_finish_continuing in Hs. destruct Hs as [[s0 [Hs0 ->]] _].
    apply kernel5_j6 in Hs0. destruct Hs0 as [Hl H6].
    rewrite (nth_map2 _ _ _ _ 0 0 0) by lia. unfold jn in H6. rewrite H6.
    unfold jn. apply normalize_near_fix. exact Hhp.
  Qed.

  Theorem dof5_inverse_j6_zero pose s :
    dof = 5%Z -> In s (inverse hp dof cons Pose kernel kernel5 pose) -> nth 5 s 0 = 0.
  Proof.
    intros ->. unfold inverse. simpl. apply inverse_5dof_j6.
  Qed.

  (** C05: the recovered answer moves J4 and J6 (model angles) by the same amount *)
  Theorem recovered_moves_equally previous now :
    nth 3 sg 0 * nth 3 sg 0 = 1 -> nth 5 sg 0 * nth 5 sg 0 = 1 ->
    let c := sing_candidate hp thr sg off previous now in
    to_model sg off c 3 - to_model sg off previous 3 = to_model sg off c 5 - to_model sg off previous 5.
  Proof.
    intros H3 H5 c. unfold c, sing_candidate, to_model, from_model, jn, n0 in *. clear c. cbn [nth]. rsimp.
    match goal with |- context [wrap_pi hp ?a / n2] => generalize (wrap_pi hp a / n2) end.
    intros jd. generalize dependent (nth 3 sg 0). generalize dependent (nth 5 sg 0).
    intros s5 H5 s3 H3.
    assert (E : forall X t, t * t = 1 -> X * t * t = X) by (intros X t Ht; rewrite Rmult_assoc, Ht; ring).
    rewrite !E by assumption. ring.
  Qed.

  (** C04/C08: what the ['shifts] loop returns *)
  Lemma shifts_loop_spec pose previous ds : forall acc s,
    In s (shifts_loop hp thr sg off cons Pose kernel shift fk_ok pose previous ds acc) ->
    In s acc \/ (exists d, In d ds /\ In s (kernel (shift pose d))) \/
    (exists d s0, In d ds /\ In s0 (kernel (shift pose d)) /\ s = sing_candidate hp thr sg off previous s0 /\
                  fk_ok pose s = true /\ compliant_opt hp cons s = true).
  Proof.
    induction ds as [|d ds IH]; intros acc s; cbn [shifts_loop]; [tauto|].
    set (ik := kernel (shift pose d)).
    set (acc1 := match acc with [] => ik | _ => acc end).
    assert (Hacc1 : forall x, In x acc1 -> In x acc \/ In x ik).
    { unfold acc1. destruct acc; [right; assumption | left; assumption]. }
    assert (Hfs : forall s0, first_singular hp thr sg off ik = Some s0 -> In s0 ik).
    { clear. induction ik as [|x l IHl]; cbn [first_singular]; [discriminate|].
      intros s0. destruct (singular hp thr sg off x); [intros [= <-]; left; reflexivity|].
      intros H. right. apply IHl; exact H. }
    destruct (first_singular hp thr sg off ik) as [s0|] eqn:Efs.
    - destruct (fk_ok pose (sing_candidate hp thr sg off previous s0) &&
                compliant_opt hp cons (sing_candidate hp thr sg off previous s0)) eqn:Eok.
      + intros Hs. apply in_app_or in Hs. destruct Hs as [Hs|[<-|[]]].
        * destruct (Hacc1 _ Hs) as [H1|H1]; [left; exact H1|].
          right; left. exists d. split; [left; reflexivity | exact H1].
        * apply andb_true_iff in Eok. destruct Eok as [E1 E2].
          right; right. exists d, s0. split; [left; reflexivity|]. split; [apply Hfs; reflexivity|].
          split; [reflexivity|]. split; assumption.
      + intros Hs. apply IH in Hs. destruct Hs as [Hs|[[d' [Hd' Hs]]|[d' [s1 [Hd' Hs]]]]].
        * destruct (Hacc1 _ Hs) as [H1|H1]; [left; exact H1|].
          right; left. exists d. split; [left; reflexivity | exact H1].
        * right; left. exists d'. split; [right; exact Hd' | exact Hs].
        * right; right. exists d', s1. split; [right; exact Hd' | exact Hs].
    - intros Hs. apply IH in Hs. destruct Hs as [Hs|[[d' [Hd' Hs]]|[d' [s1 [Hd' Hs]]]]].
      * destruct (Hacc1 _ Hs) as [H1|H1]; [left; exact H1|].
        right; left. exists d. split; [left; reflexivity | exact H1].
      * right; left. exists d'. split; [right; exact Hd' | exact Hs].
      * right; right. exists d', s1. split; [right; exact Hd' | exact Hs].
  Qed.

  (** the unshifted kernel answers are always kept by the loop *)
  Lemma shifts_loop_keeps pose previous ds : forall acc s,
    In s acc -> In s (shifts_loop hp thr sg off cons Pose kernel shift fk_ok pose previous ds acc).
  Proof.
    induction ds as [|d ds IH]; intros acc s Hs; cbn [shifts_loop]; [exact Hs|].
    assert (Hacc1 : In s (match acc with [] => kernel (shift pose d) | _ => acc end)).
    { destruct acc; [destruct Hs | exact Hs]. }
    destruct (first_singular _ _ _ _ _) as [s0|].
    - destruct (_ && _); [apply in_or_app; left; exact Hacc1 | apply IH; exact Hacc1].
    - apply IH; exact Hacc1.
  Qed.

  Lemma shifts_loop_step pose previous d ds acc :
    shifts_loop hp thr sg off cons Pose kernel shift fk_ok pose previous (d :: ds) acc =
    let ik := kernel (shift pose d) in
    let solutions1 := match acc with [] => ik | _ => acc end in
    match first_singular hp thr sg off ik with
    | Some s =>
        let now := sing_candidate hp thr sg off previous s in
        if fk_ok pose now && compliant_opt hp cons now then solutions1 ++ [now]
        else shifts_loop hp thr sg off cons Pose kernel shift fk_ok pose previous ds solutions1
    | None => shifts_loop hp thr sg off cons Pose kernel shift fk_ok pose previous ds solutions1
    end.
  Proof. reflexivity. Qed.

  Hypothesis shift0 : forall pose, shift pose 0%nat = pose.

  Lemma shifts_loop_base pose previous s :
    In s (kernel pose) ->
    In s (shifts_loop hp thr sg off cons Pose kernel shift fk_ok pose previous [0; 1; 2; 3]%nat []).
  Proof.
    intros Hs. rewrite shifts_loop_step. cbv zeta. rewrite shift0.
    destruct (first_singular hp thr sg off (kernel pose)) as [s0|].
    - destruct (fk_ok pose _ && _).
      + apply in_or_app; left; exact Hs.
      + apply shifts_loop_keeps. exact Hs.
    - apply shifts_loop_keeps; exact Hs.
  Qed.
End EntryR2.

(** * Periodicity of compliance, supersets, "keeps compliant", soundness *)
Section EntryR3.
  Variable hp : R.
  Hypothesis Hhp : 0 < hp.
  Variable thr : R.
  Variables sg off : list R.
  Variable dof : Z.
  Variable cons : option (@Constraints R).
  Variable Pose : Type.
  Variable kernel : Pose -> list (list R).
  Variable kernel5 : Pose -> R -> list (list R).
  Variable shift : Pose -> nat -> Pose.
  Variable fk_ok : Pose -> list R -> bool.
  Let P := 2 * hp.

  Lemma inside_bounds_rep x' x c t : is_rep hp x' x -> inside_bounds hp x' c t = inside_bounds hp x c t.
  Proof.
    intros [k ->]. destruct t as [|t]; [reflexivity|].
    apply Bool.eq_iff_eq_true. rewrite !(inside_bounds_spec hp Hhp). split; intros [m Hm].
    - exists (m + k)%Z. rewrite plus_IZR.
      replace (x - c + (IZR m + IZR k) * (2 * hp)) with (x + IZR k * (2 * hp) - c + IZR m * (2 * hp)) by ring. exact Hm.
    - exists (m - k)%Z. rewrite minus_IZR.
      replace (x + IZR k * (2 * hp) - c + (IZR m - IZR k) * (2 * hp)) with (x - c + IZR m * (2 * hp)) by ring. exact Hm.
  Qed.

  Lemma compliant_aux_rep : forall xs' xs cs ts,
    Forall2 (is_rep hp) xs' xs -> compliant_aux hp xs' cs ts = compliant_aux hp xs cs ts.
  Proof.
    intros xs' xs cs ts H. revert cs ts. induction H as [|x' x l' l Hx _ IH]; intros cs ts; [reflexivity|].
    destruct cs as [|c cs], ts as [|t ts]; try reflexivity. cbn [compliant_aux].
    rewrite (inside_bounds_rep x' x c t Hx), IH. reflexivity.
  Qed.

  Lemma compliant_opt_rep xs' xs : Forall2 (is_rep hp) xs' xs -> compliant_opt hp cons xs' = compliant_opt hp cons xs.
  Proof. intros H. unfold compliant_opt, compliant. destruct cons; [apply compliant_aux_rep; exact H | reflexivity]. Qed.

  Lemma normalize_row_rep : forall s previous, length s = length previous ->
    Forall2 (is_rep hp) (map2 (normalize_near hp) s previous) s.
  Proof.
    induction s as [|x s IH]; intros [|p previous] Hl; simpl in Hl; try discriminate; cbn [map2]; [constructor|].
    constructor; [apply normalize_near_rep | apply IH; lia].
  Qed.

  Hypothesis shift0 : forall pose, shift pose 0%nat = pose.
  Hypothesis kernel_len : forall pose s, In s (kernel pose) -> length s = 6%nat.

  Lemma sing_candidate_len previous now : length (sing_candidate hp thr sg off previous now) = 6%nat.
  Proof. reflexivity. Qed.

  Lemma raw_len pose previous s :
    In s (shifts_loop hp thr sg off cons Pose kernel shift fk_ok pose previous [0; 1; 2; 3]%nat []) -> length s = 6%nat.
  Proof.
    intros Hs. apply shifts_loop_spec in Hs. destruct Hs as [[]|[[d [_ Hs]]|[d [s0 [_ [_ [-> _]]]]]]].
    - eapply kernel_len; exact Hs.
    - apply sing_candidate_len.
  Qed.

  (** C04: every answer of plain [inverse] appears in the continuation (same 2pi-class) *)
  Theorem continuing_superset pose (sentinel : bool) prev s0 :
    dof <> 5%Z -> length (if sentinel then centers cons else prev) = 6%nat ->
    In s0 (inverse hp dof cons Pose kernel kernel5 pose) ->
    exists s, In s (inverse_continuing hp thr sg off dof cons Pose kernel kernel5 shift fk_ok pose sentinel prev)
              /\ Forall2 (is_rep hp) s s0.
  Proof.
    intros Hd Hl Hs0. unfold inverse, inverse_continuing in *.
    destruct (dof =? 5)%Z eqn:E; [apply Z.eqb_eq in E; contradiction|].
    set (previous := if sentinel then centers cons else prev) in *.
    apply filter_compliant_In in Hs0. destruct Hs0 as [Hk Hc].
    exists (map2 (normalize_near hp) s0 previous).
    assert (Hrep : Forall2 (is_rep hp) (map2 (normalize_near hp) s0 previous) s0).
    { apply normalize_row_rep. rewrite (kernel_len _ _ Hk), Hl. reflexivity. }
    split; [|exact Hrep].
    apply In_finish_continuing. split.
    - exists s0. split; [apply shifts_loop_base; assumption | reflexivity].
    - rewrite (compliant_opt_rep _ _ Hrep). exact Hc.
  Qed.

  (** C08: a continuation answer of the unconstrained solver that satisfies the limits is kept *)
  Lemma shifts_loop_keeps_compliant pose previous ds : forall acc x,
    In x (shifts_loop hp thr sg off None Pose kernel shift fk_ok pose previous ds acc) ->
    compliant_opt hp cons x = true ->
    In x (shifts_loop hp thr sg off cons Pose kernel shift fk_ok pose previous ds acc).
  Proof.
    induction ds as [|d ds IH]; intros acc x Hx Hc; [exact Hx|].
    rewrite shifts_loop_step in *. cbv zeta in *.
    set (ik := kernel (shift pose d)) in *.
    set (acc1 := match acc with [] => ik | _ => acc end) in *.
    destruct (first_singular hp thr sg off ik) as [s0|]; [|apply IH; assumption].
    set (now := sing_candidate hp thr sg off previous s0) in *.
    cbn [compliant_opt] in Hx. rewrite andb_true_r in Hx.
    destruct (fk_ok pose now) eqn:Efk; cbn [andb]; [|apply IH; assumption].
    destruct (compliant_opt hp cons now) eqn:Ec; [exact Hx|].
    apply in_app_or in Hx. destruct Hx as [Hx|[<-|[]]].
    - apply shifts_loop_keeps. exact Hx.
    - rewrite Hc in Ec. discriminate.
  Qed.

  Theorem continuing_keeps_compliant pose prev s :
    dof <> 5%Z -> length prev = 6%nat ->
    In s (inverse_continuing hp thr sg off dof None Pose kernel kernel5 shift fk_ok pose false prev) ->
    compliant_opt hp cons s = true ->
    In s (inverse_continuing hp thr sg off dof cons Pose kernel kernel5 shift fk_ok pose false prev).
  Proof.
    intros Hd Hl Hs Hc. unfold inverse_continuing in *.
    destruct (dof =? 5)%Z eqn:E; [apply Z.eqb_eq in E; contradiction|].
    apply In_finish_continuing in Hs. destruct Hs as [[s0 [Hs0 ->]] _].
    apply In_finish_continuing. split; [|exact Hc].
    exists s0. split; [|reflexivity].
    apply shifts_loop_keeps_compliant; [exact Hs0|].
    rewrite <- Hc. symmetry. apply compliant_opt_rep. apply normalize_row_rep.
    rewrite Hl.
    assert (Hs0' := Hs0). apply shifts_loop_spec in Hs0'.
    destruct Hs0' as [[]|[[d [_ H1]]|[d [s1 [_ [_ [-> _]]]]]]]; [eapply kernel_len; exact H1 | reflexivity].
  Qed.

  (** C01 at the level of the glue: every continuation answer realises the pose.
      [ok pose s]: s reproduces pose within the solver's tolerance (any relation that is invariant
      under whole turns of the joints, implied by the FK verdict, and satisfied by kernel answers). *)
  Variable ok : Pose -> list R -> Prop.
  Hypothesis ok_rep : forall pose s' s, Forall2 (is_rep hp) s' s -> ok pose s -> ok pose s'.
  Hypothesis ok_fk : forall pose s, fk_ok pose s = true -> ok pose s.
  Hypothesis ok_kernel : forall pose s, In s (kernel pose) -> ok pose s.

  Theorem inverse_sound pose s :
    dof <> 5%Z -> In s (inverse hp dof cons Pose kernel kernel5 pose) -> ok pose s.
  Proof.
    intros Hd. unfold inverse. destruct (dof =? 5)%Z eqn:E; [apply Z.eqb_eq in E; contradiction|].
    intros Hs. apply filter_compliant_In in Hs. apply ok_kernel. tauto.
  Qed.

  (** once the accumulator is non-empty, kernel rows of later shifts are not adopted *)
  Lemma shifts_loop_nonempty pose previous ds : forall acc s,
    acc <> [] ->
    In s (shifts_loop hp thr sg off cons Pose kernel shift fk_ok pose previous ds acc) ->
    In s acc \/
    (exists d s0, In d ds /\ s = sing_candidate hp thr sg off previous s0 /\ fk_ok pose s = true).
  Proof.
    induction ds as [|d ds IH]; intros acc s Hne; [left; assumption|].
    rewrite shifts_loop_step. cbv zeta.
    assert (Hacc1 : match acc with [] => kernel (shift pose d) | _ => acc end = acc)
      by (destruct acc; [contradiction | reflexivity]).
    rewrite Hacc1.
    destruct (first_singular hp thr sg off (kernel (shift pose d))) as [s1|].
    - destruct (fk_ok pose (sing_candidate hp thr sg off previous s1)) eqn:Efk; cbn [andb].
      + destruct (compliant_opt hp cons _).
        * intros Hs. apply in_app_or in Hs. destruct Hs as [H1|[<-|[]]]; [left; exact H1|].
          right. exists d, s1. split; [left; reflexivity|]. split; [reflexivity | exact Efk].
        * intros Hs. apply IH in Hs; [|exact Hne]. destruct Hs as [H1|[d' [s2 [Hd' H2]]]]; [left; exact H1|].
          right. exists d', s2. split; [right; exact Hd' | exact H2].
      + intros Hs. apply IH in Hs; [|exact Hne]. destruct Hs as [H1|[d' [s2 [Hd' H2]]]]; [left; exact H1|].
        right. exists d', s2. split; [right; exact Hd' | exact H2].
    - intros Hs. apply IH in Hs; [|exact Hne]. destruct Hs as [H1|[d' [s2 [Hd' H2]]]]; [left; exact H1|].
      right. exists d', s2. split; [right; exact Hd' | exact H2].
  Qed.

  Theorem continuing_sound pose (sentinel : bool) prev s :
    dof <> 5%Z -> length (if sentinel then centers cons else prev) = 6%nat ->
    In s (inverse_continuing hp thr sg off dof cons Pose kernel kernel5 shift fk_ok pose sentinel prev) ->
    ok pose s \/ (kernel pose = [] /\ exists d, In d [1; 2; 3]%nat /\ ok (shift pose d) s).
  Proof.
    intros Hd Hl. unfold inverse_continuing. destruct (dof =? 5)%Z eqn:E; [apply Z.eqb_eq in E; contradiction|].
    set (previous := if sentinel then centers cons else prev) in *.
    intros Hs. apply In_finish_continuing in Hs. destruct Hs as [[s0 [Hs0 ->]] _].
    assert (Hlen : length s0 = 6%nat) by (eapply raw_len; exact Hs0).
    assert (Hrep : Forall2 (is_rep hp) (map2 (normalize_near hp) s0 previous) s0)
      by (apply normalize_row_rep; rewrite Hlen, Hl; reflexivity).
    rewrite shifts_loop_step in Hs0. cbv zeta in Hs0. rewrite shift0 in Hs0.
    destruct (kernel pose) as [|k0 kl] eqn:Ek.
    - (* nothing at the unshifted pose: answers may be adopted from a shifted pose *)
      cbn [first_singular] in Hs0. apply shifts_loop_spec in Hs0.
      destruct Hs0 as [[]|[[d [Hd' H1]]|[d [s1 [_ [_ [-> [Hfk _]]]]]]]].
      + right. split; [reflexivity|]. exists d. split; [exact Hd'|].
        eapply ok_rep; [exact Hrep|]. apply ok_kernel. exact H1.
      + left. eapply ok_rep; [exact Hrep|]. apply ok_fk. exact Hfk.
    - left. eapply ok_rep; [exact Hrep|].
      assert (Hbase : forall x, In x (k0 :: kl) -> ok pose x) by (intros x Hx; apply ok_kernel; rewrite Ek; exact Hx).
      assert (Hne : k0 :: kl <> []) by discriminate.
      assert (Hrest : In s0 (shifts_loop hp thr sg off cons Pose kernel shift fk_ok pose previous [1; 2; 3]%nat (k0 :: kl)) -> ok pose s0).
      { intros H. apply shifts_loop_nonempty in H; [|exact Hne].
        destruct H as [H1|[d [s2 [_ [-> Hfk]]]]]; [apply Hbase; exact H1 | apply ok_fk; exact Hfk]. }
      destruct (first_singular hp thr sg off (k0 :: kl)) as [s1|]; [|apply Hrest; exact Hs0].
      destruct (fk_ok pose (sing_candidate hp thr sg off previous s1)) eqn:Efk; cbn [andb] in Hs0; [|apply Hrest; exact Hs0].
      destruct (compliant_opt hp cons _); [|apply Hrest; exact Hs0].
      apply in_app_or in Hs0. destruct Hs0 as [H1|[<-|[]]]; [apply Hbase; exact H1 | apply ok_fk; exact Efk].
  Qed.

  (** the 5-DOF entry points: answers are kernel answers up to whole turns *)
  Hypothesis kernel5_len : forall pose j6 s, In s (kernel5 pose j6) -> length s = 6%nat.
  Variable ok5 : Pose -> list R -> Prop.
  Hypothesis ok5_rep : forall pose s' s, Forall2 (is_rep hp) s' s -> ok5 pose s -> ok5 pose s'.
  Hypothesis ok5_kernel : forall pose j6 s, In s (kernel5 pose j6) -> ok5 pose s.

  Theorem inverse_5dof_sound pose j6 s : In s (inverse_5dof hp cons Pose kernel5 pose j6) -> ok5 pose s.
  Proof. unfold inverse_5dof. intros Hs. apply filter_compliant_In in Hs. eapply ok5_kernel. apply Hs. Qed.

  Theorem continuing_5dof_sound pose (sentinel : bool) prev s :
    length (if sentinel then centers cons else prev) = 6%nat ->
    In s (inverse_continuing_5dof hp cons Pose kernel5 pose sentinel prev) -> ok5 pose s.
  Proof.
    intros Hl. unfold inverse_continuing_5dof. intros Hs.
    apply In_finish_continuing in Hs. destruct Hs as [[s0 [Hs0 ->]] _].
    eapply ok5_rep; [|eapply ok5_kernel; exact Hs0].
    apply normalize_row_rep. rewrite (kernel5_len _ _ _ Hs0), Hl. reflexivity.
  Qed.
End EntryR3.
