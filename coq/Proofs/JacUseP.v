(** C15: velocities / torques computed from the Jacobian matrix. *)
From Coq Require Import ZArith Reals Lra Lia List Bool.
From VF Require Import Base.Num Model.JacUse.
Import ListNotations.
Open Scope R_scope.

Definition shape6 (J : list (list R)) : Prop := length J = 6%nat /\ Forall (fun r => length r = 6%nat) J.

Ltac d6 l := destruct l as [|? [|? [|? [|? [|? [|? [|? ?]]]]]]]; try discriminate.
Ltac shape6_destruct J HJ :=
  destruct HJ as [HJl HJr]; d6 J; clear HJl;
  repeat match goal with H : Forall _ (_ :: _) |- _ => inversion H; clear H; subst end;
  repeat match goal with H : length ?r = 6%nat |- _ => d6 r; clear H end.

Ltac numR := repeat (unfold dot, mulv, torques, transpose, col, n0; cbn [map seq combine fold_right nth fst snd]); rsimp.

Ltac list_ring := repeat (apply (f_equal2 (@cons R)); [ring|]); reflexivity.

(** virtual work: the joint torques do the same work on any joint velocity as the wrench does on the twist it produces *)
Theorem torques_virtual_work J F qd : shape6 J -> length F = 6%nat -> length qd = 6%nat ->
  dot (torques J F) qd = dot F (mulv J qd).
Proof.
  intros HJ HF Hq. shape6_destruct J HJ. numR. ring.
Qed.

(** the k-th unit wrench reads out the k-th row of the matrix (how the harness recovers the private matrix) *)
Definition unit6 (k : nat) : list R := map (fun i => if Nat.eqb i k then 1 else 0) (seq 0 6).
Theorem torques_unit_row J (k : nat) : shape6 J -> (k < 6)%nat -> torques J (unit6 k) = nth k J [].
Proof.
  intros HJ Hk. shape6_destruct J HJ. unfold unit6.
  destruct k as [|[|[|[|[|[|k]]]]]]; try lia; numR; cbn [Nat.eqb]; list_ring.
Qed.

(** torques are linear in the wrench *)
Theorem torques_linear J (a : R) F G : shape6 J -> length F = 6%nat -> length G = 6%nat ->
  torques J (map (fun p => a * fst p + snd p) (combine F G)) = map (fun p => a * fst p + snd p) (combine (torques J F) (torques J G)).
Proof.
  intros HJ HF HG. shape6_destruct J HJ. numR. cbn [Nat.eqb]. list_ring.
Qed.

Section Vel.
  Variable try_inverse pseudo_inverse : list (list R) -> option (list (list R)).
  (** contract of nalgebra's try_inverse: a returned matrix is a right inverse *)
  Hypothesis try_inverse_ok : forall J Ji, try_inverse J = Some Ji -> forall X, length X = 6%nat -> mulv J (mulv Ji X) = X.

  (** when the matrix is invertible the returned joint velocities reproduce the requested twist through the Jacobian *)
  Theorem velocities_reproduce J X v : length X = 6%nat -> try_inverse J <> None ->
    velocities try_inverse pseudo_inverse J X = Some v -> mulv J v = X.
  Proof.
    unfold velocities. intros HX Hn. destruct (try_inverse J) as [Ji|] eqn:E; [|contradiction].
    intros Hv. injection Hv as <-. apply (try_inverse_ok J Ji E X HX).
  Qed.

  (** an error is reported only when neither the inverse nor the pseudo-inverse exists *)
  Theorem velocities_error_iff J X : velocities try_inverse pseudo_inverse J X = None <-> try_inverse J = None /\ pseudo_inverse J = None.
  Proof.
    unfold velocities. destruct (try_inverse J); [split; [discriminate | intros [? _]; discriminate]|].
    destruct (pseudo_inverse J); [split; [discriminate | intros [_ ?]; discriminate] | tauto].
  Qed.

  (** the isometry and fixed entry points are the vector entry point on the converted argument *)
  Theorem entry_points_agree (Iso : Type) (vec_of : Iso -> list R) J d vx vy vz :
    velocities_iso try_inverse pseudo_inverse Iso vec_of J d = velocities try_inverse pseudo_inverse J (vec_of d) /\
    torques_iso Iso vec_of J d = torques J (vec_of d) /\
    velocities_fixed try_inverse pseudo_inverse J vx vy vz = velocities try_inverse pseudo_inverse J [vx; vy; vz; 0; 0; 0].
  Proof. repeat split. Qed.
End Vel.

(** non-vacuity: the identity matrix with itself as inverse meets the contract *)
Definition I6 : list (list R) := map unit6 (seq 0 6).
Example identity_contract X : length X = 6%nat -> mulv I6 (mulv I6 X) = X.
Proof. intros HX. d6 X. unfold I6, unit6. numR. cbn [Nat.eqb]. list_ring. Qed.
