(** C12: properties of the stroke-planner model (T := R), for every IK / RRT / interpolation oracle and scheduling choice. *)
From Coq Require Import ZArith Reals Lra Lia List Bool.
From VF Require Import Base.Num Model.Stroke.
Import ListNotations.
Open Scope R_scope.

Lemma last_default_irrel {A} (l : list A) d d' : l <> [] -> last l d = last l d'.
Proof. induction l as [|a [|b l] IH]; intros H; [contradiction | reflexivity |]. cbn [last] in *. apply IH. discriminate. Qed.

Lemma last_cons_ne {A} (a : A) l d : l <> [] -> last (a :: l) d = last l d.
Proof. destruct l; [contradiction | reflexivity]. Qed.
Lemma last_app2 {A} (l1 l2 : list A) d : l2 <> [] -> last (l1 ++ l2) d = last l2 (last l1 d).
Proof.
  intros Hne. rewrite (last_default_irrel l2 (last l1 d) d Hne).
  induction l1 as [|a l1 IH]; [reflexivity|]. cbn [app].
  rewrite last_cons_ne; [exact IH|]. intros E. apply app_eq_nil in E. destruct E; contradiction.
Qed.

Section StrokeR.
  Variable Pose : Type.
  Variable ik : Pose -> list R -> list (list R).
  Variable mid : Pose -> Pose -> Pose.
  Variable coef : list R.
  Variable max_cost : R.
  Notation tc := (tcost (T:=R) coef).
  Notation adaptive := (adaptive (T:=R) Pose ik mid coef max_cost).

  (** consecutive way-points, starting from [s], cost at most [max_cost] *)
  Fixpoint chain_ok (s : list R) (l : list (list R)) : Prop :=
    match l with [] => True | x :: r => tc s x <= max_cost /\ chain_ok x r end.

  Lemma chain_ok_app s l1 l2 : chain_ok s l1 -> chain_ok (last l1 s) l2 -> chain_ok s (l1 ++ l2).
  Proof.
    revert s. induction l1 as [|x l1 IH]; intros s H1 H2; [exact H2|].
    destruct H1 as [Hc H1]. cbn [app chain_ok]. split; [exact Hc|]. apply IH; [exact H1|].
    destruct l1 as [|y l1]; [exact H2|]. change (last (x :: y :: l1) s) with (last (y :: l1) s) in H2. rewrite (last_default_irrel (y :: l1) x s) by discriminate. exact H2.
  Qed.

  Lemma first_ok_spec s sols x : first_ok (T:=R) coef max_cost s sols = Some x -> In x sols /\ tc s x <= max_cost.
  Proof.
    unfold first_ok. intros Hf. apply find_some in Hf. destruct Hf as [Hin Hc]. split; [exact Hin|].
    rsimp. apply Rleb_true. exact Hc.
  Qed.

  (** positions on the segment between two poses reachable by repeated halving *)
  Inductive OnSeg (a b : Pose) : Pose -> Prop :=
  | OnSeg_end : OnSeg a b b
  | OnSeg_left p : OnSeg a (mid a b) p -> OnSeg a b p
  | OnSeg_right p : OnSeg (mid a b) b p -> OnSeg a b p.

  (** every way-point of an adaptive transition is an IK answer (hence collision-free and within limits by the
      solver's contract) for a pose on the segment, the last one for the target pose itself; the chain respects the cost *)
  Theorem adaptive_spec budget : forall s from to l, adaptive budget s from to = Some l ->
    l <> [] /\ chain_ok s l /\
    Forall (fun x => exists p prev, OnSeg from to p /\ In x (ik p prev)) l /\
    (exists prev, In (last l s) (ik to prev)).
  Proof.
    induction budget as [|b IH]; intros s from to l; cbn [Stroke.adaptive].
    - destruct (first_ok coef max_cost s (ik to s)) as [x|] eqn:E; [|discriminate].
      intros [= <-]. apply first_ok_spec in E. destruct E as [Hin Hc].
      split; [discriminate|]. split; [split; [exact Hc | exact I]|]. split.
      + constructor; [|constructor]. exists to, s. split; [constructor | exact Hin].
      + exists s. exact Hin.
    - destruct (first_ok coef max_cost s (ik to s)) as [x|] eqn:E.
      + intros [= <-]. apply first_ok_spec in E. destruct E as [Hin Hc].
        split; [discriminate|]. split; [split; [exact Hc | exact I]|]. split.
        * constructor; [|constructor]. exists to, s. split; [constructor | exact Hin].
        * exists s. exact Hin.
      + destruct (adaptive b s from (mid from to)) as [t1|] eqn:E1; [|discriminate].
        destruct (adaptive b (last t1 s) (mid from to) to) as [t2|] eqn:E2; [|discriminate].
        intros [= <-]. apply IH in E1. apply IH in E2.
        destruct E1 as (N1 & C1 & A1 & L1). destruct E2 as (N2 & C2 & A2 & L2).
        split; [destruct t1; [contradiction | discriminate]|].
        split; [apply chain_ok_app; assumption|]. split.
        * apply Forall_app. split.
          -- eapply Forall_impl; [|exact A1]. intros x [p [prev [Hp Hx]]]. exists p, prev. split; [apply OnSeg_left; exact Hp | exact Hx].
          -- eapply Forall_impl; [|exact A2]. intros x [p [prev [Hp Hx]]]. exists p, prev. split; [apply OnSeg_right; exact Hp | exact Hx].
        * destruct L2 as [prev Hl]. exists prev.
          assert (El : last (t1 ++ t2) s = last t2 (last t1 s)) by (apply last_app2; exact N2).
          rewrite El. exact Hl.
  Qed.

  (** * pose schedule *)
  Variable densify : Pose -> Pose -> list Pose.
  Notation wip := (with_intermediate_poses Pose densify).

  (** the schedule: LAND, then for every stroke pose its interpolations followed by the TRACE pose, then the
      interpolations towards PARK and the PARK pose; only interpolated poses carry the LIN_INTERP flag *)
  Theorem poses_key_order land steps park :
    filter (fun a => negb (Z.eqb (snd a) F_INTERP)) (wip land steps park) =
    (land, F_LAND) :: map (fun s => (s, F_TRACE)) steps ++ [(park, F_PARK)].
  Proof.
    unfold with_intermediate_poses. cbn [filter snd]. change (F_LAND =? F_INTERP)%Z with false. cbn [negb]. f_equal.
    assert (Hint : forall a b, filter (fun a : Pose * Z => negb (snd a =? F_INTERP)%Z) (interp_of Pose densify a b) = []).
    { intros a b. unfold interp_of. induction (densify a b) as [|p l IHl]; [reflexivity|]. cbn [map filter snd].
      change (F_INTERP =? F_INTERP)%Z with true. cbn [negb]. exact IHl. }
    revert land. induction steps as [|s rest IH]; intros cur; cbn [stroke_poses map app].
    - rewrite filter_app, Hint. cbn [filter snd app]. reflexivity.
    - rewrite filter_app, Hint. cbn [filter snd app]. change (F_TRACE =? F_INTERP)%Z with false. cbn [negb]. f_equal. apply IH.
  Qed.

  (** * probing a strategy *)
  Variable rrt : list R -> list R -> option (list (list R)).
  Variable budget0 : nat.
  Notation probe_loop := (probe_loop (T:=R) Pose ik mid coef max_cost rrt budget0).

  (** where a way-point may come from *)
  Definition wp_ok (strategy : list R) (x : list R) : Prop :=
    x = strategy \/ (exists p prev, In x (ik p prev)) \/ (exists a b path, rrt a b = Some path /\ In x path).

  Lemma first_rrt_spec prev sols path : first_rrt (T:=R) rrt prev sols = Some path -> exists next, In next sols /\ rrt prev next = Some path.
  Proof.
    induction sols as [|n r IH]; cbn [first_rrt]; [discriminate|].
    destruct (rrt prev n) as [p|] eqn:E.
    - intros [= <-]. exists n. split; [left; reflexivity | exact E].
    - intros Hf. destruct (IH Hf) as [next [Hin Hr]]. exists next. split; [right; exact Hin | exact Hr].
  Qed.

  Lemma flag_ext_fst ext f : map fst (flag_ext (T:=R) ext f) = ext.
  Proof. induction ext as [|s [|s' r] IH]; [reflexivity | reflexivity |]. cbn [flag_ext map fst] in *. f_equal. exact IH. Qed.

  Theorem probe_loop_waypoints strategy : forall rest from trace prev tr,
    Forall (fun a => wp_ok strategy (fst a)) trace ->
    probe_loop from rest trace prev = Some tr -> Forall (fun a => wp_ok strategy (fst a)) tr.
  Proof.
    induction rest as [|to rest IH]; intros from trace prev tr Ht; cbn [Stroke.probe_loop]; [intros [= <-]; exact Ht|].
    destruct (adaptive budget0 prev (fst from) (fst to)) as [ext|] eqn:Ea.
    - apply IH. apply Forall_app. split; [exact Ht|].
      apply adaptive_spec in Ea. destruct Ea as (_ & _ & Ha & _).
      apply Forall_forall. intros a Hin. rewrite Forall_forall in Ha.
      assert (Hf : In (fst a) ext) by (rewrite <- (flag_ext_fst ext (snd to)); apply in_map; exact Hin).
      destruct (Ha _ Hf) as [p [pv [_ Hx]]]. right; left. exists p, pv. exact Hx.
    - destruct (first_rrt rrt prev (ik (fst to) prev)) as [path|] eqn:Er; [|discriminate].
      apply IH. apply Forall_app. split; [exact Ht|].
      apply first_rrt_spec in Er. destruct Er as [next [_ Hr]].
      apply Forall_forall. intros a Hin. apply in_map_iff in Hin. destruct Hin as [x [<- Hx]]. cbn [fst].
      right; right. exists prev, next, path. split; assumption.
  Qed.

  (** interpolated way-points are present only when requested *)
  Theorem probe_no_interp_unless_requested start strategy poses stopped tr :
    probe_strategy (T:=R) Pose ik mid coef max_cost rrt budget0 false start strategy poses stopped = Some tr ->
    Forall (fun a => Z.testbit (snd a) 3 = false) tr.
  Proof.
    unfold probe_strategy. destruct (rrt start strategy) as [onb|]; [|discriminate]. destruct poses as [|p0 rest].
    - intros [= <-]. unfold onboard. apply Forall_app. split; [|constructor; [reflexivity | constructor]].
      apply Forall_forall. intros a Ha. apply in_map_iff in Ha. destruct Ha as [x [<- _]]. reflexivity.
    - destruct (probe_loop p0 rest (onboard onb strategy) strategy) as [t|]; [|discriminate].
      destruct stopped; [discriminate|]. intros [= <-].
      apply Forall_forall. intros a Ha. apply filter_In in Ha. destruct Ha as [_ Hb]. apply negb_true_iff in Hb. exact Hb.
  Qed.

  (** a raised stop flag never yields a path *)
  Theorem probe_stopped include start strategy poses : poses <> [] ->
    probe_strategy (T:=R) Pose ik mid coef max_cost rrt budget0 include start strategy poses true = None.
  Proof.
    intros Hne. unfold probe_strategy. destruct (rrt start strategy) as [onb|]; [|reflexivity]. destruct poses as [|p0 rest]; [contradiction|].
    destruct (probe_loop p0 rest (onboard onb strategy) strategy); reflexivity.
  Qed.

  (** * planning: success does not depend on the scheduling choice *)
  Variable include_interp : bool.
  Variable start_collides : bool.
  Variable choose : list (list (list R * Z)) -> option (list (list R * Z)).
  Variable stop_seen : list R -> bool.
  Hypothesis choose_ok : forall l, (choose l = None <-> l = []) /\ (forall p, choose l = Some p -> In p l).
  Notation plan := (plan (T:=R) Pose ik mid coef max_cost densify rrt budget0 include_interp start_collides choose stop_seen).
  Notation probe := (probe_strategy (T:=R) Pose ik mid coef max_cost rrt budget0 include_interp).

  Lemma filter_map_o_In {A B} (f : A -> option B) l y : In y (filter_map_o f l) <-> exists x, In x l /\ f x = Some y.
  Proof.
    induction l as [|a l IH]; cbn [filter_map_o]; [split; [intros [] | intros [x [[] _]]]|].
    destruct (f a) as [b|] eqn:E.
    - simpl. rewrite IH. split.
      + intros [<-|[x [Hx Hf]]]; [exists a; split; [left; reflexivity | exact E] | exists x; split; [right; exact Hx | exact Hf]].
      + intros [x [[<-|Hx] Hf]]; [left; congruence | right; exists x; split; assumption].
    - rewrite IH. split.
      + intros [x [Hx Hf]]. exists x. split; [right; exact Hx | exact Hf].
      + intros [x [[<-|Hx] Hf]]; [congruence | exists x; split; assumption].
  Qed.

  Theorem plan_success_iff from land steps park :
    (exists tr, plan from land steps park = Some tr) <->
    start_collides = false /\
    exists s tr, In s (ik land from) /\ probe from s (wip land steps park) (stop_seen s) = Some tr.
  Proof.
    unfold Stroke.plan. destruct start_collides; [split; [intros [tr H]; discriminate | intros [H _]; discriminate]|].
    set (hits := filter_map_o (fun s => probe from s (wip land steps park) (stop_seen s)) (ik land from)).
    destruct (choose_ok hits) as [Hn Hin]. split.
    - intros [tr Hp]. split; [reflexivity|]. destruct (ik land from) as [|s0 r] eqn:Ek; [discriminate|].
      apply Hin in Hp. apply filter_map_o_In in Hp. destruct Hp as [s [Hs Hf]]. exists s, tr. split; [exact Hs | exact Hf].
    - intros [_ [s [tr [Hs Hf]]]]. destruct (ik land from) as [|s0 r] eqn:Ek; [destruct Hs|].
      destruct (choose hits) as [t|] eqn:Ec; [exists t; reflexivity|].
      exfalso. assert (Ee : hits = []) by (apply Hn; reflexivity). assert (Hx : In tr hits) by (apply filter_map_o_In; exists s; split; assumption).
      rewrite Ee in Hx. destruct Hx.
  Qed.

  (** whatever strategy wins, the returned plan is the plan of SOME strategy (so it has all per-strategy properties) *)
  Theorem plan_is_a_probe from land steps park tr :
    plan from land steps park = Some tr ->
    exists s, In s (ik land from) /\ probe from s (wip land steps park) (stop_seen s) = Some tr.
  Proof.
    unfold Stroke.plan. destruct start_collides; [discriminate|]. destruct (ik land from) as [|s0 r] eqn:Ek; [discriminate|].
    intros Hp. destruct (choose_ok (filter_map_o (fun s => probe from s (wip land steps park) (stop_seen s)) (s0 :: r))) as [_ Hin].
    apply Hin in Hp. apply filter_map_o_In in Hp. exact Hp.
  Qed.
End StrokeR.

(** * densification: interpolated poses sit strictly inside the segment, evenly spaced *)
Lemma inter_coord_on_segment (x0 dx : R) (steps i : nat) : (1 <= i)%nat -> (i < steps)%nat ->
  exists lam, 0 < lam < 1 /\ inter_coord (T:=R) x0 dx steps i = x0 + lam * dx /\ lam = INR i / INR steps.
Proof.
  intros Hi Hs. exists (INR i / INR steps).
  assert (Hs0 : 0 < INR steps) by (apply lt_0_INR; lia). assert (Hi0 : 0 < INR i) by (apply lt_0_INR; lia).
  assert (Hlt : INR i < INR steps) by (apply lt_INR; exact Hs).
  split; [split; [apply Rdiv_lt_0_compat; assumption | apply (Rmult_lt_reg_r (INR steps)); [exact Hs0|]; unfold Rdiv; rewrite Rmult_assoc, Rinv_l by lra; lra]|].
  split; [|reflexivity]. unfold inter_coord. rsimp. rewrite <- !INR_IZR_INZ. field. lra.
Qed.

Lemma nsteps_ge1 (d th sm sr : R) : (1 <= nsteps (T:=R) d th sm sr)%nat.
Proof. unfold nsteps. lia. Qed.

(** enough sub-steps: each sub-step is at most check_step_m long and check_step_rad wide *)
Lemma nceilN_ge (x : R) : x <= INR (nceilN (T:=R) x).
Proof.
  unfold nceilN. rsimp. set (z := Rfloor (- x)). destruct (Rfloor_spec (- x)) as [F1 F2]. fold z in F1, F2.
  destruct (Z_le_gt_dec 0 (- z)) as [Hz|Hz].
  - rewrite INR_IZR_INZ, Z2Nat.id by exact Hz. rewrite opp_IZR. lra.
  - assert (Z.to_nat (- z) = 0%nat) by lia.
    rewrite H. simpl. assert (0 < IZR z) by (apply (IZR_lt 0); lia). lra.
Qed.

Theorem nsteps_fine (d th sm sr : R) : 0 < sm -> 0 < sr ->
  d / INR (nsteps (T:=R) d th sm sr) <= sm \/ d <= 0.
Proof.
  intros Hm Hr. destruct (Rle_dec d 0) as [Hd|Hd]; [right; exact Hd|left].
  set (n := nsteps d th sm sr). assert (Hn : (Nat.max (nceilN (T:=R) (d / sm)%R) 1 <= n)%nat) by (unfold n, nsteps; rsimp; lia).
  assert (Hx : d / sm <= INR n).
  { pose proof (nceilN_ge (d / sm)). assert (INR (nceilN (T:=R) (d / sm)) <= INR n) by (apply le_INR; lia). rsimp. lra. }
  assert (Hn0 : 0 < INR n) by (apply lt_0_INR; unfold n, nsteps; lia).
  apply (Rmult_le_reg_r (INR n)); [exact Hn0|]. unfold Rdiv in *. rewrite Rmult_assoc, Rinv_l by lra.
  apply (Rmult_le_compat_r sm) in Hx; [|lra]. rewrite Rmult_assoc, Rinv_l in Hx by lra. lra.
Qed.
