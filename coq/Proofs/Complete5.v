(** C06 completeness: the 5-DOF branch table is the 6-DOF one without its J6 column; the originating J1..J5 is returned. *)
From Coq Require Import ZArith Reals Lra Lia List Bool.
From VF Require Import Base.Num Base.Lin Base.Angles Model.Constraints Model.Kin Model.Finish Gen.Forward Gen.Inverse
                       Proofs.ConstraintsP Proofs.KinP Proofs.ForwardP Proofs.FinishP Proofs.SoundP Proofs.CompleteP Proofs.CompleteK.
Import ListNotations.
Open Scope R_scope.

Lemma table5_is_table6 p pose : ik_theta5_def p pose = map (firstn 5) (ik_theta_def p pose).
Proof. reflexivity. Qed.

Lemma forallb_firstn {A} (f : A -> bool) (n : nat) (l : list A) : forallb f l = true -> forallb f (firstn n l) = true.
Proof.
  revert n. induction l as [|x l IH]; intros [|n] H; try reflexivity. cbn [firstn forallb] in *.
  apply andb_true_iff in H. destruct H as [H1 H2]. rewrite H1, (IH n H2). reflexivity.
Qed.

(** the tool point does not depend on J6 *)
Lemma tip_j6 p a b c d e x y : tr (fwd p (mkJ6 a b c d e x)) = tr (fwd p (mkJ6 a b c d e y)).
Proof.
  rewrite !fwd_eq_spec. cbv [fk_spec L1 L2 L3 L4 L5 L6 E1 E2 E3 E4 E5 E6 qint j1 j2 j3 j4 j5 j6].
  apply V3_eq; lin_unfold; ring.
Qed.

Section Kernel5Complete.
  Variables (p : Lin.Params) (j : J6) (j6c : R).
  Variable compare_xyz : Iso -> Iso -> bool.
  (** the position comparison accepts equal positions *)
  Hypothesis xyz_refl : forall a b, tr a = tr b -> compare_xyz a b = true.
  Hypothesis Hsg : (p_sg1 p = 1 \/ p_sg1 p = -1)%Z /\ (p_sg2 p = 1 \/ p_sg2 p = -1)%Z /\ (p_sg3 p = 1 \/ p_sg3 p = -1)%Z /\
                   (p_sg4 p = 1 \/ p_sg4 p = -1)%Z /\ (p_sg5 p = 1 \/ p_sg5 p = -1)%Z.
  Let q := qint p j.
  Hypothesis Hkap : 0 < p_a2 p * p_a2 p + p_c3 p * p_c3 p.
  Hypothesis Hc2 : p_c2 p <> 0.
  Hypothesis HS : 0 < aX (p_a2 p) (p_c2 p) (p_c3 p) (j2 q) (j3 q) * aX (p_a2 p) (p_c2 p) (p_c3 p) (j2 q) (j3 q) +
                      aZ (p_a2 p) (p_c2 p) (p_c3 p) (j2 q) (j3 q) * aZ (p_a2 p) (p_c2 p) (p_c3 p) (j2 q) (j3 q).
  Hypothesis Hcx1 : aX (p_a2 p) (p_c2 p) (p_c3 p) (j2 q) (j3 q) + p_a1 p <> 0.
  Hypothesis H5 : sin (j5 q) <> 0.

  Theorem kernel5_complete :
    exists s5, In (s5 ++ [j6c]) (the_kernel5 p compare_xyz (ik_theta5_def p) (fwd p j) j6c) /\
               Forall2 (is_rep PI) s5 [j1 j; j2 j; j3 j; j4 j; j5 j].
  Proof.
    destruct (table_complete p q Hkap Hc2 HS Hcx1 H5) as [back [down [flip [Hv Hd]]]].
    assert (Epose : fwd p j = L6 p q) by (rewrite fwd_eq_spec; reflexivity).
    set (pose := L6 p q) in *.
    set (k := row_index back down flip) in *.
    set (rw := List.nth k (ik_theta_def p pose) []) in *.
    assert (Hk : (k < 8)%nat) by (unfold k, row_index; destruct back, down, flip; simpl; lia).
    assert (Hin : In (firstn 5 rw) (ik_theta5_def p pose)).
    { rewrite table5_is_table6. apply in_map. apply nth_In.
      replace (length (ik_theta_def p pose)) with 8%nat; [exact Hk|]. unfold ik_theta_def. cbv zeta. reflexivity. }
    assert (Hfst : map fst rw = row p pose back down flip).
    { unfold rw. rewrite <- nth_row, <- def_values. rewrite <- (map_nth (map fst)). reflexivity. }
    remember (row p pose back down flip) as r6 eqn:Er.
    assert (Hlen : exists t1 t2 t3 t4 t5 t6, r6 = [t1; t2; t3; t4; t5; t6]) by (rewrite Er; unfold row; cbv zeta; repeat eexists).
    destruct Hlen as [t1 [t2 [t3 [t4 [t5 [t6 E6]]]]]]. rewrite E6 in Hv, Hfst.
    inversion Hv as [|? ? ? ? S1 Hv1]; subst. inversion Hv1 as [|? ? ? ? S2 Hv2]; subst. inversion Hv2 as [|? ? ? ? S3 Hv3]; subst.
    inversion Hv3 as [|? ? ? ? S4 Hv4]; subst. inversion Hv4 as [|? ? ? ? S5 Hv5]; subst.
    destruct Hsg as [G1 [G2 [G3 [G4 G5]]]].
    set (s5 := [wrap_pi PI ((t1 + p_off1 p) * IZR (p_sg1 p)); wrap_pi PI ((t2 + p_off2 p) * IZR (p_sg2 p));
                wrap_pi PI ((t3 + p_off3 p) * IZR (p_sg3 p)); wrap_pi PI ((t4 + p_off4 p) * IZR (p_sg4 p));
                wrap_pi PI ((t5 + p_off5 p) * IZR (p_sg5 p))]).
    assert (Hrep : Forall2 (is_rep PI) s5 [j1 j; j2 j; j3 j; j4 j; j5 j]).
    { unfold s5. unfold q, qint in S1, S2, S3, S4, S5. cbn [j1 j2 j3 j4 j5 j6] in S1, S2, S3, S4, S5.
      repeat (apply Forall2_cons; [apply back_to_joint; assumption|]). apply Forall2_nil. }
    exists s5. split; [|exact Hrep].
    rewrite Epose.
    assert (Hex : ext_row5 PI (map IZR [p_sg1 p; p_sg2 p; p_sg3 p; p_sg4 p; p_sg5 p; p_sg6 p])
                    [p_off1 p; p_off2 p; p_off3 p; p_off4 p; p_off5 p; p_off6 p] j6c (firstn 5 rw) = Some (s5 ++ [j6c])).
    { unfold ext_row5. rewrite (forallb_firstn snd 5 rw Hd).
      assert (Ef : map fst (firstn 5 rw) = [t1; t2; t3; t4; t5]) by (rewrite <- firstn_map, Hfst; reflexivity).
      rewrite Ef. reflexivity. }
    unfold the_kernel5.
    generalize dependent (firstn 5 rw). intros r5 Hin Hex.
    induction (ik_theta5_def p pose) as [|r0 rest IH]; [destruct Hin|].
    cbn [finish5]. destruct Hin as [<-|Hin].
    - rewrite Hex.
      assert (Hok : compare_xyz pose (fwd p (j6_of (s5 ++ [j6c]))) = true).
      { apply xyz_refl. rewrite <- Epose.
        assert (Hr6 : Forall2 (is_rep PI) (s5 ++ [j6c]) ([j1 j; j2 j; j3 j; j4 j; j5 j] ++ [j6c])).
        { apply Forall2_app; [exact Hrep | constructor; [apply is_rep_refl | constructor]]. }
        rewrite (fwd_periodic p _ _ Hr6). destruct j as [a b c d e x]. cbn [j1 j2 j3 j4 j5 app j6_of List.nth]. apply tip_j6. }
      rewrite Hok. left. reflexivity.
    - specialize (IH Hin). destruct (ext_row5 _ _ _ _ r0) as [s'|]; [destruct (compare_xyz _ _); [right|]; exact IH | exact IH].
  Qed.

  (** [inverse_5dof]: the originating J1..J5 (up to whole turns) with the caller's J6 is returned when within the limits *)
  Theorem inverse_5dof_complete (cons : option (@Constraints R)) :
    compliant_opt PI cons ([j1 j; j2 j; j3 j; j4 j; j5 j] ++ [j6c]) = true ->
    exists s5, In (s5 ++ [j6c]) (inverse_5dof PI cons Iso (the_kernel5 p compare_xyz (ik_theta5_def p)) (fwd p j) j6c) /\
               Forall2 (is_rep PI) s5 [j1 j; j2 j; j3 j; j4 j; j5 j].
  Proof.
    intros Hc. destruct kernel5_complete as [s5 [Hs Hr]]. exists s5. split; [|exact Hr].
    unfold inverse_5dof. apply filter_compliant_In. split; [exact Hs|].
    rewrite (compliant_opt_rep PI PI_RGT_0 cons (s5 ++ [j6c]) ([j1 j; j2 j; j3 j; j4 j; j5 j] ++ [j6c])); [exact Hc|].
    apply Forall2_app; [exact Hr | constructor; [apply is_rep_refl | constructor]].
  Qed.
End Kernel5Complete.
