(** C10 / C14: the pair enumeration of collisions.rs against the brute-force specification (T := R). *)
From Coq Require Import ZArith Reals Lra Lia List Bool.
From VF Require Import Base.Num Model.Collide.
Import ListNotations.
Open Scope R_scope.

Section CollideR.
  Variable intersects : Z -> Z -> bool.
  Variable dist : Z -> Z -> R.
  Variable prefilter : Z -> Z -> R -> bool.
  Variable choose : list (Z * Z) -> option (Z * Z).

  (** the pre-filter may only discard pairs that really are more than r apart *)
  Definition prefilter_sound : Prop := forall i j r, prefilter i j r = false -> r < dist i j.
  (** find_map_any returns one of the hits, and some hit whenever there is one *)
  Definition choose_ok : Prop :=
    forall l, (choose l = None <-> l = []) /\ (forall p, choose l = Some p -> In p l).

  Notation md := (min_distance (T:=R)).
  Notation pc := (pair_collides (T:=R) intersects dist prefilter).

  Lemma filter_map_In {A B} (f : A -> option B) l y :
    In y (filter_map f l) <-> exists x, In x l /\ f x = Some y.
  Proof.
    induction l as [|a l IH]; cbn [filter_map].
    - split; [intros [] | intros [x [[] _]]].
    - destruct (f a) as [b|] eqn:E.
      + simpl. rewrite IH. split.
        * intros [<-|[x [Hx Hf]]]; [exists a; split; [left; reflexivity | exact E] | exists x; split; [right; exact Hx | exact Hf]].
        * intros [x [[<-|Hx] Hf]]; [left; congruence | right; exists x; split; assumption].
      + rewrite IH. split.
        * intros [x [Hx Hf]]. exists x. split; [right; exact Hx | exact Hf].
        * intros [x [[<-|Hx] Hf]]; [congruence | exists x; split; assumption].
  Qed.

  Lemma pair_collides_brute s i j : prefilter_sound ->
    pc s i j = brute (T:=R) intersects dist s (i, j).
  Proof.
    intros Hs. unfold pair_collides, brute. cbn [fst snd].
    destruct (md s i j <=? NEVER)%num; [reflexivity|].
    destruct (md s i j =? TOUCH)%num; [reflexivity|].
    destruct (prefilter i j (md s i j)) eqn:E; cbn [negb]; [reflexivity|].
    apply Hs in E. symmetry. rsimp. apply Rleb_false. exact E.
  Qed.

  Lemma brute_exempt s p : md s (fst p) (snd p) <= NEVER -> brute (T:=R) intersects dist s p = false.
  Proof. intros H. unfold brute. rsimp. destruct (Rleb _ _) eqn:E; [reflexivity | apply Rleb_false in E; lra]. Qed.

  Lemma unmoved_nil k : unmoved [] k = (ENV_START <=? k)%Z || (k =? J_BASE)%Z.
  Proof. reflexivity. Qed.

  Lemma check_required_nil s i j : unmoved [] i = false ->
    check_required (T:=R) s [] i j = Rltb NEVER (md s i j).
  Proof. intros Hi. unfold check_required. rewrite Hi. reflexivity. Qed.

  Lemma In_envs c e : In e (envs c) -> (ENV_START <= e)%Z.
  Proof. unfold envs. rewrite in_map_iff. intros [k [<- _]]. unfold ENV_START. lia. Qed.

  Ltac six H := simpl in H; destruct H as [<-|[<-|[<-|[<-|[<-|[<-|[]]]]]]].

  (** every enumerated task is a relevant pair (skip sets never contain the tool) *)
  Lemma tasks_sub_relevant_skip c s skip p : existsb (Z.eqb J_TOOL) skip = false ->
    In p (tasks (T:=R) c s skip) -> In p (relevant c).
  Proof.
    intros Htool. unfold tasks. rewrite Htool. cbn [existsb negb andb]. intros H.
    apply in_app_or in H. destruct H as [H|H].
    - (* tool - env *)
      destruct (has_tool c) eqn:Et; [|destruct H].
      apply in_map_iff in H. destruct H as [e [<- He]]. apply filter_In in He. destruct He as [He _].
      unfold relevant. rewrite Et. apply in_or_app; right. apply in_or_app; right. apply in_or_app; left.
      apply in_or_app; left. apply in_map. exact He.
    - apply in_app_or in H. destruct H as [H|H].
      + apply in_flat_map in H. destruct H as [i [Hi Hp]].
        unfold link_tasks in Hp. cbn [andb] in Hp.
        apply in_app_or in Hp. destruct Hp as [Hp|Hp].
        * (* link - link *)
          apply in_map_iff in Hp. destruct Hp as [j [<- Hj]].
          apply filter_In in Hj. destruct Hj as [Hj Hc]. apply filter_In in Hj. destruct Hj as [Hj Hlt].
          apply andb_true_iff in Hc. destruct Hc as [Hgap _].
          unfold relevant. apply in_or_app; left.
          six Hi; six Hj; cbn in Hgap, Hlt; try discriminate; cbn; tauto.
        * apply in_app_or in Hp. destruct Hp as [Hp|Hp].
          -- (* link - env *)
             apply in_map_iff in Hp. destruct Hp as [e [<- He]]. apply filter_In in He. destruct He as [He _].
             unfold relevant. apply in_or_app; right. apply in_or_app; left.
             apply in_flat_map. exists i. split; [exact Hi | apply in_map; exact He].
          -- apply in_app_or in Hp. destruct Hp as [Hp|Hp].
             ++ (* link - tool *)
                destruct (negb (i =? 5)%Z) eqn:E5; [|destruct Hp]. destruct (negb (i =? 4)%Z) eqn:E4; [|destruct Hp].
                cbn [andb] in Hp. destruct (check_required s skip i J_TOOL); [|destruct Hp].
                destruct (has_tool c) eqn:Et; [|destruct Hp]. cbn [andb] in Hp. destruct Hp as [<-|[]].
                unfold relevant. rewrite Et. apply in_or_app; right. apply in_or_app; right. apply in_or_app; left.
                apply in_or_app; right.
                six Hi; cbn in E5, E4; try discriminate; cbn; tauto.
             ++ (* link - base *)
                destruct (negb (i =? 0)%Z) eqn:E0; [|destruct Hp]. cbn [andb] in Hp.
                destruct (check_required s skip i J_BASE); [|destruct Hp].
                destruct (has_base c) eqn:Eb; [|destruct Hp]. cbn [andb] in Hp. destruct Hp as [<-|[]].
                unfold relevant. rewrite Eb. apply in_or_app; right. apply in_or_app; right. apply in_or_app; right.
                apply in_or_app; left.
                six Hi; cbn in E0; try discriminate; cbn; tauto.
      + (* tool - base *)
        cbn [orb] in H. destruct (has_tool c) eqn:Et; [|destruct H]. destruct (has_base c) eqn:Eb; [|destruct H].
        cbn [andb] in H. destruct H as [<-|[]].
        unfold relevant. rewrite Et, Eb. cbn [andb]. repeat (apply in_or_app; right). left. reflexivity.
  Qed.

  Lemma tasks_sub_relevant c s p : In p (tasks (T:=R) c s []) -> In p (relevant c).
  Proof. apply tasks_sub_relevant_skip. reflexivity. Qed.

  (** every relevant pair that is not exempt and of which at least one body moved is enumerated *)
  Lemma relevant_in_tasks_skip c s skip p : existsb (Z.eqb J_TOOL) skip = false ->
    In p (relevant c) -> NEVER < md s (fst p) (snd p) ->
    unmoved skip (fst p) && unmoved skip (snd p) = false -> In p (tasks (T:=R) c s skip).
  Proof.
    intros Htool. unfold relevant, tasks. rewrite Htool. cbn [existsb negb andb]. intros H Hne Hmv.
    assert (Hcr : forall i j, True -> (i, j) = p -> check_required (T:=R) s skip i j = true).
    { intros i j _ <-. unfold check_required. cbn [fst snd] in Hmv. rewrite Hmv. cbn [negb andb]. apply Rltb_true. exact Hne. }
    apply in_app_or in H. destruct H as [H|H].
    - (* link - link *)
      apply in_flat_map in H. destruct H as [i [Hi Hj]]. apply in_map_iff in Hj. destruct Hj as [j [Hp Hj]].
      apply filter_In in Hj. destruct Hj as [Hj Hlt].
      apply in_or_app; right. apply in_or_app; left. apply in_flat_map. exists i. split; [exact Hi|].
      unfold link_tasks. apply in_or_app; left. apply in_map_iff. exists j. split; [exact Hp|].
      apply filter_In. split.
      + apply filter_In. split; [six Hi; six Hj; cbn in Hlt; try discriminate; cbn; tauto|].
        six Hi; six Hj; cbn in Hlt; try discriminate; reflexivity.
      + apply andb_true_iff. split; [six Hi; six Hj; cbn in Hlt; try discriminate; reflexivity|].
        apply Hcr; [exact I | exact Hp].
    - apply in_app_or in H. destruct H as [H|H].
      + (* link - env *)
        apply in_flat_map in H. destruct H as [i [Hi He]]. apply in_map_iff in He. destruct He as [e [Hp He]].
        apply in_or_app; right. apply in_or_app; left. apply in_flat_map. exists i. split; [exact Hi|].
        unfold link_tasks. apply in_or_app; right. apply in_or_app; left.
        apply in_map_iff. exists e. split; [exact Hp|]. apply filter_In. split; [exact He|].
        apply Hcr; [exact I | exact Hp].
      + apply in_app_or in H. destruct H as [H|H].
        * destruct (has_tool c) eqn:Et; [|destruct H]. apply in_app_or in H. destruct H as [H|H].
          -- (* tool - env *)
             apply in_map_iff in H. destruct H as [e [Hp He]].
             apply in_or_app; left. apply in_map_iff. exists e. split; [exact Hp|].
             apply filter_In. split; [exact He|]. apply Hcr; [exact I | exact Hp].
          -- (* link - tool *)
             apply in_map_iff in H. destruct H as [i [Hp Hi]].
             apply in_or_app; right. apply in_or_app; left. apply in_flat_map. exists i.
             split; [simpl in Hi; simpl; tauto|].
             unfold link_tasks. apply in_or_app; right. apply in_or_app; right. apply in_or_app; left.
             assert (Hc : check_required (T:=R) s skip i J_TOOL = true) by (apply Hcr; [exact I | exact Hp]).
             rewrite Hc, Et.
             simpl in Hi; destruct Hi as [<-|[<-|[<-|[<-|[]]]]]; cbn; left; exact Hp.
        * apply in_app_or in H. destruct H as [H|H].
          -- (* link - base *)
             destruct (has_base c) eqn:Eb; [|destruct H].
             apply in_map_iff in H. destruct H as [i [Hp Hi]].
             apply in_or_app; right. apply in_or_app; left. apply in_flat_map. exists i.
             split; [simpl in Hi; simpl; tauto|].
             unfold link_tasks. apply in_or_app; right. apply in_or_app; right. apply in_or_app; right.
             assert (Hc : check_required (T:=R) s skip i J_BASE = true) by (apply Hcr; [exact I | exact Hp]).
             rewrite Hc, Eb.
             simpl in Hi; destruct Hi as [<-|[<-|[<-|[<-|[<-|[]]]]]]; cbn; left; exact Hp.
          -- (* tool - base *)
             destruct (has_tool c) eqn:Et; [|destruct H]. destruct (has_base c) eqn:Eb; [|destruct H].
             cbn [andb] in H. destruct H as [<-|[]].
             apply in_or_app; right. apply in_or_app; right. cbn [orb andb]. left. reflexivity.
  Qed.

  Lemma relevant_moved_nil c p : In p (relevant c) -> unmoved [] (fst p) && unmoved [] (snd p) = false.
  Proof.
    unfold relevant. intros H.
    assert (Hl : forall i, In i [0; 1; 2; 3; 4; 5]%Z -> unmoved [] i = false) by (intros i Hi; six Hi; reflexivity).
    apply in_app_or in H; destruct H as [H|H];
      [|apply in_app_or in H; destruct H as [H|H];
        [|apply in_app_or in H; destruct H as [H|H]; [|apply in_app_or in H; destruct H as [H|H]]]].
    - apply in_flat_map in H. destruct H as [i [Hi Hj]]. apply in_map_iff in Hj. destruct Hj as [j [<- _]].
      cbn [fst]. rewrite (Hl i Hi). reflexivity.
    - apply in_flat_map in H. destruct H as [i [Hi Hj]]. apply in_map_iff in Hj. destruct Hj as [j [<- _]].
      cbn [fst]. rewrite (Hl i Hi). reflexivity.
    - destruct (has_tool c); [|destruct H]. apply in_app_or in H. destruct H as [H|H].
      + apply in_map_iff in H. destruct H as [e [<- _]]. reflexivity.
      + apply in_map_iff in H. destruct H as [i [<- Hi]]. cbn [fst]. rewrite (Hl i) by (simpl in Hi; simpl; tauto). reflexivity.
    - destruct (has_base c); [|destruct H]. apply in_map_iff in H. destruct H as [i [<- Hi]].
      cbn [fst]. rewrite (Hl i) by (simpl in Hi; simpl; tauto). reflexivity.
    - destruct (has_tool c && has_base c); [|destruct H]. destruct H as [<-|[]]. reflexivity.
  Qed.

  Lemma relevant_in_tasks c s p : In p (relevant c) -> NEVER < md s (fst p) (snd p) -> In p (tasks (T:=R) c s []).
  Proof.
    intros Hp Hne. apply relevant_in_tasks_skip; [reflexivity | exact Hp | exact Hne | apply relevant_moved_nil with c; exact Hp].
  Qed.

  (** C10, all-collisions mode: the report lists exactly the relevant pairs that the brute-force check flags *)
  Theorem all_mode_eq_brute c s q : prefilter_sound ->
    In q (detect (T:=R) intersects dist prefilter choose c s (Some AllColl) []) <->
    exists p, In p (relevant c) /\ brute (T:=R) intersects dist s p = true /\ q = norm_pair (fst p) (snd p).
  Proof.
    intros Hs. unfold detect, process. rewrite filter_map_In. unfold task_result. split.
    - intros [p [Hp Hr]]. rewrite (pair_collides_brute s _ _ Hs) in Hr.
      destruct p as [i j]. cbn [fst snd] in *.
      destruct (brute intersects dist s (i, j)) eqn:Eb; [|discriminate]. injection Hr as <-.
      exists (i, j). split; [apply tasks_sub_relevant with s; exact Hp|]. split; [exact Eb | reflexivity].
    - intros [p [Hp [Hb ->]]]. exists p. split.
      + apply relevant_in_tasks; [exact Hp|].
        destruct (Rlt_dec NEVER (md s (fst p) (snd p))) as [L|L]; [exact L|].
        rewrite brute_exempt in Hb by lra. discriminate.
      + destruct p as [i j]. cbn [fst snd] in *. rewrite (pair_collides_brute s _ _ Hs), Hb. reflexivity.
  Qed.

  (** first-collision mode: a subset of those pairs, non-empty whenever there is one; for every scheduling *)
  Theorem first_mode_sub_nonempty c s : prefilter_sound -> choose_ok ->
    let d := detect (T:=R) intersects dist prefilter choose c s (Some FirstOnly) [] in
    (forall q, In q d -> In q (detect (T:=R) intersects dist prefilter choose c s (Some AllColl) [])) /\
    (d = [] <-> detect (T:=R) intersects dist prefilter choose c s (Some AllColl) [] = []).
  Proof.
    intros Hs Hc. unfold detect, process. cbv zeta.
    set (hits := filter_map (task_result intersects dist prefilter s) (tasks c s [])).
    destruct (Hc hits) as [Hn Hin]. destruct (choose hits) as [p|] eqn:E.
    - split.
      + intros q [<-|[]]. apply Hin. reflexivity.
      + split; [discriminate|]. intros Hh. apply Hn in Hh. discriminate.
    - split; [intros q []|]. split; [intros _; apply Hn; reflexivity | reflexivity].
  Qed.

  Theorem nocheck_empty c s skip : detect (T:=R) intersects dist prefilter choose c s (Some NoCheck) skip = [].
  Proof. reflexivity. Qed.

  (** [collides] <-> some relevant pair is flagged (unless checks are switched off) *)
  Theorem collides_iff_exists c s : prefilter_sound -> choose_ok -> s_mode s <> NoCheck ->
    (collides (T:=R) intersects dist prefilter choose c s = true <->
     exists p, In p (relevant c) /\ brute (T:=R) intersects dist s p = true).
  Proof.
    intros Hs Hc Hm. unfold collides.
    destruct (first_mode_sub_nonempty c s Hs Hc) as [_ Hemp]. cbv zeta in Hemp.
    assert (Hx : (exists p, In p (relevant c) /\ brute (T:=R) intersects dist s p = true) <->
                 detect (T:=R) intersects dist prefilter choose c s (Some AllColl) [] <> []).
    { split.
      - intros [p [Hp Hb]] He.
        assert (Hin : In (norm_pair (fst p) (snd p)) (detect (T:=R) intersects dist prefilter choose c s (Some AllColl) []))
          by (apply all_mode_eq_brute; [exact Hs | exists p; repeat split; assumption]).
        rewrite He in Hin. destruct Hin.
      - intros Hne. destruct (detect (T:=R) intersects dist prefilter choose c s (Some AllColl) []) as [|q l] eqn:E; [contradiction|].
        assert (Hq : In q (detect (T:=R) intersects dist prefilter choose c s (Some AllColl) [])) by (rewrite E; left; reflexivity).
        apply all_mode_eq_brute in Hq; [|exact Hs]. destruct Hq as [p [Hp [Hb _]]]. exists p. split; assumption. }
    rewrite Hx.
    destruct (s_mode s); try contradiction;
    (destruct (detect (T:=R) intersects dist prefilter choose c s (Some FirstOnly) []) as [|q l] eqn:E;
     [split; [discriminate | intros Hne; exfalso; apply Hne; apply Hemp; reflexivity]
     | split; [intros _ He; apply Hemp in He; discriminate | reflexivity]]).
  Qed.

  (** [min_distance] does not depend on the order of the two objects when at most one orientation is listed *)
  Theorem min_distance_sym s a b :
    (lookup (special s) a b = None \/ lookup (special s) b a = None \/ lookup (special s) a b = lookup (special s) b a) ->
    md s a b = md s b a.
  Proof.
    unfold min_distance. intros H. rewrite (orb_comm (ENV_START <=? b)%Z).
    destruct (lookup (special s) a b) as [x|] eqn:E1, (lookup (special s) b a) as [y|] eqn:E2; try reflexivity.
    destruct H as [H|[H|H]]; congruence.
  Qed.
End CollideR.

(** * C14: single-joint offsets *)
Section OffsetsR.
  Variable intersects : nat -> Z -> Z -> bool.
  Variable dist : nat -> Z -> Z -> R.
  Variable prefilter : nat -> Z -> Z -> R -> bool.
  Variable choose : list (Z * Z) -> option (Z * Z).
  Variable legal : nat -> bool.

  Lemma skip_of_no_tool cand : (cand < 12)%nat -> existsb (Z.eqb J_TOOL) (skip_of cand) = false.
  Proof.
    intros Hc. unfold skip_of.
    destruct (existsb (Z.eqb J_TOOL) (map Z.of_nat (seq 0 (cand / 2)))) eqn:E; [|reflexivity].
    apply existsb_exists in E. destruct E as [x [Hx Hq]]. apply Z.eqb_eq in Hq. subst x.
    apply in_map_iff in Hx. destruct Hx as [k [Hk Hin]]. apply in_seq in Hin.
    assert (cand / 2 < 6)%nat by (apply Nat.div_lt_upper_bound; lia). unfold J_TOOL in Hk. lia.
  Qed.

  (** offered <-> legal and the FULL brute-force check of that candidate is clean, provided pairs of two
      unmoved bodies are clean (they are as in the collision-free initial configuration) *)
  Theorem offered_iff_spec c s cand : (cand < 12)%nat ->
    prefilter_sound (dist cand) (prefilter cand) -> choose_ok choose ->
    (forall p, In p (relevant c) -> unmoved (skip_of cand) (fst p) && unmoved (skip_of cand) (snd p) = true ->
               brute (T:=R) (intersects cand) (dist cand) s p = false) ->
    (offered (T:=R) intersects dist prefilter choose legal c s cand = true <->
     legal cand = true /\ forall p, In p (relevant c) -> brute (T:=R) (intersects cand) (dist cand) s p = false).
  Proof.
    intros Hc Hs Hch Hskip. unfold offered, detect, process.
    pose proof (skip_of_no_tool cand Hc) as Htool.
    set (hits := filter_map (task_result (intersects cand) (dist cand) (prefilter cand) s) (tasks c s (skip_of cand))).
    destruct (Hch hits) as [Hn Hin].
    assert (Hhits : hits = [] <-> forall p, In p (relevant c) -> brute (T:=R) (intersects cand) (dist cand) s p = false).
    { split.
      - intros He p Hp.
        destruct (Rlt_dec NEVER (min_distance s (fst p) (snd p))) as [L|L]; [|apply brute_exempt; lra].
        destruct (unmoved (skip_of cand) (fst p) && unmoved (skip_of cand) (snd p)) eqn:Emv; [apply Hskip; assumption|].
        assert (Ht : In p (tasks (T:=R) c s (skip_of cand))) by (apply (relevant_in_tasks_skip (intersects cand) (dist cand) (prefilter cand)); assumption).
        destruct (brute (intersects cand) (dist cand) s p) eqn:Eb; [|reflexivity].
        exfalso. assert (Hx : In (norm_pair (fst p) (snd p)) hits).
        { apply filter_map_In. exists p. split; [exact Ht|]. unfold task_result.
          destruct p as [i j]. cbn [fst snd]. rewrite pair_collides_brute by exact Hs. rewrite Eb. reflexivity. }
        rewrite He in Hx. destruct Hx.
      - intros Hall. destruct hits as [|q l] eqn:E; [reflexivity|]. exfalso.
        assert (Hq : In q hits) by (rewrite E; left; reflexivity). unfold hits in Hq.
        apply filter_map_In in Hq. destruct Hq as [p [Hp Hr]]. unfold task_result in Hr.
        destruct p as [i j]. cbn [fst snd] in Hr. rewrite pair_collides_brute in Hr by exact Hs.
        rewrite (Hall (i, j)) in Hr; [discriminate|]. eapply tasks_sub_relevant_skip; eassumption. }
    rewrite andb_true_iff. rewrite <- Hhits.
    destruct (choose hits) as [q|] eqn:E.
    - split; [intros [_ Hd]; discriminate|]. intros [_ He]. apply Hn in He. discriminate.
    - split; [intros [Hl _]; split; [exact Hl | apply Hn; reflexivity] | intros [Hl _]; split; [exact Hl | reflexivity]].
  Qed.

  Theorem offsets_spec c s cand :
    In cand (offsets (T:=R) intersects dist prefilter choose legal c s) <->
    (cand < 12)%nat /\ offered (T:=R) intersects dist prefilter choose legal c s cand = true.
  Proof. unfold offsets. rewrite filter_In, in_seq. split; intros [H1 H2]; split; try assumption; lia. Qed.
End OffsetsR.
