(** C15: the position and rotation columns of the Jacobian of the generated forward kinematics
    are the geometric ones (axis x lever arm, axis), for any tool offset. *)
From Coq Require Import ZArith Reals Lra Lia List.
From Coquelicot Require Import Coquelicot.
From VF Require Import Base.Lin Base.Angles Base.Num Model.Frame3 Proofs.Frame3P Gen.Forward Proofs.ForwardP.
Import ListNotations.
Open Scope R_scope.

Definition vcoord (k : nat) (v : V3) : R := match k with 0%nat => vx v | 1%nat => vy v | _ => vz v end.
Definition ez := mkV3 0 0 1.
Definition ey := mkV3 0 1 0.

Lemma iapp_icomp a b v : iapp (icomp a b) v = iapp a (iapp b v).
Proof. destruct a as [[a0 a1 a2 a3 a4 a5 a6 a7 a8] [ax ay az]], b as [[b0 b1 b2 b3 b4 b5 b6 b7 b8] [bx by_ bz]], v as [x y z].
  apply V3_eq; lin_unfold; ring. Qed.

(** one revolute joint about z or y between a fixed frame [A] (with offset [ti]) and a fixed point [w] *)
  Lemma joint_z_derive (A : Iso) (s off : R) (ti w : V3) (k : nat) (x0 : R) : proper (rot A) ->
    is_derive (fun x => vcoord k (iapp (icomp A (mkIso (Rotz (x * s - off)) ti)) w)) x0
      (vcoord k (vscale s (vcross (mapp (rot A) ez)
         (vsub (iapp (icomp A (mkIso (Rotz (x0 * s - off)) ti)) w) (tr (icomp A (mkIso (Rotz (x0 * s - off)) ti))))))).
  Proof.
    intros HA. assert (E : vsub (iapp (icomp A (mkIso (Rotz (x0 * s - off)) ti)) w) (tr (icomp A (mkIso (Rotz (x0 * s - off)) ti)))
                = mapp (rot A) (mapp (Rotz (x0 * s - off)) w)).
    { destruct A as [[a0 a1 a2 a3 a4 a5 a6 a7 a8] [ax ay az]], ti as [tx ty tz], w as [wx wy wz]. apply V3_eq; lin_unfold; ring. }
    rewrite E, cross_rot by exact HA. clear E.
    destruct A as [[a0 a1 a2 a3 a4 a5 a6 a7 a8] [ax ay az]], ti as [tx ty tz], w as [wx wy wz].
    destruct k as [|[|k]]; cbv [vcoord ez iapp icomp mmul mapp vadd vsub vscale vcross Rotz rot tr vx vy vz m00 m01 m02 m10 m11 m12 m20 m21 m22];
      auto_derive; try (now repeat split); unfold Rminus; ring.
  Qed.

  Lemma joint_y_derive (A : Iso) (s off : R) (ti w : V3) (k : nat) (x0 : R) : proper (rot A) ->
    is_derive (fun x => vcoord k (iapp (icomp A (mkIso (Roty (x * s - off)) ti)) w)) x0
      (vcoord k (vscale s (vcross (mapp (rot A) ey)
         (vsub (iapp (icomp A (mkIso (Roty (x0 * s - off)) ti)) w) (tr (icomp A (mkIso (Roty (x0 * s - off)) ti))))))).
  Proof.
    intros HA. assert (E : vsub (iapp (icomp A (mkIso (Roty (x0 * s - off)) ti)) w) (tr (icomp A (mkIso (Roty (x0 * s - off)) ti)))
                = mapp (rot A) (mapp (Roty (x0 * s - off)) w)).
    { destruct A as [[a0 a1 a2 a3 a4 a5 a6 a7 a8] [ax ay az]], ti as [tx ty tz], w as [wx wy wz]. apply V3_eq; lin_unfold; ring. }
    rewrite E, cross_rot by exact HA. clear E.
    destruct A as [[a0 a1 a2 a3 a4 a5 a6 a7 a8] [ax ay az]], ti as [tx ty tz], w as [wx wy wz].
    destruct k as [|[|k]]; cbv [vcoord ey iapp icomp mmul mapp vadd vsub vscale vcross Roty rot tr vx vy vz m00 m01 m02 m10 m11 m12 m20 m21 m22];
      auto_derive; try (now repeat split); unfold Rminus; ring.
  Qed.

(** * The six joints of the OPW chain *)
Definition jset6 (j : J6) (i : nat) (x : R) : J6 :=
  match i with
  | 0%nat => mkJ6 x (j2 j) (j3 j) (j4 j) (j5 j) (j6 j) | 1%nat => mkJ6 (j1 j) x (j3 j) (j4 j) (j5 j) (j6 j)
  | 2%nat => mkJ6 (j1 j) (j2 j) x (j4 j) (j5 j) (j6 j) | 3%nat => mkJ6 (j1 j) (j2 j) (j3 j) x (j5 j) (j6 j)
  | 4%nat => mkJ6 (j1 j) (j2 j) (j3 j) (j4 j) x (j6 j) | _ => mkJ6 (j1 j) (j2 j) (j3 j) (j4 j) (j5 j) x
  end.
Definition local_axis (i : nat) : V3 := match i with 0%nat | 3%nat | 5%nat => ez | _ => ey end.
Definition sgn (p : Params) (i : nat) : R :=
  IZR (match i with 0%nat => p_sg1 p | 1%nat => p_sg2 p | 2%nat => p_sg3 p | 3%nat => p_sg4 p | 4%nat => p_sg5 p | _ => p_sg6 p end).
(** tool point: a point [t] fixed in the flange frame (t = 0: the flange origin; a tool or frame transform moves it) *)
Definition tip (p : Params) (t : V3) (j : J6) : V3 := iapp (fwd p j) t.
(** geometric Jacobian column from the per-link poses: sign * (axis_i x (tip - origin_i)) *)
Definition geo_col (p : Params) (t : V3) (j : J6) (i : nat) : V3 :=
  let li := List.nth i (chain p j) iid in
  vscale (sgn p i) (vcross (mapp (rot li) (local_axis i)) (vsub (tip p t j) (tr li))).

Lemma Rotz_ez q : mapp (Rotz q) ez = ez.
Proof. apply V3_eq; lin_unfold; cbv [ez vx vy vz]; ring. Qed.
Lemma Roty_ey q : mapp (Roty q) ey = ey.
Proof. apply V3_eq; lin_unfold; cbv [ey vx vy vz]; ring. Qed.
Lemma mapp_mmul a b v : mapp (mmul a b) v = mapp a (mapp b v).
Proof. destruct a as [a0 a1 a2 a3 a4 a5 a6 a7 a8], b as [b0 b1 b2 b3 b4 b5 b6 b7 b8], v as [x y z]. apply V3_eq; lin_unfold; ring. Qed.

Lemma mapp_I3 v : mapp I3 v = v.
Proof. destruct v as [x y z]. apply V3_eq; lin_unfold; ring. Qed.
Lemma proper_iid : proper (rot iid). Proof. apply proper_I3. Qed.

Ltac spec_all := cbv [spec_chain fk_spec L1 L2 L3 L4 L5 L6 E1 E2 E3 E4 E5 E6 qint jset6 jget j1 j2 j3 j4 j5 j6 List.nth].

Ltac fin D FIX :=
  match type of D with is_derive ?f ?pt ?l =>
    match goal with |- is_derive ?g _ ?l' =>
      replace l' with l;
      [ apply (is_derive_ext f); [ intros x; cbv beta; rewrite fwd_eq_spec; spec_all; rewrite ?icomp_id_l, !iapp_icomp; reflexivity | exact D ]
      | f_equal; f_equal; apply (f_equal2 vcross);
        [ spec_all; cbn [rot icomp iid]; rewrite ?mapp_mmul; repeat rewrite FIX; rewrite ?mapp_I3; reflexivity
        | apply (f_equal2 vsub); [ spec_all; rewrite ?icomp_id_l, !iapp_icomp; reflexivity | spec_all; rewrite ?icomp_id_l; reflexivity ] ] ]
    end
  end.

Theorem jacobian_position_column p t j (i k : nat) : (i < 6)%nat ->
  is_derive (fun x => vcoord k (tip p t (jset6 j i x))) (jget j i) (vcoord k (geo_col p t j i)).
Proof.
  intros Hi. unfold geo_col, tip. cbv zeta. rewrite chain_eq_spec.
  destruct j as [a1 a2 a3 a4 a5 a6].
  set (q := qint p (mkJ6 a1 a2 a3 a4 a5 a6)).
  assert (PL1 := proper_L1 p q). assert (PL2 := proper_L2 p q). assert (PL3 := proper_L3 p q).
  assert (PL4 := proper_L4 p q). assert (PL5 := proper_L5 p q).
  destruct i as [|[|[|[|[|[|i]]]]]]; [| | | | | | exfalso; clear -Hi; lia]; cbn [jget j1 j2 j3 j4 j5 j6 local_axis sgn]; rewrite (fwd_eq_spec p (mkJ6 a1 a2 a3 a4 a5 a6)).
  - pose proof (joint_z_derive iid (IZR (p_sg1 p)) (p_off1 p) (mkV3 0 0 (p_c1 p))
      (iapp (E2 p q) (iapp (E3 p q) (iapp (E4 p q) (iapp (E5 p q) (iapp (E6 p q) t))))) k a1 proper_iid) as D.
    unfold q in D. fin D Rotz_ez.
  - pose proof (joint_y_derive (L1 p q) (IZR (p_sg2 p)) (p_off2 p) (mkV3 (p_a1 p) (p_b p) 0)
      (iapp (E3 p q) (iapp (E4 p q) (iapp (E5 p q) (iapp (E6 p q) t)))) k a2 PL1) as D.
    unfold q in D. fin D Roty_ey.
  - pose proof (joint_y_derive (L2 p q) (IZR (p_sg3 p)) (p_off3 p) (mkV3 0 0 (p_c2 p))
      (iapp (E4 p q) (iapp (E5 p q) (iapp (E6 p q) t))) k a3 PL2) as D.
    unfold q in D. fin D Roty_ey.
  - pose proof (joint_z_derive (L3 p q) (IZR (p_sg4 p)) (p_off4 p) (mkV3 (p_a2 p) 0 0)
      (iapp (E5 p q) (iapp (E6 p q) t)) k a4 PL3) as D.
    unfold q in D. fin D Rotz_ez.
  - pose proof (joint_y_derive (L4 p q) (IZR (p_sg5 p)) (p_off5 p) (mkV3 0 0 (p_c3 p))
      (iapp (E6 p q) t) k a5 PL4) as D.
    unfold q in D. fin D Roty_ey.
  - pose proof (joint_z_derive (L5 p q) (IZR (p_sg6 p)) (p_off6 p) (mkV3 0 0 (p_c4 p)) t k a6 PL5) as D.
    unfold q in D. fin D Rotz_ez.
Qed.

(** * Rotation columns: perturbing joint i by e rotates the tool frame about the world axis of joint i by sgn*e, exactly *)
Lemma mtr_mmul a b : mtr (mmul a b) = mmul (mtr b) (mtr a).
Proof. destruct a as [a0 a1 a2 a3 a4 a5 a6 a7 a8], b as [b0 b1 b2 b3 b4 b5 b6 b7 b8]. apply M3_eq; lin_unfold; ring. Qed.
Lemma mmul_I3_l a : mmul I3 a = a.
Proof. destruct a as [a0 a1 a2 a3 a4 a5 a6 a7 a8]. apply M3_eq; lin_unfold; ring. Qed.
Lemma mmul_I3_r a : mmul a I3 = a.
Proof. destruct a as [a0 a1 a2 a3 a4 a5 a6 a7 a8]. apply M3_eq; lin_unfold; ring. Qed.
Lemma Rotz_add a b : Rotz (a + b) = mmul (Rotz a) (Rotz b).
Proof. apply M3_eq; lin_unfold; rewrite ?sin_plus, ?cos_plus; ring. Qed.
Lemma Roty_add a b : Roty (a + b) = mmul (Roty a) (Roty b).
Proof. apply M3_eq; lin_unfold; rewrite ?sin_plus, ?cos_plus; ring. Qed.

(** rotation about the axis [R a] (a = local joint axis) by angle d, written as the conjugate R Rot(d) R^T *)
Definition conj_rot (Ri Rd : M3) : M3 := mmul (mmul Ri Rd) (mtr Ri).

Lemma joint_rot (RA Rth Rd RB : M3) : proper RA -> proper Rth ->
  mmul (mmul RA (mmul Rth Rd)) RB = mmul (conj_rot (mmul RA Rth) Rd) (mmul (mmul RA Rth) RB).
Proof.
  intros [HA _] [HT _]. unfold conj_rot.
  rewrite mtr_mmul. rewrite !mmul_assoc.
  rewrite <- (mmul_assoc (mtr RA) RA). rewrite HA, mmul_I3_l.
  rewrite <- (mmul_assoc (mtr Rth) Rth). rewrite HT, mmul_I3_l. reflexivity.
Qed.

Definition local_rot (i : nat) (d : R) : M3 := match i with 0%nat | 3%nat | 5%nat => Rotz d | _ => Roty d end.

Theorem jacobian_rotation_column p j (i : nat) (e : R) : (i < 6)%nat ->
  rot (fwd p (jset6 j i (jget j i + e))) =
  mmul (conj_rot (rot (List.nth i (chain p j) iid)) (local_rot i (sgn p i * e))) (rot (fwd p j)).
Proof.
  intros Hi. rewrite chain_eq_spec, !fwd_eq_spec. destruct j as [a1 a2 a3 a4 a5 a6].
  set (q := qint p (mkJ6 a1 a2 a3 a4 a5 a6)).
  assert (PL1 := proper_L1 p q). assert (PL2 := proper_L2 p q). assert (PL3 := proper_L3 p q).
  assert (PL4 := proper_L4 p q). assert (PL5 := proper_L5 p q). unfold q in *.
  destruct i as [|[|[|[|[|[|i]]]]]]; [| | | | | | exfalso; clear -Hi; lia]; cbn [jget j1 j2 j3 j4 j5 j6 local_rot]; unfold sgn; spec_all; cbn [rot icomp].
  - replace ((a1 + e) * IZR (p_sg1 p) - p_off1 p) with ((a1 * IZR (p_sg1 p) - p_off1 p) + IZR (p_sg1 p) * e) by ring.
    rewrite Rotz_add.
    pose proof (joint_rot I3 (Rotz (a1 * IZR (p_sg1 p) - p_off1 p)) (Rotz (IZR (p_sg1 p) * e))
      (mmul (mmul (mmul (mmul (Roty (a2 * IZR (p_sg2 p) - p_off2 p)) (Roty (a3 * IZR (p_sg3 p) - p_off3 p))) (Rotz (a4 * IZR (p_sg4 p) - p_off4 p))) (Roty (a5 * IZR (p_sg5 p) - p_off5 p))) (Rotz (a6 * IZR (p_sg6 p) - p_off6 p)))
      proper_I3 (proper_Rotz _)) as H.
    rewrite !mmul_I3_l in H. rewrite !mmul_assoc in H. rewrite !mmul_assoc. exact H.
  - replace ((a2 + e) * IZR (p_sg2 p) - p_off2 p) with ((a2 * IZR (p_sg2 p) - p_off2 p) + IZR (p_sg2 p) * e) by ring.
    rewrite Roty_add.
    pose proof (joint_rot (Rotz (a1 * IZR (p_sg1 p) - p_off1 p)) (Roty (a2 * IZR (p_sg2 p) - p_off2 p)) (Roty (IZR (p_sg2 p) * e))
      (mmul (mmul (mmul (Roty (a3 * IZR (p_sg3 p) - p_off3 p)) (Rotz (a4 * IZR (p_sg4 p) - p_off4 p))) (Roty (a5 * IZR (p_sg5 p) - p_off5 p))) (Rotz (a6 * IZR (p_sg6 p) - p_off6 p)))
      (proper_Rotz _) (proper_Roty _)) as H.
    rewrite !mmul_assoc in H. rewrite !mmul_assoc. exact H.
  - replace ((a3 + e) * IZR (p_sg3 p) - p_off3 p) with ((a3 * IZR (p_sg3 p) - p_off3 p) + IZR (p_sg3 p) * e) by ring.
    rewrite Roty_add.
    pose proof (joint_rot (mmul (Rotz (a1 * IZR (p_sg1 p) - p_off1 p)) (Roty (a2 * IZR (p_sg2 p) - p_off2 p))) (Roty (a3 * IZR (p_sg3 p) - p_off3 p)) (Roty (IZR (p_sg3 p) * e))
      (mmul (mmul (Rotz (a4 * IZR (p_sg4 p) - p_off4 p)) (Roty (a5 * IZR (p_sg5 p) - p_off5 p))) (Rotz (a6 * IZR (p_sg6 p) - p_off6 p)))
      (proper_mmul _ _ (proper_Rotz _) (proper_Roty _)) (proper_Roty _)) as H.
    rewrite !mmul_assoc in H. rewrite !mmul_assoc. exact H.
  - replace ((a4 + e) * IZR (p_sg4 p) - p_off4 p) with ((a4 * IZR (p_sg4 p) - p_off4 p) + IZR (p_sg4 p) * e) by ring.
    rewrite Rotz_add.
    pose proof (joint_rot (mmul (mmul (Rotz (a1 * IZR (p_sg1 p) - p_off1 p)) (Roty (a2 * IZR (p_sg2 p) - p_off2 p))) (Roty (a3 * IZR (p_sg3 p) - p_off3 p)))
      (Rotz (a4 * IZR (p_sg4 p) - p_off4 p)) (Rotz (IZR (p_sg4 p) * e))
      (mmul (Roty (a5 * IZR (p_sg5 p) - p_off5 p)) (Rotz (a6 * IZR (p_sg6 p) - p_off6 p)))
      (proper_mmul _ _ (proper_mmul _ _ (proper_Rotz _) (proper_Roty _)) (proper_Roty _)) (proper_Rotz _)) as H.
    rewrite !mmul_assoc in H. rewrite !mmul_assoc. exact H.
  - replace ((a5 + e) * IZR (p_sg5 p) - p_off5 p) with ((a5 * IZR (p_sg5 p) - p_off5 p) + IZR (p_sg5 p) * e) by ring.
    rewrite Roty_add.
    pose proof (joint_rot (mmul (mmul (mmul (Rotz (a1 * IZR (p_sg1 p) - p_off1 p)) (Roty (a2 * IZR (p_sg2 p) - p_off2 p))) (Roty (a3 * IZR (p_sg3 p) - p_off3 p))) (Rotz (a4 * IZR (p_sg4 p) - p_off4 p)))
      (Roty (a5 * IZR (p_sg5 p) - p_off5 p)) (Roty (IZR (p_sg5 p) * e)) (Rotz (a6 * IZR (p_sg6 p) - p_off6 p))
      (proper_mmul _ _ (proper_mmul _ _ (proper_mmul _ _ (proper_Rotz _) (proper_Roty _)) (proper_Roty _)) (proper_Rotz _)) (proper_Roty _)) as H.
    rewrite !mmul_assoc in H. rewrite !mmul_assoc. exact H.
  - replace ((a6 + e) * IZR (p_sg6 p) - p_off6 p) with ((a6 * IZR (p_sg6 p) - p_off6 p) + IZR (p_sg6 p) * e) by ring.
    rewrite Rotz_add.
    pose proof (joint_rot (mmul (mmul (mmul (mmul (Rotz (a1 * IZR (p_sg1 p) - p_off1 p)) (Roty (a2 * IZR (p_sg2 p) - p_off2 p))) (Roty (a3 * IZR (p_sg3 p) - p_off3 p))) (Rotz (a4 * IZR (p_sg4 p) - p_off4 p))) (Roty (a5 * IZR (p_sg5 p) - p_off5 p)))
      (Rotz (a6 * IZR (p_sg6 p) - p_off6 p)) (Rotz (IZR (p_sg6 p) * e)) I3
      (proper_mmul _ _ (proper_mmul _ _ (proper_mmul _ _ (proper_mmul _ _ (proper_Rotz _) (proper_Roty _)) (proper_Roty _)) (proper_Rotz _)) (proper_Roty _)) (proper_Rotz _)) as H.
    rewrite !mmul_I3_r in H. rewrite !mmul_assoc in H. rewrite !mmul_assoc. exact H.
Qed.

(** * Through a base transform (any rigid motion B): the column is the B-rotated column *)
Lemma lin3_derive (f g h : R -> R) (x0 df dg dh a b c d : R) :
  is_derive f x0 df -> is_derive g x0 dg -> is_derive h x0 dh ->
  is_derive (fun x => a * f x + b * g x + c * h x + d) x0 (a * df + b * dg + c * dh).
Proof.
  intros Hf Hg Hh.
  auto_derive.
  - repeat split; eexists; eassumption.
  - replace (Derive (fun x : R => f x) x0) with df by (symmetry; apply is_derive_unique; exact Hf).
    replace (Derive (fun x : R => g x) x0) with dg by (symmetry; apply is_derive_unique; exact Hg).
    replace (Derive (fun x : R => h x) x0) with dh by (symmetry; apply is_derive_unique; exact Hh). ring.
Qed.

Theorem jacobian_position_column_base (B : Iso) p t j (i k : nat) : (i < 6)%nat ->
  is_derive (fun x => vcoord k (iapp B (tip p t (jset6 j i x)))) (jget j i) (vcoord k (mapp (rot B) (geo_col p t j i))).
Proof.
  intros Hi.
  pose proof (jacobian_position_column p t j i 0 Hi) as D0.
  pose proof (jacobian_position_column p t j i 1 Hi) as D1.
  pose proof (jacobian_position_column p t j i 2 Hi) as D2.
  cbn [vcoord] in D0, D1, D2.
  destruct B as [[b0 b1 b2 b3 b4 b5 b6 b7 b8] [bx by_ bz]].
  destruct k as [|[|k]]; cbn [vcoord iapp mapp vadd rot tr vx vy vz m00 m01 m02 m10 m11 m12 m20 m21 m22].
  - exact (lin3_derive _ _ _ _ _ _ _ b0 b1 b2 bx D0 D1 D2).
  - exact (lin3_derive _ _ _ _ _ _ _ b3 b4 b5 by_ D0 D1 D2).
  - exact (lin3_derive _ _ _ _ _ _ _ b6 b7 b8 bz D0 D1 D2).
Qed.
