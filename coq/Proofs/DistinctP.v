(** C02: no duplicates - two different rows of the branch table never describe the same configuration (modulo whole turns)
    unless a computed elbow or wrist angle is degenerate. *)
From Coq Require Import ZArith Reals Lra Lia List Bool Psatz.
From VF Require Import Base.Num Base.Lin Base.Angles Gen.Forward Gen.Inverse Proofs.ForwardP Proofs.CompleteP Proofs.TwinK.
Import ListNotations.
Open Scope R_scope.

(** a multiple of the whole turn strictly between -2pi and 2pi is zero *)
Lemma small_turn (x : R) (k : Z) : x = IZR k * (2 * PI) -> - (2 * PI) < x < 2 * PI -> x = 0.
Proof.
  intros -> [H1 H2]. pose proof PI_RGT_0 as Hpi.
  assert (Hk : (-1 < k < 1)%Z).
  { split; apply lt_IZR.
    - assert (-1 < IZR k) by nra. simpl. lra.
    - assert (IZR k < 1) by nra. simpl. lra. }
  assert (k = 0%Z) by lia. subst k. simpl. ring.
Qed.

Lemma atan2_pos_range y x : 0 < x -> - (PI / 2) < atan2 y x < PI / 2.
Proof. intros H. rewrite atan2_pos by exact H. pose proof (atan_bound (y / x)). lra. Qed.

Section Distinct.
  Variables (p : Lin.Params) (pose : Iso).
  Let CX := vx (tr pose) - p_c4 p * m02 (rot pose).
  Let CY := vy (tr pose) - p_c4 p * m12 (rot pose).
  Let CZ := vz (tr pose) - p_c4 p * m22 (rot pose).
  Let Rm := rot pose.
  Let AX (back : bool) := f_AX back CX CY (p_a1 p) (p_b p).
  Let A3 (back : bool) := f_A3 (AX back) CZ (p_c1 p) (p_c2 p) (p_a2 p) (p_c3 p).
  Let T1 (back : bool) := f_TH1 back CX CY (p_a1 p) (p_b p).
  Let T2 (back down : bool) := f_TH2 back down (AX back) CZ (p_c1 p) (p_c2 p) (p_a2 p) (p_c3 p).
  Let T3 (back down : bool) := f_TH3 down (AX back) CZ (p_c1 p) (p_c2 p) (p_a2 p) (p_c3 p).
  Let T5 (back down : bool) := f_TH5 (m02 Rm) (m12 Rm) (m22 Rm) (T1 back) (T2 back down + T3 back down).

  (** the wrist centre is off the J1 axis line (shoulder not singular) *)
  Hypothesis Hshoulder : 0 < f_NX CX CY (p_a1 p) (p_b p) + p_a1 p.
  (** elbow and wrist angles of a row are not degenerate *)
  Definition row_regular (back down : bool) : Prop := 0 < A3 back < PI /\ 0 < T5 back down < PI.

  Lemma nth_row0 b d f : List.nth 0 (row p pose b d f) 0 = T1 b. Proof. reflexivity. Qed.
  Lemma nth_row2 b d f : List.nth 2 (row p pose b d f) 0 = T3 b d. Proof. reflexivity. Qed.
  Lemma nth_row4 b d f : List.nth 4 (row p pose b d f) 0 = if f then - T5 b d else T5 b d. Proof. reflexivity. Qed.

  Lemma F2_nth_rep (l m : list R) (i : nat) : Forall2 rep2 l m -> rep2 (List.nth i l 0) (List.nth i m 0).
  Proof.
    intros H. revert i. induction H as [|a b l m Hab _ IH]; intros i; [destruct i; apply rep2_refl|].
    destruct i as [|i]; [exact Hab | apply IH].
  Qed.

  Theorem rows_distinct b d f b' d' f' : row_regular b d -> row_regular b' d' ->
    (b, d, f) <> (b', d', f') -> ~ Forall2 rep2 (row p pose b d f) (row p pose b' d' f').
  Proof.
    intros [Ha [H5a H5b]] [Ha' [H5a' H5b']] Hne H. pose proof PI_RGT_0 as Hpi.
    pose proof (F2_nth_rep _ _ 0 H) as R1. pose proof (F2_nth_rep _ _ 2 H) as R3. pose proof (F2_nth_rep _ _ 4 H) as R5.
    rewrite !nth_row0 in R1. rewrite !nth_row2 in R3. rewrite !nth_row4 in R5.
    assert (Hb : b = b').
    { destruct b, b'; try reflexivity; exfalso; destruct R1 as [k Hk]; unfold T1, f_TH1 in Hk;
        pose proof (atan2_pos_range (p_b p) _ Hshoulder) as [Q1 Q2];
        set (t2 := atan2 (p_b p) (f_NX CX CY (p_a1 p) (p_b p) + p_a1 p)) in *; set (t1 := atan2 CY CX) in *.
      - assert (E : 2 * t2 - PI = IZR k * (2 * PI)) by lra. apply small_turn in E; lra.
      - assert (E : PI - 2 * t2 = IZR k * (2 * PI)) by lra. apply small_turn in E; lra. }
    subst b'.
    assert (Hd : d = d').
    { destruct d, d'; try reflexivity; exfalso; destruct R3 as [k Hk]; unfold T3, f_TH3 in Hk; fold (A3 b) in Hk.
      - assert (E : - (2 * A3 b) = IZR k * (2 * PI)) by lra. apply small_turn in E; lra.
      - assert (E : 2 * A3 b = IZR k * (2 * PI)) by lra. apply small_turn in E; lra. }
    subst d'.
    assert (Hf : f = f').
    { destruct f, f'; try reflexivity; exfalso; destruct R5 as [k Hk].
      - assert (E : - (2 * T5 b d) = IZR k * (2 * PI)) by lra. apply small_turn in E; lra.
      - assert (E : 2 * T5 b d = IZR k * (2 * PI)) by lra. apply small_turn in E; lra. }
    subst f'. apply Hne. reflexivity.
  Qed.
End Distinct.
