(** C14: the twelve candidate vectors of non_colliding_offsets and why bodies before the changed joint may be skipped. *)
From Coq Require Import ZArith Reals Lra Lia List Bool.
From VF Require Import Base.Lin Gen.Forward Proofs.ForwardP Proofs.JacobianP.
Import ListNotations.
Open Scope R_scope.

(** task number [cand] (0..11, in the order the tasks are pushed): joint cand/2 takes the value of [from] (even) or [to] (odd) *)
Definition cand_joint (cand : nat) : nat := Nat.div cand 2.
Definition cand_vec (initial from to : J6) (cand : nat) : J6 :=
  jset6 initial (cand_joint cand) (jget (if Nat.even cand then from else to) (cand_joint cand)).

Lemma jget_jset6_same j i x : (i < 6)%nat -> jget (jset6 j i x) i = x.
Proof. intros Hi. do 6 (destruct i as [|i]; [reflexivity|]). lia. Qed.
Lemma jget_jset6_other j i k x : (i < 6)%nat -> (k < 6)%nat -> k <> i -> jget (jset6 j i x) k = jget j k.
Proof.
  intros Hi Hk Hne. destruct j as [a1 a2 a3 a4 a5 a6].
  do 6 (destruct i as [|i]; [do 6 (destruct k as [|k]; [first [reflexivity | contradiction]|]); lia|]). lia.
Qed.

(** exactly one joint is replaced, by the caller's 'from' or 'to' value of that joint *)
Theorem cand_vec_changed initial from to cand : (cand < 12)%nat ->
  jget (cand_vec initial from to cand) (cand_joint cand) = jget (if Nat.even cand then from else to) (cand_joint cand).
Proof. intros Hc. apply jget_jset6_same. unfold cand_joint. apply Nat.div_lt_upper_bound; lia. Qed.
Theorem cand_vec_others initial from to cand k : (cand < 12)%nat -> (k < 6)%nat -> k <> cand_joint cand ->
  jget (cand_vec initial from to cand) k = jget initial k.
Proof. intros Hc Hk Hne. apply jget_jset6_other; [unfold cand_joint; apply Nat.div_lt_upper_bound; lia | exact Hk | exact Hne]. Qed.

(** the skipped bodies (links before the changed joint) are where they were in the initial configuration:
    link pose i of the GENERATED forward_with_joint_poses depends on joints 0..i only *)
Theorem skipped_links_unmoved p initial from to cand (i : nat) : (cand < 12)%nat -> (i < cand_joint cand)%nat ->
  List.nth i (chain p (cand_vec initial from to cand)) iid = List.nth i (chain p initial) iid.
Proof.
  intros Hc Hi. assert (Hj : (cand_joint cand < 6)%nat) by (unfold cand_joint; apply Nat.div_lt_upper_bound; lia).
  apply chain_prefix; [lia|]. intros k Hk. apply cand_vec_others; [exact Hc | lia | lia].
Qed.
