(** Proofs about Model/Constraints.v at T := R. *)
From Coq Require Import ZArith Reals Lra Lia List Bool Psatz.
From VF Require Import Base.Num Model.Constraints.
Import ListNotations.
Open Scope R_scope.

(** * Specification: arc membership modulo the period [2*hp] *)
Definition on_arc (hp from to x : R) : Prop :=
  from = to \/
  (from < to /\ exists k : Z, from <= x + IZR k * (2 * hp) <= to) \/
  (to < from /\ exists k n : Z,
      from <= x + IZR k * (2 * hp) <= to + IZR n * (2 * hp) /\
      to + IZR n * (2 * hp) - 2 * hp < from).

(** circular distance lemma: the value computed by [inside_bounds] *)
Definition cdist (hp d0 : R) : R :=
  let d1 := nfmod (T:=R) d0 (2 * hp) in if Rltb hp d1 then 2 * hp - d1 else d1.

Lemma IZR_ge0 n : (0 <= n)%Z -> 0 <= IZR n. Proof. intros; apply IZR_le in H; lra. Qed.
Lemma IZR_ge1 n : (1 <= n)%Z -> 1 <= IZR n. Proof. intros; apply IZR_le in H; lra. Qed.
Lemma IZR_lem1 n : (n <= -1)%Z -> IZR n <= -1. Proof. intros; apply IZR_le in H; lra. Qed.
Lemma IZR_le0 n : (n <= 0)%Z -> IZR n <= 0. Proof. intros; apply IZR_le in H; lra. Qed.

Lemma fmod_nonneg (d0 P : R) : 0 <= d0 -> 0 < P ->
  exists m : Z, (0 <= m)%Z /\ nfmod (T:=R) d0 P = d0 - IZR m * P /\ 0 <= d0 - IZR m * P < P.
Proof.
  intros Hd HP. unfold nfmod, ntrunc, n0. rsimp.
  assert (Hq : 0 <= d0 / P) by (apply Rle_mult_inv_pos; lra).
  destruct (Rltb (d0 / P) 0) eqn:E; [apply Rltb_true in E; lra|].
  set (m := Rfloor (d0 / P)). destruct (Rfloor_spec (d0 / P)) as [F1 F2]. fold m in F1, F2.
  exists m. split.
  - assert (-1 < IZR m) by lra. assert (IZR (-1) < IZR m) by (simpl; lra).
    apply lt_IZR in H0. lia.
  - split; [reflexivity|].
    assert (d0 = (d0 / P) * P) by (field; lra).
    split.
    + assert (IZR m * P <= (d0 / P) * P) by (apply Rmult_le_compat_r; lra). lra.
    + assert ((d0 / P) * P < (IZR m + 1) * P) by (apply Rmult_lt_compat_r; lra). lra.
Qed.

Section WithHp.
  Variable hp : R.
  Hypothesis Hhp : 0 < hp.
  Let P := 2 * hp.

  Lemma cdist_attained (y : R) :
    exists k : Z, Rabs (y + IZR k * P) = cdist hp (Rabs y) /\ 0 <= cdist hp (Rabs y) <= hp.
  Proof.
    unfold cdist. fold P.
    destruct (fmod_nonneg (Rabs y) P (Rabs_pos y)) as [m [Hm [Hf Hr]]]; [unfold P; lra|].
    rewrite Hf. set (d1 := Rabs y - IZR m * P) in *.
    destruct (Rcase_abs y) as [Hy|Hy].
    - (* y < 0 : Rabs y = -y *)
      assert (Ha : Rabs y = - y) by (apply Rabs_left; lra).
      destruct (Rltb hp d1) eqn:E; [apply Rltb_true in E | apply Rltb_false in E].
      + exists (m + 1)%Z. rewrite plus_IZR. split; [|unfold P in *; lra].
        replace (y + (IZR m + 1) * P) with (P - d1) by (unfold d1; rewrite Ha; ring).
        apply Rabs_right. unfold P in *; lra.
      + exists m. split; [|lra].
        replace (y + IZR m * P) with (- d1) by (unfold d1; rewrite Ha; ring).
        rewrite Rabs_Ropp. apply Rabs_right. lra.
    - assert (Ha : Rabs y = y) by (apply Rabs_right; lra).
      destruct (Rltb hp d1) eqn:E; [apply Rltb_true in E | apply Rltb_false in E].
      + exists (- (m + 1))%Z. rewrite opp_IZR, plus_IZR. split; [|unfold P in *; lra].
        replace (y + - (IZR m + 1) * P) with (- (P - d1)) by (unfold d1; rewrite Ha; ring).
        rewrite Rabs_Ropp. apply Rabs_right. unfold P in *; lra.
      + exists (- m)%Z. rewrite opp_IZR. split; [|lra].
        replace (y + - IZR m * P) with d1 by (unfold d1; rewrite Ha; ring).
        apply Rabs_right. lra.
  Qed.

  Lemma cdist_minimal (y : R) (k : Z) : cdist hp (Rabs y) <= Rabs (y + IZR k * P).
  Proof.
    unfold cdist. fold P.
    destruct (fmod_nonneg (Rabs y) P (Rabs_pos y)) as [m [Hm [Hf Hr]]]; [unfold P; lra|].
    rewrite Hf. set (d1 := Rabs y - IZR m * P) in *.
    assert (HP : 0 < P) by (unfold P; lra).
    assert (Hmin : (if Rltb hp d1 then P - d1 else d1) <= d1 /\
                   (if Rltb hp d1 then P - d1 else d1) <= P - d1).
    { destruct (Rltb hp d1) eqn:E; [apply Rltb_true in E | apply Rltb_false in E];
      unfold P in *; lra. }
    destruct Hmin as [M1 M2].
    destruct (Rcase_abs y) as [Hy|Hy].
    - assert (Ha : Rabs y = - y) by (apply Rabs_left; lra).
      (* y + kP = -d1 + (k - m) P *)
      replace (y + IZR k * P) with (- d1 + IZR (k - m) * P)
        by (unfold d1; rewrite Ha, minus_IZR; ring).
      destruct (Z_le_gt_dec (k - m) 0) as [Hn|Hn].
      + apply IZR_le0 in Hn. assert (IZR (k - m) * P <= 0) by nra.
        rewrite Rabs_left1 by lra. lra.
      + assert (1 <= IZR (k - m)) by (apply IZR_ge1; lia).
        assert (P <= IZR (k - m) * P) by nra.
        rewrite Rabs_right by lra. lra.
    - assert (Ha : Rabs y = y) by (apply Rabs_right; lra).
      replace (y + IZR k * P) with (d1 + IZR (k + m) * P)
        by (unfold d1; rewrite Ha, plus_IZR; ring).
      destruct (Z_le_gt_dec 0 (k + m)) as [Hn|Hn].
      + apply IZR_ge0 in Hn. assert (0 <= IZR (k + m) * P) by nra.
        rewrite Rabs_right by lra. lra.
      + assert (IZR (k + m) <= -1) by (apply IZR_lem1; lia).
        assert (IZR (k + m) * P <= - P) by nra.
        rewrite Rabs_left1 by lra. lra.
  Qed.

  (** [inside_bounds] decides circular distance to the centre *)
  Lemma inside_bounds_spec (x c t : R) :
    inside_bounds hp x c (Fin t) = true <-> exists k : Z, Rabs (x - c + IZR k * P) <= t.
  Proof.
    unfold inside_bounds, two_pi, n2. rsimp.
    assert (Hn : nabs (T:=R) (x - c) = Rabs (x - c)).
    { unfold nabs, n0. rsimp. destruct (Rltb (x - c) 0) eqn:E;
      [apply Rltb_true in E; rewrite Rabs_left; lra | apply Rltb_false in E; rewrite Rabs_right; lra]. }
    rewrite Hn. change (if Rltb hp (nfmod (Rabs (x - c)) (2 * hp))
                        then 2 * hp - nfmod (Rabs (x - c)) (2 * hp)
                        else nfmod (Rabs (x - c)) (2 * hp)) with (cdist hp (Rabs (x - c))).
    rewrite Rleb_true. split.
    - intros Hle. destruct (cdist_attained (x - c)) as [k [Hk _]]. exists k. lra.
    - intros [k Hk]. pose proof (cdist_minimal (x - c) k). lra.
  Qed.

  Lemma inside_bounds_wide (x c t : R) : hp <= t -> inside_bounds hp x c (Fin t) = true.
  Proof.
    intros Ht. apply inside_bounds_spec.
    destruct (cdist_attained (x - c)) as [k [Hk Hb]]. exists k. lra.
  Qed.

  (** * the unwrap loop *)
  Lemma advance_done fuel a b : a <= b -> advance hp fuel a b = Some b.
  Proof.
    intros Hab. destruct fuel; cbn [advance]; rsimp;
    (destruct (Rltb b a) eqn:E; [apply Rltb_true in E; lra | reflexivity]).
  Qed.

  Lemma advance_spec fuel : forall a b b',
    advance hp fuel a b = Some b' ->
    exists n : Z, (0 <= n)%Z /\ b' = b + IZR n * P /\ a <= b' /\ (b < a -> b' - P < a).
  Proof.
    induction fuel as [|f IH]; intros a b b'; cbn [advance]; rsimp.
    - destruct (Rltb b a) eqn:E; [discriminate|]. apply Rltb_false in E.
      intros [= <-]. exists 0%Z. split; [lia|]. split; [simpl; ring|]. split; [lra|lra].
    - destruct (Rltb b a) eqn:E.
      + apply Rltb_true in E. intros Hadv.
        unfold two_pi, n2 in Hadv. rsimp. fold P in Hadv.
        destruct (Rlt_dec (b + P) a) as [L|L].
        * apply IH in Hadv. destruct Hadv as [n [Hn [Hb [Hle Hlt]]]].
          exists (n + 1)%Z. split; [lia|]. rewrite plus_IZR. split; [lra|]. split; [lra|].
          intros _. apply Hlt; exact L.
        * rewrite advance_done in Hadv by lra. injection Hadv as <-.
          exists 1%Z. split; [lia|]. split; [lra|]. split; [lra|]. intros _. lra.
      + apply Rltb_false in E. intros [= <-]. exists 0%Z. split; [lia|].
        split; [simpl; ring|]. split; [lra|lra].
  Qed.

  Lemma advance_enough fuel : forall a b, a - b <= INR fuel * P -> advance hp fuel a b <> None.
  Proof.
    induction fuel as [|f IH]; intros a b Hf.
    - simpl in Hf. rewrite advance_done by lra. discriminate.
    - cbn [advance]; rsimp. destruct (Rltb b a) eqn:E; [|discriminate].
      apply IH. rewrite S_INR in Hf. unfold two_pi, n2. rsimp. fold P. lra.
  Qed.

  Lemma adv_fuel_enough a b : advance hp (adv_fuel hp a b) a b <> None.
  Proof.
    apply advance_enough. unfold adv_fuel, two_pi, n2. rsimp. fold P.
    assert (HP : 0 < P) by (unfold P; lra).
    set (z := Rfloor ((a - b) / P)). destruct (Rfloor_spec ((a - b) / P)) as [F1 F2]. fold z in F1, F2.
    rewrite !S_INR.
    assert (Hz : IZR z <= INR (Z.to_nat z)).
    { destruct (Z_le_gt_dec 0 z) as [Hz|Hz].
      - rewrite INR_IZR_INZ, Z2Nat.id by lia. lra.
      - assert (IZR z <= 0) by (apply IZR_le0; lia). pose proof (pos_INR (Z.to_nat z)). lra. }
    assert (a - b = (a - b) / P * P) by (field; lra).
    assert ((a - b) / P * P < (IZR z + 1) * P) by (apply Rmult_lt_compat_r; lra).
    nra.
  Qed.

  (** * one joint: centre/tolerance against the arc specification *)
  Lemma shift_interval (a b x : R) (k : Z) :
    Rabs (x - (a + b) / 2 + IZR k * P) <= (b - a) / 2 <-> a <= x + IZR k * P <= b.
  Proof.
    split; intros Hx.
    - assert (Hx2 := Hx). unfold Rabs in Hx; destruct (Rcase_abs _) in Hx; lra.
    - apply Rabs_le; lra.
  Qed.

  Lemma exists_rep (a x : R) : exists k : Z, a <= x + IZR k * P < a + P.
  Proof.
    assert (HP : 0 < P) by (unfold P; lra).
    set (z := Rfloor ((x - a) / P)). destruct (Rfloor_spec ((x - a) / P)) as [F1 F2]. fold z in F1, F2.
    exists (- z)%Z. rewrite opp_IZR.
    assert (x - a = (x - a) / P * P) by (field; lra).
    assert (IZR z * P <= (x - a) / P * P) by (apply Rmult_le_compat_r; lra).
    assert ((x - a) / P * P < (IZR z + 1) * P) by (apply Rmult_lt_compat_r; lra).
    lra.
  Qed.

  (** over the reals the code's half width IS the half width *)
  Lemma half_width_R (a b : R) : half_width a b ((a + b) / n2) = (b - a) / n2.
  Proof. unfold half_width, n2. rsimp. destruct (Rltb ((a + b) / 2 - a) (b - (a + b) / 2)); field. Qed.
  Lemma center_tol_eq (a b : R) : center_tol hp a b = center_tol_spec hp a b.
  Proof.
    unfold center_tol, center_tol_spec. destruct (a =? b)%num; [reflexivity|]. destruct (a <? b)%num.
    - cbv zeta. rewrite half_width_R. reflexivity.
    - destruct (advance hp (adv_fuel hp a b) a b) as [b'|]; [|reflexivity]. cbv zeta. rewrite half_width_R. reflexivity.
  Qed.

  Theorem joint_iff_on_arc (a b x c : R) (t : Tol) :
    center_tol hp a b = Some (c, t) ->
    (inside_bounds hp x c t = true <-> on_arc hp a b x).
  Proof.
    rewrite center_tol_eq. unfold center_tol_spec, on_arc. rsimp. fold P.
    destruct (Reqb a b) eqn:Eab.
    - apply Reqb_true in Eab. intros [= <- <-]. cbn [inside_bounds]. tauto.
    - apply Reqb_false in Eab. destruct (Rltb a b) eqn:Elt.
      + apply Rltb_true in Elt. intros [= <- <-]. unfold n2. rsimp.
        rewrite inside_bounds_spec. split.
        * intros [k Hk]. right; left. split; [exact Elt|]. exists k. apply shift_interval; exact Hk.
        * intros [Heq | [[_ [k Hk]] | [Hlt _]]]; [contradiction | | lra].
          exists k. apply shift_interval; exact Hk.
      + apply Rltb_false in Elt.
        destruct (advance hp (adv_fuel hp a b) a b) as [b'|] eqn:Hadv; [|discriminate].
        intros [= <- <-]. unfold n2. rsimp.
        apply advance_spec in Hadv. destruct Hadv as [n [Hn [Hb [Hle Hlt]]]].
        assert (Hba : b < a) by lra. specialize (Hlt Hba).
        rewrite inside_bounds_spec. split.
        * intros [k Hk]. right; right. split; [exact Hba|]. exists k, n.
          apply shift_interval in Hk. subst b'. split; [exact Hk| lra].
        * intros [Heq | [[Hlt' _] | [_ [k [n' [Hk Hn']]]]]]; [congruence | lra |].
          exists k. apply shift_interval.
          (* n' = n: both are the least representative of b at or after a *)
          assert (Hnn : n' = n).
          { assert (HP : 0 < P) by (unfold P; lra).
            assert (A1 : IZR n' * P - P < IZR n * P) by lra.
            assert (A2 : IZR n * P - P < IZR n' * P) by lra.
            assert (B1 : IZR (n' - 1) < IZR n) by (rewrite minus_IZR; nra).
            assert (B2 : IZR (n - 1) < IZR n') by (rewrite minus_IZR; nra).
            apply lt_IZR in B1, B2. lia. }
          subst n' b'. exact Hk.
  Qed.

  Lemma center_tol_total a b : center_tol hp a b <> None.
  Proof.
    rewrite center_tol_eq. unfold center_tol_spec. destruct (a =? b)%num; [discriminate|].
    destruct (a <? b)%num; [discriminate|].
    pose proof (adv_fuel_enough a b).
    destruct (advance hp (adv_fuel hp a b) a b); [discriminate|contradiction].
  Qed.
End WithHp.

(** * Whole constraint sets *)
Section Sets.
  Variable hp : R.
  Hypothesis Hhp : 0 < hp.
  Let P := 2 * hp.

  Inductive Forall3 {A B C} (R3 : A -> B -> C -> Prop) : list A -> list B -> list C -> Prop :=
  | F3nil : Forall3 R3 [] [] []
  | F3cons a b c la lb lc : R3 a b c -> Forall3 R3 la lb lc -> Forall3 R3 (a :: la) (b :: lb) (c :: lc).

  Lemma centers_tols_total : forall from to, centers_tols hp from to <> None.
  Proof.
    induction from as [|a from IH]; intros [|b to]; cbn [centers_tols]; try discriminate.
    pose proof (center_tol_total hp Hhp a b). destruct (center_tol hp a b) as [[c t]|]; [|contradiction].
    specialize (IH to). destruct (centers_tols hp from to) as [[cs ts]|]; [discriminate|contradiction].
  Qed.

  Theorem mk_constraints_total from to w : mk_constraints hp from to w <> None.
  Proof.
    unfold mk_constraints. pose proof (centers_tols_total from to).
    destruct (centers_tols hp from to) as [[cs ts]|]; [discriminate|contradiction].
  Qed.

  Lemma compliant_aux_iff : forall from to xs cs ts,
    length from = length to -> length xs = length from ->
    centers_tols hp from to = Some (cs, ts) ->
    (compliant_aux hp xs cs ts = true <-> Forall3 (on_arc hp) from to xs).
  Proof.
    induction from as [|a from IH]; intros [|b to] [|x xs] cs ts Hl Hx; cbn [centers_tols];
      try (simpl in Hl, Hx; discriminate).
    - intros [= <- <-]. simpl. split; [constructor|reflexivity].
    - destruct (center_tol hp a b) as [[c t]|] eqn:Ect; [|discriminate].
      destruct (centers_tols hp from to) as [[cs' ts']|] eqn:E; [|discriminate].
      intros [= <- <-]. cbn [compliant_aux]. rewrite andb_true_iff.
      rewrite (joint_iff_on_arc hp Hhp a b x c t Ect).
      simpl in Hl, Hx. rewrite (IH to xs cs' ts' ltac:(lia) ltac:(lia) E).
      split.
      + intros [H1 H2]. constructor; assumption.
      + intros H3. inversion H3; subst. split; assumption.
  Qed.

  (** Main statement of C07: acceptance = arc membership of every joint. *)
  Theorem compliant_iff_on_arc from to w k xs :
    length from = length to -> length xs = length from ->
    mk_constraints hp from to w = Some k ->
    (compliant hp k xs = true <-> Forall3 (on_arc hp) from to xs).
  Proof.
    intros Hl Hx. unfold mk_constraints.
    destruct (centers_tols hp from to) as [[cs ts]|] eqn:E; [|discriminate].
    intros [= <-]. unfold compliant. cbn [c_centers c_tols].
    apply compliant_aux_iff; assumption.
  Qed.

  (** ** consequences, stated on the specification *)
  Lemma on_arc_shift_x a b x (m : Z) : on_arc hp a b (x + IZR m * P) <-> on_arc hp a b x.
  Proof.
    unfold on_arc. fold P.
    assert (E : forall k m' : Z, x + IZR m' * P + IZR k * P = x + IZR (k + m') * P)
      by (intros; rewrite plus_IZR; ring).
    assert (E' : forall k m' : Z, x + IZR (k - m') * P = x + IZR m' * P + IZR (k - m' - m') * P)
      by (intros; rewrite !minus_IZR; ring).
    split.
    - intros [H|[[H [k Hk]]|[H [k [n [Hk Hn]]]]]]; [left; exact H | right; left | right; right];
        (split; [exact H|]).
      + exists (k + m)%Z. rewrite <- E. exact Hk.
      + exists (k + m)%Z, n. rewrite <- E. split; assumption.
    - intros [H|[[H [k Hk]]|[H [k [n [Hk Hn]]]]]]; [left; exact H | right; left | right; right];
        (split; [exact H|]).
      + exists (k - m)%Z. rewrite E. replace (k - m + m)%Z with k by lia. exact Hk.
      + exists (k - m)%Z, n. rewrite E. replace (k - m + m)%Z with k by lia. split; assumption.
  Qed.

  Lemma on_arc_shift_limits a b x (m : Z) :
    on_arc hp (a + IZR m * P) (b + IZR m * P) x <-> on_arc hp a b x.
  Proof.
    unfold on_arc. fold P.
    split.
    - intros [H|[[H [k Hk]]|[H [k [n [Hk Hn]]]]]].
      + left. lra.
      + right; left. split; [lra|]. exists (k - m)%Z. rewrite minus_IZR. lra.
      + right; right. split; [lra|]. exists (k - m)%Z, n. rewrite minus_IZR. split; lra.
    - intros [H|[[H [k Hk]]|[H [k [n [Hk Hn]]]]]].
      + left. lra.
      + right; left. split; [lra|]. exists (k + m)%Z. rewrite plus_IZR. lra.
      + right; right. split; [lra|]. exists (k + m)%Z, n. rewrite plus_IZR. split; lra.
  Qed.

  Lemma on_arc_full_turn a b x : P <= b - a -> on_arc hp a b x.
  Proof.
    intros Hw. unfold on_arc. fold P. right; left.
    assert (HP : 0 < P) by (unfold P; lra). split; [lra|].
    destruct (exists_rep hp Hhp a x) as [k Hk]. fold P in Hk. exists k. lra.
  Qed.

  Lemma on_arc_equal a x : on_arc hp a a x.
  Proof. left; reflexivity. Qed.

  (** the reported centre of every range is itself accepted *)
  Lemma centre_inside a b c t : center_tol hp a b = Some (c, t) -> inside_bounds hp c c t = true.
  Proof.
    intros Hct. destruct t as [|t]; [reflexivity|].
    apply inside_bounds_spec; [exact Hhp|]. exists 0%Z.
    replace (c - c + 0 * (2 * hp)) with 0 by ring. rewrite Rabs_R0.
    rewrite center_tol_eq in Hct. unfold center_tol_spec in Hct. rsimp.
    destruct (Reqb a b); [discriminate|].
    destruct (Rltb a b) eqn:E.
    - apply Rltb_true in E. injection Hct as _ <-. unfold n2; rsimp. lra.
    - destruct (advance hp (adv_fuel hp a b) a b) as [b'|] eqn:Hadv; [|discriminate].
      injection Hct as _ <-. apply (advance_spec hp) in Hadv.
      destruct Hadv as [n [_ [_ [Hle _]]]]. unfold n2; rsimp. lra.
  Qed.

  Lemma centres_accepted_aux : forall from to cs ts,
    centers_tols hp from to = Some (cs, ts) -> compliant_aux hp cs cs ts = true.
  Proof.
    induction from as [|a from IH]; intros [|b to] cs ts; cbn [centers_tols];
      try (intros [= <- <-]; reflexivity).
    destruct (center_tol hp a b) as [[c t]|] eqn:Ect; [|discriminate].
    destruct (centers_tols hp from to) as [[cs' ts']|] eqn:E; [|discriminate].
    intros [= <- <-]. cbn [compliant_aux]. rewrite (centre_inside a b c t Ect). simpl.
    apply (IH to _ _ E).
  Qed.

  Theorem centres_accepted from to w k :
    mk_constraints hp from to w = Some k -> compliant hp k (c_centers k) = true.
  Proof.
    unfold mk_constraints. destruct (centers_tols hp from to) as [[cs ts]|] eqn:E; [|discriminate].
    intros [= <-]. unfold compliant; cbn [c_centers c_tols]. eapply centres_accepted_aux; eassumption.
  Qed.

  (** filter keeps exactly the compliant vectors, in order *)
  Theorem cfilter_spec k l x : In x (cfilter hp k l) <-> In x l /\ compliant hp k x = true.
  Proof. unfold cfilter. apply filter_In. Qed.
End Sets.

(** * C18: the sampler *)
Section Sampler.
  Variable hp : R.
  Hypothesis Hhp : 0 < hp.
  Let P := 2 * hp.

  Lemma sample_width_total a b : sample_width hp a b <> None.
  Proof.
    unfold sample_width. destruct (a <? b)%num; [discriminate|]. destruct (a =? b)%num; [discriminate|].
    pose proof (adv_fuel_enough hp Hhp a b). destruct (advance hp (adv_fuel hp a b) a b) as [e|]; [|contradiction].
    destruct (a <? e)%num; discriminate.
  Qed.

  (** gen_range is only ever called with a non-empty range (no panic) *)
  Lemma sample_width_positive a b w : sample_width hp a b = Some (Some w) -> 0 < w.
  Proof.
    unfold sample_width. rsimp.
    destruct (Rltb a b) eqn:E1; [apply Rltb_true in E1; intros [= <-]; lra|].
    destruct (Reqb a b) eqn:E2; [intros [= <-]; unfold two_pi, n2; rsimp; lra|].
    destruct (advance hp (adv_fuel hp a b) a b) as [e|]; [|discriminate].
    destruct (Rltb a e) eqn:E3; [apply Rltb_true in E3; intros [= <-]; lra | discriminate].
  Qed.

  (** every draw lies on the arc of its joint *)
  Theorem random_angle_on_arc a b u x : 0 <= u < 1 -> random_angle hp a b u = Some x -> on_arc hp a b x.
  Proof.
    intros Hu. unfold random_angle, sample_width, on_arc. rsimp. fold P.
    destruct (Rltb a b) eqn:E1.
    - apply Rltb_true in E1. intros [= <-]. right; left. split; [exact E1|]. exists 0%Z. simpl. nra.
    - apply Rltb_false in E1. destruct (Reqb a b) eqn:E2.
      + apply Reqb_true in E2. intros _. left. exact E2.
      + apply Reqb_false in E2.
        destruct (advance hp (adv_fuel hp a b) a b) as [e|] eqn:Hadv; [|discriminate].
        apply (advance_spec hp) in Hadv. destruct Hadv as [n [Hn [He [Hle Hlt]]]].
        assert (Hba : b < a) by lra. specialize (Hlt Hba). fold P in He, Hlt.
        destruct (Rltb a e) eqn:E3; [apply Rltb_true in E3 | apply Rltb_false in E3]; intros [= <-];
          right; right; (split; [exact Hba|]); exists 0%Z, n; rewrite <- He; simpl; split; nra.
  Qed.

  Lemma random_angle_total a b u : random_angle hp a b u <> None.
  Proof.
    unfold random_angle. pose proof (sample_width_total a b).
    destruct (sample_width hp a b) as [[w|]|]; [discriminate|discriminate|contradiction].
  Qed.

  Theorem random_angles_on_arcs : forall from to us xs,
    length from = length to -> length us = length from ->
    Forall (fun u => 0 <= u < 1) us ->
    random_angles hp from to us = Some xs -> Forall3 (on_arc hp) from to xs.
  Proof.
    induction from as [|a from IH]; intros [|b to] [|u us] xs Hl Hu HU; simpl in Hl, Hu; try discriminate; cbn [random_angles].
    - intros [= <-]. constructor.
    - inversion HU as [|? ? Hu0 HU']; subst.
      destruct (random_angle hp a b u) as [x|] eqn:Ex; [|discriminate].
      destruct (random_angles hp from to us) as [xs'|] eqn:Exs; [|discriminate].
      intros [= <-]. constructor; [eapply random_angle_on_arc; eassumption|].
      eapply IH; try eassumption; lia.
  Qed.

  Lemma random_angles_length : forall from to us xs,
    length from = length to -> length us = length from ->
    random_angles hp from to us = Some xs -> length xs = length from.
  Proof.
    induction from as [|a from IH]; intros [|b to] [|u us] xs Hl Hu; simpl in Hl, Hu; try discriminate; cbn [random_angles].
    - intros [= <-]. reflexivity.
    - destruct (random_angle hp a b u) as [x|]; [|discriminate].
      destruct (random_angles hp from to us) as [xs'|] eqn:Exs; [|discriminate].
      intros [= <-]. simpl. f_equal. eapply IH; try eassumption; lia.
  Qed.

  (** C18: a drawn vector is accepted by the same constraints, for every outcome of the random generator *)
  Theorem sample_compliant from to w k us xs :
    length from = length to -> length us = length from -> Forall (fun u => 0 <= u < 1) us ->
    mk_constraints hp from to w = Some k ->
    random_angles hp from to us = Some xs -> compliant hp k xs = true.
  Proof.
    intros Hl Hu HU Hk Hx.
    apply (compliant_iff_on_arc hp Hhp from to w k xs Hl); [|exact Hk|].
    - eapply random_angles_length; eassumption.
    - eapply random_angles_on_arcs; eassumption.
  Qed.
End Sampler.
