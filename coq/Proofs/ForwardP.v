(** C03: the generated forward kinematics against the hand-written OPW link chain. *)
From Coq Require Import ZArith Reals Lra Lia List Psatz Nsatz.
From VF Require Import Base.Lin Base.Angles Gen.Forward.
Import ListNotations.
Open Scope R_scope.

(** * Independent reference: six elementary joint transforms of the OPW model *)
Definition qint (p : Params) (j : J6) : J6 :=
  mkJ6 (j1 j * IZR (p_sg1 p) - p_off1 p) (j2 j * IZR (p_sg2 p) - p_off2 p) (j3 j * IZR (p_sg3 p) - p_off3 p)
       (j4 j * IZR (p_sg4 p) - p_off4 p) (j5 j * IZR (p_sg5 p) - p_off5 p) (j6 j * IZR (p_sg6 p) - p_off6 p).

Definition E1 (p : Params) (q : J6) := mkIso (Rotz (j1 q)) (mkV3 0 0 (p_c1 p)).
Definition E2 (p : Params) (q : J6) := mkIso (Roty (j2 q)) (mkV3 (p_a1 p) (p_b p) 0).
Definition E3 (p : Params) (q : J6) := mkIso (Roty (j3 q)) (mkV3 0 0 (p_c2 p)).
Definition E4 (p : Params) (q : J6) := mkIso (Rotz (j4 q)) (mkV3 (p_a2 p) 0 0).
Definition E5 (p : Params) (q : J6) := mkIso (Roty (j5 q)) (mkV3 0 0 (p_c3 p)).
Definition E6 (p : Params) (q : J6) := mkIso (Rotz (j6 q)) (mkV3 0 0 (p_c4 p)).

Definition L1 p q := E1 p q.
Definition L2 p q := icomp (L1 p q) (E2 p q).
Definition L3 p q := icomp (L2 p q) (E3 p q).
Definition L4 p q := icomp (L3 p q) (E4 p q).
Definition L5 p q := icomp (L4 p q) (E5 p q).
Definition L6 p q := icomp (L5 p q) (E6 p q).

Definition spec_chain (p : Params) (j : J6) : list Iso :=
  let q := qint p j in [L1 p q; L2 p q; L3 p q; L4 p q; L5 p q; L6 p q].
Definition fk_spec (p : Params) (j : J6) : Iso := L6 p (qint p j).

Ltac spec_unfold :=
  cbv [spec_chain fk_spec L1 L2 L3 L4 L5 L6 E1 E2 E3 E4 E5 E6 qint j1 j2 j3 j4 j5 j6].

Ltac iso_ring := apply Iso_eq; [apply M3_eq | apply V3_eq]; lin_unfold; ring.

(** the generated per-link chain is the reference chain *)
Lemma chain_eq_spec p j : chain p j = spec_chain p j.
Proof.
  unfold chain. cbv zeta. spec_unfold.
  destruct j as [a1 a2 a3 a4 a5 a6]; cbv [j1 j2 j3 j4 j5 j6].
  repeat (apply (f_equal2 (@cons Iso)); [iso_ring|]). reflexivity.
Qed.

Lemma atan2_polar' y x :
  sqrt (y * y + x * x) * cos (atan2 y x) = x /\ sqrt (y * y + x * x) * sin (atan2 y x) = y.
Proof. rewrite (Rplus_comm (y * y)). apply atan2_polar. Qed.

(** the closed-form tool pose is the last link of the chain *)
Lemma fwd_eq_spec p j : fwd p j = fk_spec p j.
Proof.
  unfold fwd. cbv zeta. spec_unfold.
  destruct j as [a1 a2 a3 a4 a5 a6]; cbv [j1 j2 j3 j4 j5 j6].
  destruct (atan2_polar' (p_a2 p) (p_c3 p)) as [Hc Hs].
  repeat rewrite ?sin_plus, ?cos_plus.
  set (k := sqrt (p_a2 p * p_a2 p + p_c3 p * p_c3 p)) in *.
  set (psi := atan2 (p_a2 p) (p_c3 p)) in *.
  revert Hc Hs. generalize (sin psi) (cos psi) k. intros sp cp k' Hc Hs.
  rewrite <- Hc, <- Hs.
  apply Iso_eq; [apply M3_eq | apply V3_eq]; lin_unfold; ring.
Qed.

(** * consequences *)
Lemma chain_last_is_fwd p j : List.nth 5%nat (chain p j) iid = fwd p j.
Proof. rewrite chain_eq_spec, fwd_eq_spec. reflexivity. Qed.

Lemma chain_length p j : length (chain p j) = 6%nat.
Proof. rewrite chain_eq_spec. reflexivity. Qed.

Definition jget (j : J6) (i : nat) : R :=
  match i with 0 => j1 j | 1 => j2 j | 2 => j3 j | 3 => j4 j | 4 => j5 j | _ => j6 j end%nat.

(** link pose i depends only on joints 1..i *)
Lemma chain_prefix p j j' (i : nat) :
  (i < 6)%nat -> (forall k, (k <= i)%nat -> jget j k = jget j' k) ->
  List.nth i (chain p j) iid = List.nth i (chain p j') iid.
Proof.
  intros Hi H. rewrite !chain_eq_spec.
  destruct j as [a1 a2 a3 a4 a5 a6], j' as [b1 b2 b3 b4 b5 b6].
  assert (H0 := H 0%nat); assert (H1 := H 1%nat); assert (H2 := H 2%nat);
  assert (H3 := H 3%nat); assert (H4 := H 4%nat); assert (H5 := H 5%nat).
  cbn [jget j1 j2 j3 j4 j5 j6] in *.
  do 6 (destruct i as [|i]; [
    spec_unfold; cbn [List.nth];
    repeat match goal with
           | Hk : (?n <= ?m)%nat -> _ = _ |- _ =>
               first [ rewrite (Hk ltac:(lia)); clear Hk | clear Hk ]
           end; reflexivity |]).
  lia.
Qed.

Lemma proper_norm m v : proper m -> vnorm2 (mapp m v) = vnorm2 v.
Proof.
  intros [H _]. apply mmul_tr_eq in H. destruct m as [a b c d e f g h i], v as [x y z].
  cbv [m00 m01 m02 m10 m11 m12 m20 m21 m22] in H. destruct H as (H1 & H2 & H3 & H4 & H5 & H6).
  lin_unfold. nsatz.
Qed.

Lemma proper_L1 p q : proper (rot (L1 p q)). Proof. apply proper_Rotz. Qed.
Lemma proper_L2 p q : proper (rot (L2 p q)). Proof. apply proper_mmul; [apply proper_L1 | apply proper_Roty]. Qed.
Lemma proper_L3 p q : proper (rot (L3 p q)). Proof. apply proper_mmul; [apply proper_L2 | apply proper_Roty]. Qed.
Lemma proper_L4 p q : proper (rot (L4 p q)). Proof. apply proper_mmul; [apply proper_L3 | apply proper_Rotz]. Qed.
Lemma proper_L5 p q : proper (rot (L5 p q)). Proof. apply proper_mmul; [apply proper_L4 | apply proper_Roty]. Qed.
Lemma proper_L6 p q : proper (rot (L6 p q)). Proof. apply proper_mmul; [apply proper_L5 | apply proper_Rotz]. Qed.

(** all link rotations are proper rotations *)
Lemma chain_proper p j : Forall (fun l => proper (rot l)) (chain p j).
Proof.
  rewrite chain_eq_spec. unfold spec_chain. cbv zeta.
  apply Forall_cons; [apply proper_L1|]. apply Forall_cons; [apply proper_L2|].
  apply Forall_cons; [apply proper_L3|]. apply Forall_cons; [apply proper_L4|].
  apply Forall_cons; [apply proper_L5|]. apply Forall_cons; [apply proper_L6|]. apply Forall_nil.
Qed.

Lemma fwd_proper p j : proper (rot (fwd p j)).
Proof. rewrite fwd_eq_spec. apply proper_L6. Qed.

Lemma step_offset (a e : Iso) : proper (rot a) ->
  vnorm2 (vsub (tr (icomp a e)) (tr a)) = vnorm2 (tr e).
Proof.
  intros H. rewrite <- (proper_norm (rot a) (tr e) H).
  f_equal. apply V3_eq; lin_unfold; ring.
Qed.

(** consecutive link origins are separated by exactly the parameter-defined offsets *)
Lemma origin_offsets p j :
  let o i := tr (List.nth i (chain p j) iid) in
  vnorm2 (vsub (o 1%nat) (o 0%nat)) = p_a1 p * p_a1 p + p_b p * p_b p /\
  vnorm2 (vsub (o 2%nat) (o 1%nat)) = p_c2 p * p_c2 p /\
  vnorm2 (vsub (o 3%nat) (o 2%nat)) = p_a2 p * p_a2 p /\
  vnorm2 (vsub (o 4%nat) (o 3%nat)) = p_c3 p * p_c3 p /\
  vnorm2 (vsub (o 5%nat) (o 4%nat)) = p_c4 p * p_c4 p /\
  o 0%nat = mkV3 0 0 (p_c1 p).
Proof.
  cbv zeta. rewrite chain_eq_spec. unfold spec_chain. cbv zeta. cbn [List.nth].
  set (q := qint p j).
  repeat split.
  - unfold L2. rewrite step_offset by apply proper_L1. lin_unfold. cbn. ring.
  - unfold L3. rewrite step_offset by apply proper_L2. lin_unfold. cbn. ring.
  - unfold L4. rewrite step_offset by apply proper_L3. lin_unfold. cbn. ring.
  - unfold L5. rewrite step_offset by apply proper_L4. lin_unfold. cbn. ring.
  - unfold L6. rewrite step_offset by apply proper_L5. lin_unfold. cbn. ring.
Qed.
