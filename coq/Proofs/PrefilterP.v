(** C10: why the enlarged-box pre-filter of CollisionTask::collides never discards a pair that is within the safety distance.
    Geometry over R in the frame of the smaller shape; parry3d enters through three named contracts (hypotheses). *)
From Coq Require Import Reals Lra List Psatz.
From VF Require Import Base.Lin.
Import ListNotations.
Open Scope R_scope.

(** * leaving a box along a segment: the first exit point lies on the boundary *)
(** a constraint g(t) = g0 + t (g1 - g0) <= 0 along the segment, given by its values at both ends *)
Definition gval (g : R * R) (t : R) : R := fst g + t * (snd g - fst g).
Definition exit_time (g : R * R) : R := if Rlt_dec 0 (snd g) then - fst g / (snd g - fst g) else 1.
Fixpoint first_exit (l : list (R * R)) : R := match l with [] => 1 | g :: r => Rmin (exit_time g) (first_exit r) end.

Lemma exit_time_range g : fst g <= 0 -> 0 <= exit_time g <= 1.
Proof.
  intros H0. unfold exit_time. destruct (Rlt_dec 0 (snd g)) as [H1|H1]; [|lra].
  assert (Hd : 0 < snd g - fst g) by lra. split.
  - apply Rmult_le_pos; [lra | left; apply Rinv_0_lt_compat; exact Hd].
  - apply (Rmult_le_reg_r (snd g - fst g)); [exact Hd|]. unfold Rdiv. rewrite Rmult_assoc, Rinv_l by lra. lra.
Qed.
Lemma first_exit_range l : Forall (fun g => fst g <= 0) l -> 0 <= first_exit l <= 1.
Proof.
  induction 1 as [|g r Hg _ IH]; cbn [first_exit]; [lra|]. pose proof (exit_time_range g Hg).
  unfold Rmin. destruct (Rle_dec (exit_time g) (first_exit r)); lra.
Qed.
(** before its own exit time a constraint still holds *)
Lemma gval_before g t : fst g <= 0 -> 0 <= t <= exit_time g -> gval g t <= 0.
Proof.
  intros H0 [Ht0 Ht]. unfold gval, exit_time in *. destruct (Rlt_dec 0 (snd g)) as [H1|H1].
  - assert (Hd : 0 < snd g - fst g) by lra.
    assert (t * (snd g - fst g) <= - fst g).
    { apply (Rmult_le_compat_r (snd g - fst g)) in Ht; [|lra]. unfold Rdiv in Ht. rewrite Rmult_assoc, Rinv_l in Ht by lra. lra. }
    lra.
  - assert (snd g <= 0) by lra. nra.
Qed.
Lemma gval_at_exit g : fst g <= 0 -> 0 < snd g -> gval g (exit_time g) = 0.
Proof.
  intros H0 H1. unfold gval, exit_time. destruct (Rlt_dec 0 (snd g)); [|contradiction]. field. lra.
Qed.

Theorem first_exit_spec l : Forall (fun g => fst g <= 0) l -> Exists (fun g => 0 < snd g) l ->
  let t := first_exit l in 0 <= t <= 1 /\ Forall (fun g => gval g t <= 0) l /\ Exists (fun g => gval g t = 0) l.
Proof.
  intros Hall Hex t. split; [apply first_exit_range; exact Hall|]. split.
  - unfold t. clear Hex. induction Hall as [|g r Hg Hr IH]; [constructor|]. cbn [first_exit].
    pose proof (exit_time_range g Hg). pose proof (first_exit_range r Hr).
    constructor.
    + apply gval_before; [exact Hg|]. unfold Rmin. destruct (Rle_dec (exit_time g) (first_exit r)); lra.
    + (* constraints of the tail hold up to the tail's exit, hence up to the smaller time *)
      clear IH. assert (G : forall s, 0 <= s <= first_exit r -> Forall (fun g0 => gval g0 s <= 0) r).
      { clear -Hr. induction Hr as [|g0 r0 Hg0 Hr0 IH0]; intros s Hs; [constructor|]. cbn [first_exit] in Hs.
        pose proof (exit_time_range g0 Hg0). pose proof (first_exit_range r0 Hr0).
        assert (s <= exit_time g0 /\ s <= first_exit r0) by (unfold Rmin in Hs; destruct (Rle_dec (exit_time g0) (first_exit r0)); lra).
        constructor; [apply gval_before; [exact Hg0 | lra] | apply IH0; lra]. }
      apply G. unfold Rmin. destruct (Rle_dec (exit_time g) (first_exit r)); lra.
  - unfold t. clear t. induction Hall as [|g r Hg Hr IH]; [inversion Hex|]. cbn [first_exit].
    pose proof (exit_time_range g Hg). pose proof (first_exit_range r Hr).
    unfold Rmin. destruct (Rle_dec (exit_time g) (first_exit r)) as [Hle|Hgt].
    + (* g exits first, or g never exits and the tail exits at 1 too *)
      destruct (Rlt_dec 0 (snd g)) as [Hv|Hnv].
      * apply Exists_cons_hd. apply gval_at_exit; assumption.
      * assert (E1 : exit_time g = 1) by (unfold exit_time; destruct (Rlt_dec 0 (snd g)); [contradiction | reflexivity]).
        assert (Hr1 : first_exit r = 1) by lra.
        inversion Hex as [? ? Hh|? ? Ht]; subst; [contradiction|]. apply Exists_cons_tl. rewrite E1, <- Hr1. apply IH. exact Ht.
    + destruct (Rlt_dec 0 (snd g)) as [Hv|Hnv].
      * (* the tail exits strictly earlier: some tail constraint is violated at 1 (otherwise its exit time is 1) *)
        assert (Hext : Exists (fun g0 => 0 < snd g0) r).
        { destruct (Exists_dec (fun g0 => 0 < snd g0) r (fun g0 => Rlt_dec 0 (snd g0))) as [E|NE]; [exact E|]. exfalso.
          assert (first_exit r = 1).
          { clear -NE. induction r as [|g0 r0 IH0]; [reflexivity|]. cbn [first_exit].
            assert (~ 0 < snd g0) by (intros C; apply NE; apply Exists_cons_hd; exact C).
            assert (~ Exists (fun g1 => 0 < snd g1) r0) by (intros C; apply NE; apply Exists_cons_tl; exact C).
            rewrite (IH0 H0). unfold exit_time. destruct (Rlt_dec 0 (snd g0)); [contradiction|]. unfold Rmin. destruct (Rle_dec 1 1); lra. }
          lra. }
        apply Exists_cons_tl. apply IH. exact Hext.
      * inversion Hex as [? ? Hh|? ? Ht]; subst; [contradiction|]. apply Exists_cons_tl. apply IH. exact Ht.
Qed.

(** * boxes, triangles, distance *)
Definition in_box (lo hi x : V3) : Prop :=
  vx lo <= vx x <= vx hi /\ vy lo <= vy x <= vy hi /\ vz lo <= vz x <= vz hi.
Definition on_box_surface (lo hi x : V3) : Prop :=
  in_box lo hi x /\ (vx x = vx lo \/ vx x = vx hi \/ vy x = vy lo \/ vy x = vy hi \/ vz x = vz lo \/ vz x = vz hi).
Definition comb3 (l1 l2 l3 : R) (v1 v2 v3 : V3) : V3 :=
  mkV3 (l1 * vx v1 + l2 * vx v2 + l3 * vx v3) (l1 * vy v1 + l2 * vy v2 + l3 * vy v3) (l1 * vz v1 + l2 * vz v2 + l3 * vz v3).
Definition in_triangle (v1 v2 v3 x : V3) : Prop :=
  exists l1 l2 l3, 0 <= l1 /\ 0 <= l2 /\ 0 <= l3 /\ l1 + l2 + l3 = 1 /\ x = comb3 l1 l2 l3 v1 v2 v3.
Definition loosen (lo hi : V3) (r : R) : V3 * V3 :=
  (mkV3 (vx lo - r) (vy lo - r) (vz lo - r), mkV3 (vx hi + r) (vy hi + r) (vz hi + r)).

Lemma coord_le_dist (a b : V3) (r : R) : vnorm (vsub a b) <= r ->
  Rabs (vx a - vx b) <= r /\ Rabs (vy a - vy b) <= r /\ Rabs (vz a - vz b) <= r.
Proof.
  intros H. unfold vnorm, vnorm2, vdot, vsub in H. cbn [vx vy vz] in H.
  set (dx := vx a - vx b) in *. set (dy := vy a - vy b) in *. set (dz := vz a - vz b) in *.
  assert (Hs : forall t, t * t <= dx * dx + dy * dy + dz * dz -> Rabs t <= r).
  { intros t Ht. eapply Rle_trans; [|exact H]. rewrite <- (sqrt_Rsqr_abs t). apply sqrt_le_1_alt. unfold Rsqr. exact Ht. }
  repeat split; apply Hs; nra.
Qed.

(** a point within r of a point of the box lies in the box loosened by r *)
Lemma near_in_loosened lo hi a b r : in_box lo hi a -> vnorm (vsub a b) <= r ->
  in_box (fst (loosen lo hi r)) (snd (loosen lo hi r)) b.
Proof.
  intros [[A1 A2] [[A3 A4] [A5 A6]]] Hd. destruct (coord_le_dist a b r Hd) as [D1 [D2 D3]].
  assert (Q : forall t, Rabs t <= r -> - r <= t <= r) by (intros t Ht; unfold Rabs in Ht; destruct (Rcase_abs t); lra).
  apply Q in D1. apply Q in D2. apply Q in D3. unfold in_box, loosen. cbn [fst snd vx vy vz]. repeat split; lra.
Qed.

(** the six face constraints of a box along the segment from b to v *)
Definition faces (lo hi b v : V3) : list (R * R) :=
  [(vx lo - vx b, vx lo - vx v); (vx b - vx hi, vx v - vx hi); (vy lo - vy b, vy lo - vy v); (vy b - vy hi, vy v - vy hi);
   (vz lo - vz b, vz lo - vz v); (vz b - vz hi, vz v - vz hi)].
Definition seg (b v : V3) (t : R) : V3 :=
  mkV3 (vx b + t * (vx v - vx b)) (vy b + t * (vy v - vy b)) (vz b + t * (vz v - vz b)).

(** from inside to outside a box the segment meets the surface of the box *)
Theorem segment_crosses_surface lo hi b v : in_box lo hi b -> ~ in_box lo hi v ->
  exists t, 0 <= t <= 1 /\ on_box_surface lo hi (seg b v t).
Proof.
  intros [[B1 B2] [[B3 B4] [B5 B6]]] Hout.
  assert (Hall : Forall (fun g => fst g <= 0) (faces lo hi b v)) by (unfold faces; repeat (apply Forall_cons; [cbn [fst]; lra|]); apply Forall_nil).
  assert (Hex : Exists (fun g => 0 < snd g) (faces lo hi b v)).
  { unfold faces. destruct (Rlt_dec 0 (vx lo - vx v)); [apply Exists_cons_hd; assumption|apply Exists_cons_tl].
    destruct (Rlt_dec 0 (vx v - vx hi)); [apply Exists_cons_hd; assumption|apply Exists_cons_tl].
    destruct (Rlt_dec 0 (vy lo - vy v)); [apply Exists_cons_hd; assumption|apply Exists_cons_tl].
    destruct (Rlt_dec 0 (vy v - vy hi)); [apply Exists_cons_hd; assumption|apply Exists_cons_tl].
    destruct (Rlt_dec 0 (vz lo - vz v)); [apply Exists_cons_hd; assumption|apply Exists_cons_tl].
    destruct (Rlt_dec 0 (vz v - vz hi)); [apply Exists_cons_hd; assumption|].
    exfalso. apply Hout. unfold in_box. cbn [fst snd] in *. repeat split; lra. }
  destruct (first_exit_spec _ Hall Hex) as [Ht [Hle Heq]]. set (t := first_exit (faces lo hi b v)) in *.
  exists t. split; [exact Ht|].
  unfold faces in Hle, Heq.
  inversion Hle as [|? ? G1 Hle1]; subst. inversion Hle1 as [|? ? G2 Hle2]; subst. inversion Hle2 as [|? ? G3 Hle3]; subst.
  inversion Hle3 as [|? ? G4 Hle4]; subst. inversion Hle4 as [|? ? G5 Hle5]; subst. inversion Hle5 as [|? ? G6 _]; subst.
  unfold gval in G1, G2, G3, G4, G5, G6. cbn [fst snd] in G1, G2, G3, G4, G5, G6.
  split.
  - unfold in_box, seg. cbn [vx vy vz]. repeat split; lra.
  - unfold seg. cbn [vx vy vz].
    repeat match goal with H : Exists _ (_ :: _) |- _ => inversion H; clear H; subst end;
      try match goal with H : Exists _ [] |- _ => inversion H end;
      match goal with H : gval _ _ = 0 |- _ => unfold gval in H; cbn [fst snd] in H end.
    + left. lra.
    + right; left. lra.
    + right; right; left. lra.
    + right; right; right; left. lra.
    + right; right; right; right; left. lra.
    + right; right; right; right; right. lra.
Qed.

(** * the pre-filter.  In the frame of the smaller shape:  [lo, hi] its local bounding box (parry: every point of the shape is
    inside its local_aabb), the larger shape a union of triangles.  If the shapes are within [r] of each other, then the larger
    shape either has a vertex inside the loosened box (the vertex test) or shares a point with the surface of the loosened box
    (parry's intersection_test against the box rebuilt as a mesh): the pre-filter answers "may be near". *)
Theorem prefilter_design lo hi (r : R) (a b v1 v2 v3 : V3) :
  in_box lo hi a ->                       (* a point of the smaller shape *)
  in_triangle v1 v2 v3 b ->               (* a point of a triangle of the larger shape *)
  vnorm (vsub a b) <= r ->                (* the two points are within the safety distance *)
  let L := loosen lo hi r in
  (in_box (fst L) (snd L) v1 \/ in_box (fst L) (snd L) v2 \/ in_box (fst L) (snd L) v3) \/
  (exists x, in_triangle v1 v2 v3 x /\ on_box_surface (fst L) (snd L) x).
Proof.
  intros Ha [l1 [l2 [l3 [H1 [H2 [H3 [Hs Hb]]]]]]] Hd L.
  assert (HbL : in_box (fst L) (snd L) b) by (apply (near_in_loosened lo hi a b r); assumption).
  assert (Dec : forall v, in_box (fst L) (snd L) v \/ ~ in_box (fst L) (snd L) v).
  { intros v. unfold in_box.
    destruct (Rle_dec (vx (fst L)) (vx v)), (Rle_dec (vx v) (vx (snd L))), (Rle_dec (vy (fst L)) (vy v)), (Rle_dec (vy v) (vy (snd L))),
             (Rle_dec (vz (fst L)) (vz v)), (Rle_dec (vz v) (vz (snd L))); try (left; tauto); right; tauto. }
  destruct (Dec v1) as [I1|O1]; [left; left; exact I1|].
  right. destruct (segment_crosses_surface (fst L) (snd L) b v1 HbL O1) as [t [[T0 T1] Hsurf]].
  exists (seg b v1 t). split; [|exact Hsurf].
  (* a point of the segment from b to v1 is a convex combination of the three vertices *)
  exists ((1 - t) * l1 + t), ((1 - t) * l2), ((1 - t) * l3).
  split; [assert (0 <= (1 - t) * l1) by (apply Rmult_le_pos; lra); lra|].
  split; [apply Rmult_le_pos; lra|]. split; [apply Rmult_le_pos; lra|].
  split; [transitivity ((1 - t) * (l1 + l2 + l3) + t); [ring | rewrite Hs; ring]|].
  rewrite Hb. unfold seg, comb3. cbn [vx vy vz]. f_equal; ring.
Qed.
