(** C01 end to end: the entry-point glue (Model/Kin.v) over the finishing glue (Model/Finish.v) over ANY branch
    table (in particular the generated [ik_theta_def]), against the GENERATED forward kinematics [fwd]:
    every answer is FK-close to the requested pose.  The only thing assumed is the specification of the
    pose comparison (nalgebra: compare_poses), as an implication from its boolean verdict. *)
From Coq Require Import ZArith Reals Lra Lia List Bool.
From VF Require Import Base.Num Base.Lin Base.Angles Model.Constraints Model.Kin Model.Finish
                       Gen.Forward Gen.Inverse Proofs.ConstraintsP Proofs.KinP Proofs.ForwardP Proofs.FinishP.
Import ListNotations.
Open Scope R_scope.

(** * whole turns do not move the robot *)
Lemma sin_periodZ x (k : Z) : sin (x + IZR k * (2 * PI)) = sin x.
Proof.
  destruct (Z_le_gt_dec 0 k) as [Hk|Hk].
  - rewrite <- (Z2Nat.id k Hk), <- INR_IZR_INZ.
    replace (x + INR (Z.to_nat k) * (2 * PI)) with (x + 2 * INR (Z.to_nat k) * PI) by ring. apply sin_period.
  - assert (Hk' : (0 <= - k)%Z) by lia.
    rewrite <- (sin_period (x + IZR k * (2 * PI)) (Z.to_nat (- k))).
    rewrite INR_IZR_INZ, (Z2Nat.id _ Hk'), opp_IZR. f_equal. ring.
Qed.
Lemma cos_periodZ x (k : Z) : cos (x + IZR k * (2 * PI)) = cos x.
Proof.
  destruct (Z_le_gt_dec 0 k) as [Hk|Hk].
  - rewrite <- (Z2Nat.id k Hk), <- INR_IZR_INZ.
    replace (x + INR (Z.to_nat k) * (2 * PI)) with (x + 2 * INR (Z.to_nat k) * PI) by ring. apply cos_period.
  - assert (Hk' : (0 <= - k)%Z) by lia.
    rewrite <- (cos_period (x + IZR k * (2 * PI)) (Z.to_nat (- k))).
    rewrite INR_IZR_INZ, (Z2Nat.id _ Hk'), opp_IZR. f_equal. ring.
Qed.

(** joint value [x'] = [x] + whole turns, through the sign/offset convention *)
Lemma q_rep (x' x off : R) (s : Z) : is_rep PI x' x -> exists m : Z, x' * IZR s - off = (x * IZR s - off) + IZR m * (2 * PI).
Proof. intros [k ->]. exists (k * s)%Z. rewrite mult_IZR. ring. Qed.

Definition j6_of (s : list R) : J6 :=
  mkJ6 (List.nth 0 s 0) (List.nth 1 s 0) (List.nth 2 s 0) (List.nth 3 s 0) (List.nth 4 s 0) (List.nth 5 s 0).

Lemma F2_nth (Rel : R -> R -> Prop) (l m : list R) (i : nat) :
  Forall2 Rel l m -> Rel 0 0 -> Rel (List.nth i l 0) (List.nth i m 0).
Proof.
  intros H H0. revert i. induction H as [|a b l m Hab _ IH]; intros i; [destruct i; exact H0|].
  destruct i as [|i]; [exact Hab | apply IH].
Qed.

Theorem fwd_periodic p (s' s : list R) : Forall2 (is_rep PI) s' s -> fwd p (j6_of s') = fwd p (j6_of s).
Proof.
  intros H. rewrite !fwd_eq_spec.
  assert (H0 : is_rep PI 0 0) by apply is_rep_refl.
  pose proof (F2_nth _ _ _ 0 H H0) as R1. pose proof (F2_nth _ _ _ 1 H H0) as R2.
  pose proof (F2_nth _ _ _ 2 H H0) as R3. pose proof (F2_nth _ _ _ 3 H H0) as R4.
  pose proof (F2_nth _ _ _ 4 H H0) as R5. pose proof (F2_nth _ _ _ 5 H H0) as R6.
  destruct (q_rep _ _ (p_off1 p) (p_sg1 p) R1) as [m1 E1']. destruct (q_rep _ _ (p_off2 p) (p_sg2 p) R2) as [m2 E2'].
  destruct (q_rep _ _ (p_off3 p) (p_sg3 p) R3) as [m3 E3']. destruct (q_rep _ _ (p_off4 p) (p_sg4 p) R4) as [m4 E4'].
  destruct (q_rep _ _ (p_off5 p) (p_sg5 p) R5) as [m5 E5']. destruct (q_rep _ _ (p_off6 p) (p_sg6 p) R6) as [m6 E6'].
  unfold fk_spec, qint, j6_of. cbn [j1 j2 j3 j4 j5 j6].
  rewrite E1', E2', E3', E4', E5', E6'.
  unfold L6, L5, L4, L3, L2, L1, E1, E2, E3, E4, E5, E6, Rotz, Roty. cbn [j1 j2 j3 j4 j5 j6].
  rewrite !sin_periodZ, !cos_periodZ. reflexivity.
Qed.

(** * the entry points over the finishing glue over any branch table *)
Section Sound.
  Variable p : Params.
  Variable cons : option (@Constraints R).
  Variable thr : R.
  (** nalgebra's pose comparison, and what its verdict means *)
  Variable compare : Iso -> Iso -> bool.
  Variable near : Iso -> Iso -> Prop.
  Hypothesis compare_spec : forall a b, compare a b = true -> near a b.
  (** 5-DOF: comparison of the position only *)
  Variable compare_xyz : Iso -> Iso -> bool.
  Variable near_xyz : Iso -> Iso -> Prop.
  Hypothesis compare_xyz_spec : forall a b, compare_xyz a b = true -> near_xyz a b.
  (** ANY branch tables with six (five) entries per row; instantiated with the generated ones below *)
  Variable table : Iso -> list (list (R * bool)).
  Variable table5 : Iso -> list (list (R * bool)).
  Hypothesis table_len : forall pose row, In row (table pose) -> length row = 6%nat.
  Hypothesis table5_len : forall pose row, In row (table5 pose) -> length row = 5%nat.
  Variable shift : Iso -> nat -> Iso.
  Hypothesis shift0 : forall pose, shift pose 0%nat = pose.

  Let sgl : list R := map IZR [p_sg1 p; p_sg2 p; p_sg3 p; p_sg4 p; p_sg5 p; p_sg6 p].
  Let offl : list R := [p_off1 p; p_off2 p; p_off3 p; p_off4 p; p_off5 p; p_off6 p].
  Let fk_ok (pose : Iso) (s : list R) : bool := compare pose (fwd p (j6_of s)).
  Let fk_ok_xyz (pose : Iso) (s : list R) : bool := compare_xyz pose (fwd p (j6_of s)).
  Definition the_kernel (pose : Iso) : list (list R) := finish PI sgl offl (fk_ok pose) (table pose).
  Definition the_kernel5 (pose : Iso) (j6 : R) : list (list R) := finish5 PI sgl offl (fk_ok_xyz pose) j6 (table5 pose).
  Definition reaches (pose : Iso) (s : list R) : Prop := near pose (fwd p (j6_of s)).
  Definition reaches_xyz (pose : Iso) (s : list R) : Prop := near_xyz pose (fwd p (j6_of s)).

  Lemma reaches_rep pose s' s : Forall2 (is_rep PI) s' s -> reaches pose s -> reaches pose s'.
  Proof. intros H. unfold reaches. rewrite (fwd_periodic p s' s H). tauto. Qed.
  Lemma reaches_xyz_rep pose s' s : Forall2 (is_rep PI) s' s -> reaches_xyz pose s -> reaches_xyz pose s'.
  Proof. intros H. unfold reaches_xyz. rewrite (fwd_periodic p s' s H). tauto. Qed.
  Lemma reaches_fk pose s : fk_ok pose s = true -> reaches pose s.
  Proof. apply compare_spec. Qed.

  Lemma map2_len {A B C} (f : A -> B -> C) l m : length (map2 f l m) = Nat.min (length l) (length m).
  Proof. revert m. induction l as [|a l IH]; intros [|b m]; simpl; try reflexivity. rewrite IH. reflexivity. Qed.

  Lemma the_kernel_len pose s : In s (the_kernel pose) -> length s = 6%nat.
  Proof.
    unfold the_kernel. intros Hs. apply finish_In in Hs. destruct Hs as [row [Hr [He _]]].
    unfold ext_row in He. destruct (forallb snd row); [|discriminate]. injection He as <-.
    rewrite map_length, map2_len, map_length, (table_len _ _ Hr). reflexivity.
  Qed.
  Lemma the_kernel_reaches pose s : In s (the_kernel pose) -> reaches pose s.
  Proof. unfold the_kernel. intros Hs. apply (kernel_sound PI PI_RGT_0) in Hs. apply reaches_fk. tauto. Qed.

  Lemma finish5_In pose j6 s : In s (the_kernel5 pose j6) ->
    exists row, In row (table5 pose) /\ ext_row5 PI sgl offl j6 row = Some s /\ fk_ok_xyz pose s = true.
  Proof.
    unfold the_kernel5. induction (table5 pose) as [|row rest IH]; cbn [finish5]; [intros []|].
    destruct (ext_row5 PI sgl offl j6 row) as [s'|] eqn:E.
    - destruct (fk_ok_xyz pose s') eqn:F.
      + intros [<-|H]; [exists row; split; [left; reflexivity | split; assumption]|].
        destruct (IH H) as [r [Hr Hx]]. exists r. split; [right; exact Hr | exact Hx].
      + intros H. destruct (IH H) as [r [Hr Hx]]. exists r. split; [right; exact Hr | exact Hx].
    - intros H. destruct (IH H) as [r [Hr Hx]]. exists r. split; [right; exact Hr | exact Hx].
  Qed.
  Lemma the_kernel5_len pose j6 s : In s (the_kernel5 pose j6) -> length s = 6%nat.
  Proof.
    intros Hs. pose proof Hs as Hs'. unfold the_kernel5 in Hs'.
    destruct (finish5_In _ _ _ Hs) as [row [Hr [He _]]].
    unfold ext_row5 in He. destruct (forallb snd row); [|discriminate]. injection He as <-.
    rewrite app_length, map_length, map2_len, map_length, (table5_len _ _ Hr). reflexivity.
  Qed.
  Lemma the_kernel5_reaches pose j6 s : In s (the_kernel5 pose j6) -> reaches_xyz pose s.
  Proof. intros Hs. destruct (finish5_In _ _ _ Hs) as [row [_ [_ Hf]]]. apply compare_xyz_spec. exact Hf. Qed.
  (** J6 of a 5-DOF kernel answer is the caller's value, untouched *)
  Lemma the_kernel5_j6 pose j6 s : In s (the_kernel5 pose j6) -> List.nth 5 s 0 = j6.
  Proof.
    intros Hs. destruct (finish5_In _ _ _ Hs) as [row [Hr [He _]]].
    unfold ext_row5 in He. destruct (forallb snd row); [|discriminate]. injection He as <-.
    rewrite app_nth2; rewrite map_length, map2_len, map_length, (table5_len _ _ Hr); [reflexivity | simpl; lia].
  Qed.

  Theorem inverse_reaches dof pose s : dof <> 5%Z ->
    In s (inverse PI dof cons Iso the_kernel the_kernel5 pose) -> reaches pose s /\ Forall (fun x => - PI <= x <= PI) s.
  Proof.
    intros Hd Hs. split.
    - revert Hs. eapply inverse_sound with (ok := reaches); eauto using the_kernel_reaches.
    - unfold inverse in Hs. destruct (dof =? 5)%Z eqn:E; [apply Z.eqb_eq in E; contradiction|].
      apply filter_compliant_In in Hs. destruct Hs as [Hs _]. unfold the_kernel in Hs.
      apply (kernel_sound PI PI_RGT_0) in Hs. tauto.
  Qed.

  Theorem continuing_reaches dof pose (sentinel : bool) prev s :
    dof <> 5%Z -> length (if sentinel then centers cons else prev) = 6%nat ->
    In s (inverse_continuing PI thr sgl offl dof cons Iso the_kernel the_kernel5 shift fk_ok pose sentinel prev) ->
    reaches pose s \/ (the_kernel pose = [] /\ exists d, In d [1; 2; 3]%nat /\ reaches (shift pose d) s).
  Proof.
    intros Hd Hl. eapply continuing_sound with (ok := reaches);
      eauto using the_kernel_reaches, the_kernel_len, reaches_rep, reaches_fk, PI_RGT_0.
  Qed.

  Theorem inverse_5dof_reaches pose j6 s :
    In s (inverse_5dof PI cons Iso the_kernel5 pose j6) -> reaches_xyz pose s /\ List.nth 5 s 0 = j6.
  Proof.
    intros Hs. split.
    - revert Hs. eapply inverse_5dof_sound with (ok5 := reaches_xyz); eauto using the_kernel5_reaches.
    - unfold inverse_5dof in Hs. apply filter_compliant_In in Hs. destruct Hs as [Hs _]. eapply the_kernel5_j6; exact Hs.
  Qed.

  Theorem continuing_5dof_reaches pose (sentinel : bool) prev s :
    length (if sentinel then centers cons else prev) = 6%nat ->
    In s (inverse_continuing_5dof PI cons Iso the_kernel5 pose sentinel prev) -> reaches_xyz pose s.
  Proof.
    intros Hl. eapply continuing_5dof_sound with (ok5 := reaches_xyz);
      eauto using the_kernel5_reaches, the_kernel5_len, reaches_xyz_rep, PI_RGT_0.
  Qed.
End Sound.

(** * the generated branch tables have the required shape *)
Lemma ik_theta_def_len p pose row : In row (ik_theta_def p pose) -> length row = 6%nat.
Proof.
  intros H. apply (in_map (@length (R * bool))) in H.
  assert (E : map (@length (R * bool)) (ik_theta_def p pose) = [6; 6; 6; 6; 6; 6; 6; 6]%nat) by reflexivity.
  rewrite E in H. cbn [In] in H. intuition.
Qed.
Lemma ik_theta5_def_len p pose row : In row (ik_theta5_def p pose) -> length row = 5%nat.
Proof.
  intros H. apply (in_map (@length (R * bool))) in H.
  assert (E : map (@length (R * bool)) (ik_theta5_def p pose) = [5; 5; 5; 5; 5; 5; 5; 5]%nat) by reflexivity.
  rewrite E in H. cbn [In] in H. intuition.
Qed.
