(** C02: the answer set of the kernel is closed under the wrist flip. *)
From Coq Require Import ZArith Reals Lra Lia List Bool.
From VF Require Import Base.Num Base.Lin Base.Angles Model.Constraints Model.Kin Model.Finish Gen.Forward Gen.Inverse
                       Proofs.ConstraintsP Proofs.KinP Proofs.ForwardP Proofs.InverseP Proofs.FinishP Proofs.SoundP.
Import ListNotations.
Open Scope R_scope.

Definition rep2 (a b : R) : Prop := exists k : Z, a = b + IZR k * (2 * PI).
Lemma rep2_refl a : rep2 a a. Proof. exists 0%Z. simpl. ring. Qed.

(** the reference chain only sees the model angles modulo whole turns *)
Lemma L6_periodic p (q q' : J6) :
  rep2 (j1 q') (j1 q) -> rep2 (j2 q') (j2 q) -> rep2 (j3 q') (j3 q) -> rep2 (j4 q') (j4 q) -> rep2 (j5 q') (j5 q) -> rep2 (j6 q') (j6 q) ->
  L6 p q' = L6 p q.
Proof.
  destruct q as [a1 a2 a3 a4 a5 a6], q' as [b1 b2 b3 b4 b5 b6]. cbn [j1 j2 j3 j4 j5 j6].
  intros [k1 ->] [k2 ->] [k3 ->] [k4 ->] [k5 ->] [k6 ->].
  unfold L6, L5, L4, L3, L2, L1, E1, E2, E3, E4, E5, E6, Rotz, Roty. cbn [j1 j2 j3 j4 j5 j6].
  rewrite !sin_periodZ, !cos_periodZ. reflexivity.
Qed.

(** one kernel entry back through sign and offset: the table's model angle, up to whole turns *)
Lemma wrap_model (t off : R) (sg : Z) : (sg = 1 \/ sg = -1)%Z -> rep2 (wrap_pi PI ((t + off) * IZR sg) * IZR sg - off) t.
Proof.
  intros Hs. destruct (wrap_pi_rep PI ((t + off) * IZR sg)) as [k Hk]. rewrite Hk.
  exists (k * sg)%Z. rewrite mult_IZR. destruct Hs as [-> | ->]; simpl; ring.
Qed.

Definition sg_ok6 (p : Params) : Prop :=
  (p_sg1 p = 1 \/ p_sg1 p = -1)%Z /\ (p_sg2 p = 1 \/ p_sg2 p = -1)%Z /\ (p_sg3 p = 1 \/ p_sg3 p = -1)%Z /\
  (p_sg4 p = 1 \/ p_sg4 p = -1)%Z /\ (p_sg5 p = 1 \/ p_sg5 p = -1)%Z /\ (p_sg6 p = 1 \/ p_sg6 p = -1)%Z.

Section Twin.
  Variable p : Params.
  Hypothesis Hsg : sg_ok6 p.
  Let sgl : list R := map IZR [p_sg1 p; p_sg2 p; p_sg3 p; p_sg4 p; p_sg5 p; p_sg6 p].
  Let offl : list R := [p_off1 p; p_off2 p; p_off3 p; p_off4 p; p_off5 p; p_off6 p].

  (** the candidate built from six table angles *)
  Definition cand (t1 t2 t3 t4 t5 t6 : R) : list R :=
    [wrap_pi PI ((t1 + p_off1 p) * IZR (p_sg1 p)); wrap_pi PI ((t2 + p_off2 p) * IZR (p_sg2 p)); wrap_pi PI ((t3 + p_off3 p) * IZR (p_sg3 p));
     wrap_pi PI ((t4 + p_off4 p) * IZR (p_sg4 p)); wrap_pi PI ((t5 + p_off5 p) * IZR (p_sg5 p)); wrap_pi PI ((t6 + p_off6 p) * IZR (p_sg6 p))].

  Lemma ext_row_cand t1 d1 t2 d2 t3 d3 t4 d4 t5 d5 t6 d6 s :
    ext_row PI sgl offl [(t1, d1); (t2, d2); (t3, d3); (t4, d4); (t5, d5); (t6, d6)] = Some s ->
    s = cand t1 t2 t3 t4 t5 t6 /\ d1 && (d2 && (d3 && (d4 && (d5 && (d6 && true))))) = true.
  Proof.
    unfold ext_row. cbn [forallb snd]. destruct (d1 && (d2 && (d3 && (d4 && (d5 && (d6 && true)))))) eqn:E; [|discriminate].
    intros [= <-]. split; reflexivity.
  Qed.

  (** the generated FK of a candidate is the reference chain at the table's model angles *)
  Lemma fwd_cand t1 t2 t3 t4 t5 t6 : fwd p (j6_of (cand t1 t2 t3 t4 t5 t6)) = L6 p (mkJ6 t1 t2 t3 t4 t5 t6).
  Proof.
    destruct Hsg as [G1 [G2 [G3 [G4 [G5 G6]]]]].
    rewrite fwd_eq_spec. unfold fk_spec. apply L6_periodic; unfold qint, j6_of, cand; cbn [j1 j2 j3 j4 j5 j6 List.nth]; apply wrap_model; assumption.
  Qed.

  Variable compare : Iso -> Iso -> bool.

  (** a row and its wrist-flipped twin pass or fail the FK cross-check together *)
  Lemma twin_same_verdict pose t1 t2 t3 t4 t5 t6 :
    compare pose (fwd p (j6_of (cand t1 t2 t3 (t4 + PI) (- t5) (t6 - PI)))) = compare pose (fwd p (j6_of (cand t1 t2 t3 t4 t5 t6))).
  Proof. rewrite !fwd_cand. f_equal. apply (fk_twin p (mkJ6 t1 t2 t3 t4 t5 t6)). Qed.
  Lemma untwin_same_verdict pose t1 t2 t3 t4 t5 t6 :
    compare pose (fwd p (j6_of (cand t1 t2 t3 t4 t5 t6))) = compare pose (fwd p (j6_of (cand t1 t2 t3 (t4 + PI) (- t5) (t6 - PI)))).
  Proof. symmetry. apply twin_same_verdict. Qed.

  (** closure: with every answer of the kernel, the answer built from the twin row is returned as well *)
  Theorem kernel_twin_closed pose s : In s (the_kernel p compare (ik_theta_def p) pose) ->
    exists t1 t2 t3 t4 t5 t6, s = cand t1 t2 t3 t4 t5 t6 /\
      (In (cand t1 t2 t3 (t4 + PI) (- t5) (t6 - PI)) (the_kernel p compare (ik_theta_def p) pose) \/
       In (cand t1 t2 t3 (t4 - PI) (- t5) (t6 + PI)) (the_kernel p compare (ik_theta_def p) pose)).
  Proof.
    unfold the_kernel. fold sgl offl. intros Hs. apply finish_In in Hs. destruct Hs as [row [Hin [Hext Hfk]]].
    destruct (In_nth _ _ [] Hin) as [i [Hi Hnth]].
    assert (H8 : length (ik_theta_def p pose) = 8%nat) by (unfold ik_theta_def; cbv zeta; reflexivity).
    rewrite H8 in Hi.
    assert (Hrow6 : exists t1 d1 t2 d2 t3 d3 t4 d4 t5 d5 t6 d6, row = [(t1, d1); (t2, d2); (t3, d3); (t4, d4); (t5, d5); (t6, d6)]).
    { pose proof (ik_theta_def_len p pose row Hin) as L. destruct row as [|[a1 b1] [|[a2 b2] [|[a3 b3] [|[a4 b4] [|[a5 b5] [|[a6 b6] [|? ?]]]]]]]; try discriminate.
      repeat eexists. }
    destruct Hrow6 as [t1 [d1 [t2 [d2 [t3 [d3 [t4 [d4 [t5 [d5 [t6 [d6 Er]]]]]]]]]]]]. rewrite Er in Hext, Hnth. clear Er Hin.
    destruct (ext_row_cand _ _ _ _ _ _ _ _ _ _ _ _ _ Hext) as [-> Hd].
    exists t1, t2, t3, t4, t5, t6. split; [reflexivity|].
    destruct (lt_dec i 4) as [Hlt|Hge].
    - (* rows 0..3: the twin is row i + 4 *)
      left. apply finish_In. exists (List.nth (i + 4) (ik_theta_def p pose) []). split; [apply nth_In; rewrite H8; lia|].
      rewrite (twin_in_table_def p pose i Hlt), Hnth. cbn [twin_row_def]. split.
      + unfold ext_row. cbn [forallb snd]. rewrite Hd. reflexivity.
      + rewrite twin_same_verdict. exact Hfk.
    - (* rows 4..7: the row is the twin of row i - 4 *)
      right. assert (Hi4 : (i - 4 < 4)%nat) by lia.
      pose proof (twin_in_table_def p pose (i - 4) Hi4) as Ht. replace (i - 4 + 4)%nat with i in Ht by lia. rewrite Hnth in Ht.
      destruct (List.nth (i - 4) (ik_theta_def p pose) []) as [|[a1 b1] [|[a2 b2] [|[a3 b3] [|[a4 b4] [|[a5 b5] [|[a6 b6] [|? ?]]]]]]] eqn:Eo;
        cbn [twin_row_def] in Ht; try discriminate.
      injection Ht as <- <- <- <- <- <- -> <- -> <- -> <-.
      apply finish_In. exists [(t1, d1); (t2, d2); (t3, d3); (a4, d4); (a5, d5); (a6, d6)]. split; [rewrite <- Eo; apply nth_In; rewrite H8; lia|].
      replace (a4 + PI - PI) with a4 by ring. replace (- - a5) with a5 by ring. replace (a6 - PI + PI) with a6 by ring. split.
      + unfold ext_row. cbn [forallb snd]. rewrite Hd. reflexivity.
      + rewrite untwin_same_verdict. exact Hfk.
  Qed.
End Twin.
