(** C09 / C16 / C11 (delegation part): the GENERATED wrapper code composes transforms consistently. *)
From Coq Require Import ZArith Reals Lra Lia List Bool Psatz.
From VF Require Import Base.Lin Base.Num Model.Constraints Model.WrapBase Gen.Delegation.
Import ListNotations.
Open Scope R_scope.

(** * rigid-motion facts *)
Lemma iinv_r a : proper (rot a) -> icomp a (iinv a) = iid.
Proof.
  intros Hp. pose proof (proper_tr_r _ Hp) as Hr.
  destruct a as [m t]. cbn [rot] in *. unfold icomp, iinv, iid. cbn [rot tr]. rewrite Hr.
  apply Iso_eq; cbn [rot tr]; [reflexivity|].
  assert (E : mapp m (vscale (-1) (mapp (mtr m) t)) = vscale (-1) (mapp (mmul m (mtr m)) t)).
  { destruct m, t. apply V3_eq; lin_unfold; ring. }
  rewrite E, Hr. destruct t. apply V3_eq; lin_unfold; ring.
Qed.
Lemma iinv_l a : proper (rot a) -> icomp (iinv a) a = iid.
Proof.
  intros [Hl _]. destruct a as [m t]. cbn [rot] in *. unfold icomp, iinv, iid. cbn [rot tr]. rewrite Hl.
  apply Iso_eq; cbn [rot tr]; [reflexivity|].
  destruct m, t. apply V3_eq; lin_unfold; ring.
Qed.
Lemma cancel_r a t : proper (rot t) -> icomp (icomp a (iinv t)) t = a.
Proof. intros H. rewrite icomp_assoc, iinv_l, icomp_id_r by exact H. reflexivity. Qed.
Lemma cancel_l a b : proper (rot b) -> icomp b (icomp (iinv b) a) = a.
Proof. intros H. rewrite <- icomp_assoc, iinv_r, icomp_id_l by exact H. reflexivity. Qed.

(** * wrapper stacks *)
Inductive Wrap := WTool (t : Iso) | WBase (b : Iso) | WFrame (f : Iso) | WPara (sc : R) (dr co : nat).
Definition apply_wrap (w : Wrap) (r : Kin) : Kin :=
  match w with
  | WTool t => tool_kin t r | WBase b => base_kin b r | WFrame f => frame_kin f r
  | WPara sc dr co => para_kin sc dr co r
  end.
(** head of the list = outermost wrapper *)
Definition stack (ws : list Wrap) (r : Kin) : Kin := fold_right apply_wrap r ws.

Definition rigid (w : Wrap) : Prop :=
  match w with WTool t => proper (rot t) | WBase b => proper (rot b) | WFrame f => proper (rot f) | WPara _ _ _ => False end.
(** product of the base transforms (outermost first) and of the tool-side transforms (innermost first) *)
Fixpoint bases (ws : list Wrap) : Iso :=
  match ws with [] => iid | WBase b :: ws' => icomp b (bases ws') | _ :: ws' => bases ws' end.
Fixpoint tools (ws : list Wrap) : Iso :=
  match ws with [] => iid | WTool t :: ws' => icomp (tools ws') t | WFrame f :: ws' => icomp (tools ws') f | _ :: ws' => tools ws' end.
(** the pose handed to the innermost robot *)
Fixpoint inner_pose (ws : list Wrap) (tcp : Iso) : Iso :=
  match ws with
  | [] => tcp
  | WTool t :: ws' => inner_pose ws' (icomp tcp (iinv t))
  | WFrame f :: ws' => inner_pose ws' (icomp tcp (iinv f))
  | WBase b :: ws' => inner_pose ws' (icomp (iinv b) tcp)
  | WPara _ _ _ :: ws' => inner_pose ws' tcp
  end.
Definition no_para (ws : list Wrap) : Prop := Forall (fun w => match w with WPara _ _ _ => False | _ => True end) ws.

(** forward = base * robot * tool (frame acts like a tool), any nesting depth and order *)
Theorem stack_forward ws r q : no_para ws ->
  k_forward (stack ws r) q = icomp (icomp (bases ws) (k_forward r q)) (tools ws).
Proof.
  induction 1 as [|w ws Hw _ IH]; cbn [stack fold_right bases tools].
  - rewrite icomp_id_l, icomp_id_r. reflexivity.
  - fold (stack ws r). destruct w as [t|b|f|]; [| | |contradiction]; cbn [apply_wrap];
      unfold tool_kin, base_kin, frame_kin; cbn [k_forward]; rewrite IH; rewrite ?icomp_assoc; reflexivity.
Qed.

(** every inverse entry point of a Tool/Base/Frame stack IS the same entry point of the inner robot
    at the transformed pose, with the caller's other arguments: ordering and J6 contracts carry over verbatim *)
Theorem stack_entries ws r : no_para ws ->
  (forall tcp, k_inverse (stack ws r) tcp = k_inverse r (inner_pose ws tcp)) /\
  (forall tcp prev, k_inverse_continuing (stack ws r) tcp prev = k_inverse_continuing r (inner_pose ws tcp) prev) /\
  (forall tcp j6, k_inverse_5dof (stack ws r) tcp j6 = k_inverse_5dof r (inner_pose ws tcp) j6) /\
  (forall tcp prev, k_inverse_continuing_5dof (stack ws r) tcp prev = k_inverse_continuing_5dof r (inner_pose ws tcp) prev).
Proof.
  induction 1 as [|w ws Hw _ IH]; cbn [stack fold_right inner_pose]; [repeat split; reflexivity|].
  fold (stack ws r). destruct IH as (I1 & I2 & I3 & I4).
  destruct w as [t|b|f|]; [| | |contradiction]; cbn [apply_wrap];
    unfold tool_kin, base_kin, frame_kin;
    cbn [k_inverse k_inverse_continuing k_inverse_5dof k_inverse_continuing_5dof];
    repeat split; intros; rewrite ?I1, ?I2, ?I3, ?I4; reflexivity.
Qed.

(** the inverse transformation undoes the forward one: an answer that the inner robot maps exactly onto the
    inner pose is mapped by the stack exactly onto the requested pose *)
Theorem stack_roundtrip ws r tcp s : Forall rigid ws ->
  k_forward r s = inner_pose ws tcp -> k_forward (stack ws r) s = tcp.
Proof.
  intros Hr. revert tcp. induction Hr as [|w ws Hw _ IH]; intros tcp Hf; cbn [stack fold_right inner_pose] in *; [exact Hf|].
  fold (stack ws r). destruct w as [t|b|f|]; cbn [rigid] in Hw; [| | |contradiction]; cbn [apply_wrap];
    unfold tool_kin, base_kin, frame_kin; cbn [k_forward]; rewrite (IH _ Hf).
  - apply cancel_r; exact Hw.
  - apply cancel_l; exact Hw.
  - apply cancel_r; exact Hw.
Qed.

(** ** 5-DOF clause: tool point and tool axis, axial tools *)
Definition zcol (m : M3) : V3 := mkV3 (m02 m) (m12 m) (m22 m).
Definition same_point_axis (a b : Iso) : Prop := tr a = tr b /\ zcol (rot a) = zcol (rot b).
(** a tool on the flange axis: translation along z, rotation about z *)
Definition axial (t : Iso) : Prop := exists q d, t = mkIso (Rotz q) (mkV3 0 0 d).

Lemma spa_tool a b t : axial t -> same_point_axis a b -> same_point_axis (icomp a t) (icomp b t).
Proof.
  intros [q [d ->]] [Ht Hz]. destruct a as [ma ta], b as [mb tb]. cbn [rot tr] in *.
  destruct ma, mb. unfold zcol in Hz. cbn in Hz. injection Hz as H1 H2 H3. subst.
  split; [apply V3_eq | unfold zcol; f_equal]; lin_unfold; ring.
Qed.
Lemma spa_base a b c : same_point_axis a b -> same_point_axis (icomp c a) (icomp c b).
Proof.
  intros [Ht Hz]. destruct a as [ma ta], b as [mb tb], c as [mc tc]. cbn [rot tr] in *.
  destruct ma, mb. unfold zcol in Hz. cbn in Hz. injection Hz as H1 H2 H3. subst.
  split; [reflexivity | unfold zcol; f_equal; lin_unfold; ring].
Qed.

Definition rigid5 (w : Wrap) : Prop :=
  match w with WTool t => proper (rot t) /\ axial t | WBase b => proper (rot b) | WFrame f => proper (rot f) /\ axial f | WPara _ _ _ => False end.

Theorem stack_roundtrip_5dof ws r tcp s : Forall rigid5 ws ->
  same_point_axis (k_forward r s) (inner_pose ws tcp) -> same_point_axis (k_forward (stack ws r) s) tcp.
Proof.
  intros Hr. revert tcp. induction Hr as [|w ws Hw _ IH]; intros tcp Hf; cbn [stack fold_right inner_pose] in *; [exact Hf|].
  fold (stack ws r). destruct w as [t|b|f|]; cbn [rigid5] in Hw; [| | |contradiction]; cbn [apply_wrap];
    unfold tool_kin, base_kin, frame_kin; cbn [k_forward]; specialize (IH _ Hf).
  - destruct Hw as [Hp Ha]. pose proof (spa_tool _ _ t Ha IH) as H. rewrite (cancel_r tcp t Hp) in H. exact H.
  - pose proof (spa_base _ _ b IH) as H. rewrite (cancel_l tcp b Hw) in H. exact H.
  - destruct Hw as [Hp Ha]. pose proof (spa_tool _ _ f Ha IH) as H. rewrite (cancel_r tcp f Hp) in H. exact H.
Qed.

(** ** per-link poses, limits, singularity *)
Theorem links_tool t r q : k_forward_with_joint_poses (tool_kin t r) q = k_forward_with_joint_poses r q.
Proof. reflexivity. Qed.
Theorem links_base b r q : k_forward_with_joint_poses (base_kin b r) q = map (icomp b) (k_forward_with_joint_poses r q).
Proof. reflexivity. Qed.
Theorem links_frame f r q :
  k_forward_with_joint_poses (frame_kin f r) q =
  set_nth (k_forward_with_joint_poses r q) 5 (icomp (nth 5 (k_forward_with_joint_poses r q) iid) f).
Proof. reflexivity. Qed.

Lemma nth_set_nth_same {A} (l : list A) i v d : (i < length l)%nat -> nth i (set_nth l i v) d = v.
Proof. revert i. induction l as [|x l IH]; intros [|i] H; simpl in *; try lia; [reflexivity | apply IH; lia]. Qed.

Lemma nth_map_iso (f : Iso -> Iso) l i : (i < length l)%nat -> nth i (map f l) iid = f (nth i l iid).
Proof. revert i. induction l as [|x l IH]; intros [|i] H; simpl in *; try lia; [reflexivity | apply IH; lia]. Qed.

(** the last link pose equals forward for base and frame (given it does for the inner robot) *)
Theorem links_last_base b r q :
  length (k_forward_with_joint_poses r q) = 6%nat -> nth 5 (k_forward_with_joint_poses r q) iid = k_forward r q ->
  nth 5 (k_forward_with_joint_poses (base_kin b r) q) iid = k_forward (base_kin b r) q.
Proof.
  intros Hl H. rewrite links_base, nth_map_iso by lia. rewrite H. reflexivity.
Qed.
Theorem links_last_frame f r q :
  length (k_forward_with_joint_poses r q) = 6%nat -> nth 5 (k_forward_with_joint_poses r q) iid = k_forward r q ->
  nth 5 (k_forward_with_joint_poses (frame_kin f r) q) iid = k_forward (frame_kin f r) q.
Proof.
  intros Hl H. rewrite links_frame, nth_set_nth_same by lia. rewrite H. reflexivity.
Qed.

(** limits and singularity reports are those of the wrapped robot, through any stack (C08, C09) *)
Theorem stack_constraints ws r : k_constraints (stack ws r) = k_constraints r.
Proof. induction ws as [|w ws IH]; [reflexivity|]. cbn [stack fold_right]. fold (stack ws r). destruct w; exact IH. Qed.
Theorem stack_singularity ws r q : no_para ws -> k_kinematic_singularity (stack ws r) q = k_kinematic_singularity r q.
Proof.
  induction 1 as [|w ws Hw _ IH]; [reflexivity|]. cbn [stack fold_right]. fold (stack ws r).
  destruct w; [| | |contradiction]; exact IH.
Qed.

(** LinearAxis / Gantry forward composition *)
Theorem gantry_forward_spec base r t q : gantry_forward base r t q = icomp (icomp base t) (k_forward r q).
Proof. reflexivity. Qed.
Theorem linear_axis_forward_spec base axis r d q :
  linear_axis_forward base axis r d q =
  match axis with
  | 0%Z => Some (icomp (icomp base (itrans d 0 0)) (k_forward r q))
  | 1%Z => Some (icomp (icomp base (itrans 0 d 0)) (k_forward r q))
  | 2%Z => Some (icomp (icomp base (itrans 0 0 d)) (k_forward r q))
  | _ => None
  end.
Proof.
  unfold linear_axis_forward, axis_translation.
  destruct axis as [|p|p]; try reflexivity. destruct p as [p|p|]; try reflexivity; destruct p; reflexivity.
Qed.

(** * C16: parallelogram coupling *)
Definition couple_sub (sc : R) (dr co : nat) (q : JL) : JL := jl_set q co (jl_get q co - sc * jl_get q dr).
Definition couple_add (sc : R) (dr co : nat) (q : JL) : JL := jl_set q co (jl_get q co + sc * jl_get q dr).

Theorem para_forward sc dr co r q : k_forward (para_kin sc dr co r) q = k_forward r (couple_sub sc dr co q).
Proof. reflexivity. Qed.
Theorem para_links sc dr co r q :
  k_forward_with_joint_poses (para_kin sc dr co r) q = k_forward_with_joint_poses r (couple_sub sc dr co q).
Proof. reflexivity. Qed.
Theorem para_entries sc dr co r :
  (forall tcp, k_inverse (para_kin sc dr co r) tcp = map (couple_add sc dr co) (k_inverse r tcp)) /\
  (forall tcp prev, k_inverse_continuing (para_kin sc dr co r) tcp prev = map (couple_add sc dr co) (k_inverse_continuing r tcp prev)) /\
  (forall tcp j6, k_inverse_5dof (para_kin sc dr co r) tcp j6 = map (couple_add sc dr co) (k_inverse_5dof r tcp j6)) /\
  (forall tcp prev, k_inverse_continuing_5dof (para_kin sc dr co r) tcp prev = map (couple_add sc dr co) (k_inverse_continuing_5dof r tcp prev)).
Proof. repeat split; reflexivity. Qed.

Lemma jl_get_set_same j i v : (i < length j)%nat -> jl_get (jl_set j i v) i = v.
Proof. unfold jl_get. revert i. induction j as [|x j IH]; intros [|i] H; simpl in *; try lia; [reflexivity | apply IH; lia]. Qed.
Lemma jl_get_set_other j i k v : i <> k -> jl_get (jl_set j i v) k = jl_get j k.
Proof.
  unfold jl_get. revert i k. induction j as [|x j IH]; intros [|i] [|k] H; simpl; try reflexivity; try congruence.
  apply IH. congruence.
Qed.
Lemma jl_set_set j i v w : jl_set (jl_set j i v) i w = jl_set j i w.
Proof. revert i. induction j as [|x j IH]; intros [|i]; simpl; try reflexivity. f_equal. apply IH. Qed.
Lemma jl_set_get j i : jl_set j i (jl_get j i) = j.
Proof. unfold jl_get. revert i. induction j as [|x j IH]; intros [|i]; simpl; try reflexivity. f_equal. apply IH. Qed.

(** forward coupling undoes the inverse coupling when the driven joint is not the coupled one *)
Lemma couple_sub_add sc dr co s0 : dr <> co -> (co < length s0)%nat -> couple_sub sc dr co (couple_add sc dr co s0) = s0.
Proof.
  intros Hne Hl. unfold couple_sub, couple_add.
  rewrite jl_get_set_same by exact Hl. rewrite jl_get_set_other by congruence. rewrite jl_set_set.
  replace (jl_get s0 co + sc * jl_get s0 dr - sc * jl_get s0 dr) with (jl_get s0 co) by ring.
  apply jl_set_get.
Qed.

(** every answer of every inverse entry point maps back through the wrapper's forward like the inner answer does *)
Theorem para_roundtrip sc dr co r s0 : dr <> co -> (co < length s0)%nat ->
  k_forward (para_kin sc dr co r) (couple_add sc dr co s0) = k_forward r s0.
Proof. intros H1 H2. rewrite para_forward, couple_sub_add by assumption. reflexivity. Qed.

(** stacking two couplings composes *)
Theorem para_compose sc1 dr1 co1 sc2 dr2 co2 r q :
  k_forward (para_kin sc1 dr1 co1 (para_kin sc2 dr2 co2 r)) q =
  k_forward r (couple_sub sc2 dr2 co2 (couple_sub sc1 dr1 co1 q)).
Proof. reflexivity. Qed.

(** through tool/base the coupling commutes with the rigid transforms *)
Theorem para_under_tool_base sc dr co t b r q :
  k_forward (tool_kin t (base_kin b (para_kin sc dr co r))) q =
  icomp (icomp b (k_forward r (couple_sub sc dr co q))) t.
Proof. reflexivity. Qed.

(** * C11: robot with shape *)
Section ShapeP.
  Variable collides : Kin -> JL -> bool.
  Definition remove_collisions (r : Kin) (l : list JL) : list JL := filter (fun s => negb (collides r s)) l.

  Theorem shape_entries r :
    (forall p, k_inverse (shape_kin remove_collisions r) p = filter (fun s => negb (collides r s)) (k_inverse r p)) /\
    (forall p prev, k_inverse_continuing (shape_kin remove_collisions r) p prev = filter (fun s => negb (collides r s)) (k_inverse_continuing r p prev)) /\
    (forall p j6, k_inverse_5dof (shape_kin remove_collisions r) p j6 = filter (fun s => negb (collides r s)) (k_inverse_5dof r p j6)) /\
    (forall p prev, k_inverse_continuing_5dof (shape_kin remove_collisions r) p prev = filter (fun s => negb (collides r s)) (k_inverse_continuing_5dof r p prev)).
  Proof. repeat split; reflexivity. Qed.

  Theorem shape_delegates r :
    (forall q, k_forward (shape_kin remove_collisions r) q = k_forward r q) /\
    (forall q, k_forward_with_joint_poses (shape_kin remove_collisions r) q = k_forward_with_joint_poses r q) /\
    k_constraints (shape_kin remove_collisions r) = k_constraints r /\
    (forall q, k_kinematic_singularity (shape_kin remove_collisions r) q = k_kinematic_singularity r q).
  Proof. repeat split; reflexivity. Qed.

  (** exactly the non-colliding ones, in unchanged order *)
  Theorem remove_collisions_spec r l s : In s (remove_collisions r l) <-> In s l /\ collides r s = false.
  Proof. unfold remove_collisions. rewrite filter_In, negb_true_iff. tauto. Qed.
End ShapeP.

Theorem shape_stack_is_tool_base b t r : shape_stack b t r = tool_kin t (base_kin b r).
Proof. reflexivity. Qed.
