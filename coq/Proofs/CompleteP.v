(** C02 completeness: the closed-form branch table of the OPW inverse contains the originating configuration.
    Part 1 (this file, first half): the trigonometry, about hand-written expressions.
    Part 2: the generated table [ik_theta_def] is these expressions (by conversion), glue up to the entry point. *)
From Coq Require Import ZArith Reals Lra Lia List Bool Psatz.
From VF Require Import Base.Num Base.Lin Base.Angles.
Import ListNotations.
Open Scope R_scope.

(** * angles with the same sine and cosine *)
Definition sc (a b : R) : Prop := sin a = sin b /\ cos a = cos b.
Lemma sc_refl a : sc a a. Proof. split; reflexivity. Qed.
Lemma sc_eq a b : a = b -> sc a b. Proof. intros ->. apply sc_refl. Qed.
Lemma sc_sym a b : sc a b -> sc b a. Proof. intros [H1 H2]; split; congruence. Qed.
Lemma sc_trans a b c : sc a b -> sc b c -> sc a c. Proof. intros [H1 H2] [H3 H4]; split; congruence. Qed.
Lemma sc_plus a a' b b' : sc a a' -> sc b b' -> sc (a + b) (a' + b').
Proof. intros [H1 H2] [H3 H4]. split; rewrite ?sin_plus, ?cos_plus, H1, H2, H3, H4; reflexivity. Qed.
Lemma sc_neg a a' : sc a a' -> sc (- a) (- a').
Proof. intros [H1 H2]. split; rewrite ?sin_neg, ?cos_neg, ?H1, ?H2; reflexivity. Qed.
Lemma sc_minus a a' b b' : sc a a' -> sc b b' -> sc (a - b) (a' - b').
Proof. intros H1 H2. unfold Rminus. apply sc_plus; [exact H1 | apply sc_neg; exact H2]. Qed.
Lemma sc_plus_PI a b : sc a (b + PI) -> sc (a + PI) b.
Proof.
  intros [H1 H2]. split; rewrite ?sin_plus, ?cos_plus, H1, H2, ?sin_plus, ?cos_plus, sin_PI, cos_PI; ring.
Qed.
Lemma sc_minus_PI a b : sc a (b + PI) -> sc (a - PI) b.
Proof.
  intros [H1 H2]. split; rewrite ?sin_minus, ?cos_minus, H1, H2, ?sin_plus, ?cos_plus, sin_PI, cos_PI; ring.
Qed.

(** the same sine and cosine: equal up to whole turns *)
Lemma sc_rep a b : sc a b -> exists k : Z, a = b + IZR k * (2 * PI).
Proof.
  intros [Hs Hc].
  assert (H1 : cos (a - b) = 1).
  { rewrite cos_minus, Hs, Hc. pose proof (sin2_cos2 b) as H. unfold Rsqr in H. lra. }
  assert (H2 : sin ((a - b) / 2) = 0).
  { pose proof (cos_2a_sin ((a - b) / 2)) as H. replace (2 * ((a - b) / 2)) with (a - b) in H by field.
    rewrite H1 in H. assert (Hq : sin ((a - b) / 2) * sin ((a - b) / 2) = 0) by lra.
    apply Rmult_integral in Hq. tauto. }
  apply sin_eq_0_0 in H2. destruct H2 as [k Hk]. exists k. lra.
Qed.

(** polar form: atan2 recovers the angle *)
Lemma sc_atan2 r a : 0 < r -> sc (atan2 (r * sin a) (r * cos a)) a.
Proof.
  intros Hr. destruct (atan2_polar (r * sin a) (r * cos a)) as [Hc Hs].
  assert (E : r * cos a * (r * cos a) + r * sin a * (r * sin a) = r * r).
  { pose proof (sin2_cos2 a) as H. unfold Rsqr in H. nra. }
  rewrite E, sqrt_square in Hc, Hs by lra.
  split; apply (Rmult_eq_reg_l r); lra.
Qed.
Lemma sc_atan2' y x r a : 0 < r -> y = r * sin a -> x = r * cos a -> sc (atan2 y x) a.
Proof. intros Hr -> ->. apply sc_atan2. exact Hr. Qed.

(** acos recovers an angle with non-negative sine *)
Lemma sc_acos x a : cos a = x -> 0 <= sin a -> sc (acos x) a.
Proof.
  intros Hc Hs. pose proof (COS_bound a) as Hb. rewrite Hc in Hb.
  split.
  - rewrite sin_acos by lra. rewrite <- Hc.
    pose proof (sin2_cos2 a) as H. unfold Rsqr in H.
    replace (1 - (cos a)²) with (sin a * sin a) by (unfold Rsqr; lra).
    apply sqrt_square. exact Hs.
  - rewrite cos_acos by lra. symmetry. exact Hc.
Qed.

(** * the closed-form expressions of the code, as functions of plain reals (the generated table is these, by conversion) *)
Definition f_NX (CX CY a1 b : R) : R := sqrt (CX * CX + CY * CY - b * b) - a1.
Definition f_TH1 (back : bool) (CX CY a1 b : R) : R :=
  if back then atan2 CY CX + atan2 b (f_NX CX CY a1 b + a1) - PI else atan2 CY CX - atan2 b (f_NX CX CY a1 b + a1).
Definition f_AX (back : bool) (CX CY a1 b : R) : R := if back then f_NX CX CY a1 b + 2 * a1 else f_NX CX CY a1 b.
Definition f_SS (AX CZ c1 : R) : R := AX * AX + (CZ - c1) * (CZ - c1).
Definition f_A2 (AX CZ c1 c2 a2 c3 : R) : R :=
  acos ((f_SS AX CZ c1 + c2 * c2 - (a2 * a2 + c3 * c3)) / (2 * sqrt (f_SS AX CZ c1) * c2)).
Definition f_TH2 (back down : bool) (AX CZ c1 c2 a2 c3 : R) : R :=
  let A := f_A2 AX CZ c1 c2 a2 c3 in let T := atan2 AX (CZ - c1) in
  match back, down with
  | false, false => - A + T | false, true => A + T
  | true, false => - A - T  | true, true => A - T
  end.
Definition f_A3 (AX CZ c1 c2 a2 c3 : R) : R :=
  acos ((f_SS AX CZ c1 - c2 * c2 - (a2 * a2 + c3 * c3)) / (2 * c2 * sqrt (a2 * a2 + c3 * c3))).
Definition f_TH3 (down : bool) (AX CZ c1 c2 a2 c3 : R) : R :=
  if down then - f_A3 AX CZ c1 c2 a2 c3 - atan2 a2 c3 else f_A3 AX CZ c1 c2 a2 c3 - atan2 a2 c3.
(** wrist: from the rotation matrix entries and the arm angles *)
Definition f_M (r02 r12 r22 t1 t23 : R) : R := r02 * sin t23 * cos t1 + r12 * sin t23 * sin t1 + r22 * cos t23.
Definition f_TH5 (r02 r12 r22 t1 t23 : R) : R := let m := f_M r02 r12 r22 t1 t23 in atan2 (sqrt (1 - m * m)) m.
Definition f_TH4 (r02 r12 r22 t1 t23 : R) : R :=
  atan2 (r12 * cos t1 - r02 * sin t1) (r02 * cos t23 * cos t1 + r12 * cos t23 * sin t1 - r22 * sin t23).
Definition f_TH6 (r00 r01 r10 r11 r20 r21 t1 t23 : R) : R :=
  atan2 (r01 * sin t23 * cos t1 + r11 * sin t23 * sin t1 + r21 * cos t23)
        (- r00 * sin t23 * cos t1 - r10 * sin t23 * sin t1 - r20 * cos t23).

(** * the arm (J1..J3): planar two-link geometry *)
Section Arm.
  (** geometry *)
  Variables a1 a2 b c1 c2 c3 : R.
  (** model angles *)
  Variables q1 q2 q3 : R.
  Let kap := sqrt (a2 * a2 + c3 * c3).
  Let psi := atan2 a2 c3.
  Let u := q3 + psi.
  (** wrist centre seen from frame 1 and in the base frame *)
  Definition aX := c2 * sin q2 + a2 * cos (q2 + q3) + c3 * sin (q2 + q3).
  Let X := aX.
  Definition aZ := c2 * cos q2 - a2 * sin (q2 + q3) + c3 * cos (q2 + q3).
  Let Z := aZ.
  Let cx1 := X + a1.
  Definition aCx := (aX + a1) * cos q1 - b * sin q1.
  Let cx := aCx.
  Definition aCy := (aX + a1) * sin q1 + b * cos q1.
  Let cy := aCy.
  Definition aCz := aZ + c1.
  Let cz := aCz.

  Hypothesis Hkap : 0 < a2 * a2 + c3 * c3.
  Hypothesis Hc2 : c2 <> 0.

  Lemma kap_pos : 0 < kap. Proof. apply sqrt_lt_R0. exact Hkap. Qed.
  Lemma kap_sq : kap * kap = a2 * a2 + c3 * c3. Proof. apply sqrt_sqrt. lra. Qed.
  Lemma psi_polar : kap * cos psi = c3 /\ kap * sin psi = a2.
  Proof. unfold kap, psi. replace (a2 * a2 + c3 * c3) with (c3 * c3 + a2 * a2) by ring. apply atan2_polar. Qed.

  Lemma X_u : X = c2 * sin q2 + kap * sin (q2 + u).
  Proof.
    destruct psi_polar as [Hc Hs]. unfold X, aX, u.
    replace (q2 + (q3 + psi)) with ((q2 + q3) + psi) by ring. rewrite (sin_plus (q2 + q3) psi).
    rewrite <- Hc, <- Hs. ring.
  Qed.
  Lemma Z_u : Z = c2 * cos q2 + kap * cos (q2 + u).
  Proof.
    destruct psi_polar as [Hc Hs]. unfold Z, aZ, u.
    replace (q2 + (q3 + psi)) with ((q2 + q3) + psi) by ring. rewrite (cos_plus (q2 + q3) psi).
    rewrite <- Hc, <- Hs. ring.
  Qed.

  (** the triangle shoulder - elbow - wrist centre *)
  Let S := X * X + Z * Z.
  Let P := c2 + kap * cos u.
  Let Qq := kap * sin u.
  Let beta := atan2 Qq P.

  Lemma S_PQ : S = P * P + Qq * Qq.
  Proof.
    unfold S, P, Qq. rewrite X_u, Z_u, !sin_plus, !cos_plus.
    pose proof (sin2_cos2 q2) as H. unfold Rsqr in H.
    transitivity ((sin q2 * sin q2 + cos q2 * cos q2) * ((c2 + kap * cos u) * (c2 + kap * cos u) + kap * sin u * (kap * sin u))); [ring|].
    rewrite H. ring.
  Qed.
  Lemma S_cos : S = c2 * c2 + kap * kap + 2 * c2 * kap * cos u.
  Proof.
    rewrite S_PQ. unfold P, Qq. pose proof (sin2_cos2 u) as H. unfold Rsqr in H.
    transitivity (c2 * c2 + kap * kap * (sin u * sin u + cos u * cos u) + 2 * c2 * kap * cos u); [ring | rewrite H; ring].
  Qed.

  Hypothesis HS : 0 < S.
  Let s := sqrt S.
  Lemma s_pos : 0 < s. Proof. apply sqrt_lt_R0. exact HS. Qed.
  Lemma beta_polar : s * cos beta = P /\ s * sin beta = Qq.
  Proof. unfold s, beta. rewrite S_PQ. apply atan2_polar. Qed.
  Lemma X_beta : X = s * sin (q2 + beta).
  Proof.
    destruct beta_polar as [Hc Hs]. rewrite X_u, !sin_plus. unfold P, Qq in *.
    replace (s * (sin q2 * cos beta + cos q2 * sin beta)) with (sin q2 * (s * cos beta) + cos q2 * (s * sin beta)) by ring.
    rewrite Hc, Hs. ring.
  Qed.
  Lemma Z_beta : Z = s * cos (q2 + beta).
  Proof.
    destruct beta_polar as [Hc Hs]. rewrite Z_u, !cos_plus. unfold P, Qq in *.
    replace (s * (cos q2 * cos beta - sin q2 * sin beta)) with (cos q2 * (s * cos beta) - sin q2 * (s * sin beta)) by ring.
    rewrite Hc, Hs. ring.
  Qed.
  Lemma sin_beta_sign : 0 <= sin u <-> 0 <= sin beta.
  Proof.
    destruct beta_polar as [_ Hs]. unfold Qq in Hs. pose proof s_pos. pose proof kap_pos.
    split; intros H1.
    - assert (0 <= s * sin beta) by (rewrite Hs; nra). nra.
    - assert (0 <= kap * sin u) by (rewrite <- Hs; nra). nra.
  Qed.
  Lemma sin_beta_sign' : sin u <= 0 <-> sin beta <= 0.
  Proof.
    destruct beta_polar as [_ Hs]. unfold Qq in Hs. pose proof s_pos. pose proof kap_pos.
    split; intros H1.
    - assert (s * sin beta <= 0) by (rewrite Hs; nra). nra.
    - assert (kap * sin u <= 0) by (rewrite <- Hs; nra). nra.
  Qed.

  (** the elbow angle: acos ((S - c2^2 - kap^2) / (2 c2 kap)) *)
  Lemma elbow_arg : (S - c2 * c2 - (a2 * a2 + c3 * c3)) / (2 * c2 * kap) = cos u.
  Proof. rewrite S_cos, <- kap_sq. pose proof kap_pos. field. split; lra. Qed.
  (** the shoulder correction: acos ((S + c2^2 - kap^2) / (2 s c2)) *)
  Lemma shoulder_arg : (S + c2 * c2 - (a2 * a2 + c3 * c3)) / (2 * s * c2) = cos beta.
  Proof.
    destruct beta_polar as [Hc _]. pose proof s_pos.
    replace (S + c2 * c2 - (a2 * a2 + c3 * c3)) with (2 * c2 * P) by (rewrite S_cos, <- kap_sq; unfold P; ring).
    rewrite <- Hc. field. split; lra.
  Qed.

  (** elbow-up / elbow-down rows *)
  Lemma elbow_up : 0 <= sin u -> sc (acos (cos u) - psi) q3 /\ sc (- acos (cos beta) + (q2 + beta)) q2.
  Proof.
    intros Hu. split.
    - apply (sc_trans _ (u - psi)); [|apply sc_eq; unfold u; ring].
      apply sc_minus; [|apply sc_refl]. apply sc_acos; [reflexivity | exact Hu].
    - apply (sc_trans _ (- beta + (q2 + beta))); [|apply sc_eq; ring].
      apply sc_plus; [|apply sc_refl]. apply sc_neg. apply sc_acos; [reflexivity | apply sin_beta_sign; exact Hu].
  Qed.
  Lemma elbow_down : sin u <= 0 -> sc (- acos (cos u) - psi) q3 /\ sc (acos (cos beta) + (q2 + beta)) q2.
  Proof.
    intros Hu. split.
    - apply (sc_trans _ (- - u - psi)); [|apply sc_eq; unfold u; ring].
      apply sc_minus; [|apply sc_refl]. apply sc_neg. apply sc_acos; [apply cos_neg | rewrite sin_neg; lra].
    - apply (sc_trans _ (- beta + (q2 + beta))); [|apply sc_eq; ring].
      apply sc_plus; [|apply sc_refl]. apply sc_acos; [apply cos_neg | rewrite sin_neg; apply sin_beta_sign' in Hu; lra].
  Qed.

  (** J1: front and back *)
  Let rho := sqrt (cx1 * cx1 + b * b).
  Lemma c_norm : cx * cx + cy * cy - b * b = cx1 * cx1.
  Proof. unfold cx, cy, aCx, aCy. fold X. fold cx1. pose proof (sin2_cos2 q1) as H. unfold Rsqr in H. nra. Qed.

  Lemma front_nx1 : 0 < cx1 -> sqrt (cx * cx + cy * cy - b * b) - a1 = X.
  Proof. intros H. rewrite c_norm, sqrt_square by lra. unfold cx1. ring. Qed.
  Lemma back_nx1 : cx1 < 0 -> sqrt (cx * cx + cy * cy - b * b) - a1 = - X - 2 * a1.
  Proof.
    intros H. rewrite c_norm. replace (cx1 * cx1) with ((- cx1) * (- cx1)) by ring. rewrite sqrt_square by lra. unfold cx1. ring.
  Qed.

  Lemma theta1_front : 0 < cx1 -> sc (atan2 cy cx - atan2 b cx1) q1.
  Proof.
    intros H. set (phi := atan2 b cx1).
    assert (Hr : 0 < rho) by (apply sqrt_lt_R0; nra).
    destruct (atan2_polar b cx1) as [Hc Hs]. fold rho phi in Hc, Hs.
    apply (sc_trans _ ((q1 + phi) - phi)); [|apply sc_eq; ring]. apply sc_minus; [|apply sc_refl].
    apply (sc_atan2' _ _ rho); [exact Hr | |]; unfold cy, cx, aCy, aCx; fold X; fold cx1; rewrite ?sin_plus, ?cos_plus, <- Hc, <- Hs; ring.
  Qed.
  Lemma theta1_back : cx1 < 0 -> sc (atan2 cy cx + atan2 b (- cx1) - PI) q1.
  Proof.
    intros H. set (phi := atan2 b (- cx1)).
    assert (Hr : 0 < sqrt ((- cx1) * (- cx1) + b * b)) by (apply sqrt_lt_R0; nra).
    destruct (atan2_polar b (- cx1)) as [Hc Hs]. fold phi in Hc, Hs.
    set (r := sqrt ((- cx1) * (- cx1) + b * b)) in *.
    apply sc_minus_PI.
    apply (sc_trans _ ((q1 - phi + PI) + phi)); [|apply sc_eq; ring]. apply sc_plus; [|apply sc_refl].
    assert (Ecx1 : cx1 = - (r * cos phi)) by lra.
    apply (sc_atan2' _ _ r); [exact Hr | |]; unfold cy, cx, aCy, aCx; fold X; fold cx1; rewrite Ecx1, <- Hs;
      rewrite ?sin_plus, ?cos_plus, ?sin_minus, ?cos_minus, sin_PI, cos_PI; ring.
  Qed.

  (** ** the rows of the code, in the code's own shapes *)
  Lemma cz_c1 : cz - c1 = Z. Proof. unfold cz, aCz. fold Z. ring. Qed.
  Lemma shoulder_atan : sc (atan2 X Z) (q2 + beta).
  Proof. apply (sc_atan2' _ _ s); [apply s_pos | apply X_beta | apply Z_beta]. Qed.
  Lemma shoulder_atan_neg : sc (atan2 (- X) Z) (- (q2 + beta)).
  Proof.
    apply (sc_atan2' _ _ s); [apply s_pos | rewrite sin_neg, X_beta; ring | rewrite cos_neg; apply Z_beta].
  Qed.
  Lemma A2_eq : f_A2 X cz c1 c2 a2 c3 = acos (cos beta).
  Proof. unfold f_A2, f_SS. rewrite cz_c1. fold S. fold s. rewrite shoulder_arg. reflexivity. Qed.
  Lemma A3_eq : f_A3 X cz c1 c2 a2 c3 = acos (cos u).
  Proof. unfold f_A3, f_SS. rewrite cz_c1. fold S. fold kap. rewrite elbow_arg. reflexivity. Qed.
  Lemma A2_eq_neg : f_A2 (- X) cz c1 c2 a2 c3 = acos (cos beta).
  Proof. rewrite <- A2_eq. unfold f_A2, f_SS. replace (- X * - X) with (X * X) by ring. reflexivity. Qed.
  Lemma A3_eq_neg : f_A3 (- X) cz c1 c2 a2 c3 = acos (cos u).
  Proof. rewrite <- A3_eq. unfold f_A3, f_SS. replace (- X * - X) with (X * X) by ring. reflexivity. Qed.

  Lemma front_AX : 0 < cx1 -> f_AX false cx cy a1 b = X.
  Proof. intros H. unfold f_AX, f_NX. apply front_nx1. exact H. Qed.
  Lemma back_AX : cx1 < 0 -> f_AX true cx cy a1 b = - X.
  Proof. intros H. unfold f_AX, f_NX. rewrite back_nx1 by exact H. ring. Qed.

  Lemma TH1_front : 0 < cx1 -> sc (f_TH1 false cx cy a1 b) q1.
  Proof.
    intros H. unfold f_TH1, f_NX. rewrite front_nx1 by exact H. fold cx1. apply theta1_front. exact H.
  Qed.
  Lemma TH1_back : cx1 < 0 -> sc (f_TH1 true cx cy a1 b) q1.
  Proof.
    intros H. unfold f_TH1, f_NX. rewrite back_nx1 by exact H.
    replace (- X - 2 * a1 + a1) with (- cx1) by (unfold cx1; ring). apply theta1_back. exact H.
  Qed.

  Lemma TH23_front_up : 0 <= sin u ->
    sc (f_TH2 false false X cz c1 c2 a2 c3) q2 /\ sc (f_TH3 false X cz c1 c2 a2 c3) q3.
  Proof.
    intros Hu. destruct (elbow_up Hu) as [H3 H2]. unfold f_TH2, f_TH3. rewrite A2_eq, A3_eq, cz_c1. split; [|exact H3].
    eapply sc_trans; [|exact H2]. apply sc_plus; [apply sc_refl | apply shoulder_atan].
  Qed.
  Lemma TH23_front_down : sin u <= 0 ->
    sc (f_TH2 false true X cz c1 c2 a2 c3) q2 /\ sc (f_TH3 true X cz c1 c2 a2 c3) q3.
  Proof.
    intros Hu. destruct (elbow_down Hu) as [H3 H2]. unfold f_TH2, f_TH3. rewrite A2_eq, A3_eq, cz_c1. split; [|exact H3].
    eapply sc_trans; [|exact H2]. apply sc_plus; [apply sc_refl | apply shoulder_atan].
  Qed.
  Lemma TH23_back_up : 0 <= sin u ->
    sc (f_TH2 true false (- X) cz c1 c2 a2 c3) q2 /\ sc (f_TH3 false (- X) cz c1 c2 a2 c3) q3.
  Proof.
    intros Hu. destruct (elbow_up Hu) as [H3 H2]. unfold f_TH2, f_TH3. rewrite A2_eq_neg, A3_eq_neg, cz_c1. split; [|exact H3].
    eapply sc_trans; [|exact H2].
    apply (sc_trans _ (- acos (cos beta) + - atan2 (- X) Z)); [apply sc_eq; ring|].
    apply sc_plus; [apply sc_refl|].
    apply (sc_trans _ (- - (q2 + beta))); [apply sc_neg; apply shoulder_atan_neg | apply sc_eq; ring].
  Qed.
  Lemma TH23_back_down : sin u <= 0 ->
    sc (f_TH2 true true (- X) cz c1 c2 a2 c3) q2 /\ sc (f_TH3 true (- X) cz c1 c2 a2 c3) q3.
  Proof.
    intros Hu. destruct (elbow_down Hu) as [H3 H2]. unfold f_TH2, f_TH3. rewrite A2_eq_neg, A3_eq_neg, cz_c1. split; [|exact H3].
    eapply sc_trans; [|exact H2].
    apply (sc_trans _ (acos (cos beta) + - atan2 (- X) Z)); [apply sc_eq; ring|].
    apply sc_plus; [apply sc_refl|].
    apply (sc_trans _ (- - (q2 + beta))); [apply sc_neg; apply shoulder_atan_neg | apply sc_eq; ring].
  Qed.

  (** ** every intermediate value is finite (the definedness flags of the generated table) *)
  Lemma D_nx : 0 <= cx * cx + cy * cy - b * b.
  Proof. rewrite c_norm. nra. Qed.
  Lemma D_SS : 0 <= X * X + Z * Z. Proof. fold S. lra. Qed.
  Lemma D_den2 : 2 * sqrt (X * X + Z * Z) * c2 <> 0.
  Proof. fold S. fold s. pose proof s_pos. intros E. apply Rmult_integral in E. destruct E as [E|E]; [lra | contradiction]. Qed.
  Lemma D_arg2 : -1 <= (X * X + Z * Z + c2 * c2 - (a2 * a2 + c3 * c3)) / (2 * sqrt (X * X + Z * Z) * c2) <= 1.
  Proof. fold S. fold s. rewrite shoulder_arg. apply COS_bound. Qed.
  Lemma D_kap : 0 <= a2 * a2 + c3 * c3. Proof. lra. Qed.
  Lemma D_den3 : 2 * c2 * sqrt (a2 * a2 + c3 * c3) <> 0.
  Proof. fold kap. pose proof kap_pos. intros E. apply Rmult_integral in E. destruct E as [E|E]; [|lra]. apply Rmult_integral in E. destruct E; [lra | contradiction]. Qed.
  Lemma D_arg3 : -1 <= (X * X + Z * Z - c2 * c2 - (a2 * a2 + c3 * c3)) / (2 * c2 * sqrt (a2 * a2 + c3 * c3)) <= 1.
  Proof. fold S. fold kap. rewrite elbow_arg. apply COS_bound. Qed.
End Arm.

(** * the wrist (J4..J6) *)
From Coq Require Import Nsatz.
From VF Require Import Gen.Forward Proofs.ForwardP.

Lemma pyth x : sin x * sin x + cos x * cos x = 1.
Proof. pose proof (sin2_cos2 x) as H. unfold Rsqr in H. exact H. Qed.

Ltac wrist_id :=
  intros p [q1 q2 q3 q4 q5 q6]; cbv zeta;
  cbv [L1 L2 L3 L4 L5 L6 E1 E2 E3 E4 E5 E6 j1 j2 j3 j4 j5 j6]; lin_unfold;
  rewrite ?sin_plus, ?cos_plus;
  pose proof (pyth q1) as H1; pose proof (pyth q2) as H2; pose proof (pyth q3) as H3;
  generalize dependent (sin q1); generalize dependent (cos q1); generalize dependent (sin q2); generalize dependent (cos q2);
  generalize dependent (sin q3); generalize dependent (cos q3); intros; nsatz.

(** the wrist part of the pose rotation, seen from the arm frame: entries of Rz(q4) Ry(q5) Rz(q6) *)
Lemma wrist_m : forall p q, let R := rot (L6 p q) in
  m02 R * sin (j2 q + j3 q) * cos (j1 q) + m12 R * sin (j2 q + j3 q) * sin (j1 q) + m22 R * cos (j2 q + j3 q) = cos (j5 q).
Proof. wrist_id. Qed.
Lemma wrist_4y : forall p q, let R := rot (L6 p q) in
  m12 R * cos (j1 q) - m02 R * sin (j1 q) = sin (j5 q) * sin (j4 q).
Proof. wrist_id. Qed.
Lemma wrist_4x : forall p q, let R := rot (L6 p q) in
  m02 R * cos (j2 q + j3 q) * cos (j1 q) + m12 R * cos (j2 q + j3 q) * sin (j1 q) - m22 R * sin (j2 q + j3 q) = sin (j5 q) * cos (j4 q).
Proof. wrist_id. Qed.
Lemma wrist_6y : forall p q, let R := rot (L6 p q) in
  m01 R * sin (j2 q + j3 q) * cos (j1 q) + m11 R * sin (j2 q + j3 q) * sin (j1 q) + m21 R * cos (j2 q + j3 q) = sin (j5 q) * sin (j6 q).
Proof. wrist_id. Qed.
Lemma wrist_6x : forall p q, let R := rot (L6 p q) in
  - m00 R * sin (j2 q + j3 q) * cos (j1 q) - m10 R * sin (j2 q + j3 q) * sin (j1 q) - m20 R * cos (j2 q + j3 q) = sin (j5 q) * cos (j6 q).
Proof. wrist_id. Qed.

(** the wrist centre of the pose is the arm's end point *)
Lemma wc_x p q : vx (tr (L6 p q)) - p_c4 p * m02 (rot (L6 p q)) =
  aCx (p_a1 p) (p_a2 p) (p_b p) (p_c2 p) (p_c3 p) (j1 q) (j2 q) (j3 q).
Proof.
  destruct q as [q1 q2 q3 q4 q5 q6]. unfold aCx, aX.
  cbv [L1 L2 L3 L4 L5 L6 E1 E2 E3 E4 E5 E6 j1 j2 j3 j4 j5 j6]. lin_unfold. rewrite ?sin_plus, ?cos_plus. ring.
Qed.
Lemma wc_y p q : vy (tr (L6 p q)) - p_c4 p * m12 (rot (L6 p q)) =
  aCy (p_a1 p) (p_a2 p) (p_b p) (p_c2 p) (p_c3 p) (j1 q) (j2 q) (j3 q).
Proof.
  destruct q as [q1 q2 q3 q4 q5 q6]. unfold aCy, aX.
  cbv [L1 L2 L3 L4 L5 L6 E1 E2 E3 E4 E5 E6 j1 j2 j3 j4 j5 j6]. lin_unfold. rewrite ?sin_plus, ?cos_plus. ring.
Qed.
Lemma wc_z p q : vz (tr (L6 p q)) - p_c4 p * m22 (rot (L6 p q)) =
  aCz (p_a2 p) (p_c1 p) (p_c2 p) (p_c3 p) (j2 q) (j3 q).
Proof.
  destruct q as [q1 q2 q3 q4 q5 q6]. unfold aCz, aZ.
  cbv [L1 L2 L3 L4 L5 L6 E1 E2 E3 E4 E5 E6 j1 j2 j3 j4 j5 j6]. lin_unfold. rewrite ?sin_plus, ?cos_plus. ring.
Qed.

Section Wrist.
  Variables (p : Lin.Params) (q : J6) (t1 t23 : R).
  Hypothesis Ht1 : sc t1 (j1 q).
  Hypothesis Ht23 : sc t23 (j2 q + j3 q).
  Let R := rot (L6 p q).

  Lemma M_eq : f_M (m02 R) (m12 R) (m22 R) t1 t23 = cos (j5 q).
  Proof. unfold f_M. destruct Ht1 as [-> ->]. destruct Ht23 as [-> ->]. apply (wrist_m p q). Qed.
  Lemma sqrt_1_cos2 x : sqrt (1 - cos x * cos x) = Rabs (sin x).
  Proof. replace (1 - cos x * cos x) with (sin x * sin x) by (pose proof (pyth x); lra). apply sqrt_Rsqr_abs. Qed.

  Lemma TH4_args : f_TH4 (m02 R) (m12 R) (m22 R) t1 t23 = atan2 (sin (j5 q) * sin (j4 q)) (sin (j5 q) * cos (j4 q)).
  Proof. unfold f_TH4. destruct Ht1 as [-> ->]. destruct Ht23 as [-> ->]. pose proof (wrist_4y p q) as E1. pose proof (wrist_4x p q) as E2. cbv zeta in E1, E2. fold R in E1, E2. rewrite E1, E2. reflexivity. Qed.
  Lemma TH6_args : f_TH6 (m00 R) (m01 R) (m10 R) (m11 R) (m20 R) (m21 R) t1 t23 = atan2 (sin (j5 q) * sin (j6 q)) (sin (j5 q) * cos (j6 q)).
  Proof. unfold f_TH6. destruct Ht1 as [-> ->]. destruct Ht23 as [-> ->]. pose proof (wrist_6y p q) as E1. pose proof (wrist_6x p q) as E2. cbv zeta in E1, E2. fold R in E1, E2. rewrite E1, E2. reflexivity. Qed.

  (** no flip: sin q5 > 0 *)
  Lemma wrist_pos : 0 < sin (j5 q) ->
    sc (f_TH4 (m02 R) (m12 R) (m22 R) t1 t23) (j4 q) /\ sc (f_TH5 (m02 R) (m12 R) (m22 R) t1 t23) (j5 q) /\
    sc (f_TH6 (m00 R) (m01 R) (m10 R) (m11 R) (m20 R) (m21 R) t1 t23) (j6 q).
  Proof.
    intros H5. rewrite TH4_args, TH6_args. unfold f_TH5. cbv zeta. rewrite M_eq, sqrt_1_cos2, Rabs_right by lra.
    split; [apply sc_atan2; exact H5 | split; [|apply sc_atan2; exact H5]].
    apply (sc_atan2' _ _ 1); [lra | ring | ring].
  Qed.
  (** flip: sin q5 < 0; the code's twin row adds PI to J4, negates J5, subtracts PI from J6 *)
  Lemma wrist_neg : sin (j5 q) < 0 ->
    sc (f_TH4 (m02 R) (m12 R) (m22 R) t1 t23 + PI) (j4 q) /\ sc (- f_TH5 (m02 R) (m12 R) (m22 R) t1 t23) (j5 q) /\
    sc (f_TH6 (m00 R) (m01 R) (m10 R) (m11 R) (m20 R) (m21 R) t1 t23 - PI) (j6 q).
  Proof.
    intros H5. rewrite TH4_args, TH6_args. unfold f_TH5. cbv zeta. rewrite M_eq, sqrt_1_cos2, Rabs_left by lra.
    assert (Hr : 0 < - sin (j5 q)) by lra.
    split; [|split].
    - apply sc_plus_PI. apply (sc_atan2' _ _ (- sin (j5 q))); [exact Hr | |]; rewrite ?sin_plus, ?cos_plus, sin_PI, cos_PI; ring.
    - apply (sc_trans _ (- - j5 q)); [|apply sc_eq; ring]. apply sc_neg.
      apply (sc_atan2' _ _ 1); [lra | rewrite sin_neg; ring | rewrite cos_neg; ring].
    - apply sc_minus_PI. apply (sc_atan2' _ _ (- sin (j5 q))); [exact Hr | |]; rewrite ?sin_plus, ?cos_plus, sin_PI, cos_PI; ring.
  Qed.
  (** finiteness of the J5 square root *)
  Lemma D_m : 0 <= 1 - f_M (m02 R) (m12 R) (m22 R) t1 t23 * f_M (m02 R) (m12 R) (m22 R) t1 t23.
  Proof. rewrite M_eq. pose proof (pyth (j5 q)). nra. Qed.
End Wrist.

(** * the generated table is made of these expressions *)
From VF Require Import Gen.Inverse.
Section Rows.
  Variables (p : Lin.Params) (pose : Iso).
  Let CX := vx (tr pose) - p_c4 p * m02 (rot pose).
  Let CY := vy (tr pose) - p_c4 p * m12 (rot pose).
  Let CZ := vz (tr pose) - p_c4 p * m22 (rot pose).
  Let Rm := rot pose.
  Definition row (back down flip : bool) : list R :=
    let AX := f_AX back CX CY (p_a1 p) (p_b p) in
    let t1 := f_TH1 back CX CY (p_a1 p) (p_b p) in
    let t2 := f_TH2 back down AX CZ (p_c1 p) (p_c2 p) (p_a2 p) (p_c3 p) in
    let t3 := f_TH3 down AX CZ (p_c1 p) (p_c2 p) (p_a2 p) (p_c3 p) in
    let th4 := f_TH4 (m02 Rm) (m12 Rm) (m22 Rm) t1 (t2 + t3) in
    let th5 := f_TH5 (m02 Rm) (m12 Rm) (m22 Rm) t1 (t2 + t3) in
    let th6 := f_TH6 (m00 Rm) (m01 Rm) (m10 Rm) (m11 Rm) (m20 Rm) (m21 Rm) t1 (t2 + t3) in
    [t1; t2; t3; if flip then th4 + PI else th4; if flip then - th5 else th5; if flip then th6 - PI else th6].

  Lemma rows_eq : ik_theta p pose =
    [row false false false; row false true false; row true false false; row true true false;
     row false false true; row false true true; row true false true; row true true true].
  Proof. reflexivity. Qed.
  Lemma def_values : map (map fst) (ik_theta_def p pose) = ik_theta p pose.
  Proof. reflexivity. Qed.
End Rows.

(** * completeness of the branch table: the originating configuration is one of the eight rows *)
Lemma Rleb_t x y : x <= y -> Rleb x y = true. Proof. apply Rleb_true. Qed.
Lemma Rneqb_t x y : x <> y -> negb (Reqb x y) = true.
Proof. intros H. apply Reqb_false in H. rewrite H. reflexivity. Qed.
Lemma unit_dot (a b c s1 c1 s c' : R) : a*a + b*b + c*c = 1 -> s1*s1 + c1*c1 = 1 -> s*s + c'*c' = 1 ->
  0 <= 1 - (a * s * c1 + b * s * s1 + c * c') * (a * s * c1 + b * s * s1 + c * c').
Proof.
  intros H1 H2 H3.
  assert (E : 1 - (a * s * c1 + b * s * s1 + c * c') * (a * s * c1 + b * s * s1 + c * c') =
              (b * c' - c * (s * s1)) * (b * c' - c * (s * s1)) + (c * (s * c1) - a * c') * (c * (s * c1) - a * c') +
              (a * (s * s1) - b * (s * c1)) * (a * (s * s1) - b * (s * c1))) by nsatz.
  rewrite E. pose proof (Rle_0_sqr (b * c' - c * (s * s1))). pose proof (Rle_0_sqr (c * (s * c1) - a * c')). pose proof (Rle_0_sqr (a * (s * s1) - b * (s * c1))).
  unfold Rsqr in *. lra.
Qed.
(** the J5 square root is finite whatever arm angles were computed: the argument is 1 - (unit vector . unit vector)^2 *)
Lemma D_m_gen (p : Lin.Params) (q : J6) (t1 t23 : R) :
  0 <= 1 - (m02 (rot (L6 p q)) * sin t23 * cos t1 + m12 (rot (L6 p q)) * sin t23 * sin t1 + m22 (rot (L6 p q)) * cos t23) *
           (m02 (rot (L6 p q)) * sin t23 * cos t1 + m12 (rot (L6 p q)) * sin t23 * sin t1 + m22 (rot (L6 p q)) * cos t23).
Proof.
  apply unit_dot; [|apply pyth|apply pyth].
  destruct (proper_L6 p q) as [Ho _]. apply (f_equal m22) in Ho. revert Ho.
  generalize (rot (L6 p q)). intros m. destruct m as [a00 a01 a02 a10 a11 a12 a20 a21 a22]. lin_unfold. cbn. intros Ho. lra.
Qed.

Definition row_index (back down flip : bool) : nat :=
  ((if flip then 4 else 0) + (if back then 2 else 0) + (if down then 1 else 0))%nat.
Lemma nth_row p pose back down flip : List.nth (row_index back down flip) (ik_theta p pose) [] = row p pose back down flip.
Proof. rewrite rows_eq. destruct back, down, flip; reflexivity. Qed.


Section Complete.
  Variables (p : Lin.Params) (q : J6).
  Let X := aX (p_a2 p) (p_c2 p) (p_c3 p) (j2 q) (j3 q).
  Let Z := aZ (p_a2 p) (p_c2 p) (p_c3 p) (j2 q) (j3 q).
  (** geometry: a real elbow link and a wrist centre off the J4 axis line *)
  Hypothesis Hkap : 0 < p_a2 p * p_a2 p + p_c3 p * p_c3 p.
  Hypothesis Hc2 : p_c2 p <> 0.
  (** configuration: wrist centre not on the shoulder axis (J2), not in the plane through J1 that makes the arm
      front/back ambiguous, wrist not singular *)
  Hypothesis HS : 0 < X * X + Z * Z.
  Hypothesis Hcx1 : X + p_a1 p <> 0.
  Hypothesis H5 : sin (j5 q) <> 0.

  Ltac finish_row T1 T2 T3 W :=
    let T23 := fresh "T23" in
    assert (T23 := sc_plus _ _ _ _ T2 T3);
    destruct (W p q _ _ T1 T23) as [W4 [W5 W6]]; [lra|];
    repeat (apply Forall2_cons; [assumption|]); apply Forall2_nil.

  (** the definedness flags of one row of the generated table; [NX]: the value of nx1 on this side of the shoulder *)
  Ltac flags NX :=
    unfold ik_theta_def; cbv zeta; cbn [List.nth forallb snd row_index Nat.add];
    rewrite !wc_x, !wc_y, !wc_z; rewrite !NX;
    repeat match goal with |- context [- ?x - 2 * ?a + 2 * ?a] => replace (- x - 2 * a + 2 * a) with (- x) by ring end;
    repeat match goal with |- context [- ?x * - ?x] => replace (- x * - x) with (x * x) by ring end;
    rewrite !cz_c1;
    rewrite ?(Rleb_t _ _ (D_nx (p_a1 p) (p_a2 p) (p_b p) (p_c2 p) (p_c3 p) (j1 q) (j2 q) (j3 q)));
    rewrite ?(Rleb_t _ _ (D_SS _ _ _ _ _ HS));
    rewrite ?(Rneqb_t _ _ (D_den2 _ _ _ _ _ Hc2 HS));
    rewrite ?(Rleb_t _ _ (proj1 (D_arg2 _ _ _ _ _ Hkap Hc2 HS))), ?(Rleb_t _ _ (proj2 (D_arg2 _ _ _ _ _ Hkap Hc2 HS)));
    rewrite ?(Rleb_t _ _ (D_kap _ _ Hkap));
    rewrite ?(Rneqb_t _ _ (D_den3 _ _ _ Hkap Hc2));
    rewrite ?(Rleb_t _ _ (proj1 (D_arg3 _ _ _ (j2 q) (j3 q) Hkap Hc2))), ?(Rleb_t _ _ (proj2 (D_arg3 _ _ _ (j2 q) (j3 q) Hkap Hc2)));
    repeat match goal with |- context [Rleb 0 (1 - (_ * sin ?t23 * cos ?t1 + _ + _) * _)] => rewrite (Rleb_t _ _ (D_m_gen p q t1 t23)) end;
    reflexivity.

  Theorem table_complete : exists back down flip,
    Forall2 sc (row p (L6 p q) back down flip) [j1 q; j2 q; j3 q; j4 q; j5 q; j6 q] /\
    forallb snd (List.nth (row_index back down flip) (ik_theta_def p (L6 p q)) []) = true.
  Proof.
    assert (Hside : 0 < X + p_a1 p \/ X + p_a1 p < 0) by (destruct (Rtotal_order 0 (X + p_a1 p)) as [?|[E|?]]; [left; assumption | symmetry in E; contradiction | right; assumption]).
    assert (Hwr : 0 < sin (j5 q) \/ sin (j5 q) < 0) by (destruct (Rtotal_order 0 (sin (j5 q))) as [?|[E|?]]; [left; assumption | symmetry in E; contradiction | right; assumption]).
    destruct Hside as [Hf|Hb]; destruct (Rle_dec 0 (sin (j3 q + atan2 (p_a2 p) (p_c3 p)))) as [Hu|Hd];
      try (assert (Hd' : sin (j3 q + atan2 (p_a2 p) (p_c3 p)) <= 0) by lra); destruct Hwr as [Hp|Hn].
    - exists false, false, false. split; [|flags (front_nx1 _ _ (p_b p) _ _ (j1 q) _ _ Hf)].
      unfold row. cbv beta iota zeta. rewrite !wc_x, !wc_y, !wc_z. rewrite front_AX by exact Hf.
      pose proof (TH1_front _ _ (p_b p) _ _ (j1 q) _ _ Hf) as T1. destruct (TH23_front_up _ (p_c1 p) _ _ _ _ Hkap Hc2 HS Hu) as [T2 T3].
      finish_row T1 T2 T3 wrist_pos.
    - exists false, false, true. split; [|flags (front_nx1 _ _ (p_b p) _ _ (j1 q) _ _ Hf)].
      unfold row. cbv beta iota zeta. rewrite !wc_x, !wc_y, !wc_z. rewrite front_AX by exact Hf.
      pose proof (TH1_front _ _ (p_b p) _ _ (j1 q) _ _ Hf) as T1. destruct (TH23_front_up _ (p_c1 p) _ _ _ _ Hkap Hc2 HS Hu) as [T2 T3].
      finish_row T1 T2 T3 wrist_neg.
    - exists false, true, false. split; [|flags (front_nx1 _ _ (p_b p) _ _ (j1 q) _ _ Hf)].
      unfold row. cbv beta iota zeta. rewrite !wc_x, !wc_y, !wc_z. rewrite front_AX by exact Hf.
      pose proof (TH1_front _ _ (p_b p) _ _ (j1 q) _ _ Hf) as T1. destruct (TH23_front_down _ (p_c1 p) _ _ _ _ Hkap Hc2 HS Hd') as [T2 T3].
      finish_row T1 T2 T3 wrist_pos.
    - exists false, true, true. split; [|flags (front_nx1 _ _ (p_b p) _ _ (j1 q) _ _ Hf)].
      unfold row. cbv beta iota zeta. rewrite !wc_x, !wc_y, !wc_z. rewrite front_AX by exact Hf.
      pose proof (TH1_front _ _ (p_b p) _ _ (j1 q) _ _ Hf) as T1. destruct (TH23_front_down _ (p_c1 p) _ _ _ _ Hkap Hc2 HS Hd') as [T2 T3].
      finish_row T1 T2 T3 wrist_neg.
    - exists true, false, false. split; [|flags (back_nx1 _ _ (p_b p) _ _ (j1 q) _ _ Hb)].
      unfold row. cbv beta iota zeta. rewrite !wc_x, !wc_y, !wc_z. rewrite back_AX by exact Hb.
      pose proof (TH1_back _ _ (p_b p) _ _ (j1 q) _ _ Hb) as T1. destruct (TH23_back_up _ (p_c1 p) _ _ _ _ Hkap Hc2 HS Hu) as [T2 T3].
      finish_row T1 T2 T3 wrist_pos.
    - exists true, false, true. split; [|flags (back_nx1 _ _ (p_b p) _ _ (j1 q) _ _ Hb)].
      unfold row. cbv beta iota zeta. rewrite !wc_x, !wc_y, !wc_z. rewrite back_AX by exact Hb.
      pose proof (TH1_back _ _ (p_b p) _ _ (j1 q) _ _ Hb) as T1. destruct (TH23_back_up _ (p_c1 p) _ _ _ _ Hkap Hc2 HS Hu) as [T2 T3].
      finish_row T1 T2 T3 wrist_neg.
    - exists true, true, false. split; [|flags (back_nx1 _ _ (p_b p) _ _ (j1 q) _ _ Hb)].
      unfold row. cbv beta iota zeta. rewrite !wc_x, !wc_y, !wc_z. rewrite back_AX by exact Hb.
      pose proof (TH1_back _ _ (p_b p) _ _ (j1 q) _ _ Hb) as T1. destruct (TH23_back_down _ (p_c1 p) _ _ _ _ Hkap Hc2 HS Hd') as [T2 T3].
      finish_row T1 T2 T3 wrist_pos.
    - exists true, true, true. split; [|flags (back_nx1 _ _ (p_b p) _ _ (j1 q) _ _ Hb)].
      unfold row. cbv beta iota zeta. rewrite !wc_x, !wc_y, !wc_z. rewrite back_AX by exact Hb.
      pose proof (TH1_back _ _ (p_b p) _ _ (j1 q) _ _ Hb) as T1. destruct (TH23_back_down _ (p_c1 p) _ _ _ _ Hkap Hc2 HS Hd') as [T2 T3].
      finish_row T1 T2 T3 wrist_neg.
  Qed.
End Complete.

