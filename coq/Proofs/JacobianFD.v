(** C15: the finite-difference position column differs from the geometric column by at most the differencing step
    times the lever arm (the rotation column is exact: JacobianP.jacobian_rotation_column). *)
From Coq Require Import ZArith Reals Lra Lia List Psatz.
From VF Require Import Base.Lin Base.Angles Base.Num Model.Frame3 Proofs.Frame3P Gen.Forward Proofs.ForwardP Proofs.JacobianP.
Import ListNotations.
Open Scope R_scope.

(** * elementary bounds *)
Lemma sin_abs_le_pos x : 0 < x -> Rabs (sin x) <= x.
Proof.
  intros H. destruct (Rle_dec x 1) as [H1|H1].
  - assert (0 <= sin x) by (apply sin_ge_0; pose proof PI_RGT_0; pose proof (PI2_3_2); lra).
    rewrite Rabs_right by lra. left. apply sin_lt_x. exact H.
  - pose proof (SIN_bound x). apply Rabs_le. lra.
Qed.
Lemma sin_abs_le x : Rabs (sin x) <= Rabs x.
Proof.
  destruct (Rtotal_order 0 x) as [H|[<-|H]].
  - rewrite (Rabs_right x) by lra. apply sin_abs_le_pos. exact H.
  - rewrite sin_0. lra.
  - rewrite (Rabs_left x) by lra. rewrite <- (Rabs_Ropp (sin x)), <- sin_neg. apply sin_abs_le_pos. lra.
Qed.
Lemma fd_cos e : Rabs (cos e - 1) <= e * e / 2.
Proof.
  replace e with (2 * (e / 2)) at 1 by field. rewrite cos_2a_sin.
  replace (1 - 2 * sin (e / 2) * sin (e / 2) - 1) with (- (2 * (sin (e / 2) * sin (e / 2)))) by ring.
  rewrite Rabs_Ropp, Rabs_mult, (Rabs_right 2) by lra. rewrite Rabs_mult.
  pose proof (sin_abs_le (e / 2)) as H. pose proof (Rabs_pos (sin (e / 2))) as H0.
  assert (Rabs (e / 2) * Rabs (e / 2) = e * e / 4).
  { rewrite <- Rabs_mult. rewrite Rabs_right; [field | nra]. }
  nra.
Qed.
Lemma fd_sin_pos e : 0 <= e <= 1 -> 0 <= e - sin e <= e * e * e / 6.
Proof.
  intros [H0 H1]. split.
  - destruct H0 as [H0|<-]; [left; apply Rlt_Rminus; apply sin_lt_x; exact H0 | rewrite sin_0; lra].
  - pose proof (pre_sin_bound e 0 H0) as B. assert (H : e <= 4) by lra. specialize (B H). destruct B as [B _].
    unfold sin_approx, sin_term in B. simpl in B. lra.
Qed.
Lemma fd_sin e : Rabs e <= 1 -> Rabs (sin e - e) <= Rabs e * (e * e) / 6.
Proof.
  intros H. destruct (Rle_dec 0 e) as [Hp|Hn].
  - rewrite (Rabs_right e) in * by lra. destruct (fd_sin_pos e (conj Hp H)). rewrite Rabs_left1 by lra. lra.
  - assert (Hm : 0 <= - e <= 1) by (rewrite Rabs_left in H by lra; lra).
    destruct (fd_sin_pos (- e) Hm) as [A B]. rewrite sin_neg in A, B. rewrite (Rabs_left e) by lra. rewrite Rabs_right by lra. nra.
Qed.

(** the two coefficients of (Rz(s e) - I)/e - s K for s = +-1 *)
Lemma fd_coeffs (s e : R) : (s = 1 \/ s = -1) -> e <> 0 -> Rabs e <= 1 ->
  let al := (cos (e * s) - 1) / e in let be := sin (e * s) / e - s in
  al * al + be * be <= e * e.
Proof.
  intros Hs He H1 al be.
  assert (Hc : cos (e * s) = cos e) by (destruct Hs as [-> | ->]; [f_equal; ring | replace (e * -1) with (- e) by ring; apply cos_neg]).
  assert (Hsn : sin (e * s) = s * sin e) by (destruct Hs as [-> | ->]; [rewrite Rmult_1_r; ring | replace (e * -1) with (- e) by ring; rewrite sin_neg; ring]).
  assert (Hae : 0 < Rabs e) by (apply Rabs_pos_lt; exact He).
  assert (Ea : Rabs al <= Rabs e / 2).
  { unfold al. rewrite Hc. unfold Rdiv at 1. rewrite Rabs_mult, Rabs_inv. pose proof (fd_cos e) as F.
    assert (E2 : e * e = Rabs e * Rabs e) by (rewrite <- Rabs_mult; symmetry; apply Rabs_right; nra).
    apply (Rmult_le_reg_r (Rabs e)); [exact Hae|]. rewrite Rmult_assoc, Rinv_l by lra. lra. }
  assert (Eb : Rabs be <= Rabs e / 6).
  { unfold be. rewrite Hsn. replace (s * sin e / e - s) with (s * ((sin e - e) / e)) by (field; exact He).
    rewrite Rabs_mult. assert (Rabs s = 1) by (destruct Hs as [-> | ->]; [apply Rabs_R1 | replace (-1) with (- (1)) by ring; rewrite Rabs_Ropp; apply Rabs_R1]).
    rewrite H, Rmult_1_l. unfold Rdiv at 1. rewrite Rabs_mult, Rabs_inv. pose proof (fd_sin e H1) as F.
    assert (E2 : e * e = Rabs e * Rabs e) by (rewrite <- Rabs_mult; symmetry; apply Rabs_right; nra).
    apply (Rmult_le_reg_r (Rabs e)); [exact Hae|]. rewrite Rmult_assoc, Rinv_l by lra. nra. }
  assert (A2 : al * al <= Rabs e / 2 * (Rabs e / 2)).
  { replace (al * al) with (Rabs al * Rabs al) by (rewrite <- Rabs_mult; apply Rabs_right; nra). pose proof (Rabs_pos al). nra. }
  assert (B2 : be * be <= Rabs e / 6 * (Rabs e / 6)).
  { replace (be * be) with (Rabs be * Rabs be) by (rewrite <- Rabs_mult; apply Rabs_right; nra). pose proof (Rabs_pos be). nra. }
  assert (E2 : e * e = Rabs e * Rabs e) by (rewrite <- Rabs_mult; symmetry; apply Rabs_right; nra).
  nra.
Qed.

(** a coordinate of a rotated vector is bounded by the vector's length *)
Lemma coord_le_norm (M : M3) (v : V3) (k : nat) : proper M -> Rabs (vcoord k (mapp M v)) <= vnorm v.
Proof.
  intros HM. unfold vnorm. rewrite <- (proper_norm M v HM).
  set (u := mapp M v). destruct u as [x y z]. unfold vnorm2, vdot. cbn [vx vy vz].
  assert (Hsq : forall t r : R, 0 <= r -> t * t <= r -> Rabs t <= sqrt r).
  { intros t r Hr Ht. rewrite <- (sqrt_Rsqr_abs t). apply sqrt_le_1_alt. unfold Rsqr. exact Ht. }
  destruct k as [|[|k]]; cbn [vcoord vx vy vz]; apply Hsq; nra.
Qed.

Lemma pyth' x : sin x * sin x + cos x * cos x = 1.
Proof. pose proof (sin2_cos2 x) as H. unfold Rsqr in H. exact H. Qed.

Lemma planar_norm (al be c0 s0 wx wy wz e : R) : s0 * s0 + c0 * c0 = 1 -> al * al + be * be <= e * e ->
  let a := c0 * wx - s0 * wy in let b := s0 * wx + c0 * wy in
  vnorm (mkV3 (al * a - be * b) (be * a + al * b) 0) <= Rabs e * vnorm (mkV3 wx wy wz).
Proof.
  intros Hp Hab a b. unfold vnorm, vnorm2, vdot. cbn [vx vy vz].
  rewrite <- (sqrt_Rsqr_abs e), <- sqrt_mult_alt by apply Rle_0_sqr. apply sqrt_le_1_alt. unfold Rsqr.
  assert (E1 : (al * a - be * b) * (al * a - be * b) + (be * a + al * b) * (be * a + al * b) + 0 * 0 = (al * al + be * be) * (a * a + b * b)) by ring.
  assert (E2 : a * a + b * b = (s0 * s0 + c0 * c0) * (wx * wx + wy * wy)) by (unfold a, b; ring).
  rewrite E1, E2, Hp, Rmult_1_l.
  assert (0 <= wx * wx + wy * wy) by nra. assert (0 <= wz * wz) by nra. nra.
Qed.

Lemma vnorm_proper M v : proper M -> vnorm (mapp M v) = vnorm v.
Proof. intros H. unfold vnorm. rewrite (proper_norm M v H). reflexivity. Qed.

(** one revolute joint about z: finite difference against the geometric column *)
Lemma joint_z_fd (A : Iso) (s off : R) (ti w : V3) (k : nat) (x0 e : R) :
  proper (rot A) -> (s = 1 \/ s = -1) -> e <> 0 -> Rabs e <= 1 ->
  let g := fun x => vcoord k (iapp (icomp A (mkIso (Rotz (x * s - off)) ti)) w) in
  Rabs ((g (x0 + e) - g x0) / e -
        vcoord k (vscale s (vcross (mapp (rot A) ez)
          (vsub (iapp (icomp A (mkIso (Rotz (x0 * s - off)) ti)) w) (tr (icomp A (mkIso (Rotz (x0 * s - off)) ti))))))) <=
  Rabs e * vnorm (vsub (iapp (icomp A (mkIso (Rotz (x0 * s - off)) ti)) w) (tr (icomp A (mkIso (Rotz (x0 * s - off)) ti)))).
Proof.
  intros HA Hs He H1 g.
  assert (E : vsub (iapp (icomp A (mkIso (Rotz (x0 * s - off)) ti)) w) (tr (icomp A (mkIso (Rotz (x0 * s - off)) ti)))
              = mapp (rot A) (mapp (Rotz (x0 * s - off)) w)).
  { destruct A as [[a0 a1 a2 a3 a4 a5 a6 a7 a8] [ax ay az]], ti as [tx ty tz], w as [wx wy wz]. apply V3_eq; lin_unfold; ring. }
  rewrite E, cross_rot by exact HA. rewrite !vnorm_proper by (exact HA || apply proper_Rotz || apply proper_Roty). clear E.
  set (th := x0 * s - off).
  set (al := (cos (e * s) - 1) / e). set (be := sin (e * s) / e - s).
  destruct w as [wx wy wz].
  set (a := cos th * wx - sin th * wy). set (b := sin th * wx + cos th * wy).
  assert (Eq : (g (x0 + e) - g x0) / e - vcoord k (vscale s (mapp (rot A) (vcross ez (mapp (Rotz th) (mkV3 wx wy wz))))) =
               vcoord k (mapp (rot A) (mkV3 (al * a - be * b) (be * a + al * b) 0))).
  { unfold g. replace ((x0 + e) * s - off) with (th + e * s) by (unfold th; ring). fold th.
    unfold al, be, a, b.
    destruct A as [[a0 a1 a2 a3 a4 a5 a6 a7 a8] [ax ay az]], ti as [tx ty tz].
    destruct k as [|[|k]]; cbv [vcoord ez iapp icomp mmul mapp vadd vsub vscale vcross Rotz rot tr vx vy vz m00 m01 m02 m10 m11 m12 m20 m21 m22];
      rewrite sin_plus, cos_plus; field; exact He. }
  rewrite Eq. eapply Rle_trans; [apply coord_le_norm; exact HA|].
  apply planar_norm; [apply pyth' | apply fd_coeffs; assumption].
Qed.

Lemma planar_norm_y (al be c0 s0 wx wy wz e : R) : s0 * s0 + c0 * c0 = 1 -> al * al + be * be <= e * e ->
  let a := c0 * wz - s0 * wx in let b := s0 * wz + c0 * wx in
  vnorm (mkV3 (be * a + al * b) 0 (al * a - be * b)) <= Rabs e * vnorm (mkV3 wx wy wz).
Proof.
  intros Hp Hab a b. unfold vnorm, vnorm2, vdot. cbn [vx vy vz].
  rewrite <- (sqrt_Rsqr_abs e), <- sqrt_mult_alt by apply Rle_0_sqr. apply sqrt_le_1_alt. unfold Rsqr.
  assert (E1 : (be * a + al * b) * (be * a + al * b) + 0 * 0 + (al * a - be * b) * (al * a - be * b) = (al * al + be * be) * (a * a + b * b)) by ring.
  assert (E2 : a * a + b * b = (s0 * s0 + c0 * c0) * (wx * wx + wz * wz)) by (unfold a, b; ring).
  rewrite E1, E2, Hp, Rmult_1_l.
  assert (0 <= wx * wx + wz * wz) by nra. assert (0 <= wy * wy) by nra. nra.
Qed.

Lemma joint_y_fd (A : Iso) (s off : R) (ti w : V3) (k : nat) (x0 e : R) :
  proper (rot A) -> (s = 1 \/ s = -1) -> e <> 0 -> Rabs e <= 1 ->
  let g := fun x => vcoord k (iapp (icomp A (mkIso (Roty (x * s - off)) ti)) w) in
  Rabs ((g (x0 + e) - g x0) / e -
        vcoord k (vscale s (vcross (mapp (rot A) ey)
          (vsub (iapp (icomp A (mkIso (Roty (x0 * s - off)) ti)) w) (tr (icomp A (mkIso (Roty (x0 * s - off)) ti))))))) <=
  Rabs e * vnorm (vsub (iapp (icomp A (mkIso (Roty (x0 * s - off)) ti)) w) (tr (icomp A (mkIso (Roty (x0 * s - off)) ti)))).
Proof.
  intros HA Hs He H1 g.
  assert (E : vsub (iapp (icomp A (mkIso (Roty (x0 * s - off)) ti)) w) (tr (icomp A (mkIso (Roty (x0 * s - off)) ti)))
              = mapp (rot A) (mapp (Roty (x0 * s - off)) w)).
  { destruct A as [[a0 a1 a2 a3 a4 a5 a6 a7 a8] [ax ay az]], ti as [tx ty tz], w as [wx wy wz]. apply V3_eq; lin_unfold; ring. }
  rewrite E, cross_rot by exact HA. rewrite !vnorm_proper by (exact HA || apply proper_Rotz || apply proper_Roty). clear E.
  set (th := x0 * s - off).
  set (al := (cos (e * s) - 1) / e). set (be := sin (e * s) / e - s).
  destruct w as [wx wy wz].
  set (a := cos th * wz - sin th * wx). set (b := sin th * wz + cos th * wx).
  assert (Eq : (g (x0 + e) - g x0) / e - vcoord k (vscale s (mapp (rot A) (vcross ey (mapp (Roty th) (mkV3 wx wy wz))))) =
               vcoord k (mapp (rot A) (mkV3 (be * a + al * b) 0 (al * a - be * b)))).
  { unfold g. replace ((x0 + e) * s - off) with (th + e * s) by (unfold th; ring). fold th.
    unfold al, be, a, b.
    destruct A as [[a0 a1 a2 a3 a4 a5 a6 a7 a8] [ax ay az]], ti as [tx ty tz].
    destruct k as [|[|k]]; cbv [vcoord ey iapp icomp mmul mapp vadd vsub vscale vcross Roty rot tr vx vy vz m00 m01 m02 m10 m11 m12 m20 m21 m22];
      rewrite sin_plus, cos_plus; field; exact He. }
  rewrite Eq. eapply Rle_trans; [apply coord_le_norm; exact HA|].
  apply planar_norm_y; [apply pyth' | apply fd_coeffs; assumption].
Qed.

(** * the six joints *)
Ltac spec_all := cbv [spec_chain fk_spec L1 L2 L3 L4 L5 L6 E1 E2 E3 E4 E5 E6 qint jset6 jget j1 j2 j3 j4 j5 j6 List.nth].

(** D : the joint-level bound, stated on the generic one-joint function; turn it into the statement about [tip]/[chain] *)
Ltac finfd D FIX :=
  cbv zeta in D;
  match type of D with Rabs ((?g1 - ?g0) / _ - ?c) <= _ * vnorm ?l =>
    match goal with |- Rabs ((?h1 - ?h0) / _ - ?c') <= _ * vnorm ?l' =>
      replace h1 with g1; [ replace h0 with g0; [ replace c' with c; [ replace l' with l; [ exact D | ] | ] | ] | ]
    end
  end;
  [ apply (f_equal2 vsub); [ spec_all; rewrite ?icomp_id_l, !iapp_icomp; reflexivity | spec_all; rewrite ?icomp_id_l; reflexivity ]
  | f_equal; f_equal; apply (f_equal2 vcross);
    [ spec_all; cbn [rot icomp iid]; rewrite ?mapp_mmul; repeat rewrite FIX; rewrite ?mapp_I3; reflexivity
    | apply (f_equal2 vsub); [ spec_all; rewrite ?icomp_id_l, !iapp_icomp; reflexivity | spec_all; rewrite ?icomp_id_l; reflexivity ] ]
  | cbv beta; rewrite fwd_eq_spec; spec_all; rewrite ?icomp_id_l, !iapp_icomp; reflexivity
  | cbv beta; rewrite fwd_eq_spec; spec_all; rewrite ?icomp_id_l, !iapp_icomp; reflexivity ].

Definition sg_ok (p : Params) : Prop :=
  (p_sg1 p = 1 \/ p_sg1 p = -1)%Z /\ (p_sg2 p = 1 \/ p_sg2 p = -1)%Z /\ (p_sg3 p = 1 \/ p_sg3 p = -1)%Z /\
  (p_sg4 p = 1 \/ p_sg4 p = -1)%Z /\ (p_sg5 p = 1 \/ p_sg5 p = -1)%Z /\ (p_sg6 p = 1 \/ p_sg6 p = -1)%Z.
Lemma sgZ (z : Z) : (z = 1 \/ z = -1)%Z -> IZR z = 1 \/ IZR z = -1.
Proof. intros [-> | ->]; [left | right]; reflexivity. Qed.

(** forward-difference quotient of any coordinate of the tool point against the geometric column:
    the error is at most |step| times the lever arm (distance of the tool point from the joint's origin) *)
Theorem jacobian_fd_bound p t j (i k : nat) (e : R) : (i < 6)%nat -> sg_ok p -> e <> 0 -> Rabs e <= 1 ->
  Rabs ((vcoord k (tip p t (jset6 j i (jget j i + e))) - vcoord k (tip p t (jset6 j i (jget j i)))) / e - vcoord k (geo_col p t j i))
  <= Rabs e * vnorm (vsub (tip p t j) (tr (List.nth i (chain p j) iid))).
Proof.
  intros Hi [G1 [G2 [G3 [G4 [G5 G6]]]]] He H1. unfold geo_col, tip. cbv zeta. rewrite chain_eq_spec.
  destruct j as [a1 a2 a3 a4 a5 a6].
  set (q := qint p (mkJ6 a1 a2 a3 a4 a5 a6)).
  assert (PL1 := proper_L1 p q). assert (PL2 := proper_L2 p q). assert (PL3 := proper_L3 p q).
  assert (PL4 := proper_L4 p q). assert (PL5 := proper_L5 p q).
  destruct i as [|[|[|[|[|[|i]]]]]]; [| | | | | | exfalso; clear -Hi; lia]; cbn [jget j1 j2 j3 j4 j5 j6 local_axis sgn]; rewrite (fwd_eq_spec p (mkJ6 a1 a2 a3 a4 a5 a6)).
  - pose proof (joint_z_fd iid (IZR (p_sg1 p)) (p_off1 p) (mkV3 0 0 (p_c1 p))
      (iapp (E2 p q) (iapp (E3 p q) (iapp (E4 p q) (iapp (E5 p q) (iapp (E6 p q) t))))) k a1 e proper_iid (sgZ _ G1) He H1) as D.
    unfold q in D. finfd D Rotz_ez.
  - pose proof (joint_y_fd (L1 p q) (IZR (p_sg2 p)) (p_off2 p) (mkV3 (p_a1 p) (p_b p) 0)
      (iapp (E3 p q) (iapp (E4 p q) (iapp (E5 p q) (iapp (E6 p q) t)))) k a2 e PL1 (sgZ _ G2) He H1) as D.
    unfold q in D. finfd D Roty_ey.
  - pose proof (joint_y_fd (L2 p q) (IZR (p_sg3 p)) (p_off3 p) (mkV3 0 0 (p_c2 p))
      (iapp (E4 p q) (iapp (E5 p q) (iapp (E6 p q) t))) k a3 e PL2 (sgZ _ G3) He H1) as D.
    unfold q in D. finfd D Roty_ey.
  - pose proof (joint_z_fd (L3 p q) (IZR (p_sg4 p)) (p_off4 p) (mkV3 (p_a2 p) 0 0)
      (iapp (E5 p q) (iapp (E6 p q) t)) k a4 e PL3 (sgZ _ G4) He H1) as D.
    unfold q in D. finfd D Rotz_ez.
  - pose proof (joint_y_fd (L4 p q) (IZR (p_sg5 p)) (p_off5 p) (mkV3 0 0 (p_c3 p))
      (iapp (E6 p q) t) k a5 e PL4 (sgZ _ G5) He H1) as D.
    unfold q in D. finfd D Roty_ey.
  - pose proof (joint_z_fd (L5 p q) (IZR (p_sg6 p)) (p_off6 p) (mkV3 0 0 (p_c4 p)) t k a6 e PL5 (sgZ _ G6) He H1) as D.
    unfold q in D. finfd D Rotz_ez.
Qed.
