(** C04, concrete: on the generated kernel, non-singular previous joints that realise the pose come back first. *)
From Coq Require Import ZArith Reals Lra Lia List Bool.
From VF Require Import Base.Num Base.Lin Base.Angles Model.Constraints Model.Kin Model.Finish Gen.Forward Gen.Inverse
                       Proofs.ConstraintsP Proofs.KinP Proofs.ForwardP Proofs.FinishP Proofs.SoundP Proofs.CompleteP Proofs.CompleteK Proofs.FirstP.
Import ListNotations.
Open Scope R_scope.
Opaque ik_theta_def ik_theta ik_theta5_def ik_theta5 fwd.

Lemma is_rep_sym hp a b : is_rep hp a b -> is_rep hp b a.
Proof. intros [k ->]. exists (- k)%Z. rewrite opp_IZR. ring. Qed.
Lemma F2_rep_sym hp (l m : list R) : Forall2 (is_rep hp) l m -> Forall2 (is_rep hp) m l.
Proof. induction 1; constructor; [apply is_rep_sym; assumption | assumption]. Qed.

Section FirstK.
  Variables (p : Lin.Params) (j : J6) (thr : R).
  Variable compare : Iso -> Iso -> bool.
  Hypothesis compare_refl : forall a, compare a a = true.
  Hypothesis Hsg : (p_sg1 p = 1 \/ p_sg1 p = -1)%Z /\ (p_sg2 p = 1 \/ p_sg2 p = -1)%Z /\ (p_sg3 p = 1 \/ p_sg3 p = -1)%Z /\
                   (p_sg4 p = 1 \/ p_sg4 p = -1)%Z /\ (p_sg5 p = 1 \/ p_sg5 p = -1)%Z /\ (p_sg6 p = 1 \/ p_sg6 p = -1)%Z.
  Let q := qint p j.
  Hypothesis Hkap : 0 < p_a2 p * p_a2 p + p_c3 p * p_c3 p.
  Hypothesis Hc2 : p_c2 p <> 0.
  Hypothesis HS : 0 < aX (p_a2 p) (p_c2 p) (p_c3 p) (j2 q) (j3 q) * aX (p_a2 p) (p_c2 p) (p_c3 p) (j2 q) (j3 q) +
                      aZ (p_a2 p) (p_c2 p) (p_c3 p) (j2 q) (j3 q) * aZ (p_a2 p) (p_c2 p) (p_c3 p) (j2 q) (j3 q).
  Hypothesis Hcx1 : aX (p_a2 p) (p_c2 p) (p_c3 p) (j2 q) (j3 q) + p_a1 p <> 0.
  Hypothesis H5 : sin (j5 q) <> 0.
  Let jl : list R := [j1 j; j2 j; j3 j; j4 j; j5 j; j6 j].
  Variables (dof : BinNums.Z) (cons : option (@Constraints R)) (kernel5 : Iso -> R -> list (list R)).
  Variable shift : Iso -> nat -> Iso.
  Hypothesis shift0 : forall pose, shift pose 0%nat = pose.
  Variable fk_ok : Iso -> list R -> bool.
  Variables sgl offl : list R.

  Theorem previous_first_concrete :
    dof <> 5%Z -> weight cons = 0 -> compliant_opt PI cons jl = true -> Forall (fun x => Rabs x <= 2 * PI) jl ->
    hd_error (inverse_continuing PI thr sgl offl dof cons Iso (the_kernel p compare (ik_theta_def p)) kernel5 shift fk_ok (fwd p j) false jl) = Some jl.
  Proof.
    intros Hd Hw Hc Hr.
    destruct (inverse_complete p j compare compare_refl Hsg Hkap Hc2 HS Hcx1 H5 dof cons kernel5 Hd Hc) as [s0 [Hs0 Hrep]].
    eapply previous_first; eauto.
    - exact PI_RGT_0.
    - intros pose s Hs. eapply the_kernel_len; [|exact Hs]. intros ps rw Hrw. eapply ik_theta_def_len; exact Hrw.
    - intros pose s Hs. unfold the_kernel in Hs. apply (kernel_sound PI PI_RGT_0) in Hs. tauto.
    - apply F2_rep_sym. exact Hrep.
  Qed.
End FirstK.
