(** C04: the previous joints come back first.  Generic part over the glue model, then the concrete solver. *)
From Coq Require Import ZArith Reals Lra Lia List Bool Sorting.Sorted.
From VF Require Import Base.Num Model.Constraints Model.Kin Proofs.ConstraintsP Proofs.KinP.
Import ListNotations.
Open Scope R_scope.

Lemma calc_dist_R (a b : list R) : calculate_distance a b = fold_left Rplus (map2 (fun x y => Rabs (x - y)) a b) 0.
Proof.
  unfold calculate_distance. f_equal. revert b. induction a as [|x a IH]; intros [|y b]; cbn [map2]; try reflexivity.
  rewrite nabs_R. f_equal. apply IH.
Qed.
Lemma fold_plus_acc (l : list R) (acc : R) : fold_left Rplus l acc = acc + fold_left Rplus l 0.
Proof.
  revert acc. induction l as [|x l IH]; intros acc; cbn [fold_left]; [ring|]. rewrite (IH (acc + x)), (IH (0 + x)). ring.
Qed.
Lemma dist_nonneg : forall a b : list R, 0 <= calculate_distance a b.
Proof.
  intros a b. rewrite calc_dist_R. revert b. induction a as [|x a IH]; intros [|y b]; cbn [map2 fold_left]; try lra.
  rewrite fold_plus_acc. pose proof (Rabs_pos (x - y)). specialize (IH b). lra.
Qed.
Lemma dist_zero_eq : forall a b : list R, length a = length b -> calculate_distance a b = 0 -> a = b.
Proof.
  intros a b. rewrite calc_dist_R. revert b. induction a as [|x a IH]; intros [|y b] Hl; simpl in Hl; try discriminate; [reflexivity|].
  cbn [map2 fold_left]. rewrite fold_plus_acc. intros H.
  assert (H1 := Rabs_pos (x - y)).
  assert (H2 : 0 <= fold_left Rplus (map2 (fun x y => Rabs (x - y)) a b) 0) by (rewrite <- calc_dist_R; apply dist_nonneg).
  assert (Hx : Rabs (x - y) = 0) by lra.
  assert (Hr : fold_left Rplus (map2 (fun x y => Rabs (x - y)) a b) 0 = 0) by lra.
  f_equal.
  - destruct (Req_dec (x - y) 0) as [E|E]; [lra | apply Rabs_no_R0 in E; contradiction].
  - apply IH; [lia | exact Hr].
Qed.
Lemma dist_self (a : list R) : calculate_distance a a = 0.
Proof.
  rewrite calc_dist_R. induction a as [|x a IH]; cbn [map2 fold_left]; [reflexivity|].
  rewrite fold_plus_acc, IH, Rminus_diag_eq, Rabs_R0 by reflexivity. ring.
Qed.

Section First.
  Variable hp : R.
  Hypothesis Hhp : 0 < hp.
  Variable thr : R.
  Variables sg off : list R.
  Variable dof : Z.
  Variable cons : option (@Constraints R).
  Variable Pose : Type.
  Variable kernel : Pose -> list (list R).
  Variable kernel5 : Pose -> R -> list (list R).
  Variable shift : Pose -> nat -> Pose.
  Variable fk_ok : Pose -> list R -> bool.
  Hypothesis shift0 : forall pose, shift pose 0%nat = pose.
  Hypothesis kernel_len : forall pose s, In s (kernel pose) -> length s = 6%nat.
  (** kernel answers are normalised to [-hp, hp] (FinishP.kernel_sound) *)
  Hypothesis kernel_range : forall pose s, In s (kernel pose) -> Forall (fun x => - hp <= x <= hp) s.
  (** sorting by distance to the previous joints only (BY_PREV, or no constraints) *)
  Hypothesis Hweight : weight cons = 0.

  (** a representative of [prev]'s own class is normalised to [prev] itself *)
  Lemma normalize_near_same now prev : Rabs prev <= 2 * hp -> Rabs now <= hp -> is_rep hp prev now ->
    normalize_near hp now prev = prev.
  Proof.
    intros Hp Hn [k Hk]. destruct (normalize_near_nearest hp Hhp now prev Hp Hn) as [_ [_ Hmin]].
    specialize (Hmin k). rewrite <- Hk in Hmin. replace (prev - prev) with 0 in Hmin by ring. rewrite Rabs_R0 in Hmin.
    pose proof (Rabs_pos (normalize_near hp now prev - prev)) as H0.
    assert (E : Rabs (normalize_near hp now prev - prev) = 0) by lra.
    destruct (Req_dec (normalize_near hp now prev - prev) 0) as [E0|E0]; [lra | apply Rabs_no_R0 in E0; contradiction].
  Qed.
  Lemma normalize_row_same : forall s prev, Forall2 (is_rep hp) prev s ->
    Forall (fun x => Rabs x <= 2 * hp) prev -> Forall (fun x => - hp <= x <= hp) s ->
    map2 (normalize_near hp) s prev = prev.
  Proof.
    intros s prev H. induction H as [|pv x prev s Hx _ IH]; intros Hp Hs; [reflexivity|].
    inversion Hp; subst. inversion Hs; subst. cbn [map2]. f_equal; [|apply IH; assumption].
    apply normalize_near_same; [assumption | apply Rabs_le; lra | exact Hx].
  Qed.

  Lemma cost_prev a previous : cost cons previous a = calculate_distance a previous.
  Proof.
    unfold cost. rewrite Hweight. rsimp. unfold n0. rsimp.
    destruct (Reqb 0 0) eqn:E; [reflexivity | apply Reqb_false in E; exfalso; apply E; reflexivity].
  Qed.

  (** if the previous joints are (up to whole turns) an answer of plain [inverse], they are the FIRST continuation answer *)
  Theorem previous_first pose prev s0 :
    dof <> 5%Z -> length prev = 6%nat -> Forall (fun x => Rabs x <= 2 * hp) prev ->
    In s0 (inverse hp dof cons Pose kernel kernel5 pose) -> Forall2 (is_rep hp) prev s0 ->
    hd_error (inverse_continuing hp thr sg off dof cons Pose kernel kernel5 shift fk_ok pose false prev) = Some prev.
  Proof.
    intros Hd Hl Hp Hs0 Hrep.
    assert (Hk : In s0 (kernel pose)).
    { unfold inverse in Hs0. destruct (dof =? 5)%Z eqn:E; [apply Z.eqb_eq in E; contradiction|]. apply filter_compliant_In in Hs0. tauto. }
    assert (Hc : compliant_opt hp cons s0 = true).
    { unfold inverse in Hs0. destruct (dof =? 5)%Z eqn:E; [apply Z.eqb_eq in E; contradiction|]. apply filter_compliant_In in Hs0. tauto. }
    assert (Hnorm : map2 (normalize_near hp) s0 prev = prev) by (apply normalize_row_same; [exact Hrep | exact Hp | eapply kernel_range; exact Hk]).
    assert (Hin : In prev (inverse_continuing hp thr sg off dof cons Pose kernel kernel5 shift fk_ok pose false prev)).
    { unfold inverse_continuing. destruct (dof =? 5)%Z eqn:E; [apply Z.eqb_eq in E; contradiction|].
      apply In_finish_continuing. split.
      - exists s0. split; [apply shifts_loop_base; assumption | symmetry; exact Hnorm].
      - rewrite (compliant_opt_rep hp Hhp cons prev s0 Hrep). exact Hc. }
    pose proof (continuing_sorted hp thr sg off dof cons Pose kernel kernel5 shift fk_ok pose false prev) as Hsort. cbv zeta in Hsort.
    assert (Hall : forall a, In a (inverse_continuing hp thr sg off dof cons Pose kernel kernel5 shift fk_ok pose false prev) -> length a = 6%nat).
    { intros a Ha. unfold inverse_continuing in Ha. destruct (dof =? 5)%Z eqn:E; [apply Z.eqb_eq in E; contradiction|].
      apply In_finish_continuing in Ha. destruct Ha as [[s1 [Hs1 ->]] _].
      assert (L1 : length s1 = 6%nat) by (eapply raw_len; eauto).
      clear - L1 Hl. revert prev Hl. destruct s1 as [|a1 [|a2 [|a3 [|a4 [|a5 [|a6 [|? ?]]]]]]]; try discriminate.
      intros [|b1 [|b2 [|b3 [|b4 [|b5 [|b6 [|? ?]]]]]]]; try discriminate. reflexivity. }
    destruct (inverse_continuing hp thr sg off dof cons Pose kernel kernel5 shift fk_ok pose false prev) as [|h t] eqn:El; [destruct Hin|].
    cbn [hd_error]. f_equal.
    assert (Hh : cost cons prev h <= cost cons prev prev).
    { destruct Hin as [<-|Hin]; [lra|]. inversion Hsort as [|? ? _ Hfa]; subst. rewrite Forall_forall in Hfa. apply Hfa. exact Hin. }
    rewrite !cost_prev, dist_self in Hh. pose proof (dist_nonneg h prev).
    apply dist_zero_eq; [rewrite Hl; apply Hall; left; reflexivity | lra].
  Qed.
End First.
