(** C20: URDF extraction model — permutation / duplicate / missing-joint behaviour and recovery of generated layouts. *)
From Coq Require Import ZArith QArith List String Bool Lia Permutation.
From VF Require Import Model.Urdf.
Import ListNotations.
Open Scope string_scope.
Open Scope list_scope.

Lemma jd_eqb_refl j : jd_eqb j j = true.
Proof.
  unfold jd_eqb, q3_eqb. destruct j as [n [[x y] z] s f t]. cbn.
  rewrite String.eqb_refl, Z.eqb_refl. rewrite !(proj2 (Qeq_bool_iff _ _) (Qeq_refl _)). reflexivity.
Qed.

Lemma lookup_app m1 m2 n : lookup (m1 ++ m2) n = match lookup m1 n with Some j => Some j | None => lookup m2 n end.
Proof. induction m1 as [|j m1 IH]; [reflexivity|]. cbn [app lookup]. destruct (String.eqb (jd_name j) n); [reflexivity | exact IH]. Qed.

Lemma lookup_In m n j : lookup m n = Some j -> In j m /\ jd_name j = n.
Proof.
  induction m as [|k m IH]; cbn [lookup]; [discriminate|]. destruct (String.eqb (jd_name k) n) eqn:E.
  - intros [= <-]. apply String.eqb_eq in E. split; [left; reflexivity | exact E].
  - intros H. destruct (IH H) as [Hi Hn]. split; [right; exact Hi | exact Hn].
Qed.

Lemma lookup_None m n : lookup m n = None <-> ~ In n (map jd_name m).
Proof.
  induction m as [|k m IH]; cbn [lookup map]; [split; [intros _ [] | reflexivity]|].
  destruct (String.eqb (jd_name k) n) eqn:E.
  - apply String.eqb_eq in E. split; [discriminate | intros H; exfalso; apply H; left; exact E].
  - apply String.eqb_neq in E. rewrite IH. split; [intros H [H1|H1]; [contradiction | apply H; exact H1] | intros H H1; apply H; right; exact H1].
Qed.

(** without name clashes the map is the list itself *)
Lemma convert_nodup : forall l m, NoDup (map jd_name (m ++ l)) -> convert_to_map l m = inl (m ++ l).
Proof.
  induction l as [|j l IH]; intros m Hnd; cbn [convert_to_map]; [rewrite app_nil_r; reflexivity|].
  assert (Hn : lookup m (jd_name j) = None).
  { apply lookup_None. rewrite map_app in Hnd. apply NoDup_remove_2 in Hnd. intros Hi. apply Hnd. apply in_or_app. left. exact Hi. }
  rewrite Hn. rewrite IH; rewrite <- app_assoc; [reflexivity | exact Hnd].
Qed.

(** an identical second copy of the robot changes nothing *)
Lemma convert_absorb : forall l m, (forall j, In j l -> lookup m (jd_name j) = Some j) -> convert_to_map l m = inl m.
Proof.
  induction l as [|j l IH]; intros m H; cbn [convert_to_map]; [reflexivity|].
  rewrite (H j (or_introl eq_refl)), jd_eqb_refl. apply IH. intros k Hk. apply H. right. exact Hk.
Qed.

Lemma lookup_self_nodup : forall m j, NoDup (map jd_name m) -> In j m -> lookup m (jd_name j) = Some j.
Proof.
  induction m as [|k m IH]; intros j Hnd Hj; [destruct Hj|]. cbn [lookup]. inversion Hnd as [|? ? Hk Hnd']; subst.
  destruct Hj as [->|Hj]; [rewrite String.eqb_refl; reflexivity|].
  destruct (String.eqb (jd_name k) (jd_name j)) eqn:E; [|apply IH; assumption].
  apply String.eqb_eq in E. exfalso. apply Hk. rewrite E. apply in_map. exact Hj.
Qed.

Theorem duplicate_identical_ok l : NoDup (map jd_name l) -> convert_to_map (l ++ l) [] = convert_to_map l [].
Proof.
  intros Hnd. rewrite (convert_nodup l [] Hnd). cbn [app].
  assert (G : forall l1 l2 m, convert_to_map l1 m = inl (m ++ l1) -> convert_to_map (l1 ++ l2) m = convert_to_map l2 (m ++ l1)).
  { induction l1 as [|j l1 IH1]; intros l2 m; cbn [app convert_to_map]; [rewrite app_nil_r; reflexivity|].
    destruct (lookup m (jd_name j)) as [e|] eqn:El.
    - destruct (jd_eqb e j); [|discriminate]. intros Hc.
      (* the head was absorbed: impossible to end with m ++ j :: l1 of greater length unless ... use length *)
      exfalso. assert (Hlen : forall l m r, convert_to_map l m = inl r -> (List.length r <= List.length m + List.length l)%nat).
      { clear. induction l as [|a l IHl]; intros m r; cbn [convert_to_map]; [intros [= <-]; simpl; lia|].
        destruct (lookup m (jd_name a)); [destruct (jd_eqb _ _); [|discriminate]; intros H; apply IHl in H; simpl; lia|].
        intros H; apply IHl in H; rewrite app_length in H; simpl in *; lia. }
      apply Hlen in Hc. rewrite app_length in Hc. simpl in Hc. lia.
    - intros Hc. rewrite IH1; [rewrite <- app_assoc; reflexivity|]. rewrite Hc, <- app_assoc. reflexivity. }
  rewrite G by (apply (convert_nodup l [] Hnd)). cbn [app].
  apply convert_absorb. intros j Hj. apply lookup_self_nodup; assumption.
Qed.

(** a second joint of the same name with different data is an error *)
Theorem duplicate_conflict_err l1 j j' l2 m :
  convert_to_map l1 [] = inl m -> lookup m (jd_name j) = Some j -> jd_name j' = jd_name j -> jd_eqb j j' = false ->
  forall r, convert_to_map (j' :: l2) m <> inl r.
Proof.
  intros _ Hl Hn He r. cbn [convert_to_map]. rewrite Hn, Hl, He. discriminate.
Qed.

(** lookups, hence extraction, do not depend on the declaration order (nor on the XML nesting, which only
    changes the pre-order in which joints are met) *)
Lemma lookup_perm l l' n : NoDup (map jd_name l) -> Permutation l l' -> lookup l n = lookup l' n.
Proof.
  intros Hnd Hp. assert (Hnd' : NoDup (map jd_name l')) by (eapply Permutation_NoDup; [apply Permutation_map; exact Hp | exact Hnd]).
  destruct (lookup l n) as [j|] eqn:E.
  - apply lookup_In in E. destruct E as [Hi <-]. symmetry. apply lookup_self_nodup; [exact Hnd'|]. eapply Permutation_in; eassumption.
  - symmetry. apply lookup_None. apply lookup_None in E. intros Hi. apply E.
    eapply Permutation_in; [apply Permutation_sym; apply Permutation_map; exact Hp | exact Hi].
Qed.

Theorem populate_perm l l' names : NoDup (map jd_name l) -> Permutation l l' -> populate l names = populate l' names.
Proof.
  intros Hnd Hp. unfold populate. rewrite !(lookup_perm l l' _ Hnd Hp). reflexivity.
Qed.

Theorem extraction_order_independent simplify names t t' l l' :
  collect simplify 1000 t = inl l -> collect simplify 1000 t' = inl l' ->
  NoDup (map jd_name l) -> Permutation l l' ->
  from_tree simplify names t = from_tree simplify names t'.
Proof.
  intros Hc Hc' Hnd Hp. unfold from_tree. rewrite Hc, Hc'. cbn [bindE].
  assert (Hnd' : NoDup (map jd_name l')) by (eapply Permutation_NoDup; [apply Permutation_map; exact Hp | exact Hnd]).
  rewrite (convert_nodup l [] Hnd), (convert_nodup l' [] Hnd'). cbn [bindE app]. apply populate_perm; assumption.
Qed.

(** a missing joint is an error value *)
Theorem missing_joint_err m names k : (k < 6)%nat -> lookup m (nth k names "") = None -> exists e, populate m names = inr e.
Proof.
  intros Hk Hm. unfold populate.
  destruct k as [|[|[|[|[|[|k]]]]]]; try lia;
  repeat match goal with
  | |- context [bindE (match lookup m (nth ?i names "") with _ => _ end)] =>
      destruct (lookup m (nth i names "")) eqn:?; try congruence; cbn [bindE]
  | |- context [bindE ?x _] => destruct x eqn:?; cbn [bindE]
  | |- exists e, inr ?e0 = inr e => eexists; reflexivity
  end; try (eexists; reflexivity).
Qed.

(** * Recovery of the parameters from generated descriptions in the supported layouts *)
Record Layout := { lay_c2_x : bool;      (* c2 along x instead of z on joint 3 *)
                   lay_b_j3 : bool;      (* b given as y on joint 3 *)
                   lay_c3_j4 : bool;     (* c3 on joint 4 (with a2 as z) instead of joint 5 *)
                   lay_c3_y : bool }.    (* ... as y instead of x *)

Definition mkj (n : string) (v : Q * Q * Q) (s : Z) (f t : Q) : JointData := {| jd_name := n; jd_vec := v; jd_sign := s; jd_from := f; jd_to := t |}.

(** the specification-side generator: joint records of an OPW robot in a layout *)
Definition gen_recs (lay : Layout) (a1 a2 b c1 c2 c3 c4 : Q) (sg : list Z) (fr to : list Q) : list JointData :=
  let s k := nth k sg 1%Z in let f k := nth k fr 0 in let t k := nth k to 0 in
  [ mkj "joint1" (0, 0, c1) (s 0%nat) (f 0%nat) (t 0%nat);
    mkj "joint2" (a1, 0, 0) (s 1%nat) (f 1%nat) (t 1%nat);
    mkj "joint3" (if lay_b_j3 lay then (if lay_c2_x lay then (c2, b, 0) else (0, b, c2))
                  else (if lay_c2_x lay then (c2, 0, 0) else (0, 0, c2))) (s 2%nat) (f 2%nat) (t 2%nat);
    mkj "joint4" (if lay_c3_j4 lay then (if lay_c3_y lay then (0, c3, Qopp a2) else (c3, 0, Qopp a2)) else (0, 0, Qopp a2))
                 (s 3%nat) (f 3%nat) (t 3%nat);
    mkj "joint5" (if lay_c3_j4 lay then (0, 0, 0) else (c3, 0, 0)) (s 4%nat) (f 4%nat) (t 4%nat);
    mkj "joint6" (c4, 0, 0) (s 5%nat) (f 5%nat) (t 5%nat) ].

(** side conditions under which the heuristics of the extractor can tell the layout apart *)
Definition supported (lay : Layout) (a2 b c2 c3 : Q) : Prop :=
  (if lay_b_j3 lay then ~ b == 0 /\ ~ c2 == 0 else b == 0) /\
  (if lay_c3_j4 lay then ~ c3 == 0 /\ ~ a2 == 0 else True).

Lemma qz_true q : qz q = true <-> q == 0.
Proof. unfold qz. apply Qeq_bool_iff. Qed.
Lemma qz_false q : qz q = false <-> ~ q == 0.
Proof. unfold qz. split; [intros H E; apply Qeq_bool_iff in E; congruence | intros H; destruct (Qeq_bool q 0) eqn:E; [apply Qeq_bool_iff in E; contradiction | reflexivity]]. Qed.
Lemma qz0 : qz 0 = true. Proof. reflexivity. Qed.

(** single-component vectors *)
Lemma nz_single_z c : exists c', non_zero3 (0, 0, c) = inl c' /\ c' == c.
Proof. unfold non_zero3. cbn [filter]. rewrite qz0. cbn [negb]. destruct (qz c) eqn:E; cbn [negb]; [exists 0; split; [reflexivity | apply qz_true in E; symmetry; exact E] | exists c; split; reflexivity]. Qed.
Lemma nz_single_x c : exists c', non_zero3 (c, 0, 0) = inl c' /\ c' == c.
Proof. unfold non_zero3. cbn [filter]. rewrite qz0. cbn [negb]. destruct (qz c) eqn:E; cbn [negb]; [exists 0; split; [reflexivity | apply qz_true in E; symmetry; exact E] | exists c; split; reflexivity]. Qed.
Lemma nz_zero : non_zero3 (0, 0, 0) = inl 0.
Proof. reflexivity. Qed.
Lemma nz_multi x y z : (~ x == 0 /\ ~ y == 0) \/ (~ x == 0 /\ ~ z == 0) \/ (~ y == 0 /\ ~ z == 0) -> non_zero3 (x, y, z) = inr EMultiNonZero.
Proof.
  intros H. unfold non_zero3. cbn [filter].
  destruct (qz x) eqn:Ex, (qz y) eqn:Ey, (qz z) eqn:Ez; cbn [negb]; try reflexivity;
    exfalso; rewrite ?qz_true in *; destruct H as [[H1 H2]|[[H1 H2]|[H1 H2]]]; tauto.
Qed.

Lemma nz2_l c : ~ c == 0 -> non_zero2 c 0 = inl c.
Proof. intros H. unfold non_zero2. rewrite (proj2 (qz_false c) H), qz0. reflexivity. Qed.
Lemma nz2_r c : non_zero2 0 c = inl c.
Proof. unfold non_zero2. rewrite qz0. reflexivity. Qed.

Theorem populate_gen lay a1 a2 b c1 c2 c3 c4 sg fr to :
  List.length sg = 6%nat -> List.length fr = 6%nat -> List.length to = 6%nat -> supported lay a2 b c2 c3 ->
  exists u, populate (gen_recs lay a1 a2 b c1 c2 c3 c4 sg fr to) default_names = inl u /\
    u_a1 u == a1 /\ u_a2 u == a2 /\ u_b u == b /\ u_c1 u == c1 /\ u_c2 u == c2 /\ u_c3 u == c3 /\ u_c4 u == c4 /\
    u_sg u = sg /\ u_from u = fr /\ u_to u = to /\ u_dof u = 6%Z.
Proof.
  intros Hs Hf Ht [Hb Hc].
  destruct sg as [|s1 [|s2 [|s3 [|s4 [|s5 [|s6 [|? ?]]]]]]]; try discriminate.
  destruct fr as [|f1 [|f2 [|f3 [|f4 [|f5 [|f6 [|? ?]]]]]]]; try discriminate.
  destruct to as [|t1 [|t2 [|t3 [|t4 [|t5 [|t6 [|? ?]]]]]]]; try discriminate.
  destruct (nz_single_z c1) as [c1' [E1 Q1]]. destruct (nz_single_x a1) as [a1' [E2 Q2]]. destruct (nz_single_x c4) as [c4' [E6 Q6]].
  destruct (nz_single_z c2) as [c2z [E3z Q3z]]. destruct (nz_single_x c2) as [c2x [E3x Q3x]].
  destruct (nz_single_z (Qopp a2)) as [na2 [E4 Q4]]. destruct (nz_single_x c3) as [c3x [E5 Q5]].
  unfold populate, gen_recs, default_names. cbn [nth lookup mkj jd_name String.eqb Ascii.eqb Bool.eqb].
  cbn [bindE mkj jd_vec jd_sign jd_from jd_to]. rewrite E1. cbn [bindE]. rewrite E2. cbn [bindE].
  destruct lay as [cx bj cj cy]; cbn [lay_c2_x lay_b_j3 lay_c3_j4 lay_c3_y] in *.
  (* joint 3 *)
  assert (H3 : exists c2' b', (match non_zero3 (if bj then if cx then (c2, b, 0) else (0, b, c2) else if cx then (c2, 0, 0) else (0, 0, c2)) with
                 | inl v => inl (v, 0)
                 | inr _ => let '(x, y, z) := (if bj then if cx then (c2, b, 0) else (0, b, c2) else if cx then (c2, 0, 0) else (0, 0, c2)) in
                            bindE (non_zero2 x z) (fun c2 => inl (c2, y)) end) = inl (c2', b') /\ c2' == c2 /\ b' == b).
  { destruct bj.
    - destruct Hb as [Hb0 Hc20]. destruct cx.
      + rewrite (nz_multi c2 b 0) by (left; split; assumption). cbv beta iota. rewrite (nz2_l c2 Hc20). cbn [bindE]. exists c2, b. repeat split; reflexivity.
      + rewrite (nz_multi 0 b c2) by (right; right; split; assumption). cbv beta iota. rewrite (nz2_r c2). cbn [bindE]. exists c2, b. repeat split; reflexivity.
    - destruct cx; [rewrite E3x; exists c2x, 0 | rewrite E3z; exists c2z, 0]; (split; [reflexivity|]); (split; [assumption | symmetry; exact Hb]). }
  destruct H3 as [c2' [b' [E3 [Q3 Qb]]]]. rewrite E3. cbn [bindE].
  (* joint 4 *)
  assert (H4 : exists a2' c3p, (match non_zero3 (if cj then if cy then (0, c3, - a2) else (c3, 0, - a2) else (0, 0, - a2)) with
                 | inl v => inl (- v, 0)
                 | inr _ => let '(x, y, z) := (if cj then if cy then (0, c3, - a2) else (c3, 0, - a2) else (0, 0, - a2)) in
                            bindE (non_zero2 x y) (fun c3 => inl (- z, c3)) end) = inl (a2', c3p) /\ a2' == a2 /\
                 (if cj then c3p == c3 else c3p == 0)).
  { destruct cj.
    - destruct Hc as [Hc30 Ha20]. assert (Hna : ~ - a2 == 0) by (intros E; apply Ha20; rewrite <- (Qopp_involutive a2), E; reflexivity).
      destruct cy.
      + rewrite (nz_multi 0 c3 (- a2)) by (right; right; split; assumption). cbv beta iota. rewrite (nz2_r c3). cbn [bindE].
        exists (- - a2), c3. split; [reflexivity|]. split; [apply Qopp_involutive | reflexivity].
      + rewrite (nz_multi c3 0 (- a2)) by (right; left; split; assumption). cbv beta iota. rewrite (nz2_l c3 Hc30). cbn [bindE].
        exists (- - a2), c3. split; [reflexivity|]. split; [apply Qopp_involutive | reflexivity].
    - rewrite E4. exists (- na2), 0. split; [reflexivity|]. split; [rewrite Q4; apply Qopp_involutive | reflexivity]. }
  destruct H4 as [a2' [c3p [E4' [Qa2 Qc3p]]]]. rewrite E4'. cbn [bindE].
  (* joint 5 *)
  assert (H5 : exists c3', bindE (non_zero3 (if cj then (0, 0, 0) else (c3, 0, 0)))
                 (fun cand => bindE (if qz cand then inl (snd (a2', c3p)) else if qz (snd (a2', c3p)) then inl cand else inr EC3Twice)
                    (fun c3 => inl c3)) = inl c3' /\ c3' == c3).
  { cbn [snd]. destruct cj.
    - rewrite nz_zero. cbn [bindE]. rewrite qz0. cbn [bindE]. exists c3p. split; [reflexivity | exact Qc3p].
    - rewrite E5. cbn [bindE]. destruct (qz c3x) eqn:Ez.
      + cbn [bindE]. exists c3p. split; [reflexivity|]. apply qz_true in Ez. rewrite Qc3p, <- Q5, Ez. reflexivity.
      + assert (Ez0 : qz c3p = true) by (apply qz_true; exact Qc3p). rewrite Ez0. cbn [bindE]. exists c3x. split; [reflexivity | exact Q5]. }
  destruct H5 as [c3' [E5' Q5']].
  (* assemble *)
  destruct (non_zero3 (if cj then (0, 0, 0) else (c3, 0, 0))) as [cand|e] eqn:Ec; cbn [bindE] in E5' |- *; [|discriminate].
  destruct (if qz cand then inl (snd (a2', c3p)) else if qz (snd (a2', c3p)) then inl cand else inr EC3Twice) as [c3v|e] eqn:Ev; cbn [bindE] in E5' |- *; [|discriminate].
  injection E5' as <-. rewrite E6. cbn [bindE].
  eexists. split; [reflexivity|]. cbn [u_a1 u_a2 u_b u_c1 u_c2 u_c3 u_c4 u_sg u_from u_to u_dof fst snd map jd_sign jd_from jd_to].
  repeat split; assumption.
Qed.

(** a joint without (readable) limits becomes an unconstrained joint: from = to = 0 *)
Theorem no_limit_unconstrained simplify n o a j :
  joint_of simplify n o a None = inl j -> jd_from j == 0 /\ jd_to j == 0.
Proof.
  unfold joint_of. destruct (match o with None => _ | Some _ => _ end); [|discriminate].
  destruct (match a with None => _ | Some _ => _ end); [|discriminate].
  intros [= <-]. cbn. split; reflexivity.
Qed.
