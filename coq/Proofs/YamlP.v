(** C19: the YAML tree printed by to_yaml parses back to the same parameters. *)
From Coq Require Import ZArith QArith Qround Qabs List String Bool Lia Lqa.
From VF Require Import Model.Yaml.
Import ListNotations.
Open Scope string_scope.
Open Scope list_scope.
Open Scope Q_scope.

Definition val_of (y : Y) : option Q :=
  match as_f64 y with Some q => Some q | None => match as_i64 y with Some z => Some (inject_Z z) | None => None end end.

Lemma read_length_val params name : read_length params name = val_of (yget params name).
Proof. reflexivity. Qed.

Lemma val_of_print_len x : exists q, val_of (print_len x) = Some q /\ q == x.
Proof.
  unfold print_len, is_int. destruct (Qeq_bool x (inject_Z (Qfloor x))) eqn:E.
  - exists (inject_Z (Qfloor x)). split; [reflexivity|]. apply Qeq_bool_iff in E. symmetry. exact E.
  - exists x. split; [reflexivity | reflexivity].
Qed.

Section YamlR.
  Variable hp : Q.
  Hypothesis Hhp : 0 < hp.

  Lemma round4_close y : Qabs (round4 y - y) <= 1 # 20000.
  Proof.
    unfold round4. set (z := Qfloor (y * 10000 + (1 # 2))).
    assert (H1 : inject_Z z <= y * 10000 + (1 # 2)) by apply Qfloor_le.
    assert (H2 : y * 10000 + (1 # 2) < inject_Z (z + 1)) by apply Qlt_floor.
    rewrite inject_Z_plus in H2. change (inject_Z 1) with 1 in H2. clearbody z.
    assert (E : (z # 10000) == inject_Z z * (1 # 10000)) by (unfold Qeq, Qmult, inject_Z; simpl; lia).
    rewrite E. apply Qabs_Qle_condition. split; lra.
  Qed.

  Lemma rad_unit_pos : 0 <= hp / 180.
  Proof. unfold Qdiv. apply Qmult_le_0_compat; [lra | unfold Qle; simpl; lia]. Qed.

  Lemma rad_deg x : to_radians hp (to_degrees hp x) == x.
  Proof. unfold to_radians, to_degrees. field. lra. Qed.

  (** an offset is read back within the printed precision (0.00005 degrees) *)
  Lemma offset_roundtrip x : exists q, read_offset hp (print_off hp x) = Some q /\
    Qabs (q - x) <= to_radians hp (1 # 20000).
  Proof.
    unfold print_off. destruct (Qeq_bool x 0) eqn:E.
    - apply Qeq_bool_iff in E. exists (inject_Z 0). split; [reflexivity|].
      assert (Hz : inject_Z 0 - x == 0) by (rewrite E; reflexivity). rewrite Hz. simpl.
      unfold to_radians. apply Qmult_le_0_compat; [unfold Qle; simpl; lia | apply rad_unit_pos].
    - exists (to_radians hp (round4 (to_degrees hp x))). split; [reflexivity|].
      assert (Ex : to_radians hp (round4 (to_degrees hp x)) - x ==
                   to_radians hp (round4 (to_degrees hp x) - to_degrees hp x)).
      { unfold to_radians, to_degrees. generalize (round4 (x * (180 / hp))). intros r. field. lra. }
      rewrite Ex. unfold to_radians. rewrite Qabs_Qmult.
      assert (Hpos : 0 <= hp / 180) by apply rad_unit_pos.
      rewrite (Qabs_pos (hp / 180)) by exact Hpos.
      apply Qmult_le_compat_r; [apply round4_close | exact Hpos].
  Qed.
End YamlR.

Lemma F2_length {A B} (R : A -> B -> Prop) l m : Forall2 R l m -> List.length l = List.length m.
Proof. induction 1; simpl; congruence. Qed.

Section Roundtrip.
  Variable hp : Q.
  Hypothesis Hhp : 0 < hp.

  Lemma signs_back sg : map (fun i => match as_i64 i with Some z => z | None => 0%Z end) (map YInt sg) = sg.
  Proof. induction sg as [|z sg IH]; [reflexivity|]. simpl. f_equal. exact IH. Qed.

  Lemma read_signs_print sg : List.length sg = 6%nat -> read_signs (YArr (map YInt sg)) = inl sg.
  Proof.
    intros Hl. unfold read_signs. cbn [as_vec]. rewrite signs_back. unfold pad6. rewrite Hl. cbn [Nat.eqb]. rewrite Hl. reflexivity.
  Qed.

  Lemma read_geom_print g : List.length g = 7%nat ->
    exists g', read_geom (YMap (combine geom_keys (map print_len g))) geom_keys = inl g' /\ Forall2 Qeq g' g.
  Proof.
    intros Hl. destruct g as [|g1 [|g2 [|g3 [|g4 [|g5 [|g6 [|g7 [|? ?]]]]]]]]; try discriminate.
    destruct (val_of_print_len g1) as [q1 [E1 Q1]]. destruct (val_of_print_len g2) as [q2 [E2 Q2]].
    destruct (val_of_print_len g3) as [q3 [E3 Q3]]. destruct (val_of_print_len g4) as [q4 [E4 Q4]].
    destruct (val_of_print_len g5) as [q5 [E5 Q5]]. destruct (val_of_print_len g6) as [q6 [E6 Q6]].
    destruct (val_of_print_len g7) as [q7 [E7 Q7]].
    exists [q1; q2; q3; q4; q5; q6; q7]. split; [|repeat constructor; assumption].
    set (kv := combine geom_keys (map print_len [g1; g2; g3; g4; g5; g6; g7])).
    assert (K1 : yget (YMap kv) "a1" = print_len g1) by reflexivity.
    assert (K2 : yget (YMap kv) "a2" = print_len g2) by reflexivity.
    assert (K3 : yget (YMap kv) "b" = print_len g3) by reflexivity.
    assert (K4 : yget (YMap kv) "c1" = print_len g4) by reflexivity.
    assert (K5 : yget (YMap kv) "c2" = print_len g5) by reflexivity.
    assert (K6 : yget (YMap kv) "c3" = print_len g6) by reflexivity.
    assert (K7 : yget (YMap kv) "c4" = print_len g7) by reflexivity.
    unfold geom_keys. cbn [read_geom]. rewrite !read_length_val.
    rewrite K1, K2, K3, K4, K5, K6, K7, E1, E2, E3, E4, E5, E6, E7. reflexivity.
  Qed.

  Lemma read_offsets_print off : List.length off = 6%nat ->
    exists o, read_offsets hp (YArr (map (print_off hp) off)) = inl o /\
              Forall2 (fun a b => Qabs (a - b) <= to_radians hp (1 # 20000)) o off.
  Proof.
    intros Hl. unfold read_offsets. cbn [as_vec]. rewrite map_map.
    assert (H : exists o, all_some (map (fun x => read_offset hp (print_off hp x)) off) = Some o /\
                          Forall2 (fun a b => Qabs (a - b) <= to_radians hp (1 # 20000)) o off).
    { clear Hl. induction off as [|x off IH]; [exists []; split; [reflexivity | constructor]|].
      destruct IH as [o [Ho Fo]]. destruct (offset_roundtrip hp Hhp x) as [q [Eq Hq]].
      exists (q :: o). cbn [map all_some]. rewrite Eq, Ho. split; [reflexivity | constructor; assumption]. }
    destruct H as [o [Ho Fo]]. rewrite Ho. exists o. split; [|exact Fo].
    assert (Hlo : List.length o = 6%nat) by (rewrite (F2_length _ _ _ Fo); exact Hl).
    unfold pad6. rewrite Hlo. cbn [Nat.eqb]. rewrite Hlo. reflexivity.
  Qed.

  (** C19: a serialised parameter set parses back to the same geometry, signs and dof, offsets to the printed precision *)
  Theorem yaml_roundtrip g off sg dof :
    List.length g = 7%nat -> List.length off = 6%nat -> List.length sg = 6%nat ->
    (dof = 5 \/ dof = 6)%Z -> (dof = 5%Z -> nth 5 sg 0%Z = 0%Z) ->
    exists p', from_docs hp [to_yaml_tree hp {| y_geom := g; y_off := off; y_sg := sg; y_dof := dof |}] = YOk p' /\
      Forall2 Qeq (y_geom p') g /\ y_sg p' = sg /\ y_dof p' = dof /\
      Forall2 (fun a b => Qabs (a - b) <= to_radians hp (1 # 20000)) (y_off p') off.
  Proof.
    intros Hg Ho Hs Hd H5.
    destruct (read_geom_print g Hg) as [g' [Eg Fg]]. destruct (read_offsets_print off Ho) as [o' [Eo Fo]].
    set (doc := to_yaml_tree hp {| y_geom := g; y_off := off; y_sg := sg; y_dof := dof |}).
    assert (P1 : yget doc "opw_kinematics_geometric_parameters" = YMap (combine geom_keys (map print_len g))) by reflexivity.
    assert (P2 : yget doc "opw_kinematics_joint_offsets" = YArr (map (print_off hp) off)) by reflexivity.
    assert (P3 : yget doc "opw_kinematics_joint_sign_corrections" = YArr (map YInt sg)) by reflexivity.
    assert (P4 : yget doc "dof" = YInt dof) by reflexivity.
    assert (P5 : yget (YMap (combine geom_keys (map print_len g))) "dof" = YBad).
    { destruct g as [|g1 [|g2 [|g3 [|g4 [|g5 [|g6 [|g7 [|? ?]]]]]]]]; try discriminate. reflexivity. }
    set (sg' := if (dof =? 5)%Z then set_nth6 sg 0%Z else sg).
    assert (Hsg : sg' = sg).
    { unfold sg'. destruct (dof =? 5)%Z eqn:E; [|reflexivity]. apply Z.eqb_eq in E. specialize (H5 E).
      destruct sg as [|s1 [|s2 [|s3 [|s4 [|s5 [|s6 [|? ?]]]]]]]; try discriminate. cbn in H5. subst s6. reflexivity. }
    exists {| y_geom := g'; y_off := o'; y_sg := sg'; y_dof := dof |}.
    split; [|cbn [y_geom y_sg y_dof y_off]; repeat split; assumption].
    unfold from_docs. fold doc. rewrite P1, P5, P4, P3, P2. cbn [as_i64].
    rewrite (read_signs_print sg Hs), Eg, Eo. reflexivity.
  Qed.

  (** never a panic: the reader is a total function; an empty document list is an error value *)
  Theorem empty_is_error : from_docs hp [] = YErrR EParse.
  Proof. reflexivity. Qed.

  (** syntax variants: integers vs reals, deg(..) vs radians, 5 vs 6 entries, dof in either place *)
  Theorem int_or_real z : read_length (YMap [("a1", YInt z)]) "a1" = Some (inject_Z z) /\
                          read_length (YMap [("a1", YReal (inject_Z z))]) "a1" = Some (inject_Z z).
  Proof. split; reflexivity. Qed.
  Theorem deg_or_radians d : read_offset hp (YStr (SDeg d)) = Some (to_radians hp d) /\
                             read_offset hp (YReal (to_radians hp d)) = Some (to_radians hp d).
  Proof. split; reflexivity. Qed.
  Theorem five_entries_padded (l : list Z) : List.length l = 5%nat -> read_signs (YArr (map YInt l)) = inl (l ++ [0%Z]).
  Proof.
    intros Hl. unfold read_signs. cbn [as_vec]. rewrite signs_back. unfold pad6. rewrite Hl. cbn [Nat.eqb].
    rewrite app_length, Hl. reflexivity.
  Qed.
  Theorem dof_either_place (rest : list (string * Y)) d :
    let nested := YMap [("opw_kinematics_geometric_parameters", YMap (("dof", YInt d) :: rest))] in
    let top := YMap [("opw_kinematics_geometric_parameters", YMap []); ("dof", YInt d)] in
    as_i64 (yget (yget nested "opw_kinematics_geometric_parameters") "dof") = Some d /\
    as_i64 (yget (yget top "opw_kinematics_geometric_parameters") "dof") = None /\ as_i64 (yget top "dof") = Some d.
  Proof. repeat split; reflexivity. Qed.
End Roundtrip.
