(** C20: the name simplifier maps every decorated joint name of the supported decoration schemes to "jointN". *)
From Coq Require Import List String Ascii Bool.
From VF Require Import Model.JointName.
Import ListNotations.
Open Scope string_scope.

Definition prefixes : list string := [""; "${prefix}"; "${robot_name}_"; "robot_"; "my.arm-"; "Left_"; "${a}${b}"; "fanuc_m10ia_"; "r2_"].
Definition stems : list string := ["joint"; "joint_"; "JOINT_"; "Joint-"; "joint."; "JOINT"; "joint_a"; "joint__"].
Definition digits : list string := ["1"; "2"; "3"; "4"; "5"; "6"].
Definition suffixes : list string := [""; "!"; "_"; "-"].

Definition decorated : list (string * string) :=
  flat_map (fun p => flat_map (fun s => flat_map (fun d => map (fun x => (p ++ s ++ d ++ x, "joint" ++ d)) suffixes) digits) stems) prefixes.

(** the finite family (9 x 8 x 6 x 4 = 1728 names; trailing letters are not stripped by the simplifier and are not in the family) is checked exhaustively by computation *)
Theorem simplify_decorated : forallb (fun nd => String.eqb (preprocess_joint_name (fst nd)) (snd nd)) decorated = true.
Proof. vm_compute. reflexivity. Qed.

Corollary simplify_decorated_each nm want : In (nm, want) decorated -> preprocess_joint_name nm = want.
Proof.
  intros H. pose proof simplify_decorated as F. rewrite forallb_forall in F. specialize (F _ H). apply String.eqb_eq in F. exact F.
Qed.
