(** C01 / C02: the finishing glue of inverse_intern. *)
From Coq Require Import ZArith Reals Lra Lia List Bool.
From VF Require Import Base.Num Base.Lin Model.Kin Model.Finish Proofs.KinP.
Import ListNotations.
Open Scope R_scope.

(** * the finishing glue *)
Section FinishR.
  Variable hp : R.
  Hypothesis Hhp : 0 < hp.
  Let P := 2 * hp.

  Lemma nceil_spec (z : R) : z <= IZR (nceil (T:=R) z) < z + 1.
  Proof.
    unfold nceil. rsimp. destruct (Rfloor_spec (- z)) as [F1 F2]. rewrite opp_IZR. lra.
  Qed.

  (** the two normalisation loops bring every angle into [-hp, hp] by whole turns *)
  Lemma wrap_pi_range x : - hp <= wrap_pi hp x <= hp.
  Proof.
    unfold wrap_pi, n2. rsimp. fold P. assert (HP : 0 < P) by (unfold P; lra).
    destruct (Rltb hp x) eqn:E1; [apply Rltb_true in E1|apply Rltb_false in E1].
    - destruct (nceil_spec ((x - hp) / P)) as [C1 C2]. set (n := IZR (nceil ((x - hp) / P))) in *.
      assert (A : (x - hp) / P * P = x - hp) by (field; lra).
      assert (B1 : (x - hp) / P * P <= n * P) by (apply Rmult_le_compat_r; lra).
      assert (B2 : n * P < ((x - hp) / P + 1) * P) by (apply Rmult_lt_compat_r; lra).
      unfold P in *. lra.
    - destruct (Rltb x (- hp)) eqn:E2; [apply Rltb_true in E2|apply Rltb_false in E2; lra].
      destruct (nceil_spec ((- hp - x) / P)) as [C1 C2]. set (n := IZR (nceil ((- hp - x) / P))) in *.
      assert (A : (- hp - x) / P * P = - hp - x) by (field; lra).
      assert (B1 : (- hp - x) / P * P <= n * P) by (apply Rmult_le_compat_r; lra).
      assert (B2 : n * P < ((- hp - x) / P + 1) * P) by (apply Rmult_lt_compat_r; lra).
      unfold P in *. lra.
  Qed.

  Lemma wrap_pi_rep x : is_rep hp (wrap_pi hp x) x.
  Proof.
    unfold wrap_pi, is_rep, n2. rsimp.
    destruct (Rltb hp x); [exists (Z.opp (nceil (T:=R) ((x - hp) / (2 * hp))%R)); rewrite opp_IZR; ring|].
    destruct (Rltb x (- hp)); [exists (nceil (T:=R) ((- hp - x) / (2 * hp))%R); ring | exists 0%Z; simpl; ring].
  Qed.

  Variables sg off : list R.
  Variable fk_ok : list R -> bool.

  Lemma finish_In table s :
    In s (finish hp sg off fk_ok table) <-> exists row, In row table /\ ext_row hp sg off row = Some s /\ fk_ok s = true.
  Proof.
    induction table as [|row rest IH]; cbn [finish]; [split; [intros [] | intros [r [[] _]]]|].
    destruct (ext_row hp sg off row) as [s'|] eqn:E.
    - destruct (fk_ok s') eqn:F.
      + simpl. rewrite IH. split.
        * intros [<-|[r [Hr H]]]; [exists row; split; [left; reflexivity | split; assumption] | exists r; split; [right; exact Hr | exact H]].
        * intros [r [[<-|Hr] [H1 H2]]]; [left; congruence | right; exists r; split; [exact Hr | split; assumption]].
      + rewrite IH. split.
        * intros [r [Hr H]]. exists r. split; [right; exact Hr | exact H].
        * intros [r [[<-|Hr] [H1 H2]]]; [congruence | exists r; split; [exact Hr | split; assumption]].
    - rewrite IH. split.
      + intros [r [Hr H]]. exists r. split; [right; exact Hr | exact H].
      + intros [r [[<-|Hr] [H1 H2]]]; [congruence | exists r; split; [exact Hr | split; assumption]].
  Qed.

  (** C01 kernel contract: every row returned by the kernel passed the FK cross-check and is normalised *)
  Theorem kernel_sound table s : In s (finish hp sg off fk_ok table) ->
    fk_ok s = true /\ Forall (fun x => - hp <= x <= hp) s.
  Proof.
    intros Hs. apply finish_In in Hs. destruct Hs as [row [_ [He Hf]]]. split; [exact Hf|].
    unfold ext_row in He. destruct (forallb snd row); [|discriminate]. injection He as <-.
    apply Forall_forall. intros x Hx. apply in_map_iff in Hx. destruct Hx as [y [<- _]]. apply wrap_pi_range.
  Qed.
End FinishR.
