#!/bin/sh
# Build the framework offline: Coq development (full .vo), harness against /repo's working tree.
set -e
cd /verif
export CARGO_NET_OFFLINE=true
python3 run/translate.py all 2>/dev/null || true
cd /verif/coq && coq_makefile -f _CoqProject -o Makefile && timeout 3000 make -j16
cd /verif/harness && cp -n /repo/Cargo.lock Cargo.lock 2>/dev/null || true
cargo build --release --offline
